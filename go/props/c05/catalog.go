package main

import (
	"fmt"
	"strings"
	"time"
)

// Case is one fault-injection program or template.
type Case struct {
	Name string
	Tmpl bool
	Src  string
	Vars map[string]any // template globals (pointers: variables)
	// Documented says that the property allows a host panic for this case (Fatal, invalid
	// template variable values, a Go run-time error inside embedder-supplied native code);
	// the oracle then asserts that it does panic.
	Documented string
	// Fault says that the case must make the virtual machine recover at least one panic
	// (it counts as non-trivial only then).
	Fault bool
	// RunVars are passed to Template.Run.
	RunVars map[string]any
	// Extra are further template files (imported or extended).
	Extra map[string]string
	// Timeout, if not zero, is the deadline of the context given to Run.
	Timeout time.Duration
}

func prog(body string, decls ...string) string {
	return "package main\n" + strings.Join(decls, "\n") + "\nfunc main() {\n" + body + "\n}\n"
}

var intTypes = []string{"int", "int8", "int16", "int32", "int64", "uint", "uint8", "uint16", "uint32", "uint64", "uintptr"}

// Catalog returns the fixed fault-injection programs: every run-time fault of the language
// at every operation that can raise it.
func Catalog() []Case {
	var cs []Case
	add := func(name, src string) { cs = append(cs, Case{Name: name, Src: src, Fault: !strings.HasSuffix(name, "-fine")}) }
	// integer division by zero at every width, / and %, registers, constants, closures (indirect registers)
	for _, t := range intTypes {
		add("div-"+t, prog(fmt.Sprintf("var a, b %s = 7, 0\nprintln(a / b)", t)))
		add("rem-"+t, prog(fmt.Sprintf("var a, b %s = 7, 0\nprintln(a %% b)", t)))
		add("divassign-"+t, prog(fmt.Sprintf("var a, b %s = 7, 0\na /= b\nprintln(a)", t)))
		add("remassign-"+t, prog(fmt.Sprintf("var a, b %s = 7, 0\na %%= b\nprintln(a)", t)))
		add("div-closure-"+t, prog(fmt.Sprintf("var a, b %s = 7, 0\nf := func() { b = 0 }\nf()\nprintln(a / b)", t)))
		add("rem-closure-"+t, prog(fmt.Sprintf("var a, b %s = 7, 0\nf := func() { a = 1 }\nf()\nprintln(a %% b)", t)))
		add("div-global-"+t, prog("println(ga / gb)", fmt.Sprintf("var ga, gb %s = 7, 0", t)))
	}
	add("div-const-num", prog("b := 0\nprintln(7 / b)"))
	add("rem-const-num", prog("b := 0\nprintln(7 % b)"))
	add("div-minint-fine", prog("a, b := -9223372036854775807-1, -1\nprintln(a / b, a % b)"))
	add("div-float-fine", prog("a, b := 1.0, 0.0\nprintln(a / b)"))
	// nil map write
	for _, kv := range [][3]string{{"string", "int", `m["a"] = 1`}, {"string", "string", `m["a"] = "b"`}, {"string", "bool", `m["a"] = true`},
		{"string", "interface{}", `m["a"] = 1`}, {"string", "struct{}", `m["a"] = struct{}{}`}, {"int", "int", `m[1] = 1`},
		{"int", "bool", `m[1] = true`}, {"int", "string", `m[1] = "a"`}, {"int", "struct{}", `m[1] = struct{}{}`},
		{"float64", "int", `m[1.5] = 1`}, {"interface{}", "int", `m[1] = 1`}, {"string", "[]int", `m["a"] = nil`}} {
		add("nilmap-"+kv[0]+"-"+kv[1], prog(fmt.Sprintf("var m map[%s]%s\n%s", kv[0], kv[1], kv[2])))
	}
	add("nilmap-const", prog("var m map[string]int\nconst k = \"a\"\nm[k] = 5"))
	add("nilmap-inc", prog("var m map[string]int\nm[\"a\"]++"))
	add("nilmap-read-fine", prog("var m map[string]int\nprintln(m[\"a\"], len(m))"))
	add("nilmap-delete-fine", prog("var m map[string]int\ndelete(m, \"a\")"))
	// unhashable keys, uncomparable operands
	add("unhashable-set", prog("m := map[interface{}]int{}\nm[[]int{1}] = 1"))
	add("unhashable-get", prog("m := map[interface{}]int{}\nprintln(m[[]int{1}])"))
	add("unhashable-getok", prog("m := map[interface{}]int{}\n_, ok := m[[]int{1}]\nprintln(ok)"))
	add("unhashable-delete", prog("m := map[interface{}]int{}\ndelete(m, []int{1})"))
	add("unhashable-delete-nil", prog("var m map[interface{}]int\ndelete(m, []int{1})"))
	add("unhashable-lit", prog("var k interface{} = []int{1}\nm := map[interface{}]int{k: 1}\nprintln(len(m))"))
	add("unhashable-func-key", prog("m := map[interface{}]int{}\nm[func() {}] = 1"))
	add("unhashable-map-key", prog("m := map[interface{}]int{}\nprintln(m[map[int]int{}])"))
	add("unhashable-struct-key", prog("type K struct{ a interface{} }\nm := map[K]int{}\nm[K{[]int{1}}] = 1"))
	add("uncomparable-eq", prog("var a, b interface{} = []int{1}, []int{1}\nprintln(a == b)"))
	add("uncomparable-neq", prog("var a, b interface{} = map[int]int{}, map[int]int{}\nprintln(a != b)"))
	add("uncomparable-struct", prog("type T struct{ s []int }\nvar a, b interface{} = T{}, T{}\nprintln(a == b)"))
	add("uncomparable-switch", prog("var a interface{} = []int{1}\nswitch a {\ncase a:\nprintln(1)\n}"))
	add("uncomparable-array", prog("var a, b interface{} = [1]interface{}{[]int{1}}, [1]interface{}{[]int{1}}\nprintln(a == b)"))
	add("uncomparable-func-fine", prog("var a, b interface{} = func() {}, func() {}\nprintln(a == b)"))
	add("comparable-mixed-fine", prog("var a, b interface{} = []int{1}, 1\nprintln(a == b)"))
	// nil pointers
	add("nilptr-field", prog("type T struct{ a int }\nvar p *T\nprintln(p.a)"))
	add("nilptr-field-set", prog("type T struct{ a int }\nvar p *T\np.a = 1"))
	add("nilptr-field-addr", prog("type T struct{ a int }\nvar p *T\nq := &p.a\nprintln(q)"))
	add("nilptr-field-string", prog("type T struct{ s string }\nvar p *T\nprintln(p.s)"))
	add("nilptr-field-nested", prog("type A struct{ x int }\ntype B struct{ a *A }\nb := &B{}\nprintln(b.a.x)"))
	add("nilptr-embedded", prog("type A struct{ x int }\ntype B struct{ *A }\nvar b B\nprintln(b.x)"))
	for _, t := range []string{"int", "string", "float64", "bool", "[]int", "interface{}", "uint8", "map[string]int"} {
		zero := map[string]string{"int": "1", "string": `"a"`, "float64": "1.5", "bool": "true", "[]int": "nil", "interface{}": "1", "uint8": "1", "map[string]int": "nil"}[t]
		add("nilptr-deref-"+t, prog(fmt.Sprintf("var p *%s\nv := *p\n_ = v", t)))
		add("nilptr-deref-set-"+t, prog(fmt.Sprintf("var p *%s\n*p = %s", t, zero)))
	}
	add("nilptr-deref-bool-cond", prog("var p *bool\nif *p { println(1) }"))
	add("nilptr-deref-struct", prog("type T struct{ a int }\nvar p *T\nv := *p\nprintln(v.a)"))
	add("nilptr-deref-inc", prog("var p *int\n*p++"))
	add("nilptr-deref-opassign", prog("var p *int\n*p += 2"))
	add("nilptr-index-array", prog("var p *[3]int\nprintln(p[1])"))
	add("nilptr-index-array-set", prog("var p *[3]int\np[1] = 2"))
	add("nilptr-slice-array", prog("var p *[3]int\ns := p[:]\nprintln(len(s))"))
	add("nilptr-range-array", prog("var p *[3]int\nfor _, v := range p { println(v) }"))
	add("nilptr-range-array-index-fine", prog("var p *[3]int\nfor i := range p { println(i) }"))
	add("nilptr-len-array-fine", prog("var p *[3]int\nprintln(len(p))"))
	add("nilfunc-call", prog("var f func()\nf()"))
	add("nilfunc-call-args", prog("var f func(int) int\nprintln(f(1))"))
	add("nilfunc-defer", prog("var f func()\ndefer f()"))
	add("nilfunc-global", prog("g()", "var g func()"))
	add("nil-error-method", prog("var e error\nprintln(e.Error())"))
	// index out of range
	for _, t := range [][3]string{{"int", "[]int{1, 2}", "1"}, {"string", `[]string{"a"}`, `"b"`}, {"any", "[]interface{}{1}", "2"}, {"bool", "[]bool{true}", "false"},
		{"float", "[]float64{1}", "2"}, {"byte", "[]byte{1}", "2"}, {"rune", "[]rune{1}", "2"}, {"struct", "[]struct{ a int }{{1}}", "struct{ a int }{2}"}, {"slice", "[][]int{{1}}", "nil"}} {
		for _, idx := range [][2]string{{"reg", "i := 5"}, {"neg", "i := -1"}, {"edge", "i := len(s)"}} {
			add("index-slice-"+t[0]+"-"+idx[0], prog(fmt.Sprintf("s := %s\n%s\nv := s[i]\n_ = v", t[1], idx[1])))
			add("setslice-"+t[0]+"-"+idx[0], prog(fmt.Sprintf("s := %s\n%s\ns[i] = %s", t[1], idx[1], t[2])))
		}
		add("index-slice-"+t[0]+"-const", prog(fmt.Sprintf("s := %s\nv := s[5]\n_ = v", t[1])))
		add("setslice-"+t[0]+"-const", prog(fmt.Sprintf("s := %s\ns[5] = %s", t[1], t[2])))
	}
	add("index-array-reg", prog("a := [2]int{1, 2}\ni := 5\nprintln(a[i])"))
	add("index-array-neg", prog("a := [2]int{1, 2}\ni := -1\nprintln(a[i])"))
	add("index-array-addr", prog("a := [2]int{1, 2}\ni := 5\np := &a[i]\nprintln(p)"))
	add("index-slice-addr", prog("a := []int{1, 2}\ni := 5\np := &a[i]\nprintln(p)"))
	add("index-arrayptr-reg", prog("a := &[2]int{1, 2}\ni := 5\nprintln(a[i])"))
	add("setarray-reg", prog("var a [2]int\ni := 5\na[i] = 1\nprintln(a[0])"))
	add("setarray-string", prog("var a [2]string\ni := 2\na[i] = \"x\""))
	add("setslice-inc", prog("s := []int{1}\ni := 5\ns[i]++"))
	add("setslice-opassign", prog("s := []int{1}\ni := 5\ns[i] += 3"))
	add("index-nested", prog("s := [][]int{{1}}\ni := 3\nprintln(s[0][i])"))
	add("index-string-reg", prog("s := \"ab\"\ni := 5\nprintln(s[i])"))
	add("index-string-const", prog("s := \"ab\"\nprintln(s[5])"))
	add("index-string-neg", prog("s := \"ab\"\ni := -1\nprintln(s[i])"))
	add("index-string-edge", prog("s := \"ab\"\ni := 2\nprintln(s[i])"))
	add("index-string-empty", prog("s := \"\"\ni := 0\nprintln(s[i])"))
	add("index-nil-slice", prog("var s []int\ni := 0\nprintln(s[i])"))
	// slice bounds
	add("slice-slice-high", prog("s := []int{1, 2}\nj := 5\nprintln(len(s[:j]))"))
	add("slice-slice-low", prog("s := []int{1, 2}\ni := 3\nprintln(len(s[i:]))"))
	add("slice-slice-inv", prog("s := []int{1, 2, 3}\ni, j := 2, 1\nprintln(len(s[i:j]))"))
	add("slice-slice-neg", prog("s := []int{1, 2, 3}\ni := -1\nprintln(len(s[i:]))"))
	add("slice-slice-3", prog("s := []int{1, 2, 3}\nk := 9\nprintln(len(s[0:1:k]))"))
	add("slice-slice-3inv", prog("s := []int{1, 2, 3}\nj, k := 3, 2\nprintln(len(s[0:j:k]))"))
	add("slice-slice-cap-fine", prog("s := make([]int, 1, 4)\nj := 3\nprintln(len(s[:j]))"))
	add("slice-array", prog("a := [3]int{1, 2, 3}\nj := 5\nprintln(len(a[:j]))"))
	add("slice-arrayptr", prog("a := &[3]int{1, 2, 3}\nj := 5\nprintln(len(a[:j]))"))
	add("slice-string-high", prog("s := \"abc\"\nj := 5\nprintln(s[:j])"))
	add("slice-string-low", prog("s := \"abc\"\ni := 5\nprintln(s[i:])"))
	add("slice-string-inv", prog("s := \"abc\"\ni, j := 2, 1\nprintln(s[i:j])"))
	add("slice-string-neg", prog("s := \"abc\"\ni := -2\nprintln(s[i:])"))
	add("slice-string-const", prog("s := \"abc\"\nprintln(s[:7])"))
	add("slice-nil", prog("var s []int\nj := 1\nprintln(len(s[:j]))"))
	// type assertions
	add("assert-concrete", prog("var i interface{} = 1\nprintln(i.(string))"))
	add("assert-nil", prog("var i interface{}\nprintln(i.(string))"))
	add("assert-defined", prog("type T int\nvar i interface{} = 1\nprintln(i.(T))"))
	add("assert-defined2", prog("type T int\nvar i interface{} = T(1)\nprintln(i.(int))"))
	add("assert-error", prog("var i interface{} = 1\ne := i.(error)\nprintln(e)"))
	add("assert-error-nil", prog("var i interface{}\ne := i.(error)\nprintln(e)"))
	add("assert-slice", prog("var i interface{} = []int{1}\nprintln(len(i.([]string)))"))
	add("assert-func", prog("var i interface{} = 1\ni.(func())()"))
	add("assert-ok-fine", prog("var i interface{} = 1\n_, ok := i.(string)\nprintln(ok)"))
	add("assert-switch-fine", prog("var i interface{} = 1\nswitch i.(type) {\ncase string:\nprintln(1)\n}"))
	// channels
	add("close-nil", prog("var ch chan int\nclose(ch)"))
	add("close-closed", prog("ch := make(chan int)\nclose(ch)\nclose(ch)"))
	add("send-closed", prog("ch := make(chan int, 1)\nclose(ch)\nch <- 1"))
	add("send-closed-string", prog("ch := make(chan string, 1)\nclose(ch)\nch <- \"a\""))
	add("send-closed-any", prog("ch := make(chan interface{}, 1)\nclose(ch)\nch <- nil"))
	add("send-closed-select", prog("ch := make(chan int, 1)\nclose(ch)\nselect {\ncase ch <- 1:\ndefault:\n}"))
	add("send-closed-select2", prog("ch, c2 := make(chan int, 1), make(chan int)\nclose(ch)\nselect {\ncase ch <- 1:\ncase v := <-c2:\nprintln(v)\n}"))
	add("recv-closed-fine", prog("ch := make(chan int, 1)\nclose(ch)\nv, ok := <-ch\nprintln(v, ok)"))
	add("select-nil-fine", prog("var ch chan int\nselect {\ncase v := <-ch:\nprintln(v)\ndefault:\nprintln(\"d\")\n}"))
	add("rangechan-fine", prog("ch := make(chan int, 1)\nch <- 1\nclose(ch)\nfor v := range ch { println(v) }"))
	// make with bad sizes
	add("makeslice-neglen", prog("n := -1\ns := make([]int, n)\nprintln(len(s))"))
	add("makeslice-negcap", prog("n := -1\ns := make([]int, 0, n)\nprintln(len(s))"))
	add("makeslice-lencap", prog("n, m := 5, 2\ns := make([]int, n, m)\nprintln(len(s))"))
	add("makeslice-huge", prog("n := 1 << 62\ns := make([]int, n)\nprintln(len(s))"))
	add("makeslice-hugecap", prog("n := 1 << 62\ns := make([]int, 0, n)\nprintln(len(s))"))
	add("makeslice-string", prog("n := -1\ns := make([]string, n)\nprintln(len(s))"))
	add("makeslice-constlen", prog("n := -1\ns := make([]int, 2, n)\nprintln(len(s))"))
	add("makechan-neg", prog("n := -1\nch := make(chan int, n)\nprintln(len(ch))"))
	add("makechan-neg-recvonly", prog("n := -1\nch := make(<-chan int, n)\nprintln(len(ch))"))
	add("makechan-huge", prog("n := 1 << 62\nch := make(chan int, n)\nprintln(len(ch))"))
	add("makemap-neg-fine", prog("n := -1\nm := make(map[int]int, n)\nprintln(len(m))"))
	// conversions
	add("conv-slice-arrayptr", prog("s := []int{1, 2}\na := (*[3]int)(s)\nprintln(a[0])"))
	add("conv-slice-arrayptr-fine", prog("s := []int{1, 2, 3}\na := (*[3]int)(s)\nprintln(a[0])"))
	add("conv-nil-slice-arrayptr", prog("var s []int\na := (*[1]int)(s)\nprintln(a)"))
	// append / copy
	add("append-fine", prog("var s []int\ns = append(s, 1, 2, 3)\ns = append(s, s...)\nprintln(len(s))"))
	add("copy-fine", prog("a, b := []int{1}, []int{2, 3}\nprintln(copy(a, b))"))
	// the panic builtin with every kind of value
	add("panic-string", prog("panic(\"P\")"))
	add("panic-int", prog("panic(42)"))
	add("panic-error-nil", prog("panic(error(nil))"))
	add("panic-nil", prog("panic(nil)"))
	add("panic-struct", prog("type T struct{ a int }\npanic(T{1})"))
	add("panic-ptr", prog("type T struct{ a int }\npanic(&T{1})"))
	add("panic-float", prog("panic(1.5)"))
	add("panic-complex", prog("panic(1 + 2i)"))
	add("panic-slice", prog("panic([]int{1})"))
	add("panic-map", prog("panic(map[string]int{\"a\": 1})"))
	add("panic-func", prog("panic(func() {})"))
	add("panic-chan", prog("panic(make(chan int))"))
	add("panic-defined", prog("type T string\npanic(T(\"x\"))"))
	add("panic-bool", prog("panic(true)"))
	add("panic-uint8", prog("panic(uint8(200))"))
	add("panic-repanic-runtime", prog("defer func() { panic(recover()) }()\nvar m map[int]int\nm[1] = 1"))
	add("panic-repanic-value", prog("defer func() { panic(recover()) }()\npanic(7)"))
	// defer / recover / panic combinations
	add("defer-recover", prog("defer func() { println(recover()) }()\npanic(\"P\")"))
	add("defer-recover-runtime", prog("defer func() { println(recover()) }()\nvar p *int\nprintln(*p)"))
	add("defer-repanic", prog("defer func() { panic(\"Q\") }()\npanic(\"P\")"))
	add("defer-repanic-recover", prog("defer func() { println(recover()) }()\ndefer func() { panic(\"Q\") }()\npanic(\"P\")"))
	add("defer-runtime-in-deferred", prog("defer func() { var m map[int]int; m[1] = 1 }()\npanic(\"P\")"))
	add("defer-println-panic", prog("defer println(\"d\")\npanic(\"P\")"))
	add("defer-print-panic", prog("defer print(\"d\")\npanic(\"P\")"))
	add("defer-println-div", prog("defer println(\"d\")\na, b := 1, 0\nprintln(a / b)"))
	add("defer-println-nested", prog("f()\nprintln(\"after\")", "func f() { defer println(\"d\"); panic(\"P\") }"))
	add("defer-println-recovered", prog("defer func() { println(recover()) }()\nf()", "func f() { defer println(\"d\"); panic(\"P\") }"))
	add("defer-println-twice", prog("defer println(\"a\")\ndefer println(\"b\")\npanic(\"P\")"))
	add("defer-println-mixed", prog("defer println(\"a\")\ndefer func() { println(\"b\") }()\ndefer println(\"c\")\npanic(\"P\")"))
	add("defer-panic-builtin", prog("defer panic(\"Q\")"))
	add("defer-panic-builtin-nested", prog("defer func() { println(recover()) }()\nf()", "func f() { defer panic(\"Q\") }"))
	add("defer-panic-builtin-panicking", prog("defer panic(\"Q\")\npanic(\"P\")"))
	add("defer-panic-builtin-recovered", prog("defer func() { println(recover()) }()\ndefer panic(\"Q\")\npanic(\"P\")"))
	add("defer-panic-builtin-twice", prog("defer panic(\"R\")\ndefer panic(\"Q\")\npanic(\"P\")"))
	add("defer-close-fine", prog("ch := make(chan int)\ndefer close(ch)"))
	add("defer-delete-fine", prog("m := map[int]int{1: 1}\ndefer delete(m, 1)"))
	add("defer-copy-fine", prog("a, b := []int{1}, []int{2}\ndefer copy(a, b)"))
	add("defer-close-panicking", prog("ch := make(chan int)\ndefer close(ch)\npanic(\"P\")"))
	add("defer-recover-builtin", prog("defer recover()\npanic(\"P\")"))
	add("defer-recover-builtin-nested", prog("f()\nprintln(\"after\")", "func f() { defer recover(); panic(\"P\") }"))
	add("defer-closure-args", prog("for i := 0; i < 3; i++ { defer func(a int, s string, f float64) { println(a, s, f) }(i, \"x\", 1.5) }\npanic(\"P\")"))
	add("defer-many-panic", prog("for i := 0; i < 600; i++ { defer func(a int) {}(i) }\npanic(\"P\")"))
	add("defer-named-result", prog("println(f())", "func f() (r int) { defer func() { recover(); r = 5 }(); var m map[int]int; m[1] = 1; return 1 }"))
	add("defer-native-named-result", prog("fs := []func(){func() { panic(4) }}\nprintln(f(fs))",
		"func f(fs []func()) (r int) { a, b, c := 1, 2, 3; defer func() { recover(); r = a + b + c }(); fs[0](); return 1 }"))
	add("recover-nopanic-fine", prog("println(recover())"))
	add("recover-nested-fine", prog("defer func() { func() { println(recover()) }() }()\ndefer func() { recover() }()\npanic(\"P\")"))
	add("panic-in-goroutine-fine", prog("done := make(chan bool)\ngo func() { defer func() { recover(); done <- true }(); panic(\"G\") }()\n<-done"))
	// function values stored in variables and containers (called through reflect.MakeFunc)
	add("funcvalue-global", prog("defer func() { recover() }()\ng()", "var g = func() { panic(4) }"))
	add("funcvalue-global-runtime", prog("println(g(1, 0))", "var g = func(a, b int) int { return a / b }"))
	add("funcvalue-slice", prog("defer func() { recover() }()\nfs := []func(){func() { panic(4) }}\nfs[0]()"))
	add("funcvalue-field", prog("type T struct{ f func() }\nt := T{f: func() { panic(4) }}\nt.f()"))
	add("funcvalue-map", prog("m := map[string]func(){\"a\": func() { panic(4) }}\nm[\"a\"]()"))
	add("funcvalue-iface", prog("var i interface{} = func() { panic(4) }\ni.(func())()"))
	add("funcvalue-chan", prog("ch := make(chan func(), 1)\nch <- func() { panic(4) }\n(<-ch)()"))
	add("funcvalue-nested", prog("fs := []func(){func() { gs := []func(){func() { var p *int; *p = 1 }}; gs[0]() }}\nfs[0]()"))
	add("funcvalue-args", prog("fs := []func(int, string, float64, []int) int{func(a int, s string, f float64, l []int) int { return l[a] }}\nprintln(fs[0](3, \"x\", 1.5, []int{1}))"))
	// go statements
	add("go-nilfunc", prog("var f func()\ngo f()"))
	add("go-fine", prog("done := make(chan int)\ngo func(a int, s string) { done <- a + len(s) }(1, \"ab\")\nprintln(<-done)"))
	add("go-func-fine", prog("go g(1, 2.5, \"x\", nil)\n<-done", "var done = make(chan bool)", "func g(a int, f float64, s string, l []int) { done <- true }"))
	// shifts (no fault in Scriggo today; C01 row 12)
	add("shift-neg-fine", prog("s := -1\nprintln(1 << s)"))
	// native functions: values they panic with are the program's panics
	add("native-panic-value", prog("x.PanicValue()", `import "x"`))
	add("native-panic-error", prog("x.PanicError()", `import "x"`))
	add("native-panic-string", prog("x.PanicString()", `import "x"`))
	add("native-panic-recovered", prog("defer func() { println(recover()) }()\nx.PanicValue()", `import "x"`))
	add("native-panic-deferred", prog("defer x.PanicValue()", `import "x"`))
	add("native-panic-deferred-panicking", prog("defer x.PanicValue()\npanic(\"P\")", `import "x"`))
	add("native-panic-indirect", prog("f := x.PanicValue\nf()", `import "x"`))
	add("native-panic-go-fine", prog("x.Ok(1)", `import "x"`))
	add("native-stop", prog("x.Stop()\nprintln(\"not reached\")", `import "x"`))
	add("native-stop-deferred", prog("defer x.Stop()\npanic(\"P\")", `import "x"`))
	cs = append(cs, Case{Name: "native-fatal", Src: prog("defer func() { recover() }()\nx.Fatal()", `import "x"`), Documented: "Fatal", Fault: true})
	cs = append(cs, Case{Name: "native-fatal-deferred", Src: prog("defer x.Fatal()\npanic(\"P\")", `import "x"`), Documented: "Fatal", Fault: true})
	cs = append(cs, Case{Name: "native-runtime-error", Src: prog("defer func() { recover() }()\nx.NilMapWrite()", `import "x"`), Documented: "a Go run-time error inside an embedder-supplied native function", Fault: true})
	return cs
}

func tmpl(name, src string, vars map[string]any) Case {
	return Case{Name: name, Tmpl: true, Src: src, Vars: vars, Fault: !strings.HasSuffix(name, "-fine")}
}

type unshowable struct{ A int }

// TemplateCatalog returns the fixed templates: renderer URL sequences, unshowable dynamic
// types in every context, run-time faults inside templates and macros.
func TemplateCatalog() []Case {
	var cs []Case
	sp := func(s string) *string { return &s }
	cs = append(cs, tmpl("url-empty-after-query-fine", `<a href="{{ a }}{{ b }}">`, map[string]any{"a": sp("x?y"), "b": sp("")}))
	cs = append(cs, tmpl("url-amp-fine", `<a href="{{ a }}&{{ b }}={{ c }}">`, map[string]any{"a": sp("x?y=1"), "b": sp("k&"), "c": sp("")}))
	cs = append(cs, tmpl("url-qmark-text-fine", `<a href="{{ a }}?b={{ b }}">`, map[string]any{"a": sp("x?"), "b": sp("#&=")}))
	cs = append(cs, tmpl("url-srcset-fine", `<img srcset="{{ a }} 1x, {{ b }} 2x">`, map[string]any{"a": sp("x?y"), "b": sp("")}))
	cs = append(cs, tmpl("url-unquoted-fine", `<a href={{ a }}{{ b }}>`, map[string]any{"a": sp("x?y"), "b": sp("")}))
	var i interface{} = unshowable{1}
	for _, c := range [][2]string{{"html", `{{ v }}`}, {"attr", `<a title="{{ v }}">`}, {"attr-unquoted", `<a title={{ v }}>`}, {"url", `<a href="{{ v }}">`},
		{"url-query", `<a href="x?a={{ v }}">`}, {"tag", `<a {{ v }}>`}, {"js-fine", `<script>var a = {{ v }};</script>`}, {"jsstring", `<script>var a = "{{ v }}";</script>`},
		{"css", `<style>a { color: {{ v }}; }</style>`}, {"cssstring", `<style>a { font: "{{ v }}"; }</style>`}, {"json-fine", `<script type="application/json">{{ v }}</script>`}} {
		cs = append(cs, tmpl("unshowable-"+c[0], c[1], map[string]any{"v": &i}))
	}
	var f interface{} = func() {}
	cs = append(cs, tmpl("unshowable-func", `{{ v }}`, map[string]any{"v": &f}))
	var ch interface{} = make(chan int)
	cs = append(cs, tmpl("unshowable-chan", `{{ v }}`, map[string]any{"v": &ch}))
	cs = append(cs, tmpl("unshowable-chan-js-fine", `<script>var a = {{ v }};</script>`, map[string]any{"v": &ch}))
	var nilv interface{}
	cs = append(cs, tmpl("nil-cssstring-fine", `<style>a { font: "{{ v }}"; }</style>`, map[string]any{"v": &nilv}))
	cs = append(cs, tmpl("nil-every-context-fine", `{{ v }}<a title="{{ v }}" href="{{ v }}" {{ v }}><script>{{ v }};"{{ v }}"</script><style>a{b:{{ v }};c:"{{ v }}"}</style>`, map[string]any{"v": &nilv}))
	cs = append(cs, tmpl("tmpl-div", `{% a, b := 1, 0 %}{{ a / b }}`, nil))
	cs = append(cs, tmpl("tmpl-index", `{% s := []int{1} %}{% i := 4 %}{{ s[i] }}`, nil))
	cs = append(cs, tmpl("tmpl-macro-div", `{% macro M(a, b int) %}{{ a / b }}{% end %}{{ M(1, 0) }}`, nil))
	cs = append(cs, tmpl("tmpl-macro-string-div", `{% macro M(a, b int) %}{{ a / b }}{% end %}{% var s string = string(M(1, 0)) %}{{ s }}`, nil))
	cs = append(cs, tmpl("tmpl-contains-unhashable", `{% var k interface{} = []int{1} %}{% m := map[interface{}]int{} %}{% if m contains k %}x{% end %}`, nil))
	cs = append(cs, tmpl("tmpl-not-contains-unhashable", `{% var k interface{} = []int{1} %}{% m := map[interface{}]int{} %}{% if m not contains k %}x{% end %}`, nil))
	cs = append(cs, tmpl("tmpl-contains-uncomparable", `{% var k interface{} = []int{1} %}{% s := []interface{}{[]int{1}} %}{% if s contains k %}x{% end %}`, nil))
	cs = append(cs, tmpl("tmpl-default-fine", `{{ x default 3 }}`, nil))
	cs = append(cs, tmpl("tmpl-nilptr", `{% var p *int %}{{ *p }}`, nil))
	cs = append(cs, tmpl("tmpl-assert", `{% var i interface{} = 1 %}{{ i.(string) }}`, nil))
	cs = append(cs, tmpl("tmpl-panic-fine", `{% defer func() { recover() }() %}{% panic("x") %}`, nil))
	// a defer inside a function literal or a macro, followed by text or a show: the renderer
	// must be the caller's again when the deferred call has returned
	cs = append(cs, tmpl("tmpl-funclit-defer-text-fine", `{% func() { defer func() {}() }() %}x`, nil))
	cs = append(cs, tmpl("tmpl-funclit-defer-show-fine", `{% func() { defer func() {}() }() %}{{ 1 + 2 }}`, nil))
	cs = append(cs, tmpl("tmpl-funclit-defer-native-fine", `{% func() { defer println("d") }() %}x`, nil))
	cs = append(cs, tmpl("tmpl-funclit-defer-recover", `{% func() { defer func() { recover() }(); panic(1) }() %}x{{ 2 }}`, nil))
	cs = append(cs, tmpl("tmpl-funclit-defer-two-fine", `a{% func() { defer func() {}(); defer func(a int) {}(1) }() %}b{% func() { defer func() {}() }() %}c`, nil))
	cs = append(cs, tmpl("tmpl-macro-funclit-defer-fine", `{% macro M %}a{% func() { defer func() {}() }() %}b{% end %}{{ M() }}c`, nil))
	cs = append(cs, tmpl("tmpl-macro-funclit-defer-recover", `{% macro M %}a{% func() { defer func() { recover() }(); panic(1) }() %}b{% end %}{{ M() }}c{{ M() }}`, nil))
	cs = append(cs, tmpl("tmpl-macro-defer-fine", `{% macro M %}a{% defer func() {}() %}b{% end %}{{ M() }}c`, nil))
	cs = append(cs, tmpl("tmpl-macro-defer-string-fine", `{% macro M %}a{% defer func() {}() %}b{% end %}{% var s string = string(M()) %}[{{ s }}]c`, nil))
	cs = append(cs, tmpl("tmpl-defer-text-fine", `a{% defer func() {}() %}x`, nil))
	cs = append(cs, tmpl("tmpl-funclit-defer-panic", `{% func() { defer func() {}(); var m map[int]int; m[1] = 1 }() %}x`, nil))
	// documented: invalid template variable values passed to Run
	x := 0
	cs = append(cs, Case{Name: "run-var-nil", Tmpl: true, Src: `{{ x }}`, Vars: map[string]any{"x": (*int)(nil)}, RunVars: map[string]any{"x": nil}, Documented: "invalid template variable value"})
	cs = append(cs, Case{Name: "run-var-badtype", Tmpl: true, Src: `{{ x }}`, Vars: map[string]any{"x": (*int)(nil)}, RunVars: map[string]any{"x": "s"}, Documented: "invalid template variable value"})
	cs = append(cs, Case{Name: "run-var-nilptr", Tmpl: true, Src: `{{ x }}`, Vars: map[string]any{"x": (*int)(nil)}, RunVars: map[string]any{"x": (*int)(nil)}, Documented: "invalid template variable value"})
	cs = append(cs, Case{Name: "run-var-initialized", Tmpl: true, Src: `{{ x }}`, Vars: map[string]any{"x": &x}, RunVars: map[string]any{"x": 3}, Documented: "invalid template variable value"})
	cs = append(cs, Case{Name: "run-var-fine", Tmpl: true, Src: `{{ x }}`, Vars: map[string]any{"x": (*int)(nil)}, RunVars: map[string]any{"x": 3}})
	return cs
}

// regTypes are the four register types with a Go type, a value and an expression that uses it.
var regTypes = []struct{ name, typ, val string }{
	{"int", "int", "1"}, {"float", "float64", "1.5"}, {"string", "string", `"s"`}, {"general", "[]int", "nil"},
}

// RecursionProgram returns `f(depth, args…)` with k extra parameters of register type t,
// recursing depth times, optionally doing something at the bottom.
func RecursionProgram(t, k, depth int, bottom string, decls string) string {
	params, args := "", ""
	for i := 0; i < k; i++ {
		params += fmt.Sprintf(", a%d %s", i, regTypes[t].typ)
		args += fmt.Sprintf(", a%d", i)
	}
	call := ""
	for i := 0; i < k; i++ {
		call += ", " + regTypes[t].val
	}
	return fmt.Sprintf(`package main
%s
func f(n int%s) int {
	if n == 0 {
		%s
		return 0
	}
	return f(n-1%s) + 1
}
func main() { println(f(%d%s)) }
`, decls, params, bottom, args, depth, call)
}
