package main

import (
	"fmt"
	"strings"

	hook "github.com/open2b/scriggo/verifhook/c05"

	"verifharness/internal/hx"
)

// Boundary families: for every way a function can be entered (each a separate growth-guard
// site in Gen/GrowthGuards) and every register class, recursive programs whose per-frame
// register count of that class takes every value of a range, deep enough to cross the stack
// sizes, so that for some member the callee's last register lands exactly on the top of the
// stack (fp + NumReg == len: the case a `>` guard misses). Every function calls the native
// x.Probe at entry; during the traced run the hook reports, from the real VM, how the
// function was entered and fp + NumReg against the stack length, so the distance to the
// boundary at every growth step is measured and reported in the histogram.

var probes []hook.ProbeData

func recordProbe() {
	if p := hook.Probe(); p.OK {
		probes = append(probes, p)
	}
}

type classSpec struct {
	name, init, use string // init: initial value of a local from n; use: an int expression of the local
}

var classes = []classSpec{
	{"int", "n", "%s"},
	{"float", "float64(n)", "int(%s)"},
	{"string", `"s"`, "len(%s)"},
	{"general", "[]int{n}", "len(%s)"},
}

// locals returns the declaration of e live locals of class c and an int expression using them.
func locals(c classSpec, e int) (decl, use string) {
	var names, inits, uses []string
	for i := 0; i < e; i++ {
		v := fmt.Sprintf("v%d", i)
		names = append(names, v)
		inits = append(inits, c.init)
		uses = append(uses, fmt.Sprintf(c.use, v))
	}
	return strings.Join(names, ", ") + " := " + strings.Join(inits, ", "), strings.Join(uses, " + ")
}

type kindSpec struct {
	name string
	tmpl bool
	gen  func(c classSpec, e, depth int) string
}

var kinds = []kindSpec{
	{"direct call", false, func(c classSpec, e, d int) string {
		decl, use := locals(c, e)
		return fmt.Sprintf("package main\nimport \"x\"\nfunc f(n int) int {\n\t%s\n\tx.Probe()\n\tif n == 0 {\n\t\treturn 0\n\t}\n\tr := f(n - 1)\n\treturn r + %s\n}\nfunc main() { println(f(%d)) }\n", decl, use, d)
	}},
	{"call in tail position", false, func(c classSpec, e, d int) string {
		decl, use := locals(c, e)
		return fmt.Sprintf("package main\nimport \"x\"\nfunc f(n, acc int) int {\n\t%s\n\tx.Probe()\n\tif n == 0 {\n\t\treturn acc\n\t}\n\treturn f(n-1, acc+%s)\n}\nfunc main() { println(f(%d, 0)) }\n", decl, use, d)
	}},
	{"local func value", false, func(c classSpec, e, d int) string {
		decl, use := locals(c, e)
		return fmt.Sprintf("package main\nimport \"x\"\nfunc f(n int) int {\n\t%s\n\tx.Probe()\n\tif n == 0 {\n\t\treturn 0\n\t}\n\tnext := f\n\tr := next(n - 1)\n\treturn r + %s\n}\nfunc main() { println(f(%d)) }\n", decl, use, d)
	}},
	{"closure variable", false, func(c classSpec, e, d int) string {
		decl, use := locals(c, e)
		return fmt.Sprintf("package main\nimport \"x\"\nfunc main() {\n\tvar g func(int) int\n\tg = func(n int) int {\n\t\t%s\n\t\tx.Probe()\n\t\tif n == 0 {\n\t\t\treturn 0\n\t\t}\n\t\tr := g(n - 1)\n\t\treturn r + %s\n\t}\n\tprintln(g(%d))\n}\n", decl, use, d)
	}},
	{"func parameter", false, func(c classSpec, e, d int) string {
		decl, use := locals(c, e)
		return fmt.Sprintf("package main\nimport \"x\"\nfunc f(h interface{}, n int) int {\n\t%s\n\tx.Probe()\n\tif n == 0 {\n\t\treturn 0\n\t}\n\tr := h.(func(interface{}, int) int)(h, n-1)\n\treturn r + %s\n}\nfunc main() { println(f(f, %d)) }\n", decl, use, d)
	}},
	{"deferred call", false, func(c classSpec, e, d int) string {
		decl, use := locals(c, e)
		return fmt.Sprintf("package main\nimport \"x\"\nvar total int\nfunc f(n int) {\n\t%s\n\tx.Probe()\n\tif n == 0 {\n\t\treturn\n\t}\n\tdefer f(n - 1)\n\ttotal += %s\n}\nfunc main() { f(%d); println(total) }\n", decl, use, d)
	}},
	{"deferred closure", false, func(c classSpec, e, d int) string {
		decl, use := locals(c, e)
		return fmt.Sprintf("package main\nimport \"x\"\nvar total int\nfunc f(n int) {\n\t%s\n\tx.Probe()\n\tif n == 0 {\n\t\treturn\n\t}\n\tdefer func(m int) { f(m) }(n - 1)\n\ttotal += %s\n}\nfunc main() { f(%d); println(total) }\n", decl, use, d)
	}},
	{"defer statement in a loop", false, func(c classSpec, e, d int) string {
		// OpDefer moves the running frame up by the number of argument registers
		decl, use := locals(c, e)
		var params, args []string
		typ := map[string]string{"int": "int", "float": "float64", "string": "string", "general": "[]int"}[c.name]
		for i := 0; i < 1+e%3; i++ {
			params = append(params, fmt.Sprintf("p%d %s", i, typ))
			args = append(args, c.init)
		}
		return fmt.Sprintf("package main\nimport \"x\"\nfunc main() {\n\tn := 1\n\t_ = n\n\t%s\n\tfor i := 0; i < %d; i++ {\n\t\tdefer func(%s) {}(%s)\n\t\tx.Probe()\n\t}\n\tprintln(%s)\n}\n", decl, d, strings.Join(params, ", "), strings.Join(args, ", "), use)
	}},
	{"go statement at depth", false, func(c classSpec, e, d int) string {
		decl, use := locals(c, e)
		return fmt.Sprintf("package main\nimport \"x\"\nfunc g(a int, b float64, c string, d []int) {}\nfunc f(n int) int {\n\t%s\n\tx.Probe()\n\tif n == 0 {\n\t\tgo g(1, 2.5, \"x\", nil)\n\t\treturn 0\n\t}\n\tr := f(n - 1)\n\treturn r + %s\n}\nfunc main() { println(f(%d)) }\n", decl, use, d)
	}},
	{"imported macro call", true, func(c classSpec, e, d int) string {
		decl, use := locals(c, e)
		return fmt.Sprintf("{%% import \"m.html\" %%}{{ M(%d) }}\x00{%% macro M(n int) %%}{%% %s %%}{%% probe() %%}{%% if n > 0 %%}{{ M(n - 1) }}{%% end %%}{{ %s }}{%% end %%}", d, decl, use)
	}},
	{"macro call", true, func(c classSpec, e, d int) string {
		decl, use := locals(c, e)
		return fmt.Sprintf("{%% macro M(n int) %%}{%% %s %%}{%% probe() %%}{%% if n > 0 %%}{{ M(n - 1) }}{%% end %%}{{ %s }}{%% end %%}{{ M(%d) }}", decl, use, d)
	}},
	{"macro value", true, func(c classSpec, e, d int) string {
		decl, use := locals(c, e)
		return fmt.Sprintf("{%% macro M(n int) %%}{%% %s %%}{%% probe() %%}{%% if n > 0 %%}{%% mm := M %%}{{ mm(n - 1) }}{%% end %%}{{ %s }}{%% end %%}{{ M(%d) }}", decl, use, d)
	}},
}

var className = []string{"int", "float", "string", "general"}

type boundaryStat struct {
	growths, exact, minDist int
}

func boundaryCases(c *hx.Ctx) error {
	stats := map[string]*boundaryStat{}
	beyond := 0 // go statements executed with fp+127 beyond the end of a stack
	maxExtra := c.N(14, 24)
	// total registers to cross: the first two stack sizes (quick), the first three (thorough)
	span := c.N(1150, 2300)
	for _, kind := range kinds {
		for _, cl := range classes {
			for e := 1; e <= maxExtra; e++ {
				depth := span/e + 12
				if kind.name == "defer statement in a loop" {
					depth = span/(1+e%3) + 12
				}
				if depth > 1300 {
					depth = 1300
				}
				src := kind.gen(cl, e, depth)
				probes = probes[:0]
				name := fmt.Sprintf("boundary %s %s e%d d%d", kind.name, cl.name, e, depth)
				cs := Case{Name: name, Src: src, Tmpl: kind.tmpl}
				if i := strings.IndexByte(src, 0); i >= 0 { // index.html NUL m.html
					cs.Src, cs.Extra = src[:i], map[string]string{"m.html": src[i+1:]}
				}
				if kind.tmpl {
					cs.Vars = map[string]any{"probe": func() { recordProbe() }}
				}
				checkCase(c, cs)
				c.Res.Hist("boundary-family " + kind.name)
				// growth steps seen by the probes of the traced run
				prev := [4]uint32{512, 512, 512, 512}
				for _, p := range probes {
					for k := 0; k < 4; k++ {
						if p.St[k] > prev[k] {
							if p.Lhs[k] >= prev[k] { // this frame made the stack grow
								site := p.Site
								if kind.name == "defer statement in a loop" {
									site = "OpDefer"
								}
								key := site + " " + className[k]
								st := stats[key]
								if st == nil {
									st = &boundaryStat{minDist: 1 << 30}
									stats[key] = st
								}
								st.growths++
								d := int(p.Lhs[k] - prev[k])
								if d == 0 {
									st.exact++
								}
								if d < st.minDist {
									st.minDist = d
								}
							}
							prev[k] = p.St[k]
						}
					}
				}
				if kind.name == "go statement at depth" && len(probes) > 0 {
					last := probes[len(probes)-1]
					for k := 0; k < 4; k++ {
						if last.Fp[k]+127 > last.St[k] {
							beyond++
						}
					}
				}
			}
		}
	}
	for key, st := range stats {
		c.Res.Histogram["boundary growth-steps: "+key] = st.growths
		c.Res.Histogram["boundary exactly-at-top (fp+NumReg == len): "+key] = st.exact
		c.Res.Histogram["boundary min-distance (fp+NumReg - len): "+key] = st.minDist
		if st.exact == 0 {
			c.Res.Notes = appendNote(c.Res.Notes, "boundary fp+NumReg == len not reached exactly for "+key)
		}
	}
	c.Res.Histogram["boundary go-statement with fp+127 beyond a stack"] = beyond
	return nil
}
