package main

import (
	"fmt"
	"os"
	"strings"
	"time"

	"verifharness/internal/hx"
	"verifharness/internal/proto"
)

// Family "faults inside callbacks": every kind of run-time fault × the place where it happens —
// at top level, in a callee, in a deferred function, and inside a Scriggo function that NATIVE
// code calls back (a nested virtual machine: callable.Value's wrapper re-panics the message of
// the inner *PanicError in the native caller, and the outer virtual machine classifies it again at
// OpCallNative) in all its variants — × where it is recovered {nowhere, in the function that
// faults, in the interpreted caller} × {program, template}. Oracle: C05 (no host panic; a
// *PanicError or nil), and the record (marks after a recover, hits) of the analogous Go function
// run by real gc with the batch of the callables family. In Lean: Props/C05.lean §1b
// (nested_not_fatal_partial over the regenerated panicMsg).

type faultKind struct {
	name, stmt string
}

func nestedFaults() []faultKind {
	var fs []faultKind
	add := func(name, stmt string) { fs = append(fs, faultKind{name, stmt}) }
	// index faults, stores and loads, on the slice types with a typed fast path and on the others
	for _, t := range [][3]string{{"int", "[]int", "1"}, {"byte", "[]byte", "1"}, {"rune", "[]rune", "1"}, {"float64", "[]float64", "1.5"},
		{"string", "[]string", `"a"`}, {"any", "[]interface{}", "nil"}, {"bool", "[]bool", "true"}, {"int16", "[]int16", "1"},
		{"slice", "[][]int", "nil"}, {"struct", "[]struct{ A int }", "struct{ A int }{1}"}, {"func", "[]func()", "nil"}} {
		add("store-"+t[0], fmt.Sprintf("s := %s{%s}\ni := 3\ns[i] = %s", t[1], t[2], t[2]))
		add("store-const-"+t[0], fmt.Sprintf("s := %s{%s}\ns[5] = %s", t[1], t[2], t[2]))
		add("load-"+t[0], fmt.Sprintf("s := %s{%s}\ni := 3\nv := s[i]\n_ = v", t[1], t[2]))
	}
	add("store-neg", "s := []int{1}\ni := -1\ns[i] = 1")
	add("store-op-assign", "s := []int{1}\ni := 3\ns[i] += 2")
	add("store-inc", "s := []string{\"a\"}\ni := 3\ns[i] += \"b\"")
	add("store-nil-slice", "var s []int\ni := 0\ns[i] = 1")
	add("store-array", "var a [2]int\ni := 3\na[i] = 1")
	add("store-array-pointer", "a := &[2]int{}\ni := 3\na[i] = 1")
	add("load-array", "a := [2]int{1, 2}\ni := 3\n_ = a[i]")
	add("load-string-index", "s := \"ab\"\ni := 3\n_ = s[i]")
	add("addr-element", "s := []int{1}\ni := 3\np := &s[i]\n_ = p")
	add("slice-high", "s := []int{1}\ni := 3\n_ = s[:i]")
	add("slice-string", "s := \"ab\"\ni := 3\n_ = s[i:]")
	add("slice-3", "s := []int{1}\ni := 3\n_ = s[0:1:i]")
	add("nil-map-write", "var m map[string]int\nm[\"a\"] = 1")
	add("unhashable-key", "m := map[interface{}]int{}\nm[[]int{1}] = 1")
	add("nil-deref", "var p *int\n*p = 1")
	add("nil-deref-load", "var p *int\n_ = *p")
	add("nil-field", "var p *struct{ A int }\np.A = 1")
	add("nil-func", "var f func()\nf()")
	add("div-zero", "a, b := 1, 0\n_ = a / b")
	add("rem-zero", "a, b := int8(1), int8(0)\n_ = a % b")
	add("assertion", "var a interface{} = 1\n_ = a.(string)")
	add("assertion-nil", "var a interface{}\n_ = a.(int)")
	add("close-closed", "ch := make(chan int)\nclose(ch)\nclose(ch)")
	add("close-nil", "var ch chan int\nclose(ch)")
	add("send-closed", "ch := make(chan int, 1)\nclose(ch)\nch <- 1")
	add("convert-array", "s := []int{1}\n_ = (*[2]int)(s)")
	add("make-negative", "n := -1\n_ = make([]int, n)")
	add("make-chan-negative", "n := -1\n_ = make(chan int, n)")
	add("panic-string", "panic(\"P\")")
	add("panic-int", "panic(42)")
	add("panic-struct", "panic(struct{ A int }{1})")
	add("panic-nil", "panic(nil)")
	add("panic-runtime-error", "defer func() { panic(recover()) }()\nvar m map[string]int\nm[\"a\"] = 1")
	add("native-panic-value", "x.PanicValue()")
	add("native-panic-string", "x.PanicStr()")
	return fs
}

type nestedPlace struct {
	name string
	// wrap puts the statements of the faulting function's body in their place; callback says that
	// native code stands between the fault and the interpreted caller
	wrap     func(body string) string
	callback bool
}

func lit(body string) string { return "func() {\n" + body + "\n}" }

func nestedPlaces() []nestedPlace {
	return []nestedPlace{
		{"top", func(b string) string { return b }, false},
		{"callee", func(b string) string { return lit(b) + "()" }, false},
		// a function value read back from a Go value is called through callable.Value's wrapper: a nested virtual machine
		{"callee-value", func(b string) string { return "fs := []func(){" + lit(b) + "}\nfs[0]()" }, true},
		{"deferred", func(b string) string { return "func() {\ndefer " + lit(b) + "()\n}()" }, false},
		{"callback", func(b string) string { return "x.ApplyA(" + lit(b) + ")" }, true},
		{"callback-local", func(b string) string { return "cb := " + lit(b) + "\nx.ApplyA(cb)" }, true},
		{"callback-env-native", func(b string) string { return "x.NatEnvF(" + lit(b) + ")" }, true},
		{"callback-variadic", func(b string) string { return "x.ApplyAll(" + lit(b) + ")" }, true},
		{"callback-interface", func(b string) string { return "x.Apply(" + lit(b) + ")" }, true},
		{"callback-result", func(b string) string { return "x.Res(x.ApplyB(func(str string) int {\n" + b + "\nreturn len(str)\n}))" }, true},
		{"callback-deferred-native", func(b string) string { return "func() {\ndefer x.ApplyA(" + lit(b) + ")\n}()" }, true},
		{"callback-deferred-native-panicking", func(b string) string {
			return "func() {\ndefer func() { recover() }()\ndefer x.ApplyA(" + lit(b) + ")\npanic(\"outer\")\n}()"
		}, true},
		{"callback-in-callback", func(b string) string { return "x.ApplyA(func() {\nx.ApplyA(" + lit(b) + ")\n})" }, true},
		{"callback-method", func(b string) string { return "ct := x.CT{N: 1}\nct.Call(" + lit(b) + ")" }, true},
		{"callback-method-value", func(b string) string { return "ct := x.CT{N: 1}\ncall := ct.Call\ncall(" + lit(b) + ")" }, true},
		{"callback-native-value", func(b string) string { return "apply := x.ApplyA\napply(" + lit(b) + ")" }, true},
		{"callback-stored", func(b string) string { return "x.FVarA = " + lit(b) + "\nx.CallFVarA()" }, true},
		{"callback-returned", func(b string) string { return "cb := x.IdA(" + lit(b) + ")\ncb()" }, true},
		{"callback-calls-callee", func(b string) string { return "inner := " + lit(b) + "\nx.ApplyA(func() {\ninner()\n})" }, true},
	}
}

const recoverStmt = "defer func() {\nif recover() != nil {\nx.Mark()\n}\n}()"

var recoverNames = []string{"none", "in-function", "in-caller"}

type nestedCase struct {
	fault   faultKind
	place   nestedPlace
	recover int
	mode    int
	cs      Case
	gcKey   string
	body    string
}

func (nc nestedCase) id() string {
	return nc.fault.name + "/" + nc.place.name + "/recover-" + recoverNames[nc.recover] + "/" + modeNames[nc.mode]
}

func nestedMatrix() []nestedCase {
	var all []nestedCase
	globals := callableGlobals()
	for _, f := range nestedFaults() {
		for _, pl := range nestedPlaces() {
			for r := 0; r < 3; r++ {
				fb := f.stmt
				if r == 1 {
					fb = recoverStmt + "\n" + fb
				}
				body := pl.wrap(fb)
				if r == 2 {
					body = "func() {\n" + recoverStmt + "\n" + body + "\n}()"
				}
				body += "\nx.Hit(\"after\")"
				key := f.name + "/" + pl.name + "/recover-" + recoverNames[r]
				for _, mode := range []int{modeProgram, modeTemplateGlobals} {
					nc := nestedCase{fault: f, place: pl, recover: r, mode: mode, gcKey: "nested " + key, body: body}
					if mode == modeProgram {
						nc.cs = Case{Name: "nested " + nc.id(), Src: "package main\nimport \"x\"\nfunc main() {\n" + body + "\n}\n"}
					} else {
						nc.cs = Case{Name: "nested " + nc.id(), Tmpl: true, Src: unqualify("{%%\n" + body + "\n%%}"), Vars: globals}
					}
					nc.cs.Timeout = 5 * time.Second
					all = append(all, nc)
				}
			}
		}
	}
	return all
}

func nestedGc(all []nestedCase) []gcExtra {
	var out []gcExtra
	for _, nc := range all {
		if nc.mode == modeProgram {
			out = append(out, gcExtra{nc.gcKey, nc.body})
		}
	}
	return out
}

// the known finding of the family, as a prediction: panic(nil) raises a *runtime.PanicNilError,
// a runtime.Error that OpPanic keeps as the message of the *PanicError; re-panicked by the
// wrapper in a native caller it is a Go run-time error coming out of native code: fatal
// (Props/C05.lean: nestedClosed_false)
const classCallbackPanicNil = "callback-panic-nil"

func nestedPredict(nc nestedCase) (class, effect string) {
	if nc.fault.name == "panic-nil" && nc.place.callback && nc.recover != 1 {
		return classCallbackPanicNil, "host-panic"
	}
	return "", ""
}

func nestedRun(nc nestedCase, gc map[string]string) (o outcome, tr, got, clause string) {
	crec.reset()
	o = runReal(nc.cs)
	tr = crec.trace()
	if o.built && !o.hostPanic && o.errType == "*scriggo.PanicError" {
		tr = strings.TrimSpace(tr + " panic")
	}
	if cl := oracle(nc.cs, o); cl != "" {
		if o.hostPanic {
			return o, tr, "host-panic", cl
		}
		return o, tr, "undocumented-error", cl
	}
	if want, ok := gc[nc.gcKey]; ok && want != tr {
		return o, tr, "record", "fault-in-callback-not-as-in-go"
	}
	return o, tr, "ok", ""
}

func nestedCases(c *hx.Ctx, all []nestedCase, gc map[string]string) {
	dump := os.Getenv("VERIF_C05_DUMP") != ""
	// the recorded minimal input of the finding is a case of the matrix
	active := false
	for _, f := range c.Findings {
		if f.ID != classCallbackPanicNil {
			continue
		}
		c.Res.Count("finding:"+f.ID, true)
		for _, nc := range all {
			if nc.cs.Src == f.Minimal {
				o, tr, got, clause := nestedRun(nc, gc)
				if class, effect := nestedPredict(nc); class == f.ID && got == effect {
					active = true
					c.Res.AddBreak(proto.Break{Kind: "property", Name: clause, Case: "nested " + nc.id() + " " + proto.Hex([]byte(nc.cs.Src)), Human: caseHuman(nc.cs),
						Impl: o.String() + "; record: " + tr, Model: "no host panic; record under gc: " + gc[nc.gcKey], Finding: f.ID})
				}
				break
			}
		}
	}
	predicted, cameTrue := 0, 0
	for i, nc := range all {
		// the quick tier runs each point in one of the two modes, by turns
		if c.Quick() && (i/2+int(c.Seed)+nc.mode)%2 != 0 {
			continue
		}
		o, tr, got, clause := nestedRun(nc, gc)
		if !o.built {
			c.Res.Count("nested "+nc.id(), false)
			c.Res.Hist("nested does-not-build")
			if dump {
				fmt.Fprintf(os.Stderr, "NOBUILD nested %s: %s%s\n", nc.id(), o.buildErr, o.panicVal)
			}
			continue
		}
		c.Res.Count("nested "+nc.id(), strings.Contains(tr, "panic") || strings.Contains(tr, "mark"))
		c.Res.Hist("nested " + map[bool]string{true: "inside a callback of native code", false: "without native code between"}[nc.place.callback])
		class, effect := nestedPredict(nc)
		if !active {
			class = ""
		}
		if class != "" {
			predicted++
			if got == effect {
				cameTrue++
			}
		}
		if dump && got != "ok" {
			fmt.Fprintf(os.Stderr, "%s nested %s: predicted %s: %s | record %q gc %q\n", strings.ToUpper(got), nc.id(), class, o.String(), tr, gc[nc.gcKey])
		}
		if got == "ok" {
			continue
		}
		b := proto.Break{Kind: "property", Name: clause, Case: "nested " + nc.id() + " " + proto.Hex([]byte(nc.cs.Src)), Human: caseHuman(nc.cs),
			Impl: o.String() + "; record: " + tr, Model: "Run returns nil or a *PanicError, no host panic; record of the analogous Go function under gc: " + gc[nc.gcKey]}
		if class != "" && got == effect {
			b.Finding = c.Known(class)
		}
		c.Res.AddBreak(b)
	}
	if predicted > 0 {
		c.Res.Histogram["class-precision/"+classCallbackPanicNil+"/cases"] = predicted
		c.Res.Histogram["class-precision/"+classCallbackPanicNil+"/fail-as-predicted"] = cameTrue
		c.Res.Histogram["class-precision/"+classCallbackPanicNil+"/permille"] = cameTrue * 1000 / predicted
	}
}
