package main

import (
	"context"
	"errors"
	"fmt"
	"io"
	"os"
	"reflect"
	"regexp"
	"sort"
	"strconv"
	"strings"

	"github.com/open2b/scriggo"
	"github.com/open2b/scriggo/native"
	hook "github.com/open2b/scriggo/verifhook/c05"

	"verifharness/internal/hx"
	"verifharness/internal/proto"
)

// C05: running compiled code never panics into the host.
//
//   - the property's oracle on the real code, independent of the model: every fault-injection
//     program and template is built and run through the public API (scriggo.Build /
//     BuildTemplate + Run) under a host recover; recover() must see nothing unless the case
//     is a documented exception (Fatal, invalid template variable value, a Go run-time error
//     inside embedder-supplied native code), and Run must return nil, a *scriggo.PanicError,
//     the error given to Stop or (go of a nil function) the plain error the VM reports;
//   - correspondence, classification: the regenerated classify against the real convertPanic
//     on synthetic payloads (every operation × sign × payload class × message), and every
//     panic the real VM recovers while running the programs against canRaise/classify;
//   - correspondence, renderer: the real renderer driven by Text/Show sequences against
//     Model/URLState.lean (state after each call, every chunk written);
//   - correspondence, register stacks: the real swapStack against Model/RegStack.lean
//     (pointers, growth, every register), and the final lengths of the four stacks of real
//     recursive programs against the model run on the program's own NumReg/stack shifts.
func main() { hx.Main("C05", run) }

// ---------------------------------------------------------------- native package "x"

var errStop = errors.New("stopped by x.Stop")

var packages = native.Packages{
	"x": native.Package{
		Name: "x",
		Declarations: native.Declarations{
			"PanicValue":  func() { panic(42) },
			"PanicError":  func() { panic(errors.New("native error")) },
			"PanicString": func() { panic("native string") },
			"Ok":          func(a int) int { return a },
			"Stop":        func(env native.Env) { env.Stop(errStop) },
			"Fatal":       func(env native.Env) { env.Fatal("fatal by x.Fatal") },
			"NilMapWrite": func() { var m map[int]int; m[1] = 1 },
			"Probe":       func() { recordProbe() },
		},
	},
}

// ---------------------------------------------------------------- running a case

type outcome struct {
	built     bool
	buildErr  string
	hostPanic bool
	panicVal  string
	errType   string
	errMsg    string
	err       error
}

func (o outcome) String() string {
	switch {
	case !o.built:
		return "build error: " + o.buildErr
	case o.hostPanic:
		return "HOST PANIC: " + o.panicVal
	}
	return o.errType + " " + o.errMsg
}

func buildProgram(src string) (*scriggo.Program, error) {
	return scriggo.Build(scriggo.Files{"main.go": []byte(src)}, &scriggo.BuildOptions{AllowGoStmt: true, Packages: packages})
}

func buildTemplate(c Case) (*scriggo.Template, error) {
	g := native.Declarations{}
	for k, v := range c.Vars {
		g[k] = v
	}
	files := scriggo.Files{"index.html": []byte(c.Src)}
	for name, src := range c.Extra {
		files[name] = []byte(src)
	}
	return scriggo.BuildTemplate(files, "index.html", &scriggo.BuildOptions{Globals: g, AllowGoStmt: true, Packages: packages})
}

func describe(err error) (string, string) {
	if err == nil {
		return "nil", ""
	}
	return fmt.Sprintf("%T", err), err.Error()
}

// runReal builds and runs c through the public API under a host recover.
func runReal(c Case) (o outcome) {
	defer func() {
		if r := recover(); r != nil {
			o.hostPanic = true
			o.panicVal = fmt.Sprint(r)
		}
	}()
	opts := &scriggo.RunOptions{Print: func(any) {}}
	if c.Timeout > 0 {
		ctx, cancel := context.WithTimeout(context.Background(), c.Timeout)
		defer cancel()
		opts.Context = ctx
	}
	if c.Tmpl {
		t, err := buildTemplate(c)
		if err != nil {
			o.buildErr = err.Error()
			return o
		}
		o.built = true
		o.err = t.Run(io.Discard, c.RunVars, opts)
	} else {
		p, err := buildProgram(c.Src)
		if err != nil {
			o.buildErr = err.Error()
			return o
		}
		o.built = true
		o.err = p.Run(opts)
	}
	o.errType, o.errMsg = describe(o.err)
	return o
}

// runTraced runs c through the verif hook: the real interpreter loop, nextCall and
// convertPanic, with every recovered panic recorded.
func runTraced(c Case) (res hook.Result, o outcome, shape hook.CallShape) {
	defer func() {
		if r := recover(); r != nil {
			o.hostPanic = true
			o.panicVal = fmt.Sprint(r)
		}
	}()
	if c.Tmpl {
		t, err := buildTemplate(c)
		if err != nil {
			o.buildErr = err.Error()
			return
		}
		o.built = true
		res = hook.RunTemplate(t, io.Discard, c.RunVars, func(any) {})
	} else {
		p, err := buildProgram(c.Src)
		if err != nil {
			o.buildErr = err.Error()
			return
		}
		o.built = true
		shape = hook.ProgramShape(p, "f")
		res = hook.RunProgram(p, func(any) {})
	}
	if res.HostPanic {
		o.hostPanic = true
		o.panicVal = fmt.Sprint(res.HostValue)
		return
	}
	o.err = res.Err
	o.errType, o.errMsg = describe(res.Err)
	if _, ok := res.Err.(interface{ Message() any }); ok {
		o.errType = "*scriggo.PanicError" // the public API wraps *runtime.PanicError
	}
	return
}

// oracle is the property on the real code's behaviour: "" or the failing clause.
func oracle(c Case, o outcome) string {
	if !o.built {
		return ""
	}
	if c.Documented != "" {
		if !o.hostPanic {
			return "documented-panic-missing"
		}
		return ""
	}
	if o.hostPanic {
		return "host-panic"
	}
	switch {
	case o.err == nil:
	case o.errType == "*scriggo.PanicError":
	case o.err == errStop:
	case c.Timeout > 0 && o.err == context.DeadlineExceeded:
		// the context given to Run has expired: the context's error, as Run documents
	case o.errType == "*errors.errorString" && o.errMsg == "fatal error: go of nil func value":
	case c.Tmpl && o.errType == "*errors.errorString" && strings.HasPrefix(o.errMsg, "cannot show value of type "):
		// a value that cannot be shown: the renderer's error, as Run documents
	default:
		return "undocumented-error-type"
	}
	return ""
}

// ---------------------------------------------------------------- protocol helpers

var opNames map[int]string

func opName(op int) (name string, neg bool) {
	if op < 0 {
		neg, op = true, -op
	}
	return opNames[op], neg
}

func b01(b bool) string {
	if b {
		return "1"
	}
	return "0"
}

func faultArgs(f hook.Fault) string {
	name, neg := opName(f.Op)
	if !f.HasFn {
		name, neg = "OpNone", false
	}
	return fmt.Sprintf("%s %s %s %s %s %s", b01(f.HasFn), name, b01(neg), b01(f.NativeCallee), f.Class, proto.Hex([]byte(f.Msg)))
}

// ---------------------------------------------------------------- run

const findingDeferredBuiltin = "deferred-builtin-runtime-error"

func run(c *hx.Ctx) error {
	res := c.Res
	res.Rule = "fault-injection programs and templates (fixed catalogue: every run-time fault at every operation that raises it; generated: recursion/go/defer/panic at depths crossing the 512/1024/2048 stack sizes with 0–3 parameters of each register type; the matrix callables-as-first-class-values: 51 kinds of callable × 135 storages and transports × {program, template with globals, template importing the package}, whole in the thorough tier, one mode per pair in the quick tier, every case compared with the record real gc leaves for the analogous Go program and attributed, when it fails, to a known finding only by a prediction made from the kind and the storage), synthetic convertPanic payloads (every operation × sign × class × message), random renderer call sequences over {? & = # , a /} and the empty string, random swapStack arguments; a program case is non-trivial when the VM recovers at least one panic or the stacks grow, a URL case when a URL state flag is set, a swapStack case when a block moves; distinct by input"
	opNames = map[int]string{}
	for n, v := range hook.OpNames() {
		opNames[v] = n
	}
	if os.Getenv("VERIF_C05_ONLY") == "callables" { // to time or inspect the family alone
		return callableCases(c)
	}
	if err := knownFindings(c); err != nil {
		return err
	}
	if err := classifyTie(c); err != nil {
		return err
	}
	if err := programCases(c); err != nil {
		return err
	}
	if err := callableCases(c); err != nil {
		return err
	}
	if err := depthCases(c); err != nil {
		return err
	}
	if err := boundaryCases(c); err != nil {
		return err
	}
	if err := urlCases(c); err != nil {
		return err
	}
	if err := urlTemplates(c); err != nil {
		return err
	}
	return swapCases(c)
}

// knownFindings replays the recorded minimal inputs of the open findings.
func knownFindings(c *hx.Ctx) error {
	for _, f := range c.Findings {
		if isCallableClass(f.ID) {
			continue // replayed with the family (callables_run.go)
		}
		cs := Case{Name: "finding:" + f.ID, Src: f.Minimal}
		o := runReal(cs)
		c.Res.Count("finding:"+f.ID, true)
		if cl := oracle(cs, o); cl != "" {
			c.Res.AddBreak(proto.Break{Kind: "property", Name: cl, Case: "program " + proto.Hex([]byte(f.Minimal)),
				Human: f.Minimal, Impl: o.String(), Model: "Run returns an error, no host panic", Finding: f.ID})
		}
	}
	return nil
}

// ---------------------------------------------------------------- classification tie

var messages = []string{
	"runtime error: invalid memory address or nil pointer dereference",
	"runtime error: integer divide by zero",
	"runtime error: index out of range",
	"runtime error: index out of range [5] with length 2",
	"runtime error: slice bounds out of range",
	"runtime error: slice bounds out of range [:5] with capacity 3",
	"reflect: slice index out of range",
	"reflect: array index out of range",
	"reflect: string index out of range",
	"reflect.Value.Slice3: slice index out of bounds",
	"reflect.Append: slice overflow",
	"close of closed channel",
	"close of nil channel",
	"send on closed channel",
	"assignment to entry in nil map",
	"runtime error: hash of unhashable type []int",
	"hash of unhashable type: []int",
	"hash of unhashable type",
	"runtime error: comparing uncomparable type []int",
	"reflect: cannot convert slice with length 2 to pointer to array with length 3",
	"reflect: cannot convert",
	"reflect.MakeChan: negative buffer size",
	"makechan: size out of range",
	"reflect.MakeSlice: negative len",
	"reflect.MakeSlice: negative cap",
	"reflect.MakeSlice: len > cap",
	"runtime: allocation size out of range",
	"interface conversion: interface {} is int, not string",
	"unrelated message",
	"",
}

func classifyTie(c *hx.Ctx) error {
	if c.D == nil {
		return nil
	}
	// the operation numbering
	ans, err := c.D.Ask("C05 ops")
	if err != nil {
		return err
	}
	model := map[string]int{}
	for _, f := range strings.Fields(strings.TrimPrefix(ans, "ok ")) {
		if i := strings.IndexByte(f, ':'); i > 0 {
			n, _ := strconv.Atoi(f[i+1:])
			model[f[:i]] = n
		}
	}
	real := hook.OpNames()
	if !reflect.DeepEqual(model, real) {
		c.Res.AddBreak(proto.Break{Kind: "correspondence", Name: "operation-constants", Case: "C05 ops",
			Impl: fmt.Sprint(len(real), " operations"), Model: fmt.Sprint(len(model), " operations (names or codes differ)")})
	}
	type q struct {
		line                   string
		op                     int
		hasFn, nat             bool
		class, msg             string
	}
	var qs []q
	var names []string
	for n := range real {
		names = append(names, n)
	}
	sort.Strings(names)
	classes := []string{"stopError", "outError", "fatalError", "err", "other"}
	msgClasses := []string{"scriggoRuntimeError", "goRuntimeError", "str"}
	msgs := append([]string(nil), messages...)
	for i := 0; i < c.N(4, 40); i++ { // mutated messages
		m := messages[c.R.Intn(len(messages))]
		switch c.R.Intn(3) {
		case 0:
			m += " x"
		case 1:
			if len(m) > 0 {
				m = m[:len(m)-1]
			}
		default:
			m = "x" + m
		}
		msgs = append(msgs, m)
	}
	add := func(op int, hasFn, nat bool, class, msg string) {
		name, neg := opName(op)
		if !hasFn {
			name, neg = "OpNone", false
		}
		qs = append(qs, q{fmt.Sprintf("C05 classify %s %s %s %s %s %s", b01(hasFn), name, b01(neg), b01(nat), class, proto.Hex([]byte(msg))), op, hasFn, nat, class, msg})
	}
	for _, n := range names {
		for _, sign := range []int{1, -1} {
			if n == "OpNone" && sign == -1 {
				continue
			}
			op := real[n] * sign
			nats := []bool{false}
			if n == "OpCallIndirect" {
				nats = []bool{false, true}
			}
			for _, nat := range nats {
				for _, cl := range classes {
					add(op, true, nat, cl, "m")
				}
				for _, cl := range msgClasses {
					for _, m := range msgs {
						add(op, true, nat, cl, m)
					}
				}
			}
		}
	}
	for _, cl := range classes {
		add(0, false, false, cl, "m")
	}
	for _, cl := range msgClasses {
		for _, m := range msgs {
			add(0, false, false, cl, m)
		}
	}
	lines := make([]string, len(qs))
	for i := range qs {
		lines[i] = qs[i].line
	}
	answers, err := c.D.Batch(lines)
	if err != nil {
		return err
	}
	for i, x := range qs {
		out, panicked := hook.Classify(x.op, x.hasFn, x.nat, x.class, x.msg)
		impl := "ok " + out
		if panicked != "" {
			impl = "err " + panicked
		}
		c.Res.Count(x.line, true)
		c.Res.Hist("classify-" + out)
		if impl != answers[i] {
			c.Res.AddBreak(proto.Break{Kind: "correspondence", Name: "classify-vs-convertPanic", Case: x.line,
				Human: fmt.Sprintf("convertPanic(%s %q) at %s", x.class, x.msg, strings.Fields(x.line)[3]), Impl: impl, Model: answers[i]})
		}
	}
	c.Res.Histogram["classify-queries"] = len(qs)
	return nil
}

// ---------------------------------------------------------------- programs

// checkCase runs one case: oracle on the real run, traced run tied to the real run and to
// canRaise/classify. It returns the traced result.
func checkCase(c *hx.Ctx, cs Case) (hook.Result, hook.CallShape) {
	real := runReal(cs)
	human := cs.Src
	if cs.Tmpl {
		human = fmt.Sprintf("template %s  globals %v  Run vars %v", cs.Src, varsString(cs.Vars), varsString(cs.RunVars))
	}
	caseLine := "program " + cs.Name + " " + proto.Hex([]byte(cs.Src))
	if !real.built {
		c.Res.Hist("does-not-build")
		c.Res.Notes = appendNote(c.Res.Notes, "does not build: "+cs.Name+": "+real.buildErr)
		return hook.Result{}, hook.CallShape{}
	}
	if cl := oracle(cs, real); cl != "" {
		b := proto.Break{Kind: "property", Name: cl, Case: caseLine, Human: human, Impl: real.String(),
			Model: "Run returns nil, a *PanicError or the error given to Stop; no host panic"}
		if cs.Documented != "" {
			b.Model = "host panic documented: " + cs.Documented
		}
		c.Res.AddBreak(b)
	}
	if cs.RunVars != nil && cs.Documented != "" {
		c.Res.Count(cs.Name+cs.Src, true)
		c.Res.Hist("documented-panic")
		return hook.Result{}, hook.CallShape{}
	}
	tr, to, shape := runTraced(cs)
	nontrivial := len(tr.Faults) > 0 || tr.StackLens[0] > 512 || tr.StackLens[1] > 512 || tr.StackLens[2] > 512 || tr.StackLens[3] > 512
	c.Res.Count(cs.Name+cs.Src, nontrivial)
	if cs.Fault && len(tr.Faults) == 0 && cs.Documented == "" {
		c.Res.Hist("expected-fault-not-raised")
		c.Res.Notes = appendNote(c.Res.Notes, "no fault raised by "+cs.Name)
	}
	// the traced run is the same run
	if to.hostPanic != real.hostPanic || (!to.hostPanic && (to.errType != real.errType || noAddr(to.errMsg) != noAddr(real.errMsg))) || (to.hostPanic && noAddr(to.panicVal) != noAddr(real.panicVal)) {
		c.Res.AddBreak(proto.Break{Kind: "correspondence", Name: "traced-run-vs-Run", Case: caseLine, Human: human, Impl: real.String(), Model: to.String()})
	}
	if c.D == nil || len(tr.Faults) == 0 {
		return tr, shape
	}
	var lines []string
	for _, f := range tr.Faults {
		lines = append(lines, "C05 classify "+faultArgs(f), "C05 canraise "+faultArgs(f))
	}
	ans, err := c.D.Batch(lines)
	if err != nil {
		c.Res.Notes = appendNote(c.Res.Notes, "driver: "+err.Error())
		return tr, shape
	}
	for i, f := range tr.Faults {
		name, neg := opName(f.Op)
		key := fmt.Sprintf("fault %s%s %s -> %s", map[bool]string{true: "-", false: ""}[neg], name, f.Class, f.Outcome)
		if !f.HasFn {
			key = fmt.Sprintf("fault (no function) %s -> %s", f.Class, f.Outcome)
		}
		c.Res.Hist(key)
		if ans[2*i] != "ok "+f.Outcome {
			c.Res.AddBreak(proto.Break{Kind: "correspondence", Name: "classify-vs-observed", Case: lines[2*i], Human: human, Impl: "ok " + f.Outcome, Model: ans[2*i]})
		}
		documented := cs.Documented != "" && f.Outcome == "fatal"
		if ans[2*i+1] != "ok 1" && !documented {
			c.Res.AddBreak(proto.Break{Kind: "correspondence", Name: "canRaise", Case: lines[2*i+1], Human: human,
				Impl: fmt.Sprintf("raised: %s %q at %s", f.Class, f.Msg, key), Model: ans[2*i+1] + " (not in canRaise)"})
		}
	}
	if len(c.Res.Samples) < 4 {
		c.Res.Sample(map[string]string{"case": cs.Name, "source": cs.Src, "real": real.String(), "faults": fmt.Sprint(tr.Faults)})
	}
	return tr, shape
}

func varsString(m map[string]any) string {
	var ks []string
	for k := range m {
		ks = append(ks, k)
	}
	sort.Strings(ks)
	var b strings.Builder
	for _, k := range ks {
		v := reflect.ValueOf(m[k])
		if v.IsValid() && v.Kind() == reflect.Pointer && !v.IsNil() {
			fmt.Fprintf(&b, "%s=&%#v ", k, v.Elem().Interface())
		} else {
			fmt.Fprintf(&b, "%s=%#v ", k, m[k])
		}
	}
	return strings.TrimSpace(b.String())
}

func appendNote(notes []string, n string) []string {
	if len(notes) < 12 {
		return append(notes, n)
	}
	return notes
}

func programCases(c *hx.Ctx) error {
	for _, cs := range Catalog() {
		checkCase(c, cs)
	}
	for _, cs := range TemplateCatalog() {
		checkCase(c, cs)
	}
	return nil
}

// ---------------------------------------------------------------- depth

var bottoms = []struct{ name, code, decls string }{
	{"plain", "", ""},
	{"go", "go g(n)", "func g(n int) {}"},
	{"go-args", "go h(1, 2.5, \"x\", nil)", "func h(a int, b float64, c string, d []int) {}"},
	{"go-closure", "go func(a int) {}(n)", ""},
	{"defer", "defer func(a int, s string) {}(n, \"x\")", ""},
	{"defer-big", "defer big(n)", "func big(x int) int {\n\ta1, a2, a3, a4, a5, a6, a7, a8, a9, a10 := x, x+2, x+3, x+4, x+5, x+6, x+7, x+8, x+9, x+10\n\tb1, b2, b3, b4, b5, b6, b7, b8, b9, b10 := a1+1, a2+2, a3+3, a4+4, a5+5, a6+6, a7+7, a8+8, a9+9, a10+10\n\treturn a1 + a2 + a3 + a4 + a5 + a6 + a7 + a8 + a9 + a10 + b1 + b2 + b3 + b4 + b5 + b6 + b7 + b8 + b9 + b10\n}"},
	{"defer-native", "defer println(\"d\")", ""},
	{"defer-loop", "for i := 0; i < 300; i++ { defer func(a int, b float64, c string, d []int) {}(i, 1.5, \"x\", nil) }", ""},
	{"panic", "panic(\"deep\")", ""},
	{"panic-defer-native", "defer println(\"d\")\n\t\tpanic(\"deep\")", ""},
	{"runtime-fault", "var m map[int]int\n\t\tm[1] = n", ""},
}

// depthCases: recursion crossing the stack sizes; the plain ones are also compared with the
// model's prediction of the four final stack lengths.
func depthCases(c *hx.Ctx) error {
	depths := []int{100, 127, 128, 170, 171, 200, 240, 255, 256, 300, 341, 342, 400, 511, 512, 513, 600, 700, 1000, 1023, 1024, 1025, 1400, 2047, 2048, 2100}
	type job struct {
		t, k, d int
		bottom  int
	}
	var jobs []job
	for t := range regTypes {
		for k := 0; k <= 3; k++ {
			// every combination at a few random depths, plain recursion at every listed depth
			for _, d := range depths {
				if c.Quick() && c.R.Intn(3) != 0 {
					continue
				}
				jobs = append(jobs, job{t, k, d, 0})
			}
			for b := 1; b < len(bottoms); b++ {
				for i := 0; i < c.N(6, 30); i++ {
					// any depth up to just past the second stack size: the window of a go
					// statement and the frame of a deferred call overflow only in narrow bands
					d := 40 + c.R.Intn(1100)
					if i%3 == 0 {
						d = depths[c.R.Intn(len(depths))]
					}
					jobs = append(jobs, job{t, k, d, b})
				}
			}
		}
	}
	// one dense sweep: plain recursion with one parameter, every depth around the first boundary
	for d := 490; d <= 530; d++ {
		jobs = append(jobs, job{0, 0, d, 0})
	}
	for _, j := range jobs {
		b := bottoms[j.bottom]
		src := RecursionProgram(j.t, j.k, j.d, b.code, b.decls)
		name := fmt.Sprintf("depth-%s-%s%d-d%d", b.name, regTypes[j.t].name, j.k, j.d)
		tr, shape := checkCase(c, Case{Name: name, Src: src})
		c.Res.Hist("depth-" + b.name)
		if j.bottom != 0 || c.D == nil || !shape.Found || !shape.HasSelf {
			continue
		}
		// model prediction of the final stack lengths: main calls f, f calls itself d times
		var lines []string
		for k := 0; k < 4; k++ {
			evs := []string{fmt.Sprintf("cf:%d:%d", shape.FromMain[k], shape.NumReg[k])}
			for i := 0; i < j.d; i++ {
				evs = append(evs, fmt.Sprintf("cf:%d:%d", shape.SelfShift[k], shape.NumReg[k]))
			}
			lines = append(lines, fmt.Sprintf("C05 stack %d %d %s", k, shape.MainRegs[k], strings.Join(evs, " ")))
		}
		ans, err := c.D.Batch(lines)
		if err != nil {
			return err
		}
		for k := 0; k < 4; k++ {
			f := strings.Fields(ans[k])
			want := fmt.Sprint(tr.StackLens[k])
			if len(f) < 2 || f[0] != "ok" || f[1] != want {
				short := lines[k]
				if len(short) > 200 {
					short = short[:200] + "…"
				}
				c.Res.AddBreak(proto.Break{Kind: "correspondence", Name: "stack-length-vs-RegStack", Case: short, Human: src,
					Impl: "final length of stack " + strconv.Itoa(k) + ": " + want, Model: ans[k]})
			}
		}
	}
	return nil
}

// ---------------------------------------------------------------- URL machine

var urlAlphabet = []string{"?", "&", "=", "#", ",", "a", "/", "?", "&"}

func urlString(c *hx.Ctx, allowEmpty bool) string {
	n := c.R.Intn(5)
	if !allowEmpty && n == 0 {
		n = 1
	}
	var b strings.Builder
	for i := 0; i < n; i++ {
		b.WriteString(urlAlphabet[c.R.Intn(len(urlAlphabet))])
	}
	return b.String()
}

func urlLine(calls []hook.URLCall) string {
	var b strings.Builder
	b.WriteString("C05 url")
	for _, x := range calls {
		if x.IsText {
			fmt.Fprintf(&b, " t:%s:%s:%s", proto.Hex([]byte(x.Txt)), b01(x.InURL), b01(x.IsSet))
		} else {
			fmt.Fprintf(&b, " s:%s:%s:%s", proto.Hex([]byte(x.Txt)), b01(x.InURL), b01(x.Quoted))
		}
	}
	return b.String()
}

func urlHuman(calls []hook.URLCall) string {
	var b strings.Builder
	for _, x := range calls {
		if x.IsText {
			fmt.Fprintf(&b, "Text(%q, inURL=%v, isSet=%v) ", x.Txt, x.InURL, x.IsSet)
		} else {
			fmt.Fprintf(&b, "Show(%q, inURL=%v, quoted=%v) ", x.Txt, x.InURL, x.Quoted)
		}
	}
	return b.String()
}

// urlImpl is the real renderer's behaviour in the driver's canonical form; the expected
// chunks of the path/query escapers are taken from the real escapers (C07 owns them).
func urlImpl(calls []hook.URLCall) (line string, panicked bool) {
	chunks, states, pi, _ := hook.URL(calls)
	var sts, outs []string
	for i := range states {
		s := states[i]
		sts = append(sts, b01(s.InURL)+b01(s.Query)+b01(s.AddAmpersand)+b01(s.RemoveQuestionMark))
		outs = append(outs, strings.Join(chunks[i], "\x00"))
	}
	_ = outs
	join := func(x []string) string {
		if len(x) == 0 {
			return "-"
		}
		return strings.Join(x, ",")
	}
	if pi >= 0 {
		return fmt.Sprintf("err index %d %s", pi, join(sts)), true
	}
	return "ok " + join(sts), false
}

// expectedBytes renders the model's output tokens of one call with the real escapers.
func expectedBytes(tokens string, c hook.URLCall) (string, bool) {
	if tokens == "-" {
		return "", true
	}
	var b strings.Builder
	for _, t := range strings.Split(tokens, "+") {
		switch {
		case t == "a":
			b.WriteString("&amp;")
		case strings.HasPrefix(t, "r"):
			x, err := proto.UnHex(t[1:])
			if err != nil {
				return "", false
			}
			b.Write(x)
		case strings.HasPrefix(t, "p") && len(t) >= 2:
			x, err := proto.UnHex(t[2:])
			if err != nil {
				return "", false
			}
			b.WriteString(hook.Escape("path", string(x), t[1] == '1'))
		case strings.HasPrefix(t, "q"):
			x, err := proto.UnHex(t[1:])
			if err != nil {
				return "", false
			}
			b.WriteString(hook.Escape("query", string(x), false))
		case strings.HasPrefix(t, "o"):
			x, err := proto.UnHex(t[1:])
			if err != nil {
				return "", false
			}
			b.WriteString(hook.Escape("html", string(x), false))
		default:
			return "", false
		}
	}
	return b.String(), true
}

func urlCompare(calls []hook.URLCall, model string) (ok bool, impl string) {
	implLine, _ := urlImpl(calls)
	chunks, _, pi, _ := hook.URL(calls)
	f := strings.Fields(model)
	if len(f) == 0 {
		return false, implLine
	}
	if f[0] == "err" {
		// err index k states outs
		if len(f) < 5 {
			return false, implLine
		}
		want := fmt.Sprintf("err %s %s %s", f[1], f[2], f[3])
		return want == implLine && strconv.Itoa(pi) == f[2], implLine
	}
	if len(f) != 3 || "ok "+f[1] != implLine {
		if len(calls) == 0 && model == "ok  " {
			return true, implLine
		}
		return false, implLine
	}
	toks := strings.Split(f[2], ",")
	if len(toks) != len(calls) {
		return false, implLine
	}
	for i := range calls {
		want, okp := expectedBytes(toks[i], calls[i])
		got := strings.Join(chunks[i], "")
		if !okp || want != got {
			return false, implLine + fmt.Sprintf(" call %d wrote %q, the model's tokens give %q", i, got, want)
		}
	}
	return true, implLine
}

func urlCases(c *hx.Ctx) error {
	n := c.N(4000, 60000)
	var all [][]hook.URLCall
	for i := 0; i < n; i++ {
		malformed := i%10 == 9 // a separate stream with empty Text chunks, which the emitter never emits
		var calls []hook.URLCall
		inURL := c.R.Intn(4) != 0
		isSet := c.R.Intn(5) == 0
		quoted := c.R.Bool()
		for k := c.R.Intn(7) + 1; k > 0; k-- {
			if c.R.Intn(6) == 0 { // the attribute ends, another begins
				inURL = c.R.Intn(4) != 0
				isSet = c.R.Intn(5) == 0
				quoted = c.R.Bool()
			}
			if c.R.Intn(5) < 2 {
				calls = append(calls, hook.URLCall{IsText: true, Txt: urlString(c, malformed), InURL: inURL, IsSet: inURL && isSet})
			} else {
				calls = append(calls, hook.URLCall{Txt: urlString(c, true), InURL: inURL, IsSet: inURL && isSet, Quoted: quoted})
			}
		}
		all = append(all, calls)
	}
	// the recorded defect of DESIGN §8 row 6 and its neighbours, always
	all = append(all,
		[]hook.URLCall{{Txt: "x?y", InURL: true, Quoted: true}, {Txt: "", InURL: true, Quoted: true}},
		[]hook.URLCall{{Txt: "?", InURL: true}, {Txt: "", InURL: true}, {IsText: true, Txt: "?a", InURL: true}},
		[]hook.URLCall{{Txt: "a?b&", InURL: true, Quoted: true}, {Txt: "", InURL: true, Quoted: true}, {IsText: true, Txt: "&c", InURL: true}},
	)
	lines := make([]string, len(all))
	for i, calls := range all {
		lines[i] = urlLine(calls)
	}
	var model []string
	if c.D != nil {
		var err error
		model, err = c.D.Batch(lines)
		if err != nil {
			return err
		}
	}
	for i, calls := range all {
		wellFormed := true
		flag := false
		for _, x := range calls {
			if x.IsText && x.Txt == "" {
				wellFormed = false
			}
		}
		_, states, pi, pmsg := hook.URL(calls)
		for _, s := range states {
			flag = flag || s.Query || s.AddAmpersand || s.RemoveQuestionMark
		}
		c.Res.Count(lines[i], flag)
		if wellFormed {
			c.Res.Hist("url-wellformed")
		} else {
			c.Res.Hist("url-with-empty-text")
		}
		// the property: the renderer does not panic on what the emitter can produce
		if pi >= 0 && wellFormed {
			min := shrinkCalls(calls, func(cs []hook.URLCall) bool {
				for _, x := range cs {
					if x.IsText && x.Txt == "" {
						return false
					}
				}
				_, _, p, _ := hook.URL(cs)
				return p >= 0
			})
			c.Res.AddBreak(proto.Break{Kind: "property", Name: "renderer-panics", Case: urlLine(min), Human: urlHuman(min),
				Impl: "panic: " + pmsg, Model: "no panic"})
		}
		if model != nil {
			if ok, impl := urlCompare(calls, model[i]); !ok {
				min := shrinkCalls(calls, func(cs []hook.URLCall) bool {
					a, err := c.D.Ask(urlLine(cs))
					if err != nil {
						return false
					}
					ok, _ := urlCompare(cs, a)
					return !ok
				})
				a, _ := c.D.Ask(urlLine(min))
				_, impl2 := urlCompare(min, a)
				_ = impl
				c.Res.AddBreak(proto.Break{Kind: "correspondence", Name: "URLState-vs-renderer", Case: urlLine(min), Human: urlHuman(min), Impl: impl2, Model: a})
			}
		}
	}
	return nil
}

func shrinkCalls(calls []hook.URLCall, failing func([]hook.URLCall) bool) []hook.URLCall {
	cur := append([]hook.URLCall(nil), calls...)
	for changed := true; changed; {
		changed = false
		for i := 0; i < len(cur); i++ {
			cand := append(append([]hook.URLCall(nil), cur[:i]...), cur[i+1:]...)
			if len(cand) > 0 && failing(cand) {
				cur, changed = cand, true
				break
			}
		}
		if changed {
			continue
		}
		for i := range cur {
			if len(cur[i].Txt) > 1 {
				for j := 0; j < len(cur[i].Txt); j++ {
					cand := append([]hook.URLCall(nil), cur...)
					cand[i].Txt = cur[i].Txt[:j] + cur[i].Txt[j+1:]
					if failing(cand) {
						cur, changed = cand, true
						break
					}
				}
			}
			if changed {
				break
			}
		}
	}
	return cur
}

// urlTemplates: the same through real templates and the public API.
func urlTemplates(c *hx.Ctx) error {
	shapes := []string{
		`<a href="{{ a }}{{ b }}">`,
		`<a href="{{ a }}{{ b }}{{ c }}">`,
		`<a href="{{ a }}?{{ b }}={{ c }}">`,
		`<a href="x?{{ a }}&{{ b }}">`,
		`<a href={{ a }}{{ b }}>`,
		`<img srcset="{{ a }} 1x, {{ b }}{{ c }} 2x">`,
		`<a href="{{ a }}{{ b }}" title="{{ c }}"><a href="{{ c }}{{ a }}">`,
		`<form action="{{ a }}{{ b }}#{{ c }}">`,
	}
	n := c.N(150, 3000)
	for i := 0; i < n; i++ {
		a, b, d := urlString(c, true), urlString(c, true), urlString(c, true)
		if i == 0 {
			a, b = "x?y", ""
		}
		src := shapes[c.R.Intn(len(shapes))]
		if i == 0 {
			src = shapes[0]
		}
		cs := Case{Name: "url-template", Tmpl: true, Src: src, Vars: map[string]any{"a": &a, "b": &b, "c": &d}}
		o := runReal(cs)
		c.Res.Count(src+"\x00"+a+"\x00"+b+"\x00"+d, strings.ContainsAny(a+b+d, "?&#"))
		c.Res.Hist("url-template")
		if cl := oracle(cs, o); cl != "" || o.err != nil {
			if cl == "" {
				cl = "url-template-error"
			}
			c.Res.AddBreak(proto.Break{Kind: "property", Name: cl, Case: "template " + proto.Hex([]byte(src)) + " " + proto.Hex([]byte(a)) + " " + proto.Hex([]byte(b)) + " " + proto.Hex([]byte(d)),
				Human: fmt.Sprintf("template %s with a=%q b=%q c=%q", src, a, b, d), Impl: o.String(), Model: "Run returns nil"})
		}
	}
	return nil
}

// ---------------------------------------------------------------- swapStack

func swapCases(c *hx.Ctx) error {
	type sw struct {
		k, ln, a, b, bs int
	}
	var cases []sw
	n := c.N(3000, 40000)
	for i := 0; i < n; i++ {
		ln := 8 + c.R.Intn(40)
		a := c.R.Intn(ln)
		as := c.R.Intn(6)
		bs := c.R.Intn(6)
		switch c.R.Intn(8) {
		case 0: // near the top of the stack: the guard decides
			a = ln - 1 - c.R.Intn(4)
			if a < 0 {
				a = 0
			}
		case 1: // exactly at the boundary a+tot+bs == len
			if ln-as-2*bs >= 0 {
				a = ln - as - 2*bs
			}
		}
		cases = append(cases, sw{c.R.Intn(4), ln, a, a + as, bs})
	}
	lines := make([]string, len(cases))
	for i, x := range cases {
		lines[i] = fmt.Sprintf("C05 swap %d %d %d %d %d", x.k, x.ln, x.a, x.b, x.bs)
	}
	var model []string
	if c.D != nil {
		var err error
		model, err = c.D.Batch(lines)
		if err != nil {
			return err
		}
	}
	for i, x := range cases {
		var a, b [4]uint32
		var bs [4]int8
		a[x.k], b[x.k], bs[x.k] = uint32(x.a), uint32(x.b), int8(x.bs)
		na, nb, stacks, pmsg := hook.SwapStack(x.ln, a, b, bs)
		moved := x.b > x.a && x.bs > 0
		c.Res.Count(lines[i], moved)
		c.Res.Hist("swapStack")
		impl := ""
		if pmsg != "" {
			impl = "err " + pmsg
		} else {
			regs := make([]string, len(stacks[x.k]))
			for j, v := range stacks[x.k] {
				regs[j] = strconv.Itoa(v)
			}
			impl = fmt.Sprintf("ok %d %d %d %s", len(stacks[x.k]), na[x.k], nb[x.k], strings.Join(regs, ","))
		}
		human := fmt.Sprintf("swapStack on stack %d of length %d: a=%d b=%d bSize=%d", x.k, x.ln, x.a, x.b, x.bs)
		// the property: inside the conditions under which the VM calls it (a ≤ b < len,
		// bs ≤ 127) swapStack does not panic and exchanges exactly the two blocks
		if x.b+x.bs < x.ln && 2*x.bs < x.ln {
			if pmsg != "" {
				c.Res.AddBreak(proto.Break{Kind: "property", Name: "swapStack-panics", Case: lines[i], Human: human, Impl: impl, Model: "no panic"})
			} else if moved {
				st := stacks[x.k]
				okk := true
				as := x.b - x.a
				for j := 0; j <= x.a && j < len(st); j++ {
					okk = okk && st[j] == j
				}
				for j := 0; j < x.bs; j++ {
					okk = okk && st[x.a+1+j] == x.a+1+as+j
				}
				for j := 0; j < as; j++ {
					okk = okk && st[x.a+1+x.bs+j] == x.a+1+j
				}
				for j := x.a + 1 + as + 2*x.bs; j < x.ln; j++ {
					okk = okk && st[j] == j
				}
				if !okk {
					c.Res.AddBreak(proto.Break{Kind: "property", Name: "swapStack-moves-other-registers", Case: lines[i], Human: human, Impl: impl, Model: "the two blocks exchanged, everything else but the scratch block unchanged"})
				}
			}
		}
		if model != nil {
			m := model[i]
			same := m == impl
			if strings.HasPrefix(m, "err ") && strings.HasPrefix(impl, "err ") {
				same = true // both fault (the model names the fault class, Go the message)
			}
			if !same {
				c.Res.AddBreak(proto.Break{Kind: "correspondence", Name: "swapStack-vs-RegStack", Case: lines[i], Human: human, Impl: trunc(impl), Model: trunc(m)})
			}
		}
	}
	return nil
}

var addrRe = regexp.MustCompile(`0x[0-9a-f]+`)

// noAddr removes the addresses that panicToString prints for pointers, slices and functions.
func noAddr(s string) string { return addrRe.ReplaceAllString(s, "0x") }

func trunc(s string) string {
	if len(s) > 400 {
		return s[:400] + "…"
	}
	return s
}
