package main

import (
	"fmt"
	"reflect"
	"strings"

	"github.com/open2b/scriggo/native"

	"verifharness/internal/hx"
	"verifharness/internal/proto"
)

// The known findings of the family "callables as first-class values", as predictions
// (fixes/FINDING-CLASSES.md): from the case alone — the kind of callable and the storage, never
// from what the code did — which class a failure belongs to and how it shows. A failing case is
// attributed to a class only if the class predicts it, with the predicted effect and the
// predicted message; everything else is a violation. The matrix itself measures the precision of
// the predictions on every run (class-precision/… in the evidence; VERIF_C05_STRICT=1 makes a
// precision below 95 % a break). A class whose recorded minimal input no longer fails in the
// predicted way is inactive: nothing is attributed to it.

const (
	// a native function or method with a native.Env parameter, stored in or converted to a Go
	// value of the func type the Scriggo program sees: callable.Value hands out the Go
	// function as it is, reflect.Value.Set refuses it
	classEnvValue = "native-env-func-as-value"
	// a function value as an operand of append: appendSlice has no case for reflect.Func and
	// stores the virtual machine's *callable into the func-typed element
	classAppend = "append-func-value"
	// a method value converted to an interface value: the *callable is stored in the interface
	classMethodValueInterface = "method-value-in-interface"
	// go f() with f a method value: startGoroutine dereferences the nil callable.native
	classGoMethodValue = "go-method-value"
	// a nil function value compared with nil is not nil
	classNilConversion = "nil-func-compares-not-nil"
	// for f := range ch { f(xs...) } with f a variadic function: the registers of the call are
	// mixed up (the callable lands where the slice is expected)
	classRangeChanSpread = "range-channel-spread-call"
)

var callableClasses = []string{classEnvValue, classAppend, classMethodValueInterface, classGoMethodValue, classNilConversion, classRangeChanSpread}

func isCallableClass(id string) bool {
	for _, c := range callableClasses {
		if c == id {
			return true
		}
	}
	return id == classCallbackPanicNil
}

// predictions returns, in order of precedence, the classes that predict a failure of the case,
// each with the predicted effect: "host-panic", "panic-error" (Run returns a *PanicError where
// gc's program does not panic), "silent" (no error, but the record differs from gc's), "hang",
// "undocumented-error". A later class shows only where an earlier one has been cured.
func predictions(cc callCase) (ps [][2]string) {
	k, st := cc.kind, cc.st
	add := func(class, effect string) { ps = append(ps, [2]string{class, effect}) }
	if k.neverBuilds {
		return nil
	}
	if st.appendElem {
		add(classAppend, "host-panic")
	}
	if k.mv && st.iface {
		// the method value reaches the interface as a *callable: callable.Value is not involved
		if st.mvIface != "" && !k.noGc {
			add(classMethodValueInterface, st.mvIface)
		}
		return ps
	}
	if k.raw != "" && st.reflect && !k.noGc {
		if st.envEffect != "" {
			add(classEnvValue, st.envEffect)
		} else {
			add(classEnvValue, "host-panic")
		}
	}
	if k.mv && (st.name == "go-local" || st.name == "go-direct" && k.imv) {
		add(classGoMethodValue, "undocumented-error")
	}
	if st.name == "channel-range" && strings.HasSuffix(k.args, "...") {
		add(classRangeChanSpread, "panic-error")
	}
	if k.nilFn && st.nilCmp {
		if st.name == "nil-compare-then-call" {
			add(classNilConversion, "panic-error")
		} else {
			add(classNilConversion, "silent")
		}
	}
	return ps
}

// predict returns the first prediction whose class is active (all of them if active is nil).
func predict(cc callCase, active map[string]bool) (class, effect string) {
	for _, p := range predictions(cc) {
		if active == nil || active[p[0]] {
			return p[0], p[1]
		}
	}
	return "", ""
}

// goType is a Scriggo type as reflect prints the Go type.
func goType(t string) string {
	t = strings.ReplaceAll(t, "x.", "main.")
	return strings.ReplaceAll(t, "interface{}", "interface {}")
}

// messageOf tells whether the failure carries the message the class predicts.
func messageOf(class string, cc callCase, o outcome) bool {
	msg := o.errMsg
	if o.hostPanic {
		msg = o.panicVal
	}
	switch class {
	case classEnvValue:
		if cc.st.envEffect == "hang" {
			return true
		}
		return strings.Contains(msg, fmt.Sprintf("reflect.Set: value of type %s is not assignable to type %s", cc.kind.raw, goType(cc.kind.typ)))
	case classAppend:
		t := cc.kind.typ
		if cc.kind.gcTyp != "" { // a macro: the func type with the result native.HTML
			return strings.Contains(msg, "reflect.Set: value of type *runtime.callable is not assignable to type func(")
		}
		return strings.Contains(msg, "reflect.Set: value of type *runtime.callable is not assignable to type "+goType(t))
	case classMethodValueInterface:
		if cc.st.mvIface == "silent" {
			return true
		}
		return strings.Contains(msg, "interface conversion: interface {} is *runtime.callable, not "+goType(cc.kind.typ)) ||
			cc.st.name == "argument-native-interface" && strings.Contains(msg, "reflect: call of reflect.Value.Call on ptr Value")
	case classGoMethodValue:
		return o.errType == "runtime.errorString" && strings.Contains(msg, "nil pointer dereference")
	case classNilConversion:
		return true
	case classRangeChanSpread:
		return strings.Contains(msg, "reflect.Set: value of type *runtime.callable is not assignable to type []int")
	}
	return false
}

// activeClasses replays the recorded minimal input of every open finding of the family — it
// is a case of the matrix — and returns the classes whose witness still fails as its class
// predicts.
func activeClasses(c *hx.Ctx, all []callCase, gc map[string]string) map[string]bool {
	active := map[string]bool{}
	for _, f := range c.Findings {
		if !isCallableClass(f.ID) {
			continue
		}
		c.Res.Count("finding:"+f.ID, true)
		for _, cc := range all {
			if cc.cs.Src != f.Minimal || len(cc.cs.Extra) != 0 {
				continue
			}
			class, effect := predict(cc, nil)
			o, tr := runCallable(cc)
			got, clause := observe(cc, o, tr, gc)
			if class == f.ID && got == effect && messageOf(class, cc, o) {
				active[f.ID] = true
				c.Res.AddBreak(proto.Break{Kind: "property", Name: clause, Case: "callable " + cc.id() + " " + proto.Hex([]byte(cc.cs.Src)), Human: caseHuman(cc.cs),
					Impl: o.String() + "; record: " + tr, Model: "no host panic; the record of the analogous Go program under gc: " + gc[cc.gcKey], Finding: f.ID})
			}
			break
		}
	}
	return active
}

// ---------------------------------------------------------------- tie to Model/CallableValue.lean

// funcValueTie compares the model of function values as Go values (what callable.Value does
// and which store sites convert, regenerated; the static types, removeEnvArg) with the real code:
// per kind of the family, the parameter list of the real Go function (reflect) against the
// model's verdict "has an environment parameter the Scriggo code does not see", and the model's
// verdict "the value handed out has the static type" against what happens when the real
// virtual machine stores that callable in a slice; the verdict on appendSlice against append.
func funcValueTie(c *hx.Ctx, all []callCase, gc map[string]string) error {
	if c.D == nil {
		return nil
	}
	ans, err := c.D.Ask("C05 funcvalues")
	if err != nil {
		return err
	}
	c.Res.Hist("funcvalues: " + ans)
	fields := map[string]string{}
	for _, f := range strings.Fields(strings.TrimPrefix(ans, "ok ")) {
		if k, v, ok := strings.Cut(f, ":"); ok {
			fields[k] = v
		}
	}
	find := func(id string) (callCase, bool) {
		for _, cc := range all {
			if cc.id() == id {
				return cc, true
			}
		}
		return callCase{}, false
	}
	// fails tells whether the case of the matrix fails today
	fails := func(id string) (bool, string) {
		cc, ok := find(id)
		if !ok {
			return false, "no such case"
		}
		o, tr := runCallable(cc)
		got, _ := observe(cc, o, tr, gc)
		return got != "ok", o.String()
	}
	// the store site of append
	appendConverts := strings.Contains(","+fields["sites"]+",", ",VM.appendSlice=1,")
	if bad, impl := fails("lit/slice-append/program"); bad == appendConverts {
		c.Res.AddBreak(proto.Break{Kind: "correspondence", Name: "CallableValue-vs-append", Case: "C05 funcvalues", Human: "fs = append(fs, func() {…})",
			Impl: impl, Model: ans})
	}
	c.Res.Count("funcvalues append", true)
	// per kind
	type probe struct {
		kind, shape string
		typ         reflect.Type
	}
	ct, pct, ci := reflect.TypeOf(CT{}), reflect.TypeOf(&CT{}), reflect.TypeOf((*CI)(nil)).Elem()
	_ = ci
	var probes []probe
	for _, k := range callKinds() {
		switch {
		case strings.HasPrefix(k.expr, "x.CT."):
			m, _ := ct.MethodByName(strings.TrimPrefix(k.expr, "x.CT."))
			probes = append(probes, probe{k.name, "r", m.Type})
		case strings.HasPrefix(k.expr, "(*x.CT)."):
			m, _ := pct.MethodByName(strings.TrimPrefix(k.expr, "(*x.CT)."))
			probes = append(probes, probe{k.name, "r", m.Type})
		case strings.HasPrefix(k.expr, "ct§."):
			name := strings.TrimPrefix(k.expr, "ct§.")
			v := reflect.ValueOf(&CT{}).MethodByName(name)
			probes = append(probes, probe{k.name, "v", v.Type()})
		case strings.HasPrefix(k.expr, "pt§."):
			v := reflect.ValueOf(&CT{}).MethodByName(strings.TrimPrefix(k.expr, "pt§."))
			probes = append(probes, probe{k.name, "v", v.Type()})
		case strings.HasPrefix(k.expr, "x.") && !strings.Contains(k.expr, "(") && !k.noGc:
			if d, ok := callableDecls[strings.TrimPrefix(k.expr, "x.")]; ok && reflect.TypeOf(d).Kind() == reflect.Func {
				probes = append(probes, probe{k.name, "n", reflect.TypeOf(d)})
			}
		case k.decl != "" || strings.HasPrefix(k.expr, "func("):
			probes = append(probes, probe{k.name, "s", nil})
		}
	}
	envType := reflect.TypeOf((*native.Env)(nil)).Elem()
	var lines []string
	for _, p := range probes {
		ins := ""
		if p.typ != nil {
			for i := 0; i < p.typ.NumIn(); i++ {
				if p.typ.In(i) == envType {
					ins += "e"
				} else {
					ins += "o"
				}
			}
		}
		if ins == "" {
			ins = "-"
		}
		lines = append(lines, "C05 valuetype "+p.shape+" "+ins)
	}
	answers, err := c.D.Batch(lines)
	if err != nil {
		return err
	}
	kinds := map[string]callKind{}
	for _, k := range callKinds() {
		kinds[k.name] = k
	}
	for i, p := range probes {
		c.Res.Count(lines[i]+" "+p.kind, true)
		f := strings.Fields(answers[i])
		if len(f) != 4 || f[0] != "ok" {
			c.Res.AddBreak(proto.Break{Kind: "correspondence", Name: "CallableValue-protocol", Case: lines[i], Impl: p.kind, Model: answers[i]})
			continue
		}
		k := kinds[p.kind]
		// the family's table against the model on the real function's parameters
		if (f[2] == "1") != (k.raw != "") {
			c.Res.AddBreak(proto.Break{Kind: "correspondence", Name: "CallableValue-environment-parameter", Case: lines[i], Human: k.expr,
				Impl:  fmt.Sprintf("the family treats %s as a callable %s an environment parameter (Go type %v)", p.kind, map[bool]string{true: "with", false: "without"}[k.raw != ""], p.typ),
				Model: answers[i]})
			continue
		}
		// the model's verdict against the real virtual machine storing the callable in a slice
		id := p.kind + "/slice-literal/program"
		if k.noProg {
			id = p.kind + "/slice-literal/template"
		}
		if _, ok := find(id); !ok {
			continue
		}
		if bad, impl := fails(id); bad == (f[1] == "1") {
			c.Res.AddBreak(proto.Break{Kind: "correspondence", Name: "CallableValue-vs-store", Case: lines[i], Human: "[]" + k.typ + "{" + unsuffix(k.expr) + "}",
				Impl: impl, Model: answers[i] + " (" + ans + ")"})
		}
	}
	return nil
}
