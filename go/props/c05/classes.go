package main

import (
	"fmt"
	"strings"

	"verifharness/internal/hx"
	"verifharness/internal/proto"
)

// The known findings of the family "callables as first-class values", as predictions
// (fixes/FINDING-CLASSES.md): from the case alone — the kind of callable and the storage, never
// from what the code did — which class a failure belongs to and how it shows. A failing case is
// attributed to a class only if the class predicts it, with the predicted effect and the
// predicted message; everything else is a violation. The matrix itself measures the precision of
// the predictions on every run (class-precision/… in the evidence; VERIF_C05_STRICT=1 makes a
// precision below 95 % a break). A class whose recorded minimal input no longer fails in the
// predicted way is inactive: nothing is attributed to it.

const (
	// a native function or method with a native.Env parameter, stored in or converted to a Go
	// value of the func type the Scriggo program sees: callable.Value hands out the Go
	// function as it is, reflect.Value.Set refuses it
	classEnvValue = "native-env-func-as-value"
	// a function value as an operand of append: appendSlice has no case for reflect.Func and
	// stores the virtual machine's *callable into the func-typed element
	classAppend = "append-func-value"
	// a method value converted to an interface value: the *callable is stored in the interface
	classMethodValueInterface = "method-value-in-interface"
	// go f() with f a method value: startGoroutine dereferences the nil callable.native
	classGoMethodValue = "go-method-value"
	// a nil function value compared with nil is not nil
	classNilConversion = "nil-func-compares-not-nil"
	// for f := range ch { f(xs...) } with f a variadic native function: the registers of the call
	// are mixed up (the callable lands where the slice is expected)
	classRangeChanSpread = "range-channel-spread-call"
)

var callableClasses = []string{classEnvValue, classAppend, classMethodValueInterface, classGoMethodValue, classNilConversion, classRangeChanSpread}

func isCallableClass(id string) bool {
	for _, c := range callableClasses {
		if c == id {
			return true
		}
	}
	return false
}

// predict returns the class that predicts a failure of the case and the predicted effect:
// "host-panic", "panic-error" (Run returns a *PanicError where gc's program does not panic),
// "silent" (no error, but the record differs from gc's), "hang", "undocumented-error".
func predict(cc callCase) (class, effect string) {
	k, st := cc.kind, cc.st
	switch {
	case k.neverBuilds:
		return "", ""
	case st.appendElem:
		return classAppend, "host-panic"
	case k.mv && st.iface:
		if st.mvIface != "" && !k.noGc {
			return classMethodValueInterface, st.mvIface
		}
		return "", ""
	case k.raw != "" && st.reflect && !k.noGc:
		if st.envEffect != "" {
			return classEnvValue, st.envEffect
		}
		return classEnvValue, "host-panic"
	case k.mv && (st.name == "go-local" || st.name == "go-direct" && k.imv):
		return classGoMethodValue, "undocumented-error"
	case st.name == "channel-range" && strings.HasPrefix(k.expr, "x.Nat") && strings.HasSuffix(k.args, "..."):
		return classRangeChanSpread, "panic-error"
	case k.nilFn && st.nilCmp:
		if st.name == "nil-compare-then-call" {
			return classNilConversion, "panic-error"
		}
		return classNilConversion, "silent"
	}
	return "", ""
}

// goType is a Scriggo type as reflect prints the Go type.
func goType(t string) string {
	t = strings.ReplaceAll(t, "x.", "main.")
	return strings.ReplaceAll(t, "interface{}", "interface {}")
}

// messageOf tells whether the failure carries the message the class predicts.
func messageOf(class string, cc callCase, o outcome) bool {
	msg := o.errMsg
	if o.hostPanic {
		msg = o.panicVal
	}
	switch class {
	case classEnvValue:
		if cc.st.envEffect == "hang" {
			return true
		}
		return strings.Contains(msg, fmt.Sprintf("reflect.Set: value of type %s is not assignable to type %s", cc.kind.raw, goType(cc.kind.typ)))
	case classAppend:
		t := cc.kind.typ
		if cc.kind.gcTyp != "" { // a macro: the func type with the result native.HTML
			return strings.Contains(msg, "reflect.Set: value of type *runtime.callable is not assignable to type func(")
		}
		return strings.Contains(msg, "reflect.Set: value of type *runtime.callable is not assignable to type "+goType(t))
	case classMethodValueInterface:
		if cc.st.mvIface == "silent" {
			return true
		}
		return strings.Contains(msg, "interface conversion: interface {} is *runtime.callable, not "+goType(cc.kind.typ)) ||
			cc.st.name == "argument-native-interface" && strings.Contains(msg, "reflect: call of reflect.Value.Call on ptr Value")
	case classGoMethodValue:
		return o.errType == "runtime.errorString" && strings.Contains(msg, "nil pointer dereference")
	case classNilConversion:
		return true
	case classRangeChanSpread:
		return strings.Contains(msg, "reflect.Set: value of type *runtime.callable is not assignable to type []int")
	}
	return false
}

// activeClasses replays the recorded minimal input of every open finding of the family — it
// is a case of the matrix — and returns the classes whose witness still fails as its class
// predicts.
func activeClasses(c *hx.Ctx, all []callCase, gc map[string]string) map[string]bool {
	active := map[string]bool{}
	for _, f := range c.Findings {
		if !isCallableClass(f.ID) {
			continue
		}
		c.Res.Count("finding:"+f.ID, true)
		for _, cc := range all {
			if cc.cs.Src != f.Minimal || len(cc.cs.Extra) != 0 {
				continue
			}
			class, effect := predict(cc)
			o, tr := runCallable(cc)
			got, clause := observe(cc, o, tr, gc)
			if class == f.ID && got == effect && messageOf(class, cc, o) {
				active[f.ID] = true
				c.Res.AddBreak(proto.Break{Kind: "property", Name: clause, Case: "callable " + cc.id() + " " + proto.Hex([]byte(cc.cs.Src)), Human: caseHuman(cc.cs),
					Impl: o.String() + "; record: " + tr, Model: "no host panic; the record of the analogous Go program under gc: " + gc[cc.gcKey], Finding: f.ID})
			}
			break
		}
	}
	return active
}
