package main

import (
	"fmt"
	"reflect"
	"regexp"
	"strings"
	"sync"
	"time"

	"github.com/open2b/scriggo/builtin"
	"github.com/open2b/scriggo/native"
)

// Family "callables as first-class values": every kind of callable (Scriggo function literals
// and declarations, native functions with and without a native.Env parameter, variadic ones,
// method values and method expressions of native types, functions of the builtin package,
// function values that come out of native code, macros) × every way a function value can be
// stored or moved (variables, closures, package-level variables, composite values, interfaces,
// channels, arguments and results of Scriggo and native functions, defer and go operands,
// comparison with nil, show) × {programs, templates with globals, templates importing the
// package}. Every case calls its callable exactly once (or never: nil comparison, show); the
// callee and the caller record what happened (hit, result, mark) and the record is compared
// with what real gc does for the analogous Go program.

// ---------------------------------------------------------------- the recorder

type recorder struct {
	mu sync.Mutex
	ev []string
}

var crec recorder

func (r *recorder) add(e string) {
	r.mu.Lock()
	r.ev = append(r.ev, e)
	r.mu.Unlock()
}

func (r *recorder) reset() {
	r.mu.Lock()
	r.ev = nil
	r.mu.Unlock()
	fvarA = func() { crHit("FVarA") }
	fvarB = func(s string) int { crHit("FVarB"); return len(s) }
}

func (r *recorder) trace() string {
	r.mu.Lock()
	defer r.mu.Unlock()
	return strings.Join(r.ev, " ")
}

func (r *recorder) hits() int {
	r.mu.Lock()
	defer r.mu.Unlock()
	n := 0
	for _, e := range r.ev {
		if strings.HasPrefix(e, "hit:") {
			n++
		}
	}
	return n
}

func crHit(name string) { crec.add("hit:" + name) }
func crRes(v any)       { crec.add("res:" + fmt.Sprint(v)) }
func crMark()           { crec.add("mark") }

// crWait waits (at most two seconds) for the n calls that a go statement starts.
func crWait(n int) {
	for t0 := time.Now(); crec.hits() < n && time.Since(t0) < 2*time.Second; {
		time.Sleep(50 * time.Microsecond)
	}
}

func crEnv(env native.Env, name string) {
	if env == nil {
		crec.add("nilenv:" + name)
	}
	crHit(name)
}

// ---------------------------------------------------------------- the natives

// CT is a native type with methods, with and without the environment parameter.
type CT struct{ N int }

func (t CT) M()                               { crHit("CT.M") }
func (t CT) ME(env native.Env)                { crEnv(env, "CT.ME") }
func (t CT) MS(s string) int                  { crHit("CT.MS"); return len(s) + t.N }
func (t CT) MES(env native.Env, s string) int { crEnv(env, "CT.MES"); return len(s) + t.N }
func (t *CT) PM()                             { crHit("CT.PM") }
func (t *CT) PME(env native.Env)              { crEnv(env, "CT.PME") }
func (t CT) MEV(env native.Env, a ...int) int { crEnv(env, "CT.MEV"); return sum(a) + t.N }
func (t CT) Call(f func())                    { f() }

// CI is a native interface type, one of its methods takes the environment.
type CI interface {
	M()
	ME(env native.Env)
}

func sum(a []int) int {
	n := 0
	for _, v := range a {
		n += v
	}
	return n
}

var (
	fvarA func()
	fvarB func(s string) int
)

func applyAny(f any, args ...any) any {
	in := make([]reflect.Value, len(args))
	for i, a := range args {
		in[i] = reflect.ValueOf(a)
	}
	out := reflect.ValueOf(f).Call(in)
	if len(out) == 0 {
		return nil
	}
	return out[0].Interface()
}

var callableDecls = native.Declarations{
	"Hit":  crHit,
	"Res":  crRes,
	"Mark": crMark,
	"Wait": crWait,

	"CT": reflect.TypeOf(CT{}),
	"CI": reflect.TypeOf((*CI)(nil)).Elem(),

	"Nat":     func() { crHit("Nat") },
	"NatEnv":  func(env native.Env) { crEnv(env, "NatEnv") },
	"NatS":    func(s string) int { crHit("NatS"); return len(s) },
	"NatEnvS": func(env native.Env, s string) int { crEnv(env, "NatEnvS"); return len(s) },
	"NatI":    func(a int) int { crHit("NatI"); return -a },
	"NatEnvI": func(env native.Env, a int) int { crEnv(env, "NatEnvI"); return -a },
	"NatV":    func(a ...int) int { crHit("NatV"); return sum(a) },
	"NatEnvV": func(env native.Env, a ...int) int { crEnv(env, "NatEnvV"); return sum(a) },
	"NatSSB":  func(s, t string) bool { crHit("NatSSB"); return strings.HasPrefix(s, t) },
	"NatSI":   func(s string, n int) string { crHit("NatSI"); return s[:n] },
	"NatEnvF": func(env native.Env, f func()) { crEnv(env, "NatEnvF"); f() },

	"HasPrefix": builtin.HasPrefix,
	"Sprintf":   builtin.Sprintf,
	"Abs":       builtin.Abs,
	"ToUpper":   builtin.ToUpper,

	"ApplyA": func(f func()) { f() },
	"ApplyB": func(f func(string) int) int { return f("ab") },
	"ApplyV": func(f func(...int) int) int { return f(1, 2, 3) },
	"ApplyAll": func(fs ...func()) {
		for _, f := range fs {
			f()
		}
	},
	"Apply": applyAny,
	"IdA":   func(f func()) func() { return f },
	"IdB":   func(f func(string) int) func(string) int { return f },
	"Id":    func(v any) any { return v },
	"RetA":  func() func() { return func() { crHit("RetA.f") } },
	"RetB":  func() func(string) int { return func(s string) int { crHit("RetB.f"); return len(s) } },

	"PanicValue": func() { panic(42) },
	"PanicStr":   func() { panic("native string") },

	"FVarA":     &fvarA,
	"FVarB":     &fvarB,
	"CallFVarA": func() { fvarA() },
	"CallFVarB": func(s string) int { return fvarB(s) },
}

// gcXSource is package x for gc: the same declarations with the signatures a Scriggo program
// sees (the environment parameter is not part of them).
const gcXSource = `package x

import (
	"fmt"
	"reflect"
	"strings"
	"sync"
	"time"
)

var (
	mu sync.Mutex
	ev []string
)

func add(e string) { mu.Lock(); ev = append(ev, e); mu.Unlock() }

func Reset() {
	mu.Lock()
	ev = nil
	mu.Unlock()
	FVarA = func() { Hit("FVarA") }
	FVarB = func(s string) int { Hit("FVarB"); return len(s) }
}

func Trace() string { mu.Lock(); defer mu.Unlock(); return strings.Join(ev, " ") }

func hits() int {
	mu.Lock()
	defer mu.Unlock()
	n := 0
	for _, e := range ev {
		if strings.HasPrefix(e, "hit:") {
			n++
		}
	}
	return n
}

func Hit(name string) { add("hit:" + name) }
func Res(v any)       { add("res:" + fmt.Sprint(v)) }
func Mark()           { add("mark") }
func Panicked()       { add("panic") }
func Wait(n int) {
	for t0 := time.Now(); hits() < n && time.Since(t0) < 2*time.Second; {
		time.Sleep(50 * time.Microsecond)
	}
}

type CT struct{ N int }

func (t CT) M()                  { Hit("CT.M") }
func (t CT) ME()                 { Hit("CT.ME") }
func (t CT) MS(s string) int     { Hit("CT.MS"); return len(s) + t.N }
func (t CT) MES(s string) int    { Hit("CT.MES"); return len(s) + t.N }
func (t *CT) PM()                { Hit("CT.PM") }
func (t *CT) PME()               { Hit("CT.PME") }
func (t CT) MEV(a ...int) int    { Hit("CT.MEV"); return sum(a) + t.N }
func (t CT) Call(f func())       { f() }

type CI interface {
	M()
	ME()
}

func sum(a []int) int {
	n := 0
	for _, v := range a {
		n += v
	}
	return n
}

func Nat()                      { Hit("Nat") }
func NatEnv()                   { Hit("NatEnv") }
func NatS(s string) int         { Hit("NatS"); return len(s) }
func NatEnvS(s string) int      { Hit("NatEnvS"); return len(s) }
func NatI(a int) int            { Hit("NatI"); return -a }
func NatEnvI(a int) int         { Hit("NatEnvI"); return -a }
func NatV(a ...int) int         { Hit("NatV"); return sum(a) }
func NatEnvV(a ...int) int      { Hit("NatEnvV"); return sum(a) }
func NatSSB(s, t string) bool   { Hit("NatSSB"); return strings.HasPrefix(s, t) }
func NatSI(s string, n int) string { Hit("NatSI"); return s[:n] }
func NatEnvF(f func())          { Hit("NatEnvF"); f() }

func HasPrefix(s, prefix string) bool          { return strings.HasPrefix(s, prefix) }
func Sprintf(format string, a ...any) string   { return fmt.Sprintf(format, a...) }
func ToUpper(s string) string                  { return strings.ToUpper(s) }
func Abs(x int) int {
	if x < 0 {
		return -x
	}
	return x
}

func ApplyA(f func())                  { f() }
func ApplyB(f func(string) int) int    { return f("ab") }
func ApplyV(f func(...int) int) int    { return f(1, 2, 3) }
func ApplyAll(fs ...func()) {
	for _, f := range fs {
		f()
	}
}
func Apply(f any, args ...any) any {
	in := make([]reflect.Value, len(args))
	for i, a := range args {
		in[i] = reflect.ValueOf(a)
	}
	out := reflect.ValueOf(f).Call(in)
	if len(out) == 0 {
		return nil
	}
	return out[0].Interface()
}
func IdA(f func()) func()                          { return f }
func IdB(f func(string) int) func(string) int      { return f }
func Id(v any) any                                 { return v }
func RetA() func()                                 { return func() { Hit("RetA.f") } }
func RetB() func(string) int                       { return func(s string) int { Hit("RetB.f"); return len(s) } }

var (
	FVarA = func() { Hit("FVarA") }
	FVarB = func(s string) int { Hit("FVarB"); return len(s) }
)

func PanicValue() { panic(42) }
func PanicStr()   { panic("native string") }

func CallFVarA()            { FVarA() }
func CallFVarB(s string) int { return FVarB(s) }
`

func init() {
	for k, v := range callableDecls {
		packages["x"].(native.Package).Declarations[k] = v
	}
}

var typeGlobals = map[string]bool{"CT": true, "CI": true}

func lowerFirst(s string) string { return strings.ToLower(s[:1]) + s[1:] }

// callableGlobals are the same declarations as template globals (functions and variables with
// a lower-case initial, types as they are).
func callableGlobals() map[string]any {
	g := map[string]any{}
	for k, v := range callableDecls {
		if typeGlobals[k] {
			g[k] = v
		} else {
			g[lowerFirst(k)] = v
		}
	}
	return g
}

var qualRe = regexp.MustCompile(`\bx\.([A-Z]\w*)`)

// unqualify rewrites x.Name into the name of the template global.
func unqualify(src string) string {
	return qualRe.ReplaceAllStringFunc(src, func(m string) string {
		name := m[2:]
		if typeGlobals[name] {
			return name
		}
		return lowerFirst(name)
	})
}

// ---------------------------------------------------------------- kinds of callables

type callKind struct {
	name string
	typ  string // the type a Scriggo program sees
	expr string // the expression that denotes the callable
	args string // arguments of the one call
	res  bool   // the call has a result (recorded with x.Res)
	pre  string // statements needed before expr (a receiver, a captured variable)
	decl string // package-level declaration of a program (§ is the per-case suffix)
	// macro is the declaration of a template (kinds that exist in templates only); gcDecl/gcExpr
	// are then the analogous Go function
	macro          string
	extra          map[string]string
	gcDecl, gcExpr string
	gcTyp          string
	noProg         bool   // templates only
	noTmpl         bool   // programs only
	noHit          bool   // the callee does not record its call (functions of the builtin package)
	nilFn          bool   // a nil function value: the call panics
	calls          int    // the number of recorded calls if not one (the callee calls its argument)
	raw            string // native kinds with an environment parameter: the Go type of the function
	neverBuilds    bool   // a Go builtin: cannot be used as a value
	mv             bool   // a method value (the virtual machine keeps it as a bound Go func value)
	imv            bool   // … of an interface value
	// noGc: the type checker does not remove the environment parameter of a method of a native
	// interface type (the method cannot be called by Scriggo code at all): no analogous Go program
	noGc bool
}

func callKinds() []callKind {
	ct := "var ct§ = x.CT{N: 1}\nvar _ = ct§"
	return []callKind{
		// Scriggo functions
		{name: "lit", typ: "func()", expr: `func() { x.Hit("lit") }`},
		{name: "litS", typ: "func(string) int", expr: `func(s string) int { x.Hit("litS"); return len(s) }`, args: `"ab"`, res: true},
		{name: "litV", typ: "func(...int) int", expr: `func(a ...int) int { x.Hit("litV"); n := 0; for _, v := range a { n += v }; return n }`, args: "1, 2, 3", res: true},
		{name: "litClosure", typ: "func() int", pre: "var n§ = 40", expr: `func() int { x.Hit("litClosure"); n§ += 2; return n§ }`, res: true},
		{name: "decl", typ: "func()", decl: `func decl§() { x.Hit("decl") }`, expr: "decl§", noTmpl: true},
		{name: "declS", typ: "func(string) int", decl: `func declS§(s string) int { x.Hit("declS"); return len(s) }`, expr: "declS§", args: `"ab"`, res: true, noTmpl: true},
		{name: "declV", typ: "func(...int) int", decl: `func declV§(a ...int) int { x.Hit("declV"); return len(a) }`, expr: "declV§", args: "1, 2, 3", res: true, noTmpl: true},
		// native functions
		{name: "nat", typ: "func()", expr: "x.Nat"},
		{name: "natEnv", typ: "func()", expr: "x.NatEnv", raw: "func(native.Env)"},
		{name: "natS", typ: "func(string) int", expr: "x.NatS", args: `"ab"`, res: true},
		{name: "natEnvS", typ: "func(string) int", expr: "x.NatEnvS", args: `"ab"`, res: true, raw: "func(native.Env, string) int"},
		{name: "natI", typ: "func(int) int", expr: "x.NatI", args: "3", res: true},
		{name: "natEnvI", typ: "func(int) int", expr: "x.NatEnvI", args: "3", res: true, raw: "func(native.Env, int) int"},
		{name: "natV", typ: "func(...int) int", expr: "x.NatV", args: "1, 2, 3", res: true},
		{name: "natV-spread", typ: "func(...int) int", pre: "var xs§ = []int{1, 2, 3}\nvar _ = xs§", expr: "x.NatV", args: "xs§...", res: true},
		{name: "litV-spread", typ: "func(...int) int", pre: "var xs§ = []int{1, 2, 3}\nvar _ = xs§", expr: `func(a ...int) int { x.Hit("litV"); return len(a) }`, args: "xs§...", res: true},
		{name: "natEnvV", typ: "func(...int) int", expr: "x.NatEnvV", args: "1, 2, 3", res: true, raw: "func(native.Env, ...int) int"},
		{name: "natEnvV-spread", typ: "func(...int) int", pre: "var xs§ = []int{1, 2, 3}\nvar _ = xs§", expr: "x.NatEnvV", args: "xs§...", res: true, raw: "func(native.Env, ...int) int"},
		{name: "natEnvV-none", typ: "func(...int) int", expr: "x.NatEnvV", args: "", res: true, raw: "func(native.Env, ...int) int"},
		{name: "natEnvF", calls: 2, typ: "func(func())", expr: "x.NatEnvF", args: `func() { x.Hit("arg") }`, raw: "func(native.Env, func())"},
		// natives with the signatures the virtual machine calls without reflect, functions of the builtin package
		{name: "natSSB", typ: "func(string, string) bool", expr: "x.NatSSB", args: `"abc", "ab"`, res: true},
		{name: "natSI", typ: "func(string, int) string", expr: "x.NatSI", args: `"abc", 2`, res: true},
		{name: "builtin-hasPrefix", typ: "func(string, string) bool", expr: "x.HasPrefix", args: `"abc", "ab"`, res: true, noHit: true},
		{name: "builtin-toUpper", typ: "func(string) string", expr: "x.ToUpper", args: `"ab"`, res: true, noHit: true},
		{name: "builtin-abs", typ: "func(int) int", expr: "x.Abs", args: "-3", res: true, noHit: true},
		{name: "builtin-sprintf", typ: "func(string, ...interface{}) string", expr: "x.Sprintf", args: `"%d-%s", 1, "a"`, res: true, noHit: true},
		// method values and method expressions of native types
		{name: "methodValue", mv: true, typ: "func()", pre: ct, expr: "ct§.M"},
		{name: "methodValueEnv", mv: true, typ: "func()", pre: ct, expr: "ct§.ME", raw: "func(native.Env)"},
		{name: "methodValueS", mv: true, typ: "func(string) int", pre: ct, expr: "ct§.MS", args: `"ab"`, res: true},
		{name: "methodValueEnvS", mv: true, typ: "func(string) int", pre: ct, expr: "ct§.MES", args: `"ab"`, res: true, raw: "func(native.Env, string) int"},
		{name: "methodValueEnvV", mv: true, typ: "func(...int) int", pre: ct, expr: "ct§.MEV", args: "1, 2", res: true, raw: "func(native.Env, ...int) int"},
		{name: "ptrMethodValue", mv: true, typ: "func()", pre: "var pt§ = &x.CT{N: 1}\nvar _ = pt§", expr: "pt§.PM"},
		{name: "ptrMethodValueEnv", mv: true, typ: "func()", pre: "var pt§ = &x.CT{N: 1}\nvar _ = pt§", expr: "pt§.PME", raw: "func(native.Env)"},
		{name: "addrMethodValueEnv", mv: true, typ: "func()", pre: ct, expr: "ct§.PME", raw: "func(native.Env)"},
		{name: "ifaceMethodValue", mv: true, imv: true, typ: "func()", pre: "var ci§ x.CI = x.CT{N: 1}\nvar _ = ci§", expr: "ci§.M"},
		{name: "ifaceMethodValueEnv", mv: true, imv: true, noGc: true, typ: "func()", pre: "var ci§ x.CI = x.CT{N: 1}\nvar _ = ci§", expr: "ci§.ME", raw: "func(native.Env)"},
		{name: "methodExpr", typ: "func(x.CT)", expr: "x.CT.M", args: "x.CT{N: 1}"},
		{name: "methodExprEnv", typ: "func(x.CT)", expr: "x.CT.ME", args: "x.CT{N: 1}", raw: "func(main.CT, native.Env)"},
		{name: "methodExprEnvS", typ: "func(x.CT, string) int", expr: "x.CT.MES", args: `x.CT{N: 1}, "ab"`, res: true, raw: "func(main.CT, native.Env, string) int"},
		{name: "ptrMethodExprEnv", typ: "func(*x.CT)", expr: "(*x.CT).PME", args: "&x.CT{N: 1}", raw: "func(*main.CT, native.Env)"},
		{name: "ifaceMethodExpr", typ: "func(x.CI)", expr: "x.CI.M", args: "x.CT{N: 1}"},
		{name: "ifaceMethodExprEnv", noGc: true, typ: "func(x.CI)", expr: "x.CI.ME", args: "x.CT{N: 1}", raw: "func(main.CI, native.Env)"},
		// function values that come out of native code
		{name: "nativeResult", typ: "func()", expr: "x.RetA()"},
		{name: "nativeResultS", typ: "func(string) int", expr: "x.RetB()", args: `"ab"`, res: true},
		{name: "nativeVar", typ: "func()", expr: "x.FVarA"},
		{name: "nativeVarS", typ: "func(string) int", expr: "x.FVarB", args: `"ab"`, res: true},
		// the nil function value
		{name: "nil", typ: "func()", expr: "(func())(nil)", nilFn: true},
		// a Go builtin is not a value
		{name: "goBuiltin", typ: "func(...interface{})", expr: "println", args: `"a"`, neverBuilds: true},
		// macros
		{name: "macro", typ: "macro() html", macro: `{% macro M %}{% x.Hit("M") %}m{% end %}`, expr: "M", res: true, noProg: true,
			gcTyp: "func() string", gcDecl: `func M§() string { x.Hit("M"); return "m" }`, gcExpr: "M§"},
		{name: "macroS", typ: "macro(string) html", macro: `{% macro MS(s string) %}{% x.Hit("MS") %}{{ s }}{% end %}`, expr: "MS", args: `"ab"`, res: true, noProg: true,
			gcTyp: "func(string) string", gcDecl: `func MS§(s string) string { x.Hit("MS"); return s }`, gcExpr: "MS§"},
		{name: "macroImported", typ: "macro() html", macro: `{% import "macros.html" %}`, extra: map[string]string{"macros.html": `{% macro IM %}{% x.Hit("IM") %}m{% end %}`},
			expr: "IM", res: true, noProg: true, gcTyp: "func() string", gcDecl: `func IM§() string { x.Hit("IM"); return "m" }`, gcExpr: "IM§"},
		{name: "macroQualified", typ: "macro() html", macro: `{% import mq "macros.html" %}`, extra: map[string]string{"macros.html": `{% macro IM %}{% x.Hit("IM") %}m{% end %}`},
			expr: "mq.IM", res: true, noProg: true, gcTyp: "func() string", gcDecl: `func IM§() string { x.Hit("IM"); return "m" }`, gcExpr: "IM§"},
	}
}

// ---------------------------------------------------------------- storages and transports

// cx is what a storage sees of a kind.
type cx struct {
	T, E, A string
	res     bool
	N       int // the number of calls the one call makes (the callee may call its argument)
}

// Call is the one call of the callable through the expression f.
func (c cx) Call(f string) string {
	if c.res {
		return "x.Res(" + f + "(" + c.A + "))"
	}
	return f + "(" + c.A + ")"
}

// Bare is the call as the operand of a defer or go statement (a result is discarded).
func (c cx) Bare(f string) string { return f + "(" + c.A + ")" }

type storage struct {
	name string
	// body returns the package-level declarations (§ is the per-case suffix) and the
	// statements of a function body
	body func(c cx) (decls, body string)
	// tmpl, for the shapes that exist in templates only: the files of the template; the
	// analogous Go program is that of the storage gcLike
	tmpl   func(c cx, macro string) (index string, extra map[string]string)
	gcLike string
	// reflect says that the function value is stored in, or converted to, a Go value of its
	// func type (a reflect.Value), not kept in a register of the virtual machine
	reflect   bool
	goStmt    bool   // the callee is started with go (the case waits for its record)
	noCall    bool   // the callable is not called
	show      bool   // the callable is shown or printed
	viaNative bool   // native code calls the callable: not for the nil function (a Go run-time error in native code is fatal by design)
	onlyType  string // applies only to kinds of this type
	noSpread  bool   // not for a call with a spread argument
	// gc, for a template-only shape without a program twin: the analogous Go body
	gc func(c cx) string
	// what the known findings predict (see classes.go)
	appendElem bool   // the function value is an operand of append
	iface      bool   // the expression itself is converted to an interface value
	mvIface    string // … and what then happens to a method value: "panic-error", "silent"
	envEffect  string // reflect storages: how the failure of a native with environment shows, if not as a host panic: "panic-error", "hang"
	nilCmp     bool   // the function value is compared with nil
}

func body(f func(c cx) string) func(c cx) (string, string) {
	return func(c cx) (string, string) { return "", f(c) }
}

func storages() []storage {
	f := fmt.Sprintf
	return []storage{
		// no storage: the baseline
		{name: "direct", body: body(func(c cx) string { return c.Call(c.E) })},
		{name: "direct-paren", body: body(func(c cx) string { return c.Call("(" + c.E + ")") })},
		// local variables
		{name: "local-short", body: body(func(c cx) string { return f("fv := %s\n%s", c.E, c.Call("fv")) })},
		{name: "local-var", body: body(func(c cx) string { return f("var fv %s = %s\n%s", c.T, c.E, c.Call("fv")) })},
		{name: "local-var-infer", body: body(func(c cx) string { return f("var fv = %s\n%s", c.E, c.Call("fv")) })},
		{name: "local-assign", body: body(func(c cx) string { return f("var fv %s\nfv = %s\n%s", c.T, c.E, c.Call("fv")) })},
		{name: "local-copy", body: body(func(c cx) string { return f("fv := %s\ngv := fv\n%s", c.E, c.Call("gv")) })},
		{name: "local-multi-assign", body: body(func(c cx) string { return f("var fv, gv %s\nfv, gv = %s, nil\n_ = gv\n%s", c.T, c.E, c.Call("fv")) })},
		{name: "local-in-block", body: body(func(c cx) string { return f("var fv %s\nif true {\nfv = %s\n}\n%s", c.T, c.E, c.Call("fv")) })},
		{name: "local-in-loop", body: body(func(c cx) string { return f("for i := 0; i < 1; i++ {\nfv := %s\n%s\n}", c.E, c.Call("fv")) })},
		{name: "pointer", reflect: true, body: body(func(c cx) string { return f("fv := %s\np := &fv\n%s", c.E, c.Call("(*p)")) })},
		{name: "pointer-set", reflect: true, body: body(func(c cx) string { return f("var fv %s\np := &fv\n*p = %s\n%s", c.T, c.E, c.Call("fv")) })},
		{name: "new", reflect: true, body: body(func(c cx) string { return f("p := new(%s)\n*p = %s\n%s", c.T, c.E, c.Call("(*p)")) })},
		// variables captured by closures
		{name: "closure-capture", reflect: true, body: body(func(c cx) string { return f("fv := %s\ng := func() { %s }\ng()", c.E, c.Call("fv")) })},
		{name: "closure-capture-var", reflect: true, body: body(func(c cx) string { return f("var fv = %s\ng := func() { %s }\ng()", c.E, c.Call("fv")) })},
		{name: "closure-capture-set", reflect: true, body: body(func(c cx) string { return f("var fv %s\ng := func() { fv = %s }\ng()\n%s", c.T, c.E, c.Call("fv")) })},
		{name: "closure-capture-twice", reflect: true, body: body(func(c cx) string {
			return f("fv := %s\ng := func() { h := func() { %s }; h() }\ng()", c.E, c.Call("fv"))
		})},
		{name: "closure-capture-return", reflect: true, body: body(func(c cx) string { return f("fv := %s\nget := func() %s { return fv }\n%s", c.E, c.T, c.Call("get()")) })},
		{name: "closure-direct", body: body(func(c cx) string { return f("g := func() { %s }\ng()", c.Call(c.E)) })},
		{name: "closure-local", body: body(func(c cx) string { return f("g := func() { fv := %s; %s }\ng()", c.E, c.Call("fv")) })},
		{name: "macro-capture", reflect: true, gcLike: "closure-capture", tmpl: func(c cx, macro string) (string, map[string]string) {
			return f("%s{%% var fv = %s %%}{%% macro W %%}{%%%% %s %%%%}{%% end %%}{{ W() }}", macro, c.E, c.Call("fv")), nil
		}},
		{name: "macro-capture-statement", reflect: true, gcLike: "closure-capture", onlyType: "func()", tmpl: func(c cx, macro string) (string, map[string]string) {
			return f("%s{%% var fv = %s %%}{%% macro W %%}{%% fv() %%}x{%% end %%}{{ W() }}", macro, c.E), nil
		}},
		{name: "macro-direct", gcLike: "closure-direct", tmpl: func(c cx, macro string) (string, map[string]string) {
			return f("%s{%% macro W %%}{%%%% %s %%%%}{%% end %%}{{ W() }}", macro, c.Call(c.E)), nil
		}},
		{name: "macro-local", gcLike: "closure-local", tmpl: func(c cx, macro string) (string, map[string]string) {
			return f("%s{%% macro W %%}{%%%% fv := %s; %s %%%%}{%% end %%}{{ W() }}", macro, c.E, c.Call("fv")), nil
		}},
		// package-level variables
		{name: "package-var", reflect: true, body: func(c cx) (string, string) { return f("var G§ %s = %s", c.T, c.E), c.Call("G§") }},
		{name: "package-var-infer", reflect: true, body: func(c cx) (string, string) { return f("var G§ = %s", c.E), c.Call("G§") }},
		{name: "package-var-assign", reflect: true, body: func(c cx) (string, string) { return f("var G§ %s", c.T), f("G§ = %s\n%s", c.E, c.Call("G§")) }},
		{name: "package-var-other-func", reflect: true, body: func(c cx) (string, string) {
			return f("var G§ = %s\nfunc use§() { %s }", c.E, c.Call("G§")), "use§()"
		}},
		{name: "package-var-slice", reflect: true, body: func(c cx) (string, string) { return f("var GS§ = []%s{%s}", c.T, c.E), c.Call("GS§[0]") }},
		{name: "package-var-closure", body: func(c cx) (string, string) { return f("var GC§ = func() { %s }", c.Call(c.E)), "GC§()" }},
		{name: "extends-var", reflect: true, gcLike: "package-var-other-func", tmpl: func(c cx, macro string) (string, map[string]string) {
			return f("{%% extends \"layout.html\" %%}%s{%% var G = %s %%}{%% macro Body %%}{%%%% %s %%%%}{%% end %%}", macro, c.E, c.Call("G")),
				map[string]string{"layout.html": "{{ Body() }}"}
		}},
		{name: "import-var", reflect: true, gcLike: "package-var-other-func", tmpl: func(c cx, macro string) (string, map[string]string) {
			return `{% import "imp.html" %}{{ Use() }}`,
				map[string]string{"imp.html": f("%s{%% var G = %s %%}{%% macro Use %%}{%%%% %s %%%%}{%% end %%}", macro, c.E, c.Call("G"))}
		}},
		{name: "native-var", reflect: true, viaNative: true, onlyType: "func()", body: body(func(c cx) string { return f("x.FVarA = %s\nx.CallFVarA()", c.E) })},
		{name: "native-var-read-back", reflect: true, viaNative: true, onlyType: "func()", body: body(func(c cx) string { return f("x.FVarA = %s\nfv := x.FVarA\nfv()", c.E) })},
		{name: "native-varS", reflect: true, viaNative: true, onlyType: "func(string) int", body: body(func(c cx) string { return f("x.FVarB = %s\nx.Res(x.CallFVarB(\"ab\"))", c.E) })},
		// slices and arrays
		{name: "slice-literal", reflect: true, body: body(func(c cx) string { return f("fs := []%s{%s}\n%s", c.T, c.E, c.Call("fs[0]")) })},
		{name: "slice-literal-second", reflect: true, body: body(func(c cx) string { return f("fs := []%s{nil, %s}\n%s", c.T, c.E, c.Call("fs[1]")) })},
		{name: "slice-set", reflect: true, body: body(func(c cx) string { return f("fs := make([]%s, 1)\nfs[0] = %s\n%s", c.T, c.E, c.Call("fs[0]")) })},
		{name: "slice-append", appendElem: true, reflect: true, body: body(func(c cx) string { return f("var fs []%s\nfs = append(fs, %s)\n%s", c.T, c.E, c.Call("fs[0]")) })},
		{name: "slice-append-var", appendElem: true, reflect: true, body: body(func(c cx) string {
			return f("fv := %s\nvar fs []%s\nfs = append(fs, fv)\n%s", c.E, c.T, c.Call("fs[0]"))
		})},
		{name: "slice-append-spread", reflect: true, body: body(func(c cx) string {
			return f("var fs []%s\nfs = append(fs, []%s{%s}...)\n%s", c.T, c.T, c.E, c.Call("fs[0]"))
		})},
		{name: "slice-copy", reflect: true, body: body(func(c cx) string {
			return f("a := []%s{%s}\nb := make([]%s, 1)\ncopy(b, a)\n%s", c.T, c.E, c.T, c.Call("b[0]"))
		})},
		{name: "slice-range", reflect: true, body: body(func(c cx) string { return f("for _, f := range []%s{%s} {\n%s\n}", c.T, c.E, c.Call("f")) })},
		{name: "slice-element-to-local", reflect: true, body: body(func(c cx) string { return f("fs := []%s{%s}\nfv := fs[0]\n%s", c.T, c.E, c.Call("fv")) })},
		{name: "array-literal", reflect: true, body: body(func(c cx) string { return f("fs := [1]%s{%s}\n%s", c.T, c.E, c.Call("fs[0]")) })},
		{name: "array-set", reflect: true, body: body(func(c cx) string { return f("var fs [2]%s\nfs[1] = %s\n%s", c.T, c.E, c.Call("fs[1]")) })},
		{name: "slice-of-slices", reflect: true, body: body(func(c cx) string { return f("fs := [][]%s{{%s}}\n%s", c.T, c.E, c.Call("fs[0][0]")) })},
		// maps
		{name: "map-literal", reflect: true, body: body(func(c cx) string { return f("m := map[string]%s{\"k\": %s}\n%s", c.T, c.E, c.Call(`m["k"]`)) })},
		{name: "map-set", reflect: true, body: body(func(c cx) string { return f("m := map[string]%s{}\nm[\"k\"] = %s\n%s", c.T, c.E, c.Call(`m["k"]`)) })},
		{name: "map-int-key", reflect: true, body: body(func(c cx) string { return f("m := map[int]%s{}\nm[1] = %s\n%s", c.T, c.E, c.Call("m[1]")) })},
		{name: "map-comma-ok", reflect: true, body: body(func(c cx) string {
			return f("m := map[string]%s{\"k\": %s}\nif fv, ok := m[\"k\"]; ok {\n%s\n}", c.T, c.E, c.Call("fv"))
		})},
		{name: "map-range", reflect: true, body: body(func(c cx) string {
			return f("for _, fv := range map[string]%s{\"k\": %s} {\n%s\n}", c.T, c.E, c.Call("fv"))
		})},
		// struct fields
		{name: "struct-literal", reflect: true, body: body(func(c cx) string { return f("s := struct{ F %s }{%s}\n%s", c.T, c.E, c.Call("s.F")) })},
		{name: "struct-literal-keyed", reflect: true, body: body(func(c cx) string { return f("s := struct{ A int; F %s }{F: %s}\n%s", c.T, c.E, c.Call("s.F")) })},
		{name: "struct-set", reflect: true, body: body(func(c cx) string { return f("var s struct{ F %s }\ns.F = %s\n%s", c.T, c.E, c.Call("s.F")) })},
		{name: "struct-pointer", reflect: true, body: body(func(c cx) string { return f("s := &struct{ F %s }{F: %s}\n%s", c.T, c.E, c.Call("s.F")) })},
		{name: "struct-pointer-set", reflect: true, body: body(func(c cx) string { return f("s := &struct{ F %s }{}\ns.F = %s\n%s", c.T, c.E, c.Call("s.F")) })},
		{name: "struct-named-type", reflect: true, body: body(func(c cx) string { return f("type S struct{ F %s }\ns := S{F: %s}\n%s", c.T, c.E, c.Call("s.F")) })},
		{name: "struct-package-type", reflect: true, body: func(c cx) (string, string) {
			return f("type S§ struct{ F %s }", c.T), f("s := S§{F: %s}\n%s", c.E, c.Call("s.F"))
		}},
		{name: "struct-in-slice", reflect: true, body: body(func(c cx) string { return f("ss := []struct{ F %s }{{%s}}\n%s", c.T, c.E, c.Call("ss[0].F")) })},
		// interface values and back
		{name: "interface-assert", iface: true, mvIface: "panic-error", reflect: true, body: body(func(c cx) string { return f("var a interface{} = %s\n%s", c.E, c.Call("a.("+c.T+")")) })},
		{name: "interface-assert-ok", iface: true, mvIface: "silent", reflect: true, body: body(func(c cx) string {
			return f("var a interface{} = %s\nif fv, ok := a.(%s); ok {\n%s\n}", c.E, c.T, c.Call("fv"))
		})},
		{name: "interface-type-switch", iface: true, mvIface: "silent", reflect: true, body: body(func(c cx) string {
			return f("var a interface{} = %s\nswitch fv := a.(type) {\ncase int:\n_ = fv\ncase %s:\n%s\n}", c.E, c.T, c.Call("fv"))
		})},
		{name: "interface-from-local", reflect: true, body: body(func(c cx) string { return f("fv := %s\nvar a interface{} = fv\n%s", c.E, c.Call("a.("+c.T+")")) })},
		{name: "interface-convert", reflect: true, body: body(func(c cx) string { return f("a := interface{}(%s)\n%s", c.E, c.Call("a.("+c.T+")")) })},
		{name: "interface-slice", iface: true, mvIface: "panic-error", reflect: true, body: body(func(c cx) string { return f("as := []interface{}{%s}\n%s", c.E, c.Call("as[0].("+c.T+")")) })},
		{name: "interface-map", iface: true, mvIface: "panic-error", reflect: true, body: body(func(c cx) string {
			return f("m := map[string]interface{}{\"k\": %s}\n%s", c.E, c.Call(`m["k"].(`+c.T+")"))
		})},
		{name: "interface-not-nil", iface: true, reflect: true, noCall: true, body: body(func(c cx) string { return f("var a interface{} = %s\nif a != nil {\nx.Mark()\n}", c.E) })},
		{name: "interface-wrong-assert", iface: true, reflect: true, noCall: true, body: body(func(c cx) string {
			return f("var a interface{} = %s\nif _, ok := a.(func(int, int, int)); !ok {\nx.Mark()\n}", c.E)
		})},
		// defined function types
		{name: "defined-type", body: body(func(c cx) string { return f("type F %s\nfv := F(%s)\n%s", c.T, c.E, c.Call("fv")) })},
		{name: "defined-type-var", body: body(func(c cx) string { return f("type F %s\nvar fv F = %s\n%s", c.T, c.E, c.Call("fv")) })},
		{name: "defined-type-slice", reflect: true, body: body(func(c cx) string { return f("type F %s\nfs := []F{%s}\n%s", c.T, c.E, c.Call("fs[0]")) })},
		// channels
		{name: "channel", reflect: true, body: body(func(c cx) string { return f("ch := make(chan %s, 1)\nch <- %s\n%s", c.T, c.E, c.Call("(<-ch)")) })},
		{name: "channel-local", reflect: true, body: body(func(c cx) string {
			return f("ch := make(chan %s, 1)\nfv := %s\nch <- fv\ngv := <-ch\n%s", c.T, c.E, c.Call("gv"))
		})},
		{name: "channel-comma-ok", reflect: true, body: body(func(c cx) string {
			return f("ch := make(chan %s, 1)\nch <- %s\nif fv, ok := <-ch; ok {\n%s\n}", c.T, c.E, c.Call("fv"))
		})},
		{name: "channel-select", reflect: true, body: body(func(c cx) string {
			return f("ch := make(chan %s, 1)\nselect {\ncase ch <- %s:\n}\nselect {\ncase fv := <-ch:\n%s\n}", c.T, c.E, c.Call("fv"))
		})},
		{name: "channel-range", reflect: true, body: body(func(c cx) string {
			return f("ch := make(chan %s, 1)\nch <- %s\nclose(ch)\nfor fv := range ch {\n%s\n}", c.T, c.E, c.Call("fv"))
		})},
		{name: "channel-goroutine", envEffect: "hang", reflect: true, body: body(func(c cx) string {
			return f("ch := make(chan %s)\ngo func() { ch <- %s }()\nfv := <-ch\n%s", c.T, c.E, c.Call("fv"))
		})},
		// arguments
		{name: "argument", body: body(func(c cx) string { return f("call := func(fv %s) { %s }\ncall(%s)", c.T, c.Call("fv"), c.E) })},
		{name: "argument-second", body: body(func(c cx) string {
			return f("call := func(a int, fv %s, s string) { %s }\ncall(1, %s, \"s\")", c.T, c.Call("fv"), c.E)
		})},
		{name: "argument-declared-func", body: func(c cx) (string, string) {
			return f("func call§(fv %s) { %s }", c.T, c.Call("fv")), f("call§(%s)", c.E)
		}},
		{name: "argument-captured", reflect: true, body: body(func(c cx) string {
			return f("call := func(fv %s) { g := func() { %s }; g() }\ncall(%s)", c.T, c.Call("fv"), c.E)
		})},
		{name: "argument-variadic", reflect: true, body: body(func(c cx) string { return f("call := func(fs ...%s) { %s }\ncall(%s)", c.T, c.Call("fs[0]"), c.E) })},
		{name: "argument-interface", iface: true, mvIface: "panic-error", reflect: true, body: body(func(c cx) string {
			return f("call := func(a interface{}) { %s }\ncall(%s)", c.Call("a.("+c.T+")"), c.E)
		})},
		{name: "argument-through-value", envEffect: "panic-error", reflect: true, body: body(func(c cx) string {
			return f("call := func(fv %s) { %s }\ncs := []func(%s){call}\ncs[0](%s)", c.T, c.Call("fv"), c.T, c.E)
		})},
		{name: "argument-macro", gcLike: "argument", tmpl: func(c cx, macro string) (string, map[string]string) {
			return f("%s{%% macro W(fv %s) %%}{%%%% %s %%%%}{%% end %%}{{ W(%s) }}", macro, c.T, c.Call("fv"), c.E), nil
		}},
		{name: "argument-native", envEffect: "panic-error", reflect: true, viaNative: true, onlyType: "func()", body: body(func(c cx) string { return f("x.ApplyA(%s)", c.E) })},
		{name: "argument-native-local", envEffect: "panic-error", reflect: true, viaNative: true, onlyType: "func()", body: body(func(c cx) string { return f("fv := %s\nx.ApplyA(fv)", c.E) })},
		{name: "argument-native-variadic", envEffect: "panic-error", reflect: true, viaNative: true, onlyType: "func()", body: body(func(c cx) string { return f("x.ApplyAll(%s)", c.E) })},
		{name: "argument-native-variadic-spread", reflect: true, viaNative: true, onlyType: "func()", body: body(func(c cx) string { return f("fs := []func(){%s}\nx.ApplyAll(fs...)", c.E) })},
		{name: "argument-native-env", envEffect: "panic-error", reflect: true, viaNative: true, onlyType: "func()", body: body(func(c cx) string { return f("x.NatEnvF(%s)", c.E) })},
		{name: "argument-nativeS", envEffect: "panic-error", reflect: true, viaNative: true, onlyType: "func(string) int", body: body(func(c cx) string { return f("x.Res(x.ApplyB(%s))", c.E) })},
		{name: "argument-nativeV", envEffect: "panic-error", reflect: true, viaNative: true, onlyType: "func(...int) int", body: body(func(c cx) string { return f("x.Res(x.ApplyV(%s))", c.E) })},
		{name: "argument-native-interface", iface: true, mvIface: "panic-error", reflect: true, body: body(func(c cx) string {
			if c.A == "" {
				return f("x.Apply(%s)", c.E)
			}
			return f("x.Apply(%s, %s)", c.E, c.A)
		}), viaNative: true, noSpread: true},
		// results
		{name: "result", body: body(func(c cx) string { return f("mk := func() %s { return %s }\n%s", c.T, c.E, c.Call("mk()")) })},
		{name: "result-to-local", body: body(func(c cx) string { return f("mk := func() %s { return %s }\nfv := mk()\n%s", c.T, c.E, c.Call("fv")) })},
		{name: "result-named", body: body(func(c cx) string { return f("mk := func() (r %s) { r = %s; return }\n%s", c.T, c.E, c.Call("mk()")) })},
		{name: "result-multi", body: body(func(c cx) string {
			return f("mk := func() (int, %s) { return 1, %s }\n_, fv := mk()\n%s", c.T, c.E, c.Call("fv"))
		})},
		{name: "result-declared-func", body: func(c cx) (string, string) { return f("func mk§() %s { return %s }", c.T, c.E), c.Call("mk§()") }},
		{name: "result-interface", iface: true, mvIface: "panic-error", reflect: true, body: body(func(c cx) string {
			return f("mk := func() interface{} { return %s }\n%s", c.E, c.Call("mk().("+c.T+")"))
		})},
		{name: "result-through-value", envEffect: "panic-error", reflect: true, body: body(func(c cx) string {
			return f("mk := func() %s { return %s }\nms := []func() %s{mk}\n%s", c.T, c.E, c.T, c.Call("ms[0]()"))
		})},
		{name: "result-native", envEffect: "panic-error", reflect: true, onlyType: "func()", body: body(func(c cx) string { return f("x.IdA(%s)()", c.E) })},
		{name: "result-nativeS", envEffect: "panic-error", reflect: true, onlyType: "func(string) int", body: body(func(c cx) string { return f("x.Res(x.IdB(%s)(\"ab\"))", c.E) })},
		{name: "result-native-interface", iface: true, mvIface: "panic-error", reflect: true, body: body(func(c cx) string { return c.Call("x.Id(" + c.E + ").(" + c.T + ")") })},
		// defer and go operands
		{name: "defer-direct", body: body(func(c cx) string { return f("func() {\ndefer %s\n}()", c.Bare(c.E)) })},
		{name: "defer-local", reflect: true, body: body(func(c cx) string { return f("fv := %s\nfunc() {\ndefer %s\n}()", c.E, c.Bare("fv")) })},
		{name: "defer-local-same-func", body: body(func(c cx) string { return f("func() {\nfv := %s\ndefer %s\n}()", c.E, c.Bare("fv")) })},
		{name: "defer-element", reflect: true, body: body(func(c cx) string { return f("fs := []%s{%s}\nfunc() {\ndefer %s\n}()", c.T, c.E, c.Bare("fs[0]")) })},
		{name: "defer-closure", reflect: true, body: body(func(c cx) string { return f("fv := %s\nfunc() {\ndefer func() { %s }()\n}()", c.E, c.Call("fv")) })},
		{name: "defer-while-panicking", body: body(func(c cx) string {
			return f("func() {\ndefer func() { recover() }()\nfv := %s\ndefer %s\npanic(\"P\")\n}()", c.E, c.Bare("fv"))
		})},
		{name: "defer-main", body: body(func(c cx) string { return f("fv := %s\ndefer %s", c.E, c.Bare("fv")) })},
		{name: "go-direct", goStmt: true, body: body(func(c cx) string { return f("go %s\nx.Wait(%d)", c.Bare(c.E), c.N) })},
		{name: "go-local", goStmt: true, body: body(func(c cx) string { return f("fv := %s\ngo %s\nx.Wait(%d)", c.E, c.Bare("fv"), c.N) })},
		{name: "go-element", goStmt: true, reflect: true, body: body(func(c cx) string { return f("fs := []%s{%s}\ngo %s\nx.Wait(%d)", c.T, c.E, c.Bare("fs[0]"), c.N) })},
		{name: "go-closure", goStmt: true, reflect: true, body: body(func(c cx) string { return f("fv := %s\ngo func() { %s }()\nx.Wait(%d)", c.E, c.Bare("fv"), c.N) })},
		// comparison with nil
		{name: "nil-compare-local", nilCmp: true, noCall: true, body: body(func(c cx) string { return f("fv := %s\nif fv != nil {\nx.Mark()\n}", c.E) })},
		{name: "nil-compare-local-eq", nilCmp: true, noCall: true, body: body(func(c cx) string { return f("var fv %s = %s\nif fv == nil {\nx.Mark()\n}\nx.Mark()", c.T, c.E) })},
		{name: "nil-compare-element", nilCmp: true, reflect: true, noCall: true, body: body(func(c cx) string { return f("fs := []%s{%s}\nif fs[0] != nil {\nx.Mark()\n}", c.T, c.E) })},
		{name: "nil-compare-captured", nilCmp: true, reflect: true, noCall: true, body: body(func(c cx) string {
			return f("fv := %s\ng := func() bool { return fv != nil }\nif g() {\nx.Mark()\n}", c.E)
		})},
		{name: "nil-compare-then-call", nilCmp: true, body: body(func(c cx) string { return f("fv := %s\nif fv != nil {\n%s\n}", c.E, c.Call("fv")) })},
		// show and print
		{name: "print", reflect: true, noCall: true, show: true, body: body(func(c cx) string { return f("fv := %s\nprintln(fv)\nprint(fv)", c.E) })},
		{name: "print-interface", iface: true, reflect: true, noCall: true, show: true, body: body(func(c cx) string { return f("var a interface{} = %s\nprintln(a)", c.E) })},
		{name: "show", noCall: true, show: true, tmpl: func(c cx, macro string) (string, map[string]string) {
			return f("%s{%% var fv = %s %%}{{ fv }}", macro, c.E), nil
		}},
		{name: "show-direct", noCall: true, show: true, tmpl: func(c cx, macro string) (string, map[string]string) {
			return f("%s{{ %s }}", macro, c.E), nil
		}},
		{name: "show-interface", iface: true, reflect: true, noCall: true, show: true, tmpl: func(c cx, macro string) (string, map[string]string) {
			return f("%s{%% var a interface{} = %s %%}{{ a }}", macro, c.E), nil
		}},
		{name: "show-in-attribute", noCall: true, show: true, tmpl: func(c cx, macro string) (string, map[string]string) {
			return f("%s{%% var fv = %s %%}<a href=\"{{ fv }}\" title=\"{{ fv }}\">", macro, c.E), nil
		}},
		{name: "show-in-script", iface: true, reflect: true, noCall: true, show: true, tmpl: func(c cx, macro string) (string, map[string]string) {
			return f("%s{%% var a interface{} = %s %%}<script>var v = {{ a }};</script>", macro, c.E), nil
		}},
		{name: "show-call-result", gc: func(c cx) string { return f("fv := %s\n%s", c.E, c.Bare("fv")) }, tmpl: func(c cx, macro string) (string, map[string]string) {
			if !c.res {
				return f("%s{%% fv := %s %%}{%% %s %%}x", macro, c.E, c.Bare("fv")), nil
			}
			return f("%s{%% fv := %s %%}{{ %s }}", macro, c.E, c.Bare("fv")), nil
		}},
	}
}
