package main

// C19: code can reach only the host functionality the embedder supplies.
//
// Generated programs (scriggo.Build) and templates (scriggo.BuildTemplate) with random importer
// (nil, native.Packages, native.CombinedImporter, an importer that fails for some paths) and
// Globals configurations; imports of supplied and fictitious paths ("os", "os/exec", "unsafe",
// "syscall", relative paths) in every form; go statements with and without AllowGoStmt, at top
// level and inside function literals; supplied functions called directly, through values,
// closures, defer, goroutines, dot-imports, `for`-imports, auto-imported packages and names that
// shadow builtins. Every supplied function is wrapped to record its invocation.
//   - correspondence: Build outcome (and its error class) and the set of supplied functions invoked
//     at run time vs. the Lean model (Model/Scopes.lean through driver_C19);
//   - the property's own oracle, without the model: a program importing a path the importer has
//     no package for never builds; `go` is rejected unless allowed; every invoked host function is
//     a supplied one; no process-level effect (sentinel file, environment variable) occurs.

import (
	"errors"
	"fmt"
	"io"
	"os"
	"path/filepath"
	"runtime/debug"
	"sort"
	"strings"
	"sync"
	"time"

	"github.com/open2b/scriggo"
	"github.com/open2b/scriggo/native"

	"verifharness/internal/hx"
	"verifharness/internal/proto"
)

func main() { hx.Main("C19", runC19) }

// ---------------------------------------------------------------------------------------------
// configuration

type decl struct {
	name string
	kind string // func | var | const | type
}

type pkgSpec struct {
	path  string
	name  string
	decls []decl
}

type globalSpec struct {
	name    string
	kind    string // func | var | const | pkg
	members []decl
}

type importSpec struct {
	path  string
	form  string // D | N | P | B | F
	name  string // N
	names []string
}

const (
	sCall       = iota // pkg.F() / F()
	sValue             // f := pkg.F; f()
	sClosure           // func() { pkg.F() }()
	sDefer             // func() { defer pkg.F() }()
	sGo                // go pkg.F()
	sGoLit             // func() { go pkg.F() }()   (the go statement inside a function literal)
	sGoClosure         // go func() { pkg.F() }()
	sConst             // _ = pkg.C
	sLocalShade        // x := 1 … (a local declaration named like a package; then a use of it)
	sEffect            // os.WriteFile(sentinel) / os.Setenv / os.Exit through the name `os`
	sGoBuiltin         // go println("x") / go close(c) / … : the callee is a builtin (name)
	sGoConv            // go int(1): a conversion (never builds)
	sGoMethod          // go pkg.R0.M() / go R.M(): a method value of a supplied variable
	sGoMacro           // {% macro Gm %}{% end %}{% go Gm() %} (templates)
)

// builtins that may be called in a statement, and two whose result `go` would discard
var goBuiltins = []string{"println", "print", "close", "copy", "delete", "recover", "cap", "new"}

type stmt struct {
	kind int
	pkg  string // "" for an unqualified name
	name string
}

type caseSpec struct {
	template  bool
	allowGo   bool
	importer  string // nil | packages | combined | failing
	pkgs      []pkgSpec
	failing   []string
	globals   []globalSpec
	imports   []importSpec
	stmts     []stmt
	sentinel  string
	envName   string
	usesGo    bool
	hasEffect bool
	// a go statement that is no valid statement whatever AllowGoStmt says (conversion, discarded result)
	goNeverBuilds bool
}

var fictitious = []string{"os", "os/exec", "unsafe", "syscall", "net/http", "./rel", "../rel", "lib/zz"}

func stdDecls(r *proto.Rand, shadow bool) []decl {
	ds := []decl{{"F0", "func"}, {"F1", "func"}, {"C0", "const"}, {"V0", "var"}, {"R0", "rvar"}}
	if r.Intn(2) == 0 {
		ds = append(ds, decl{"F2", "func"})
	}
	if shadow {
		ds = append(ds, decl{"len", "func"})
	}
	return ds
}

func generate(r *proto.Rand, n int) *caseSpec {
	c := &caseSpec{template: r.Intn(2) == 0, allowGo: r.Intn(3) == 0}
	c.sentinel = filepath.Join(os.TempDir(), fmt.Sprintf("verif-c19-sentinel-%d-%d", os.Getpid(), n))
	c.envName = fmt.Sprintf("VERIF_C19_ENV_%d", n)
	switch k := r.Intn(10); {
	case k == 0:
		c.importer = "nil"
	case k < 6:
		c.importer = "packages"
	case k < 8:
		c.importer = "combined"
	default:
		c.importer = "failing"
	}
	if c.importer != "nil" {
		for _, p := range []struct{ path, name string }{{"lib/a", "a"}, {"lib/b", "b"}, {"lib/s", "s"}} {
			if r.Intn(4) > 0 {
				c.pkgs = append(c.pkgs, pkgSpec{p.path, p.name, stdDecls(r, p.name == "s")})
			}
		}
		if r.Intn(6) == 0 {
			// the embedder supplies something under the path "os": its own functions, not the process's
			c.pkgs = append(c.pkgs, pkgSpec{"os", "os", []decl{{"WriteFile", "func"}, {"Setenv", "func"}, {"Exit", "func"}, {"F0", "func"}}})
		}
	}
	if c.importer == "failing" {
		// (relative paths are rejected by the parser before the importer is asked)
		c.failing = []string{[]string{"os", "os/exec", "unsafe", "syscall", "net/http", "lib/zz", "lib/a"}[r.Intn(7)]}
	}
	if c.template {
		for i := 0; i < r.Intn(3); i++ {
			c.globals = append(c.globals, globalSpec{name: fmt.Sprintf("g%d", i), kind: "func"})
		}
		if r.Intn(3) == 0 {
			c.globals = append(c.globals, globalSpec{name: "len", kind: "func"})
		}
		if r.Intn(3) == 0 {
			c.globals = append(c.globals, globalSpec{name: "P", kind: "pkg", members: []decl{{"H0", "func"}, {"H1", "func"}}})
		}
		if r.Intn(4) == 0 {
			c.globals = append(c.globals, globalSpec{name: "K", kind: "const"})
		}
		if r.Intn(3) == 0 {
			c.globals = append(c.globals, globalSpec{name: "R", kind: "rvar"})
		}
	}
	// imports
	used := map[string]bool{}
	addImport := func(path string) {
		var pk *pkgSpec
		for i := range c.pkgs {
			if c.pkgs[i].path == path {
				pk = &c.pkgs[i]
			}
		}
		is := importSpec{path: path, form: "D"}
		switch k := r.Intn(10); {
		case k < 5:
		case k < 7:
			is.form, is.name = "N", fmt.Sprintf("x%d", len(c.imports))
		case k < 8 && !used["."]:
			is.form = "P"
			used["."] = true
		case k < 9 && c.template && pk != nil:
			is.form = "F"
			is.names = []string{[]string{"F0", "F1"}[r.Intn(2)]}
			if r.Intn(6) == 0 {
				is.names = append(is.names, "Nope")
			}
		case k == 9:
			is.form = "B"
		}
		local := is.name
		if is.form == "D" {
			local = path[strings.LastIndex(path, "/")+1:]
			if pk != nil {
				local = pk.name
			}
		}
		if (is.form == "D" || is.form == "N") && used[local] && r.Intn(4) > 0 {
			return // mostly avoid redeclared package names
		}
		used[local] = true
		c.imports = append(c.imports, is)
	}
	for _, p := range c.pkgs {
		if r.Intn(3) > 0 {
			addImport(p.path)
		}
	}
	if r.Intn(3) == 0 {
		addImport(fictitious[r.Intn(len(fictitious))])
	}
	if r.Intn(8) == 0 && len(c.pkgs) > 0 {
		addImport(c.pkgs[r.Intn(len(c.pkgs))].path) // a second import of the same package
	}
	// statements: every import is used at least once, then random uses
	useOf := func(is importSpec, kind int) []stmt {
		var pk *pkgSpec
		for i := range c.pkgs {
			if c.pkgs[i].path == is.path {
				pk = &c.pkgs[i]
			}
		}
		fn := "F0"
		if pk != nil {
			var fs []string
			for _, d := range pk.decls {
				if d.kind == "func" && d.name != "len" {
					fs = append(fs, d.name)
				}
			}
			fn = fs[r.Intn(len(fs))]
			if is.path == "os" {
				fn = "F0"
			}
			if r.Intn(8) == 0 {
				fn = "Missing"
			}
		}
		local := is.name
		switch is.form {
		case "D":
			local = is.path[strings.LastIndex(is.path, "/")+1:]
			if pk != nil {
				local = pk.name
			}
		case "P":
			local = ""
			if pk != nil && pk.name == "s" && r.Intn(2) == 0 {
				fn = "len"
			}
		case "F":
			return []stmt{{kind: kind, name: is.names[0]}}
		case "B":
			return nil
		}
		if pk != nil && is.path == "os" && local == "os" && r.Intn(2) == 0 {
			return []stmt{{kind: sEffect, pkg: "os"}}
		}
		if pk == nil && local == "os" {
			return []stmt{{kind: sEffect, pkg: "os"}}
		}
		return []stmt{{kind: kind, pkg: local, name: fn}}
	}
	pickKind := func() int {
		k := []int{sCall, sCall, sCall, sValue, sClosure, sDefer, sGo, sGoLit, sGoClosure, sConst}[r.Intn(10)]
		if k == sGo || k == sGoLit || k == sGoClosure {
			if r.Intn(2) == 0 { // keep go statements to about 15% of the uses
				k = sCall
			}
		}
		return k
	}
	for _, is := range c.imports {
		for _, s := range useOf(is, pickKind()) {
			c.stmts = append(c.stmts, s)
		}
	}
	for i := 0; i < r.Intn(5); i++ {
		switch k := r.Intn(10); {
		case k < 5 && len(c.imports) > 0:
			c.stmts = append(c.stmts, useOf(c.imports[r.Intn(len(c.imports))], pickKind())...)
		case k < 8 && len(c.globals) > 0:
			g := c.globals[r.Intn(len(c.globals))]
			switch g.kind {
			case "func":
				c.stmts = append(c.stmts, stmt{kind: pickKind(), name: g.name})
			case "pkg":
				c.stmts = append(c.stmts, stmt{kind: pickKind(), pkg: g.name, name: g.members[r.Intn(len(g.members))].name})
			case "const":
				c.stmts = append(c.stmts, stmt{kind: sConst, name: g.name})
			}
		case k == 8 && len(c.imports) > 0:
			// a local variable named like an imported package, then a use of that name
			is := c.imports[r.Intn(len(c.imports))]
			if u := useOf(is, sCall); len(u) == 1 && u[0].pkg != "" && u[0].kind == sCall {
				c.stmts = append(c.stmts, stmt{kind: sLocalShade, pkg: u[0].pkg, name: u[0].name})
			}
		default:
			// an undeclared name
			c.stmts = append(c.stmts, stmt{kind: sCall, name: "undeclared"})
		}
	}
	// go statements whose callee is not a supplied function: builtins, a conversion, a method
	// value, a macro
	for i := 0; i < 2; i++ {
		if r.Intn(4) > 0 {
			continue
		}
		switch k := r.Intn(10); {
		case k < 5:
			c.stmts = append(c.stmts, stmt{kind: sGoBuiltin, name: goBuiltins[r.Intn(len(goBuiltins))]})
		case k < 6:
			c.stmts = append(c.stmts, stmt{kind: sGoConv})
		case k < 8:
			// a method value of a supplied variable
			var cands []stmt
			for _, g := range c.globals {
				if g.kind == "rvar" {
					cands = append(cands, stmt{kind: sGoMethod, name: g.name})
				}
			}
			for _, is := range c.imports {
				for _, p := range c.pkgs {
					if p.path == is.path && c.supplied(p.path) && is.form == "D" && p.path != "os" {
						cands = append(cands, stmt{kind: sGoMethod, pkg: p.name, name: "R0"})
					}
				}
			}
			if len(cands) > 0 {
				c.stmts = append(c.stmts, cands[r.Intn(len(cands))])
			}
		case c.template:
			c.stmts = append(c.stmts, stmt{kind: sGoMacro, name: fmt.Sprintf("Gm%d", len(c.stmts))})
		}
	}
	for i := range c.stmts {
		s := &c.stmts[i]
		if s.kind >= sGoBuiltin {
			c.usesGo = true
			if s.kind == sGoConv || s.kind == sGoBuiltin && (s.name == "cap" || s.name == "new") {
				c.goNeverBuilds = true
			}
			continue
		}
		if s.kind == sConst && !(s.pkg == "" && s.name == "K") {
			s.name = "C0"
			if s.pkg == "" {
				s.kind = sCall
				s.name = "undeclared"
			}
		}
		if s.kind == sGo || s.kind == sGoLit || s.kind == sGoClosure {
			c.usesGo = true
		}
		if s.kind == sEffect {
			c.hasEffect = true
		}
	}
	return c
}

// ---------------------------------------------------------------------------------------------
// sources

func (c *caseSpec) ref(s stmt) string {
	if s.pkg == "" {
		return s.name
	}
	return s.pkg + "." + s.name
}

func (c *caseSpec) args(s stmt) string {
	if s.name == "len" {
		return `("abc")`
	}
	return "()"
}

// goStmts returns, per generated use, its statements (templates take one statement per block).
func (c *caseSpec) goStmts() [][]string {
	var out [][]string
	for i, s := range c.stmts {
		call := c.ref(s) + c.args(s)
		switch s.kind {
		case sCall:
			out = append(out, []string{call})
		case sValue:
			out = append(out, []string{fmt.Sprintf("f%d := %s", i, c.ref(s)), fmt.Sprintf("f%d%s", i, c.args(s))})
		case sClosure:
			out = append(out, []string{fmt.Sprintf("func() { %s }()", call)})
		case sDefer:
			out = append(out, []string{fmt.Sprintf("func() { defer %s }()", call)})
		case sGo:
			out = append(out, []string{"go " + call})
		case sGoLit:
			out = append(out, []string{fmt.Sprintf("func() { go %s }()", call)})
		case sGoClosure:
			out = append(out, []string{fmt.Sprintf("go func() { %s }()", call)})
		case sConst:
			out = append(out, []string{"_ = " + c.ref(s)})
		case sLocalShade:
			out = append(out, []string{fmt.Sprintf("func() { %s := 1; _ = %s; %s }()", s.pkg, s.pkg, call)})
		case sGoBuiltin:
			switch s.name {
			case "println", "print":
				out = append(out, []string{fmt.Sprintf("go %s(\"gp\")", s.name)})
			case "close":
				out = append(out, []string{fmt.Sprintf("c%d := make(chan int)", i), fmt.Sprintf("go close(c%d)", i)})
			case "copy":
				out = append(out, []string{fmt.Sprintf("b%d := make([]int, 1)", i), fmt.Sprintf("go copy(b%d, b%d)", i, i)})
			case "delete":
				out = append(out, []string{fmt.Sprintf("m%d := map[string]int{}", i), fmt.Sprintf("go delete(m%d, \"k\")", i)})
			case "recover":
				out = append(out, []string{"go recover()"})
			case "cap":
				out = append(out, []string{fmt.Sprintf("b%d := make([]int, 1)", i), fmt.Sprintf("go cap(b%d)", i)})
			case "new":
				out = append(out, []string{"go new(int)"})
			}
		case sGoConv:
			out = append(out, []string{"go int(1)"})
		case sGoMethod:
			out = append(out, []string{"go " + c.ref(s) + ".M()"})
		case sGoMacro:
			if c.template {
				out = append(out, []string{fmt.Sprintf("macro %s %%}{%% end", s.name), fmt.Sprintf("go %s()", s.name)})
			}
		case sEffect:
			out = append(out, []string{fmt.Sprintf("os.WriteFile(%q, nil, 0o600)", c.sentinel), fmt.Sprintf("os.Setenv(%q, \"1\")", c.envName), "os.Exit(3)"})
		}
	}
	return out
}

func (c *caseSpec) importSrc(is importSpec) string {
	switch is.form {
	case "N":
		return fmt.Sprintf("import %s %q", is.name, is.path)
	case "P":
		return fmt.Sprintf("import . %q", is.path)
	case "B":
		return fmt.Sprintf("import _ %q", is.path)
	case "F":
		return fmt.Sprintf("import %q for %s", is.path, strings.Join(is.names, ", "))
	}
	return fmt.Sprintf("import %q", is.path)
}

func (c *caseSpec) source() string {
	var b strings.Builder
	if c.template {
		for _, is := range c.imports {
			fmt.Fprintf(&b, "{%% %s %%}", c.importSrc(is))
		}
		for _, ss := range c.goStmts() {
			for _, s := range ss {
				fmt.Fprintf(&b, "{%% %s %%}", s)
			}
		}
		return b.String()
	}
	b.WriteString("package main\n")
	for _, is := range c.imports {
		b.WriteString(c.importSrc(is) + "\n")
	}
	b.WriteString("func main() {\n")
	for _, ss := range c.goStmts() {
		b.WriteString("\t" + strings.Join(ss, "; ") + "\n")
	}
	b.WriteString("}\n")
	return b.String()
}

// ---------------------------------------------------------------------------------------------
// model line

func modelKind(k string) string {
	if k == "rvar" {
		return "var"
	}
	return k
}

func (c *caseSpec) line() string {
	var b strings.Builder
	bit := func(v bool) string {
		if v {
			return "1"
		}
		return "0"
	}
	fmt.Fprintf(&b, "C19 check %s %s", bit(c.template), bit(c.allowGo))
	if c.importer == "nil" {
		b.WriteString(" N")
	} else {
		fmt.Fprintf(&b, " I %d", len(c.pkgs))
		for _, p := range c.pkgs {
			fmt.Fprintf(&b, " %s %s %d", p.path, p.name, len(p.decls))
			for _, d := range p.decls {
				fmt.Fprintf(&b, " %s %s", d.name, modelKind(d.kind))
			}
		}
	}
	fmt.Fprintf(&b, " %d", len(c.failing))
	for _, f := range c.failing {
		b.WriteString(" " + f)
	}
	fmt.Fprintf(&b, " %d", len(c.globals)+1)
	fmt.Fprintf(&b, " rec__ func 0") // the harness's own helper is never named by the code
	for _, g := range c.globals {
		fmt.Fprintf(&b, " %s %s %d", g.name, modelKind(g.kind), len(g.members))
		for _, d := range g.members {
			fmt.Fprintf(&b, " %s %s", d.name, d.kind)
		}
	}
	var ops []string
	for _, is := range c.imports {
		switch is.form {
		case "N":
			ops = append(ops, fmt.Sprintf("im %s N %s", is.path, is.name))
		case "F":
			ops = append(ops, fmt.Sprintf("im %s F %d %s", is.path, len(is.names), strings.Join(is.names, " ")))
		default:
			ops = append(ops, fmt.Sprintf("im %s %s", is.path, is.form))
		}
	}
	ops = append(ops, "en")
	use := func(s stmt) string {
		if s.pkg == "" {
			return "id " + s.name
		}
		return fmt.Sprintf("se %s %s", s.pkg, s.name)
	}
	for i, s := range c.stmts {
		switch s.kind {
		case sCall, sConst:
			ops = append(ops, use(s))
		case sValue:
			ops = append(ops, use(s), fmt.Sprintf("de f%d var", i), fmt.Sprintf("id f%d", i))
		case sClosure, sDefer:
			ops = append(ops, "en", use(s), "ex")
		case sGo:
			ops = append(ops, use(s), "go")
		case sGoLit:
			ops = append(ops, "en", use(s), "go", "ex")
		case sGoClosure:
			ops = append(ops, "en", use(s), "ex", "go")
		case sLocalShade:
			ops = append(ops, "en", "de "+s.pkg+" var", "id "+s.pkg, use(s), "ex")
		case sGoBuiltin:
			switch s.name {
			case "println", "print", "recover", "new":
				ops = append(ops, "id "+s.name, "go")
			case "close":
				ops = append(ops, fmt.Sprintf("de c%d var", i), "id close", fmt.Sprintf("id c%d", i), "go")
			case "copy", "cap":
				ops = append(ops, fmt.Sprintf("de b%d var", i), "id "+s.name, fmt.Sprintf("id b%d", i), "go")
			case "delete":
				ops = append(ops, fmt.Sprintf("de m%d var", i), "id delete", fmt.Sprintf("id m%d", i), "go")
			}
		case sGoConv:
			ops = append(ops, "id int", "go")
		case sGoMethod:
			ops = append(ops, use(s), "go")
		case sGoMacro:
			ops = append(ops, "de "+s.name+" var", "en", "ex", "id "+s.name, "go")
		case sEffect:
			ops = append(ops, "se os WriteFile", "se os Setenv", "se os Exit")
		}
	}
	ops = append(ops, "ex")
	fmt.Fprintf(&b, " %d %s", len(ops), strings.Join(ops, " "))
	return b.String()
}

// ---------------------------------------------------------------------------------------------
// the real code

type recorder struct {
	mu    sync.Mutex
	calls map[string]bool
}

func (r *recorder) hit(name string) {
	r.mu.Lock()
	r.calls[name] = true
	r.mu.Unlock()
}

func (r *recorder) set() []string {
	r.mu.Lock()
	defer r.mu.Unlock()
	var out []string
	for k := range r.calls {
		out = append(out, k)
	}
	sort.Strings(out)
	return out
}

type failingImporter struct {
	inner   native.Importer
	failing map[string]bool
}

func (f failingImporter) Import(path string) (native.ImportablePackage, error) {
	if f.failing[path] {
		return nil, errors.New("importer refuses " + path)
	}
	return f.inner.Import(path)
}

var dummyVar = 7

type dummyType struct{}

// recT is a supplied value with a method
type recT struct {
	rec *recorder
	key string
}

func (r recT) M() int { r.rec.hit(r.key); return 1 }

func declValue(rec *recorder, key string, d decl) native.Declaration {
	switch d.kind {
	case "func":
		switch d.name {
		case "len":
			return func(s string) int { rec.hit(key); return 42 }
		case "WriteFile":
			return func(name string, data []byte, perm int) { rec.hit(key) }
		case "Setenv":
			return func(k, v string) { rec.hit(key) }
		case "Exit":
			return func(code int) { rec.hit(key) }
		}
		return func() int { rec.hit(key); return 1 }
	case "const":
		return 5
	case "var":
		return &dummyVar
	case "rvar":
		return &recT{rec, "M:" + key + d.name}
	case "type":
		return native.Declaration(nil)
	}
	return nil
}

func (c *caseSpec) options(rec *recorder) *scriggo.BuildOptions {
	opts := &scriggo.BuildOptions{AllowGoStmt: c.allowGo}
	pk := native.Packages{}
	for _, p := range c.pkgs {
		ds := native.Declarations{}
		for _, d := range p.decls {
			ds[d.name] = declValue(rec, "I"+p.path+":", d)
			if d.kind == "func" {
				ds[d.name] = declValue(rec, "I"+p.path+":"+d.name, d)
			}
		}
		pk[p.path] = native.Package{Name: p.name, Declarations: ds}
	}
	switch c.importer {
	case "packages":
		opts.Packages = pk
	case "combined":
		// split the packages over two importers
		a, b := native.Packages{}, native.Packages{}
		i := 0
		for path, p := range pk {
			if i%2 == 0 {
				a[path] = p
			} else {
				b[path] = p
			}
			i++
		}
		opts.Packages = native.CombinedImporter{a, b}
	case "failing":
		fm := map[string]bool{}
		for _, f := range c.failing {
			fm[f] = true
		}
		opts.Packages = failingImporter{pk, fm}
	}
	if c.template {
		g := native.Declarations{"rec__": func() {}}
		for _, gs := range c.globals {
			switch gs.kind {
			case "func":
				g[gs.name] = declValue(rec, "G:"+gs.name, decl{gs.name, "func"})
			case "const":
				g[gs.name] = 5
			case "rvar":
				g[gs.name] = &recT{rec, "M:G:" + gs.name}
			case "pkg":
				ds := native.Declarations{}
				for _, d := range gs.members {
					ds[d.name] = declValue(rec, "G:"+gs.name+"."+d.name, d)
				}
				g[gs.name] = native.Package{Name: gs.name, Declarations: ds}
			}
		}
		opts.Globals = g
	}
	return opts
}

type observation struct {
	buildErr string
	runErr   string
	panicked string
	invoked  []string
	prints   int
	sentinel bool
	env      bool
}

// invokedKey maps a recorded key to the model's naming of the native function as the code named it.
func (c *caseSpec) execute(wantInvoked int) *observation {
	rec := &recorder{calls: map[string]bool{}}
	obs := &observation{}
	opts := c.options(rec)
	os.Remove(c.sentinel)
	os.Unsetenv(c.envName)
	func() {
		defer func() {
			if r := recover(); r != nil {
				obs.panicked = fmt.Sprint(r)
				if os.Getenv("VERIF_C19_STACK") != "" {
					fmt.Fprintf(os.Stderr, "%s\n%s\n", c.source(), debug.Stack())
				}
			}
		}()
		if c.template {
			t, err := scriggo.BuildTemplate(scriggo.Files{"index.txt": []byte(c.source())}, "index.txt", opts)
			if err != nil {
				obs.buildErr = err.Error()
				return
			}
			if err := t.Run(io.Discard, nil, &scriggo.RunOptions{Print: func(any) { rec.hit("print") }}); err != nil {
				obs.runErr = err.Error()
			}
		} else {
			p, err := scriggo.Build(scriggo.Files{"main.go": []byte(c.source())}, opts)
			if err != nil {
				obs.buildErr = err.Error()
				return
			}
			if err := p.Run(&scriggo.RunOptions{Print: func(any) { rec.hit("print") }}); err != nil {
				obs.runErr = err.Error()
			}
		}
	}()
	if obs.buildErr == "" && c.usesGo {
		// goroutines started by `go` may still be running
		for i := 0; i < 3000 && len(rec.set()) < wantInvoked; i++ { // (only waits while something is missing)
			time.Sleep(time.Millisecond)
		}
	}
	if obs.buildErr == "" && c.usesGo {
		time.Sleep(2 * time.Millisecond) // let `go println` reach the print hook
	}
	for _, k := range rec.set() {
		switch {
		case k == "print":
			obs.prints++
		case strings.HasPrefix(k, "M:"):
			// a method of a supplied value: supplied by construction, outside the model's table
		default:
			obs.invoked = append(obs.invoked, k)
		}
	}
	if _, err := os.Stat(c.sentinel); err == nil {
		obs.sentinel = true
		os.Remove(c.sentinel)
	}
	if os.Getenv(c.envName) != "" {
		obs.env = true
		os.Unsetenv(c.envName)
	}
	return obs
}

// ---------------------------------------------------------------------------------------------
// oracle (no model)

func (c *caseSpec) supplied(path string) bool {
	if c.importer == "nil" {
		return false
	}
	for _, f := range c.failing {
		if f == path {
			return false
		}
	}
	for _, p := range c.pkgs {
		if p.path == path {
			return true
		}
	}
	return false
}

func (c *caseSpec) oracle(obs *observation) (clause, detail string) {
	c.usesGo = false // (recomputed: the shrinker edits the statements)
	for _, s := range c.stmts {
		if s.kind == sGo || s.kind == sGoLit || s.kind == sGoClosure || s.kind >= sGoBuiltin {
			c.usesGo = true
		}
	}
	if obs.sentinel || obs.env {
		return "no-process-effect", fmt.Sprintf("sentinel file created=%v, environment variable set=%v", obs.sentinel, obs.env)
	}
	built := obs.buildErr == "" && obs.panicked == ""
	for _, is := range c.imports {
		if !c.supplied(is.path) && built {
			return "unprovided-import-never-builds", fmt.Sprintf("import %q built although the importer has no package for it", is.path)
		}
	}
	if c.usesGo && !c.allowGo && built {
		return "go-rejected-unless-allowed", "built with a go statement and AllowGoStmt=false"
	}
	if !c.allowGo && obs.prints > 0 {
		return "no-goroutine-print-unless-allowed", "a go statement printed although AllowGoStmt=false"
	}
	// every invoked host function is one the embedder supplied under that very place
	for _, k := range obs.invoked {
		ok := false
		switch {
		case strings.HasPrefix(k, "G:"):
			name := strings.TrimPrefix(k, "G:")
			for _, g := range c.globals {
				if g.kind == "func" && g.name == name {
					ok = true
				}
				for _, d := range g.members {
					if g.name+"."+d.name == name {
						ok = true
					}
				}
			}
		case strings.HasPrefix(k, "I"):
			rest := strings.TrimPrefix(k, "I")
			i := strings.LastIndex(rest, ":")
			path := rest[:i]
			// … and only a package the code imported
			for _, is := range c.imports {
				if is.path == path && c.supplied(path) {
					ok = true
				}
			}
		}
		if !ok {
			return "only-supplied-functions-run", "invoked " + k
		}
	}
	return "", ""
}

// ---------------------------------------------------------------------------------------------
// correspondence

// modelNatives turns the model's `prov:name` (name as written in the code) into recorder keys.
func (c *caseSpec) modelNatives(ans string) ([]string, bool) {
	if !strings.HasPrefix(ans, "ok natives=") {
		return nil, false
	}
	v := strings.TrimPrefix(ans, "ok natives=")
	set := map[string]bool{}
	if v != "-" {
		for _, e := range strings.Split(v, ",") {
			if strings.HasPrefix(e, "G:") {
				set[e] = true
				continue
			}
			// I<path>:<local>.<Name> or I<path>:<Name>
			i := strings.LastIndex(e, ":")
			name := e[i+1:]
			if j := strings.LastIndex(name, "."); j >= 0 {
				name = name[j+1:]
			}
			set[e[:i+1]+name] = true
		}
	}
	var out []string
	for k := range set {
		out = append(out, k)
	}
	sort.Strings(out)
	return out, true
}

func errClass(msg string) string {
	switch {
	case strings.Contains(msg, "cannot find package"), strings.Contains(msg, "invalid import path"):
		return "cannot-find-package"
	case strings.Contains(msg, "importer refuses"):
		return "importer-error"
	case strings.Contains(msg, "\"go\" statement not available"):
		return "go-not-available"
	case strings.Contains(msg, "is a program, not an importable package"):
		return "not-importable"
	}
	return "other"
}

func (c *caseSpec) correspond(obs *observation, ans string) (name, impl string) {
	if obs.panicked != "" {
		return "build-outcome", "panic: " + obs.panicked
	}
	for _, is := range c.imports {
		if strings.HasPrefix(is.path, "./") || strings.HasPrefix(is.path, "../") {
			// the parser rejects a relative import path before anything is checked
			if obs.buildErr == "" {
				return "build-outcome", "built with a relative import path"
			}
			return "", ""
		}
	}
	if c.goNeverBuilds {
		// `go` on a conversion or on a builtin whose result would be discarded is no statement
		if obs.buildErr == "" {
			return "build-outcome", "built with a go statement that is no statement"
		}
		return "", ""
	}
	want, ok := c.modelNatives(ans)
	if !ok {
		// the model rejects: the code must not build; the named classes must agree
		if obs.buildErr == "" {
			return "build-outcome", "built and ran"
		}
		mc := strings.TrimPrefix(ans, "err ")
		switch mc {
		case "cannot-find-package", "importer-error", "go-not-available", "not-importable":
			// a check reports the first error in source order, the model the first in operation
			// order; both orders agree on imports (first) but a go statement may follow a use
			// that fails for another reason
			if rc := errClass(obs.buildErr); rc != mc && !(rc == "other" && mc == "go-not-available") {
				return "build-error-class", rc + ": " + obs.buildErr
			}
		}
		return "", ""
	}
	if obs.buildErr != "" {
		return "build-outcome", "build error: " + obs.buildErr
	}
	if obs.runErr != "" {
		return "run-outcome", "run error: " + obs.runErr
	}
	if strings.Join(obs.invoked, ",") != strings.Join(want, ",") {
		return "invoked-set", strings.Join(obs.invoked, ",")
	}
	return "", ""
}

func (c *caseSpec) human() string {
	var b strings.Builder
	fmt.Fprintf(&b, "mode=%s AllowGoStmt=%v importer=%s", map[bool]string{true: "template", false: "program"}[c.template], c.allowGo, c.importer)
	for _, p := range c.pkgs {
		fmt.Fprintf(&b, " %q:%s{", p.path, p.name)
		for _, d := range p.decls {
			b.WriteString(d.name + " ")
		}
		b.WriteString("}")
	}
	if len(c.failing) > 0 {
		fmt.Fprintf(&b, " failing=%v", c.failing)
	}
	if c.template {
		b.WriteString(" Globals:")
		for _, g := range c.globals {
			fmt.Fprintf(&b, " %s(%s)", g.name, g.kind)
		}
	}
	b.WriteString("\n" + c.source())
	return b.String()
}

// shrink drops statements and imports while the clause keeps failing.
func (c *caseSpec) shrink(failing func() bool) {
	for progress := true; progress; {
		progress = false
		for i := 0; i < len(c.stmts); i++ {
			old := c.stmts
			c.stmts = append(append([]stmt(nil), old[:i]...), old[i+1:]...)
			if failing() {
				progress = true
				i--
			} else {
				c.stmts = old
			}
		}
		for i := 0; i < len(c.imports); i++ {
			old := c.imports
			c.imports = append(append([]importSpec(nil), old[:i]...), old[i+1:]...)
			if failing() {
				progress = true
				i--
			} else {
				c.imports = old
			}
		}
	}
	c.usesGo = false
	for _, s := range c.stmts {
		if s.kind == sGo || s.kind == sGoLit || s.kind == sGoClosure || s.kind >= sGoBuiltin {
			c.usesGo = true
		}
	}
}

func runC19(c *hx.Ctx) error {
	res := c.Res
	res.Rule = "generated programs and templates: importer nil / native.Packages / CombinedImporter / failing importer over up to 4 packages (one possibly supplied under the path \"os\"), Globals with functions, a function named len, an auto-imported package and a constant; 0-4 imports in the forms default/named/dot/blank/for of supplied and fictitious paths (os, os/exec, unsafe, syscall, net/http, ./rel, ../rel, lib/zz); uses as call, value, closure, defer, go, go inside a function literal, go of a closure, go on the builtins println/print/close/copy/delete/recover/cap/new, on a conversion, on a method value of a supplied variable and on a macro, constant, shadowing local, process effect through the name os; AllowGoStmt on in 1/3. Non-trivial: at least one import or go statement; distinct by configuration+source"
	if os.Getenv("VERIF_REPO") != "" {
		res.Notes = append(res.Notes, "built against "+filepath.Clean(os.Getenv("VERIF_REPO")))
	}
	switch os.Getenv("VERIF_C19_STREAM") { // (debugging aid: one of the later streams alone)
	case "runs":
		return runHistories(c)
	case "policy":
		return runPolicies(c)
	}
	n := c.N(4000, 60000)
	cases := make([]*caseSpec, n)
	lines := make([]string, n)
	for i := range cases {
		cases[i] = generate(c.R, i)
		lines[i] = cases[i].line()
	}
	var model []string
	if c.D != nil {
		var err error
		if model, err = c.D.Batch(lines); err != nil {
			return err
		}
	}
	for i, cs := range cases {
		want := 0
		if model != nil {
			if w, ok := cs.modelNatives(model[i]); ok {
				want = len(w)
			}
		}
		obs := cs.execute(want)
		res.Count(lines[i], len(cs.imports) > 0 || cs.usesGo)
		res.Hist(map[bool]string{true: "template", false: "program"}[cs.template])
		res.Hist("importer-" + cs.importer)
		if obs.buildErr != "" {
			res.Hist("build-error-" + errClass(obs.buildErr))
		} else {
			res.Hist("built")
			if len(obs.invoked) > 0 {
				res.Hist("built-and-invoked-supplied-functions")
			}
		}
		if cs.usesGo {
			res.Hist("with-go-statement")
		}
		for _, st := range cs.stmts {
			if st.kind >= sGoBuiltin {
				k := map[int]string{sGoBuiltin: "go-builtin-" + st.name, sGoConv: "go-conversion", sGoMethod: "go-method-value", sGoMacro: "go-macro"}[st.kind]
				if obs.buildErr == "" {
					res.Hist(k + "-built")
				} else {
					res.Hist(k + "-rejected")
				}
			}
		}
		if cs.hasEffect {
			res.Hist("with-process-effect-attempt")
		}
		if i%499 == 0 && model != nil {
			res.Sample(map[string]string{"input": cs.human(), "line": lines[i], "model": model[i], "invoked": strings.Join(obs.invoked, ",")})
		}
		if clause, detail := cs.oracle(obs); clause != "" {
			cs.shrink(func() bool { cl, _ := cs.oracle(cs.execute(0)); return cl == clause })
			_, d2 := cs.oracle(cs.execute(0))
			if d2 != "" {
				detail = d2
			}
			res.AddBreak(proto.Break{Kind: "property", Name: clause, Case: cs.line(), Human: cs.human(), Impl: detail,
				Model: "only supplied packages import; go only when allowed; only supplied functions run; no process effect"})
			continue
		}
		if model != nil {
			if name, impl := cs.correspond(obs, model[i]); name != "" {
				res.AddBreak(proto.Break{Kind: "correspondence", Name: "scopes-model-vs-build-" + name, Case: lines[i], Human: cs.human(), Impl: impl, Model: model[i]})
			}
		}
	}
	if err := runHistories(c); err != nil {
		return err
	}
	return runPolicies(c)
}
