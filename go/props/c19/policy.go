package main

// C19, importer policies: what code reaches of a path comes from the FIRST DECISIVE member of the
// configured importer — and a refusal is decisive.
//
// BuildOptions.Packages is a generated importer tree: a native.Packages, an importer of the
// embedder's own (a policy that refuses paths, a loader that fails), a native.CombinedImporter of
// 2-4 members, nested combinations. For every path each non-combined member answers
// (pkg,nil) / (nil,nil) / (nil,err) / (pkg,err) (a Packages member: present, absent, or a nil
// package stored under the path); a package is a native.Package or a native.CombinedPackage of
// two. Every package value has its own functions, variable, constant and type, tagged with the
// supplier that made them. Programs and templates import the paths (default, named, dot, blank,
// `for` list; through an imported template file) and call the functions, assign the variable,
// print the constant and a value of the type.
//
//   - oracle (no model), clause refused-or-unknown-path-never-builds: if the first member, in
//     order, whose answer for an imported path is not (nil,nil) answers with an error, the build
//     fails (clause first-decisive-error-is-the-build-error: with that error); if there is no
//     such member it fails with `cannot find package`;
//   - oracle, clause only-the-first-decisive-member-is-reached: every host function that runs,
//     every host variable written, every host constant and type that shows up belongs to the
//     package the first decisive member supplied for its path (for a CombinedPackage: to its
//     first part that declares the name);
//   - correspondence: build outcome, error class, the importer's answer per imported path and the
//     functions invoked vs. Model/ImporterPolicy.lean (driver op `checkt`, under the stop rule
//     regenerated from CombinedImporter.Import).

import (
	"errors"
	"fmt"
	"io"
	"reflect"
	"sort"
	"strings"
	"sync"

	"github.com/open2b/scriggo"
	"github.com/open2b/scriggo/native"

	"verifharness/internal/hx"
	"verifharness/internal/proto"
)

// ---------------------------------------------------------------------------------------------
// importer trees

// one native.Package: its supplier id and what it declares
type ppart struct {
	sid   int
	funcs []string // among F0 F1 F2
	hasV  bool     // V0
	hasC  bool     // C0
	hasT  bool     // T
}

// a package value: one part = native.Package, two = native.CombinedPackage
type ppkg struct {
	idx   int
	name  string
	parts []ppart
}

type panswer struct {
	kind  byte // 'n' (nil,nil)  'p' (pkg,nil)  'e' (nil,err)  'b' (pkg,err)  'z' nil stored in a Packages map
	pkg   *ppkg
	errno int
}

func (a panswer) decisive() bool { return a.kind == 'p' || a.kind == 'e' || a.kind == 'b' }

type pnode struct {
	id     int // leaves: the member's number
	custom bool
	ans    map[string]panswer
	kids   []*pnode // combined when non-nil
	comb   bool
}

var pPaths = []string{"lib/a", "lib/b", "lib/c"}

type puse struct {
	imp  int    // index of the import it goes through
	kind string // call | var | const | type
	name string // call: the function
}

type pimport struct {
	path   string
	form   string // D N P B F
	name   string
	names  []string
	viaLib bool // templates: the import and its uses are in an imported file
}

type pcase struct {
	template bool
	root     *pnode // nil = nil importer
	pkgs     []*ppkg
	nsid     int
	imports  []pimport
	uses     []puse
}

func (c *pcase) newPkg(r *proto.Rand, path string) *ppkg {
	p := &ppkg{idx: len(c.pkgs), name: path[strings.LastIndex(path, "/")+1:]}
	n := 1
	if r.Intn(4) == 0 {
		n = 2
	}
	for i := 0; i < n; i++ {
		pt := ppart{sid: c.nsid}
		c.nsid++
		for _, f := range []string{"F0", "F1", "F2"} {
			if r.Intn(3) > 0 {
				pt.funcs = append(pt.funcs, f)
			}
		}
		if len(pt.funcs) == 0 {
			pt.funcs = []string{"F0"}
		}
		pt.hasV, pt.hasC, pt.hasT = r.Intn(3) > 0, r.Intn(3) > 0, r.Intn(3) > 0
		p.parts = append(p.parts, pt)
	}
	c.pkgs = append(c.pkgs, p)
	return p
}

func (c *pcase) genLeaf(r *proto.Rand, id *int) *pnode {
	n := &pnode{id: *id, custom: r.Intn(2) == 0, ans: map[string]panswer{}}
	*id++
	for _, path := range pPaths {
		var a panswer
		if n.custom {
			switch k := r.Intn(10); {
			case k < 4:
				a = panswer{kind: 'n'}
			case k < 7:
				a = panswer{kind: 'p', pkg: c.newPkg(r, path)}
			case k < 9:
				a = panswer{kind: 'e', errno: 10*n.id + len(n.ans)}
			default:
				a = panswer{kind: 'b', pkg: c.newPkg(r, path), errno: 10*n.id + len(n.ans)}
			}
		} else {
			switch k := r.Intn(10); {
			case k < 4:
				a = panswer{kind: 'n'}
			case k < 9:
				a = panswer{kind: 'p', pkg: c.newPkg(r, path)}
			default:
				a = panswer{kind: 'z'}
			}
		}
		n.ans[path] = a
	}
	return n
}

func (c *pcase) genNode(r *proto.Rand, depth int, id *int) *pnode {
	if depth == 0 || r.Intn(3) > 0 {
		return c.genLeaf(r, id)
	}
	n := &pnode{comb: true}
	for i, k := 0, 1+r.Intn(3); i < k; i++ {
		n.kids = append(n.kids, c.genNode(r, depth-1, id))
	}
	return n
}

func pGenerate(r *proto.Rand) *pcase {
	c := &pcase{template: r.Intn(2) == 0}
	id := 0
	switch k := r.Intn(12); {
	case k == 0:
	case k < 3:
		c.root = c.genLeaf(r, &id)
	default:
		c.root = &pnode{comb: true}
		for i, n := 0, 2+r.Intn(3); i < n; i++ {
			c.root.kids = append(c.root.kids, c.genNode(r, 2, &id))
		}
	}
	// imports
	special := false
	for _, path := range pPaths {
		if r.Intn(2) == 0 && len(c.imports) > 0 {
			continue
		}
		is := pimport{path: path, form: "D"}
		switch k := r.Intn(10); {
		case k < 4:
		case k < 6:
			is.form, is.name = "N", fmt.Sprintf("x%d", len(c.imports))
		case k < 7 && !special:
			is.form, special = "P", true
		case k < 8 && !special && c.template:
			is.form, special = "F", true
		case k == 9:
			is.form = "B"
		}
		if c.template && is.form != "B" && r.Intn(4) == 0 {
			is.viaLib = true
		}
		c.imports = append(c.imports, is)
		if len(c.imports) == 2 {
			break
		}
	}
	// uses: what the expected package declares (anything, when nothing is expected: it cannot build)
	for i := range c.imports {
		is := &c.imports[i]
		if is.form == "B" {
			continue
		}
		var funcs []string
		hasV, hasC, hasT := true, true, true
		if a := c.expected(is.path); a.kind == 'p' {
			hasV, hasC, hasT = false, false, false
			seen := map[string]bool{}
			for _, pt := range a.pkg.parts {
				for _, f := range pt.funcs {
					if !seen[f] {
						seen[f] = true
						funcs = append(funcs, f)
					}
				}
				hasV, hasC, hasT = hasV || pt.hasV, hasC || pt.hasC, hasT || pt.hasT
			}
		} else {
			funcs = []string{"F0", "F1"}
		}
		var us []puse
		for _, f := range funcs {
			if r.Intn(3) > 0 {
				us = append(us, puse{i, "call", f})
			}
		}
		if hasV && r.Intn(2) == 0 {
			us = append(us, puse{i, "var", "V0"})
		}
		if hasC && r.Intn(2) == 0 {
			us = append(us, puse{i, "const", "C0"})
		}
		if hasT && r.Intn(2) == 0 {
			us = append(us, puse{i, "type", "T"})
		}
		if len(us) == 0 {
			us = append(us, puse{i, "call", funcs[0]})
		}
		if is.form == "F" {
			for _, u := range us {
				dup := false
				for _, n := range is.names {
					dup = dup || n == u.name
				}
				if !dup {
					is.names = append(is.names, u.name)
				}
			}
		}
		c.uses = append(c.uses, us...)
	}
	return c
}

// ---------------------------------------------------------------------------------------------
// the property's reading of an importer tree: the first decisive member, in order

func (n *pnode) leaves() []*pnode {
	if n == nil {
		return nil
	}
	if !n.comb {
		return []*pnode{n}
	}
	var out []*pnode
	for _, k := range n.kids {
		out = append(out, k.leaves()...)
	}
	return out
}

func (c *pcase) expected(path string) panswer {
	for _, l := range c.root.leaves() {
		if a := l.ans[path]; a.decisive() {
			return a
		}
	}
	return panswer{kind: 'n'}
}

func errText(id, errno int) string { return fmt.Sprintf("refused by importer #%d (E%d)", id, errno) }

// ---------------------------------------------------------------------------------------------
// the real importer

type precorder struct {
	mu     sync.Mutex
	calls  map[string]bool // path:F@sid
	vars   map[int]*int
	consts []int
	types  []string
}

type policyImporter struct {
	n   *pnode
	c   *pcase
	rec *precorder
}

func (p policyImporter) Import(path string) (native.ImportablePackage, error) {
	a, ok := p.n.ans[path]
	if !ok {
		return nil, nil
	}
	switch a.kind {
	case 'p':
		return p.c.value(a.pkg, path, p.rec), nil
	case 'e':
		return nil, errors.New(errText(p.n.id, a.errno))
	case 'b':
		return p.c.value(a.pkg, path, p.rec), errors.New(errText(p.n.id, a.errno))
	}
	return nil, nil
}

func (c *pcase) value(p *ppkg, path string, rec *precorder) native.ImportablePackage {
	var parts native.CombinedPackage
	for i, pt := range p.parts {
		ds := native.Declarations{}
		for _, f := range pt.funcs {
			key := fmt.Sprintf("%s:%s@%d", path, f, pt.sid)
			ds[f] = func() { rec.mu.Lock(); rec.calls[key] = true; rec.mu.Unlock() }
		}
		if pt.hasV {
			rec.mu.Lock()
			v, ok := rec.vars[pt.sid]
			if !ok {
				v = new(int)
				rec.vars[pt.sid] = v
			}
			rec.mu.Unlock()
			ds["V0"] = v
		}
		if pt.hasC {
			ds["C0"] = 1000 + pt.sid
		}
		if pt.hasT {
			ds["T"] = reflect.StructOf([]reflect.StructField{{Name: fmt.Sprintf("S%d", pt.sid), Type: reflect.TypeFor[int]()}})
		}
		if i == 0 {
			ds[fmt.Sprintf("K%d", p.idx)] = 1
		}
		parts = append(parts, native.Package{Name: p.name, Declarations: ds})
	}
	if len(parts) == 1 {
		return parts[0]
	}
	return parts
}

func (c *pcase) importer(n *pnode, rec *precorder) native.Importer {
	if n.comb {
		var ci native.CombinedImporter
		for _, k := range n.kids {
			ci = append(ci, c.importer(k, rec))
		}
		return ci
	}
	if n.custom {
		return policyImporter{n, c, rec}
	}
	pk := native.Packages{}
	for path, a := range n.ans {
		switch a.kind {
		case 'p':
			pk[path] = c.value(a.pkg, path, rec)
		case 'z':
			pk[path] = nil
		}
	}
	return pk
}

// ---------------------------------------------------------------------------------------------
// sources

func (c *pcase) local(is pimport) string {
	switch is.form {
	case "N":
		return is.name + "."
	case "P", "F":
		return ""
	}
	return is.path[strings.LastIndex(is.path, "/")+1:] + "."
}

func (c *pcase) importSrc(is pimport) string {
	switch is.form {
	case "N":
		return fmt.Sprintf("import %s %q", is.name, is.path)
	case "P":
		return fmt.Sprintf("import . %q", is.path)
	case "B":
		return fmt.Sprintf("import _ %q", is.path)
	case "F":
		return fmt.Sprintf("import %q for %s", is.path, strings.Join(is.names, ", "))
	}
	return fmt.Sprintf("import %q", is.path)
}

func (c *pcase) useSrc(i int, u puse) []string {
	l := c.local(c.imports[u.imp])
	switch u.kind {
	case "call":
		return []string{l + u.name + "()"}
	case "var":
		return []string{l + "V0 = " + l + "V0 + 7"}
	case "const":
		return []string{"print(" + l + "C0)"}
	case "type":
		return []string{fmt.Sprintf("var t%d %sT", i, l), fmt.Sprintf("print(t%d)", i)}
	}
	return nil
}

func (c *pcase) files() scriggo.Files {
	fs := scriggo.Files{}
	if !c.template {
		var b strings.Builder
		b.WriteString("package main\n")
		for _, is := range c.imports {
			b.WriteString(c.importSrc(is) + "\n")
		}
		b.WriteString("func main() {\n")
		for i, u := range c.uses {
			b.WriteString("\t" + strings.Join(c.useSrc(i, u), "; ") + "\n")
		}
		b.WriteString("}\n")
		fs["main.go"] = []byte(b.String())
		return fs
	}
	var b, lb strings.Builder
	lib := false
	for _, is := range c.imports {
		if is.viaLib {
			lib = true
		}
	}
	if lib {
		b.WriteString("{% import \"lib.txt\" %}")
	}
	for _, is := range c.imports {
		if is.viaLib {
			fmt.Fprintf(&lb, "{%% %s %%}", c.importSrc(is))
		} else {
			fmt.Fprintf(&b, "{%% %s %%}", c.importSrc(is))
		}
	}
	lb.WriteString("{% macro Lib %}")
	for i, u := range c.uses {
		w := &b
		if c.imports[u.imp].viaLib {
			w = &lb
		}
		for _, s := range c.useSrc(i, u) {
			fmt.Fprintf(w, "{%% %s %%}", s)
		}
	}
	lb.WriteString("{% end %}")
	if lib {
		b.WriteString("{{ Lib() }}")
		fs["lib.txt"] = []byte(lb.String())
	}
	fs["index.txt"] = []byte(b.String())
	return fs
}

// ---------------------------------------------------------------------------------------------
// model line

func (c *pcase) nodeLine(n *pnode) string {
	if n.comb {
		var ks []string
		for _, k := range n.kids {
			ks = append(ks, c.nodeLine(k))
		}
		return fmt.Sprintf("C %d %s", len(ks), strings.Join(ks, " "))
	}
	var es []string
	for _, path := range pPaths {
		a, ok := n.ans[path]
		if !ok {
			continue
		}
		if n.custom {
			switch a.kind {
			case 'n':
				es = append(es, path+" n")
			case 'p':
				es = append(es, fmt.Sprintf("%s p %d", path, a.pkg.idx))
			case 'e':
				es = append(es, fmt.Sprintf("%s e %d", path, a.errno))
			case 'b':
				es = append(es, fmt.Sprintf("%s b %d %d", path, a.pkg.idx, a.errno))
			}
		} else {
			switch a.kind {
			case 'p':
				es = append(es, fmt.Sprintf("%s %d", path, a.pkg.idx))
			case 'z':
				es = append(es, path+" -1")
			}
		}
	}
	if n.custom {
		return strings.TrimSpace(fmt.Sprintf("U %d %d %s", n.id, len(es), strings.Join(es, " ")))
	}
	return strings.TrimSpace(fmt.Sprintf("P %d %s", len(es), strings.Join(es, " ")))
}

func (c *pcase) line() string {
	var b strings.Builder
	bit := map[bool]string{true: "1", false: "0"}
	fmt.Fprintf(&b, "C19 checkt %s 0 %d", bit[c.template], len(c.pkgs))
	for _, p := range c.pkgs {
		var ds []string
		seen := map[string]bool{}
		add := func(n, k string) {
			if !seen[n] {
				seen[n] = true
				ds = append(ds, n+" "+k)
			}
		}
		add(fmt.Sprintf("K%d", p.idx), "const")
		for _, pt := range p.parts {
			for _, f := range pt.funcs {
				add(f, "func")
			}
			if pt.hasV {
				add("V0", "var")
			}
			if pt.hasC {
				add("C0", "const")
			}
			if pt.hasT {
				add("T", "type")
			}
		}
		fmt.Fprintf(&b, " %s %d %s", p.name, len(ds), strings.Join(ds, " "))
	}
	if c.root == nil {
		b.WriteString(" N")
	} else {
		b.WriteString(" " + c.nodeLine(c.root))
	}
	b.WriteString(" 0") // no globals
	var ops []string
	imp := func(is pimport) string {
		switch is.form {
		case "N":
			return fmt.Sprintf("im %s N %s", is.path, is.name)
		case "F":
			return fmt.Sprintf("im %s F %d %s", is.path, len(is.names), strings.Join(is.names, " "))
		}
		return fmt.Sprintf("im %s %s", is.path, is.form)
	}
	// (an imported file is checked where it is imported: first)
	for _, is := range c.imports {
		if is.viaLib {
			ops = append(ops, imp(is))
		}
	}
	for _, is := range c.imports {
		if !is.viaLib {
			ops = append(ops, imp(is))
		}
	}
	ops = append(ops, "en")
	for _, u := range c.uses {
		is := c.imports[u.imp]
		if l := c.local(is); l == "" {
			ops = append(ops, "id "+u.name)
		} else {
			ops = append(ops, fmt.Sprintf("se %s %s", strings.TrimSuffix(l, "."), u.name))
		}
	}
	ops = append(ops, "ex")
	fmt.Fprintf(&b, " %d %s", len(ops), strings.Join(ops, " "))
	return b.String()
}

// ---------------------------------------------------------------------------------------------
// execution and oracle

type pobs struct {
	buildErr string
	runErr   string
	panicked string
	calls    []string
	varSids  []int
	constSid []int
	typeSid  []int
}

func (c *pcase) execute() *pobs {
	rec := &precorder{calls: map[string]bool{}, vars: map[int]*int{}}
	o := &pobs{}
	opts := &scriggo.BuildOptions{}
	if c.root != nil {
		opts.Packages = c.importer(c.root, rec)
	}
	hook := func(v any) {
		rec.mu.Lock()
		defer rec.mu.Unlock()
		if n, ok := v.(int); ok {
			rec.consts = append(rec.consts, n)
			return
		}
		if t := reflect.TypeOf(v); t != nil && t.Kind() == reflect.Struct && t.NumField() == 1 {
			rec.types = append(rec.types, t.Field(0).Name)
			return
		}
		rec.types = append(rec.types, fmt.Sprintf("?%T", v))
	}
	func() {
		defer func() {
			if r := recover(); r != nil {
				o.panicked = fmt.Sprint(r)
			}
		}()
		if c.template {
			t, err := scriggo.BuildTemplate(c.files(), "index.txt", opts)
			if err != nil {
				o.buildErr = err.Error()
				return
			}
			if err := t.Run(io.Discard, nil, &scriggo.RunOptions{Print: hook}); err != nil {
				o.runErr = err.Error()
			}
		} else {
			p, err := scriggo.Build(c.files(), opts)
			if err != nil {
				o.buildErr = err.Error()
				return
			}
			if err := p.Run(&scriggo.RunOptions{Print: hook}); err != nil {
				o.runErr = err.Error()
			}
		}
	}()
	for k := range rec.calls {
		o.calls = append(o.calls, k)
	}
	sort.Strings(o.calls)
	for sid, v := range rec.vars {
		if *v != 0 {
			o.varSids = append(o.varSids, sid)
		}
	}
	sort.Ints(o.varSids)
	for _, n := range rec.consts {
		o.constSid = append(o.constSid, n-1000)
	}
	for _, s := range rec.types {
		var sid int
		if _, err := fmt.Sscanf(s, "S%d", &sid); err != nil {
			sid = -1
		}
		o.typeSid = append(o.typeSid, sid)
	}
	return o
}

// sidsFor: the supplier that must stand behind `name` of the path
func (c *pcase) sidFor(path, name string) (int, bool) {
	a := c.expected(path)
	if a.kind != 'p' {
		return 0, false
	}
	for _, pt := range a.pkg.parts {
		has := false
		switch name {
		case "V0":
			has = pt.hasV
		case "C0":
			has = pt.hasC
		case "T":
			has = pt.hasT
		default:
			for _, f := range pt.funcs {
				has = has || f == name
			}
		}
		if has {
			return pt.sid, true
		}
	}
	return 0, false
}

func (c *pcase) sourceOrderImports() []pimport {
	var out []pimport
	for _, is := range c.imports {
		if is.viaLib {
			out = append(out, is)
		}
	}
	for _, is := range c.imports {
		if !is.viaLib {
			out = append(out, is)
		}
	}
	return out
}

func (c *pcase) poracle(o *pobs) (clause, detail string) {
	if o.panicked != "" {
		return "", "" // (reported by the correspondence)
	}
	// an import of a path that is refused, or that nobody supplies, never builds
	for _, is := range c.sourceOrderImports() {
		var want string
		a := panswer{kind: 'n'}
		var by *pnode
		for _, l := range c.root.leaves() {
			if x := l.ans[is.path]; x.decisive() {
				a, by = x, l
				break
			}
		}
		switch a.kind {
		case 'e', 'b':
			want = errText(by.id, a.errno)
		case 'n':
			want = fmt.Sprintf("cannot find package %q", is.path)
		default:
			continue
		}
		if o.buildErr == "" {
			return "refused-or-unknown-path-never-builds", fmt.Sprintf("import %q built; the first decisive member answers %s; host functions that ran: %v, suppliers whose variable was written: %v, whose constant / type showed up: %v / %v",
				is.path, want, o.calls, o.varSids, o.constSid, o.typeSid)
		}
		if !strings.Contains(o.buildErr, want) {
			return "first-decisive-error-is-the-build-error", fmt.Sprintf("import %q: build error %q, want the first decisive answer: %s", is.path, o.buildErr, want)
		}
		return "", "" // the first failing import decides the error
	}
	// only the first decisive member is reached
	allowed := map[int]string{}
	for _, u := range c.uses {
		if sid, ok := c.sidFor(c.imports[u.imp].path, u.name); ok {
			allowed[sid] = c.imports[u.imp].path + "." + u.name
		}
	}
	for _, k := range o.calls {
		at := strings.LastIndex(k, "@")
		colon := strings.LastIndex(k[:at], ":")
		path, name := k[:colon], k[colon+1:at]
		var sid int
		fmt.Sscanf(k[at+1:], "%d", &sid)
		if want, ok := c.sidFor(path, name); !ok || want != sid {
			return "only-the-first-decisive-member-is-reached", fmt.Sprintf("function %s of %q ran from supplier %d (%s); the first decisive member's is supplier %d", name, path, sid, c.describe(sid), want)
		}
	}
	for what, sids := range map[string][]int{"variable V0 was written": o.varSids, "constant C0 was read": o.constSid, "type T was used": o.typeSid} {
		for _, sid := range sids {
			if _, ok := allowed[sid]; !ok {
				return "only-the-first-decisive-member-is-reached", fmt.Sprintf("%s of supplier %d (%s), which the first decisive member of no imported path supplied", what, sid, c.describe(sid))
			}
		}
	}
	return "", ""
}

func (c *pcase) describe(sid int) string {
	for _, l := range c.root.leaves() {
		for path, a := range l.ans {
			if a.pkg != nil {
				for i, pt := range a.pkg.parts {
					if pt.sid == sid {
						return fmt.Sprintf("member #%d, path %q, part %d", l.id, path, i)
					}
				}
			}
		}
	}
	return "unknown"
}

// correspondence with the model's answer `ok natives=… imports=…` / `err <class> imports=…`
func (c *pcase) pcorrespond(o *pobs, ans string) (name, impl, model string) {
	if o.panicked != "" {
		return "policy-build-outcome", "panic: " + o.panicked, ans
	}
	head, imports, ok := strings.Cut(ans, " imports=")
	if !ok {
		return "policy-model-answer", "-", ans
	}
	// the importer's answer per imported path, as the harness reads the tree (spec validation is
	// counted by the caller; here it is part of the tie: the model is what was proved)
	var want []string
	seen := map[string]bool{}
	for _, is := range c.sourceOrderImports() {
		if seen[is.path] || c.root == nil {
			continue
		}
		seen[is.path] = true
		a := c.expected(is.path)
		switch a.kind {
		case 'n':
			want = append(want, is.path+":n")
		case 'p':
			want = append(want, fmt.Sprintf("%s:p%d", is.path, a.pkg.idx))
		case 'e':
			want = append(want, fmt.Sprintf("%s:e%d", is.path, a.errno))
		case 'b':
			want = append(want, fmt.Sprintf("%s:b%d.%d", is.path, a.pkg.idx, a.errno))
		}
	}
	w := strings.Join(want, ",")
	if w == "" {
		w = "-"
	}
	if imports != w {
		return "policy-first-decisive-answer", w, imports
	}
	if strings.HasPrefix(head, "err ") {
		if o.buildErr == "" {
			return "policy-build-outcome", "built and ran", head
		}
		mc := strings.TrimPrefix(head, "err ")
		rc := errClass(o.buildErr)
		if strings.Contains(o.buildErr, "refused by importer") {
			rc = "importer-error"
		}
		switch mc {
		case "cannot-find-package", "importer-error", "not-importable":
			if rc != mc {
				return "policy-build-error-class", rc + ": " + o.buildErr, head
			}
		}
		return "", "", ""
	}
	if o.buildErr != "" {
		return "policy-build-outcome", "build error: " + o.buildErr, head
	}
	if o.runErr != "" {
		return "policy-run-outcome", "run error: " + o.runErr, head
	}
	// functions invoked: path:name
	got := map[string]bool{}
	for _, k := range o.calls {
		got[k[:strings.LastIndex(k, "@")]] = true
	}
	wantF := map[string]bool{}
	v := strings.TrimPrefix(head, "ok natives=")
	if v != "-" {
		for _, e := range strings.Split(v, ",") {
			i := strings.LastIndex(e, ":")
			n := e[i+1:]
			if j := strings.LastIndex(n, "."); j >= 0 {
				n = n[j+1:]
			}
			wantF[strings.TrimPrefix(e[:i], "I")+":"+n] = true
		}
	}
	keys := func(m map[string]bool) string {
		var ks []string
		for k := range m {
			ks = append(ks, k)
		}
		sort.Strings(ks)
		return strings.Join(ks, ",")
	}
	if keys(got) != keys(wantF) {
		return "policy-invoked-functions", keys(got), keys(wantF)
	}
	return "", "", ""
}

// ---------------------------------------------------------------------------------------------
// reporting

func (c *pcase) nodeHuman(n *pnode, b *strings.Builder, indent string) {
	if n.comb {
		fmt.Fprintf(b, "%snative.CombinedImporter{\n", indent)
		for _, k := range n.kids {
			c.nodeHuman(k, b, indent+"  ")
		}
		fmt.Fprintf(b, "%s}\n", indent)
		return
	}
	kind := "native.Packages"
	if n.custom {
		kind = "custom importer"
	}
	fmt.Fprintf(b, "%smember #%d %s:", indent, n.id, kind)
	for _, path := range pPaths {
		a, ok := n.ans[path]
		if !ok {
			continue
		}
		switch a.kind {
		case 'n':
			if n.custom {
				fmt.Fprintf(b, " %q→(nil,nil)", path)
			}
		case 'z':
			fmt.Fprintf(b, " %q→nil stored", path)
		case 'p':
			fmt.Fprintf(b, " %q→(%s,nil)", path, c.pkgHuman(a.pkg))
		case 'e':
			fmt.Fprintf(b, " %q→(nil,%q)", path, errText(n.id, a.errno))
		case 'b':
			fmt.Fprintf(b, " %q→(%s,%q)", path, c.pkgHuman(a.pkg), errText(n.id, a.errno))
		}
	}
	b.WriteString("\n")
}

func (c *pcase) pkgHuman(p *ppkg) string {
	var ps []string
	for _, pt := range p.parts {
		d := append([]string(nil), pt.funcs...)
		if pt.hasV {
			d = append(d, "V0")
		}
		if pt.hasC {
			d = append(d, "C0")
		}
		if pt.hasT {
			d = append(d, "T")
		}
		ps = append(ps, fmt.Sprintf("pkg%d{%s}", pt.sid, strings.Join(d, " ")))
	}
	if len(ps) == 1 {
		return ps[0]
	}
	return "CombinedPackage{" + strings.Join(ps, ", ") + "}"
}

func (c *pcase) human() string {
	var b strings.Builder
	fmt.Fprintf(&b, "mode=%s BuildOptions.Packages =\n", map[bool]string{true: "template", false: "program"}[c.template])
	if c.root == nil {
		b.WriteString("nil\n")
	} else {
		c.nodeHuman(c.root, &b, "")
	}
	fs := c.files()
	var names []string
	for n := range fs {
		names = append(names, n)
	}
	sort.Strings(names)
	for _, n := range names {
		fmt.Fprintf(&b, "--- %s\n%s\n", n, fs[n])
	}
	return b.String()
}

// pshrink: fewer uses, fewer imports, fewer members, fewer answers
func (c *pcase) pshrink(failing func() bool) {
	try := func(edit, undo func()) bool {
		edit()
		if failing() {
			return true
		}
		undo()
		return false
	}
	for progress := true; progress; {
		progress = false
		for i := 0; i < len(c.uses) && len(c.uses) > 1; i++ { // (one use stays: what is reached is part of the report)
			old := c.uses
			if try(func() { c.uses = append(append([]puse(nil), old[:i]...), old[i+1:]...) }, func() { c.uses = old }) {
				progress = true
				i--
			}
		}
		for i := len(c.imports) - 1; i >= 0 && len(c.imports) > 1; i-- {
			used := false
			for _, u := range c.uses {
				used = used || u.imp == i
			}
			if used || i != len(c.imports)-1 {
				continue
			}
			old := c.imports
			if try(func() { c.imports = old[:i] }, func() { c.imports = old }) {
				progress = true
			}
		}
		var walk func(n *pnode)
		walk = func(n *pnode) {
			if n == nil || !n.comb {
				return
			}
			for i := 0; i < len(n.kids); i++ {
				old := n.kids
				if len(old) > 1 && try(func() { n.kids = append(append([]*pnode(nil), old[:i]...), old[i+1:]...) }, func() { n.kids = old }) {
					progress = true
					i--
					continue
				}
				walk(n.kids[i])
			}
		}
		walk(c.root)
		for _, l := range c.root.leaves() {
			for _, path := range pPaths {
				if a, ok := l.ans[path]; ok && a.kind != 'n' {
					if try(func() { l.ans[path] = panswer{kind: 'n'} }, func() { l.ans[path] = a }) {
						progress = true
					}
				}
			}
		}
	}
	for i := range c.imports {
		if c.imports[i].viaLib {
			try(func() { c.imports[i].viaLib = false }, func() { c.imports[i].viaLib = true })
		}
	}
}

// ---------------------------------------------------------------------------------------------
// the stream

func runPolicies(c *hx.Ctx) error {
	res := c.Res
	n := c.N(3000, 40000)
	cases := make([]*pcase, n)
	lines := make([]string, n)
	for i := range cases {
		cases[i] = pGenerate(c.R)
		lines[i] = cases[i].line()
	}
	var model []string
	if c.D != nil {
		var err error
		if model, err = c.D.Batch(lines); err != nil {
			return err
		}
	}
	failed := 0
	for i, cs := range cases {
		o := cs.execute()
		res.Count(lines[i]+cs.human(), true)
		switch {
		case cs.root == nil:
			res.Hist("policy-importer-nil")
		case !cs.root.comb && cs.root.custom:
			res.Hist("policy-importer-single-custom")
		case !cs.root.comb:
			res.Hist("policy-importer-packages")
		default:
			nested := false
			for _, k := range cs.root.kids {
				nested = nested || k.comb
			}
			res.Hist(map[bool]string{true: "policy-importer-nested-combined", false: "policy-importer-combined"}[nested])
		}
		for _, is := range cs.imports {
			a := cs.expected(is.path)
			res.Hist("policy-first-decisive-" + map[byte]string{'n': "none", 'p': "package", 'e': "error", 'b': "package-and-error"}[a.kind])
			// a later member would supply what an earlier one refuses
			if a.kind == 'e' || a.kind == 'b' {
				past := false
				for _, l := range cs.root.leaves() {
					x := l.ans[is.path]
					if past && (x.kind == 'p' || x.kind == 'b') {
						res.Hist("policy-refused-then-supplied-by-later-member")
						break
					}
					if x.decisive() {
						past = true
					}
				}
			}
			res.Hist("policy-import-form-" + is.form)
			if is.viaLib {
				res.Hist("policy-import-through-imported-file")
			}
			if a.kind == 'p' && len(a.pkg.parts) > 1 {
				res.Hist("policy-combined-package")
			}
		}
		if o.buildErr == "" {
			res.Hist("policy-built")
		}
		if i%401 == 0 && model != nil {
			res.Sample(map[string]string{"input": cs.human(), "line": lines[i], "model": model[i], "invoked": strings.Join(o.calls, ",")})
		}
		if clause, detail := cs.poracle(o); clause != "" {
			cs.pshrink(func() bool { cl, _ := cs.poracle(cs.execute()); return cl == clause })
			if cl, d := cs.poracle(cs.execute()); cl == clause {
				detail = d
			}
			res.AddBreak(proto.Break{Kind: "property", Name: clause, Case: cs.line(), Human: cs.human(), Impl: detail,
				Model: "what code reaches of a path is what the first decisive member of the importer supplied; a refusal is decisive"})
			if failed++; failed >= 8 {
				res.Notes = append(res.Notes, fmt.Sprintf("importer policies: stopped after %d failing cases (%d of %d evaluated)", failed, i+1, n))
				break
			}
			continue
		}
		if model != nil {
			if name, impl, mdl := cs.pcorrespond(o, model[i]); name != "" {
				res.AddBreak(proto.Break{Kind: "correspondence", Name: name, Case: lines[i], Human: cs.human(), Impl: impl, Model: mdl})
			} else {
				res.Hist("policy-compared-with-model")
			}
		}
	}
	return nil
}
