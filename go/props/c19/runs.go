package main

// C19, run histories: the host functionality a run reaches is the one configured for THAT run.
//
// One Program/Template is built once and run N times — in sequence or concurrently — and every
// run has its own RunOptions: its own print hook (or none: standard error, captured), its own
// context carrying the run's token (or none), its own template variables. The generated code
// calls supplied functions that take a native.Env by every route the language has (direct call,
// function value, closure, defer, defer/go of the print builtins, go, go of a closure, go of a
// value, method call / value / expression, callback from native code, macro, macro of an imported
// file, rendered partial, variadic and spread calls, loops, result returned to the code,
// EnvStringer values shown by a template) and every such function uses its env observably:
// Print/Println (the run's hook), Context() (the run's token), CallPath() (the file of the call
// site), Stop, Fatal.
//
//   - oracle (no model), clause env-of-call-is-env-of-run: a supplied function invoked by run i
//     (known from a template variable passed as an argument, or from the harness's own "run in
//     flight" in sequential histories) sees the context of run i;
//   - oracle, clause hook-receives-own-run-only: what a print hook receives was made with the
//     context of the run the hook was configured for;
//   - oracle, clause run-equals-fresh-build-run: output, hook deliveries, captured standard error
//     and error/panic of every run equal those of a single run of a fresh build with the same
//     options;
//   - correspondence: the env each native call observes, per run, vs. Model/EnvPool.lean (the
//     pooled argument slices as state shared by all runs, filled as the regenerated
//     Gen/NativeEnv.lean says callNative fills them) under a random schedule.

import (
	"context"
	"errors"
	"fmt"
	"io"
	"os"
	"reflect"
	"runtime"
	"sort"
	"strconv"
	"strings"
	"sync"
	"sync/atomic"
	"syscall"
	"time"

	"github.com/open2b/scriggo"
	"github.com/open2b/scriggo/native"

	"verifharness/internal/hx"
	"verifharness/internal/proto"
)

// ---------------------------------------------------------------------------------------------
// routes and supplied functions

const (
	rDirect       = iota // host.P(t)
	rValue               // f := host.P; f(t)
	rClosure             // func() { host.P(t) }()
	rDefer               // func() { defer host.P(t) }()
	rDeferBuiltin        // func() { defer println(t) }()
	rGo                  // go host.P(t)
	rGoBuiltin           // go println(t)
	rGoClosure           // go func() { host.P(t) }()
	rGoValue             // f := host.P; go f(t)
	rMethod              // host.R.M(t)
	rMethodValue         // m := host.R.M; m(t)
	rMethodExpr          // (*host.Rcv).M(&host.R, t)
	rDeferMethod         // func() { defer host.R.M(t) }()
	rCallback            // host.Call(t, func(s string) { host.P(s) })
	rMacro               // {% macro Mk %}{% P(t) %}{% end %}{{ Mk() }}
	rImportMacro         // the macro is declared in an imported file
	rPartial             // {{ render "part.txt" }}
	rSpread              // host.V([]string{t, "w"}...)
	rLoop                // for i := 0; i < 2; i++ { host.P(t) }
	rResult              // print(host.Q(t)) / {{ Q(t) }}
	rEnvStringer         // {{ E }}
	rBuiltin             // print(t) (OpPrint: the baseline)
	rStop                // host.Stop(t) (last statement)
	rFatal               // host.Fatal(t) (last statement)
	nRoutes
)

var routeNames = [nRoutes]string{"direct", "value", "closure", "defer", "defer-builtin", "go", "go-builtin", "go-closure",
	"go-value", "method", "method-value", "method-expr", "defer-method", "callback", "macro", "import-macro", "partial",
	"spread", "loop", "result", "env-stringer", "builtin-print", "stop", "fatal"}

func routeAsync(r int) bool { return r == rGo || r == rGoBuiltin || r == rGoClosure || r == rGoValue }

// the natives of the model line: index, name, classes of the parameters of the Go function
var rNatives = []struct {
	name string
	sig  string // e = env, r = from a register, v = variadic
}{
	{"P", "er"}, {"L", "er"}, {"V", "ev"}, {"I", "err"}, {"Q", "er"}, {"M", "er"}, {"MX", "rer"}, {"Call", "err"},
	{"println", "ev"}, {"print", "ev"}, {"Stop", "er"}, {"Fatal", "er"},
}

func rNativeIndex(name string) int {
	for i, n := range rNatives {
		if n.name == name {
			return i
		}
	}
	return -1
}

type rstmt struct {
	route int
	fn    string // P | L | V | I : the printing native used by the route (where the route has a choice)
	tag   string
}

type rcase struct {
	template   bool
	globals    bool // templates: the natives are Globals (else members of the imported package host)
	allowGo    bool
	stmts      []rstmt
	nRuns      int
	concurrent bool
	hooks      []bool // run i has its own print hook (else none: standard error)
	ctxs       []bool // run i has its own context (else none)
	procs      int    // GOMAXPROCS of a concurrent history
}

type ctxKey struct{}

// host state of one history (or of one reference run)
type rhost struct {
	mu         sync.Mutex
	inv        []rinv
	deliveries int64
	current    int32 // sequential histories: the run in flight; -1 otherwise
	yield      bool
}

// one invocation of a supplied function: what it was called with, what its env said
type rinv struct {
	fn      string
	tag     string
	argRun  string // token of the run as the arguments carry it ("" when they carry none)
	envRun  string // token of the run as env.Context() carries it ("nil": no context)
	current int32
	path    string // env.CallPath()
}

func envToken(env native.Env) string {
	ctx := env.Context()
	if ctx == nil {
		return "nil"
	}
	if v, ok := ctx.Value(ctxKey{}).(string); ok {
		return v
	}
	return "?"
}

// item is what a supplied function makes observable of its env.
func (h *rhost) item(fn string, env native.Env, tag string) string {
	tok := envToken(env)
	arg := ""
	if i := strings.Index(tag, ":"); i >= 0 {
		arg = tag[:i]
	}
	path := env.CallPath()
	h.mu.Lock()
	h.inv = append(h.inv, rinv{fn, tag, arg, tok, atomic.LoadInt32(&h.current), path})
	h.mu.Unlock()
	if h.yield {
		runtime.Gosched()
	}
	if t := tag[strings.Index(tag, ":")+1:]; strings.HasPrefix(t, "g") || strings.HasPrefix(t, "c") {
		path = "-" // not significant outside the main goroutine
	}
	return fn + "(" + tag + ")@" + tok + "#" + path + ";"
}

type Rcv struct{ h *rhost }

var reflectTypeOfRcv = reflect.TypeFor[Rcv]()

func (r *Rcv) M(env native.Env, tag string) { env.Print(r.h.item("M", env, tag)) }

type envStr struct{ h *rhost }

func (e envStr) String(env native.Env) string { return e.h.item("E", env, "e") }

func (h *rhost) decls() native.Declarations {
	return native.Declarations{
		"P": func(env native.Env, tag string) { env.Print(h.item("P", env, tag)) },
		"L": func(env native.Env, tag string) { env.Println(h.item("L", env, tag)) },
		"V": func(env native.Env, tags ...string) { env.Print(h.item("V", env, strings.Join(tags, "+"))) },
		"I": func(env native.Env, n int, tag string) int { env.Print(h.item("I", env, tag)); return n + 1 },
		"Q": func(env native.Env, tag string) string { return h.item("Q", env, tag) },
		"Call": func(env native.Env, tag string, f func(string)) {
			env.Print(h.item("Call", env, tag))
			f(tag[:strings.Index(tag, ":")+1] + "c" + tag[strings.Index(tag, ":")+1:])
		},
		"Stop":  func(env native.Env, tag string) { env.Stop(errors.New(h.item("Stop", env, tag))) },
		"Fatal": func(env native.Env, tag string) { env.Fatal(h.item("Fatal", env, tag)) },
		"R":     &Rcv{h},
		"Rcv":   native.Declaration(nil), // replaced below
		"E":     &envStr{h},
	}
}

// ---------------------------------------------------------------------------------------------
// generation

func rGenerate(r *proto.Rand, thorough bool) *rcase {
	c := &rcase{template: r.Intn(2) == 0}
	c.globals = c.template && r.Intn(2) == 0
	c.nRuns = 2 + r.Intn(3)
	if thorough && r.Intn(4) == 0 {
		c.nRuns = 2 + r.Intn(11)
	}
	c.concurrent = r.Intn(3) == 0
	c.allowGo = r.Intn(3) == 0
	c.procs = []int{1, 2, 4, 8}[r.Intn(4)]
	allHooks := c.concurrent || c.allowGo || r.Intn(2) == 0
	for i := 0; i < c.nRuns; i++ {
		c.hooks = append(c.hooks, allHooks || r.Intn(3) > 0)
		c.ctxs = append(c.ctxs, r.Intn(5) > 0)
	}
	n := 1 + r.Intn(5)
	for i := 0; i < n; i++ {
		var routes []int
		for k := 0; k < nRoutes; k++ {
			switch {
			case routeAsync(k) && !c.allowGo:
			case (k == rMacro || k == rImportMacro || k == rPartial || k == rEnvStringer) && !c.template:
			case k == rMethodExpr && c.globals: // the type is not a global
			case k == rStop || k == rFatal:
			default:
				routes = append(routes, k)
			}
		}
		s := rstmt{route: routes[r.Intn(len(routes))], fn: []string{"P", "P", "L", "V", "I"}[r.Intn(5)]}
		s.tag = fmt.Sprintf("a%d", i)
		if routeAsync(s.route) {
			s.tag = fmt.Sprintf("g%d", i)
		}
		switch s.route {
		case rMethodExpr:
			s.tag = fmt.Sprintf("x%d", i)
		case rDefer, rDeferBuiltin, rDeferMethod:
			s.tag = fmt.Sprintf("d%d", i) // (the call path of a deferred call is that of the last call)
		case rImportMacro:
			s.tag = fmt.Sprintf("i%d", i)
		case rPartial:
			s.tag = fmt.Sprintf("p%d", i)
		}
		c.stmts = append(c.stmts, s)
	}
	if k := r.Intn(8); k < 2 {
		c.stmts = append(c.stmts, rstmt{route: rStop + k, fn: "P", tag: "z"})
	}
	return c
}

// ---------------------------------------------------------------------------------------------
// sources

func (c *rcase) q(name string) string {
	if c.template && c.globals {
		return name
	}
	return "host." + name
}

// tagExpr is the expression of the tag argument: templates prefix it with the run's own variable
func (c *rcase) tagExpr(tag string) string {
	if c.template {
		return fmt.Sprintf("tok + %q", ":"+tag)
	}
	return strconv.Quote(":" + tag)
}

func (c *rcase) call(fn, fun, tag string) string {
	switch fn {
	case "V":
		return fmt.Sprintf("%s(%s, \"w\")", fun, c.tagExpr(tag))
	case "I":
		return fmt.Sprintf("%s(7, %s)", fun, c.tagExpr(tag))
	}
	return fmt.Sprintf("%s(%s)", fun, c.tagExpr(tag))
}

// code returns the statements of one use, and the top-level declarations (macros) it needs
func (c *rcase) code(i int, s rstmt) (stmts []string, decl string) {
	direct := c.call(s.fn, c.q(s.fn), s.tag)
	t := c.tagExpr(s.tag)
	switch s.route {
	case rDirect:
		return []string{direct}, ""
	case rValue:
		return []string{fmt.Sprintf("f%d := %s", i, c.q(s.fn)), c.call(s.fn, fmt.Sprintf("f%d", i), s.tag)}, ""
	case rClosure:
		return []string{fmt.Sprintf("func() { %s }()", direct)}, ""
	case rDefer:
		return []string{fmt.Sprintf("func() { defer %s }()", direct)}, ""
	case rDeferBuiltin:
		b := []string{"println", "print"}[i%2]
		return []string{fmt.Sprintf("func() { defer %s(%s, \"w\") }()", b, t)}, ""
	case rGo:
		return []string{"go " + direct}, ""
	case rGoBuiltin:
		b := []string{"println", "print"}[i%2]
		return []string{fmt.Sprintf("go %s(%s)", b, t)}, ""
	case rGoClosure:
		return []string{fmt.Sprintf("go func() { %s }()", direct)}, ""
	case rGoValue:
		return []string{fmt.Sprintf("f%d := %s", i, c.q(s.fn)), "go " + c.call(s.fn, fmt.Sprintf("f%d", i), s.tag)}, ""
	case rMethod:
		return []string{fmt.Sprintf("%s.M(%s)", c.q("R"), t)}, ""
	case rMethodValue:
		return []string{fmt.Sprintf("m%d := %s.M", i, c.q("R")), fmt.Sprintf("m%d(%s)", i, t)}, ""
	case rMethodExpr:
		return []string{fmt.Sprintf("(*host.Rcv).M(&host.R, %s)", t)}, ""
	case rDeferMethod:
		return []string{fmt.Sprintf("func() { defer %s.M(%s) }()", c.q("R"), t)}, ""
	case rCallback:
		return []string{fmt.Sprintf("%s(%s, func(s string) { %s(s) })", c.q("Call"), t, c.q("P"))}, ""
	case rMacro:
		return []string{fmt.Sprintf("show Mk%d()", i)}, fmt.Sprintf("{%% macro Mk%d %%}{%% %s %%}{%% end %%}", i, direct)
	case rImportMacro:
		return []string{fmt.Sprintf("show Im%d()", i)}, ""
	case rPartial:
		return []string{fmt.Sprintf("show render \"part%d.txt\"", i)}, ""
	case rSpread:
		return []string{fmt.Sprintf("%s([]string{%s, \"w\"}...)", c.q("V"), t)}, ""
	case rLoop:
		if c.template {
			return []string{fmt.Sprintf("for i%d := 0; i%d < 2; i%d++", i, i, i), direct, "end"}, ""
		}
		return []string{fmt.Sprintf("for i%d := 0; i%d < 2; i%d++ { %s }", i, i, i, direct)}, ""
	case rResult:
		if c.template {
			return []string{fmt.Sprintf("show %s(%s)", c.q("Q"), t)}, ""
		}
		return []string{fmt.Sprintf("print(%s(%s))", c.q("Q"), t)}, ""
	case rEnvStringer:
		return []string{"show " + c.q("E")}, ""
	case rBuiltin:
		return []string{fmt.Sprintf("print(%s)", t)}, ""
	case rStop:
		return []string{fmt.Sprintf("%s(%s)", c.q("Stop"), t)}, ""
	case rFatal:
		return []string{fmt.Sprintf("%s(%s)", c.q("Fatal"), t)}, ""
	}
	return nil, ""
}

func (c *rcase) files() scriggo.Files {
	fs := scriggo.Files{}
	if !c.template {
		var b strings.Builder
		b.WriteString("package main\nimport \"host\"\nvar _ = host.P\nfunc main() {\n")
		for i, s := range c.stmts {
			st, _ := c.code(i, s)
			b.WriteString("\t" + strings.Join(st, "; ") + "\n")
		}
		b.WriteString("}\n")
		fs["main.go"] = []byte(b.String())
		return fs
	}
	imp := ""
	if !c.globals {
		imp = "{% import \"host\" %}"
	}
	var b, ib strings.Builder
	b.WriteString(imp)
	ib.WriteString(imp)
	hasImp := false
	for i, s := range c.stmts {
		switch s.route {
		case rImportMacro:
			hasImp = true
			fmt.Fprintf(&ib, "{%% macro Im%d %%}{%% %s %%}{%% end %%}", i, c.call(s.fn, c.q(s.fn), s.tag))
		case rPartial:
			fs[fmt.Sprintf("part%d.txt", i)] = []byte(imp + fmt.Sprintf("{%% %s %%}", c.call(s.fn, c.q(s.fn), s.tag)))
		}
	}
	if hasImp {
		fs["imp.txt"] = []byte(ib.String())
		b.WriteString("{% import \"imp.txt\" %}")
	}
	for i, s := range c.stmts {
		if _, d := c.code(i, s); d != "" {
			b.WriteString(d)
		}
	}
	for i, s := range c.stmts {
		st, _ := c.code(i, s)
		for _, x := range st {
			if strings.HasPrefix(x, "show ") {
				fmt.Fprintf(&b, "{{ %s }}", strings.TrimPrefix(x, "show "))
			} else {
				fmt.Fprintf(&b, "{%% %s %%}", x)
			}
		}
	}
	fs["index.txt"] = []byte(b.String())
	return fs
}

// deliveries is the number of values the print hook of one run receives
func (c *rcase) deliveries() int {
	per := map[string]int{"P": 1, "L": 2, "V": 1, "I": 1}
	n := 0
	for i, s := range c.stmts {
		switch s.route {
		case rDeferBuiltin:
			n += []int{4, 2}[i%2]
		case rGoBuiltin:
			n += []int{2, 1}[i%2]
		case rMethod, rMethodValue, rMethodExpr, rDeferMethod, rBuiltin:
			n++
		case rCallback:
			n += 2
		case rSpread:
			n++
		case rLoop:
			n += 2 * per[s.fn]
		case rResult:
			if !c.template {
				n++
			}
		case rEnvStringer, rStop, rFatal:
		default:
			n += per[s.fn]
		}
	}
	return n
}

func (c *rcase) hasAsync() bool {
	for _, s := range c.stmts {
		if routeAsync(s.route) {
			return true
		}
	}
	return false
}

// ---------------------------------------------------------------------------------------------
// execution

type rartefact struct {
	p *scriggo.Program
	t *scriggo.Template
}

func (c *rcase) build(h *rhost) (*rartefact, error) {
	ds := h.decls()
	ds["Rcv"] = reflectTypeOfRcv
	opts := &scriggo.BuildOptions{AllowGoStmt: c.allowGo}
	opts.Packages = native.Packages{"host": native.Package{Name: "host", Declarations: ds}}
	if c.template {
		g := native.Declarations{"tok": (*string)(nil)}
		if c.globals {
			for k, v := range ds {
				if k != "Rcv" {
					g[k] = v
				}
			}
		}
		opts.Globals = g
		t, err := scriggo.BuildTemplate(c.files(), "index.txt", opts)
		return &rartefact{t: t}, err
	}
	p, err := scriggo.Build(c.files(), opts)
	return &rartefact{p: p}, err
}

// observation of one run
type robs struct {
	out    string
	hook   []string
	stderr string
	err    string
}

func (o *robs) key(sorted bool) string {
	h := append([]string(nil), o.hook...)
	if sorted {
		sort.Strings(h)
	}
	return fmt.Sprintf("out=%q hook=%q stderr=%q err=%q", o.out, h, o.stderr, o.err)
}

type rhook struct {
	mu   sync.Mutex
	got  []string
	host *rhost
}

func (k *rhook) print(v any) {
	k.mu.Lock()
	k.got = append(k.got, fmt.Sprint(v))
	k.mu.Unlock()
	atomic.AddInt64(&k.host.deliveries, 1)
}

func rToken(i int) string { return "r" + strconv.Itoa(i) }

// runOne runs the artefact once with the options of run i.
func (c *rcase) runOne(a *rartefact, h *rhost, i int, hook *rhook) *robs {
	o := &robs{}
	opts := &scriggo.RunOptions{}
	if c.ctxs[i] {
		opts.Context = context.WithValue(context.Background(), ctxKey{}, rToken(i))
	}
	if c.hooks[i] {
		opts.Print = hook.print
	}
	var out strings.Builder
	run := func() {
		defer func() {
			if r := recover(); r != nil {
				o.err = "panic: " + fmt.Sprint(r)
			}
		}()
		var err error
		if c.template {
			err = a.t.Run(&out, map[string]any{"tok": rToken(i)}, opts)
		} else {
			err = a.p.Run(opts)
		}
		if err != nil {
			o.err = err.Error()
		}
	}
	if c.hooks[i] {
		run()
	} else {
		o.stderr = captureStderr(run)
	}
	o.out = out.String()
	return o
}

func captureStderr(f func()) string {
	tmp, err := os.CreateTemp("", "verif-c19-stderr-*")
	if err != nil {
		f()
		return "<no capture>"
	}
	defer os.Remove(tmp.Name())
	defer tmp.Close()
	saved, err := syscall.Dup(2)
	if err != nil {
		f()
		return "<no capture>"
	}
	syscall.Dup3(int(tmp.Fd()), 2, 0)
	func() {
		defer func() {
			syscall.Dup3(saved, 2, 0)
			syscall.Close(saved)
		}()
		f()
	}()
	tmp.Seek(0, 0)
	data, _ := io.ReadAll(tmp)
	return string(data)
}

// lateSeen: asynchronous output went missing once already in this process: later waits are short
var lateSeen int32

func (h *rhost) await(want int64) bool {
	limit := 10000 // (up to 5 s, and only while something is missing)
	if atomic.LoadInt32(&lateSeen) > 0 {
		limit = 200
	}
	for i := 0; i < limit; i++ {
		if atomic.LoadInt64(&h.deliveries) >= want {
			return true
		}
		time.Sleep(500 * time.Microsecond)
	}
	atomic.AddInt32(&lateSeen, 1)
	return false
}

type rhistory struct {
	buildErr string
	runs     []*robs
	inv      []rinv
	late     bool // asynchronous deliveries did not arrive
}

// history builds once and performs the runs of the case.
func (c *rcase) history() *rhistory {
	h := &rhost{current: -1, yield: c.concurrent}
	res := &rhistory{}
	a, err := c.build(h)
	if err != nil {
		res.buildErr = err.Error()
		return res
	}
	hooks := make([]*rhook, c.nRuns)
	for i := range hooks {
		hooks[i] = &rhook{host: h}
	}
	res.runs = make([]*robs, c.nRuns)
	per := int64(c.deliveries())
	if c.concurrent {
		old := runtime.GOMAXPROCS(c.procs)
		var wg sync.WaitGroup
		start := make(chan struct{})
		for i := 0; i < c.nRuns; i++ {
			wg.Add(1)
			go func(i int) {
				defer wg.Done()
				<-start
				res.runs[i] = c.runOne(a, h, i, hooks[i])
			}(i)
		}
		close(start)
		wg.Wait()
		if c.hasAsync() {
			res.late = !h.await(per * int64(c.nRuns))
		}
		runtime.GOMAXPROCS(old)
	} else {
		for i := 0; i < c.nRuns; i++ {
			atomic.StoreInt32(&h.current, int32(i))
			res.runs[i] = c.runOne(a, h, i, hooks[i])
			if c.hasAsync() {
				res.late = res.late || !h.await(per*int64(i+1))
			}
		}
	}
	for i, k := range hooks {
		k.mu.Lock()
		res.runs[i].hook = append([]string(nil), k.got...)
		k.mu.Unlock()
	}
	h.mu.Lock()
	res.inv = append([]rinv(nil), h.inv...)
	h.mu.Unlock()
	return res
}

// reference is a single run of a fresh build with the options of run i.
func (c *rcase) reference(i int) (*robs, bool) {
	h := &rhost{current: int32(i)}
	a, err := c.build(h)
	if err != nil {
		return &robs{err: "build: " + err.Error()}, false
	}
	hook := &rhook{host: h}
	o := c.runOne(a, h, i, hook)
	late := false
	if c.hasAsync() {
		late = !h.await(int64(c.deliveries()))
	}
	hook.mu.Lock()
	o.hook = append([]string(nil), hook.got...)
	hook.mu.Unlock()
	return o, late
}

// ---------------------------------------------------------------------------------------------
// oracle (no model)

func (c *rcase) roracle(hs *rhistory) (clause, detail string) {
	if hs.buildErr != "" {
		return "", ""
	}
	// a supplied function invoked by run i sees the env of run i
	for _, v := range hs.inv {
		by := v.argRun
		if by == "" && !c.concurrent && v.current >= 0 {
			by = rToken(int(v.current))
		}
		if by == "" {
			continue
		}
		i, err := strconv.Atoi(strings.TrimPrefix(by, "r"))
		if err != nil || i < 0 || i >= c.nRuns {
			return "env-of-call-is-env-of-run", fmt.Sprintf("%s(%q): unknown run token %q", v.fn, v.tag, by)
		}
		want := "nil"
		if c.ctxs[i] {
			want = by
		}
		if v.envRun != want {
			return "env-of-call-is-env-of-run", fmt.Sprintf("%s(%q) invoked by run %d: env.Context() is the context of %s, want that of %s", v.fn, v.tag, i, v.envRun, want)
		}
		if !c.concurrent && v.current >= 0 && v.argRun != "" && v.argRun != rToken(int(v.current)) {
			return "env-of-call-is-env-of-run", fmt.Sprintf("%s(%q) received the variables of %s during run %d", v.fn, v.tag, v.argRun, v.current)
		}
	}
	// CallPath is the file of the call site (main goroutine, not deferred)
	for _, v := range hs.inv {
		t := v.tag[strings.Index(v.tag, ":")+1:]
		want := "main"
		if c.template {
			want = "index.txt"
		}
		switch t[0] {
		case 'a', 'x', 'z':
		case 'i':
			want = "imp.txt"
		case 'p':
			want = "part" + strings.TrimRight(t[1:], "+w") + ".txt"
		default:
			continue
		}
		if v.fn == "E" || v.path == want {
			continue
		}
		return "call-path-is-file-of-call-site", fmt.Sprintf("%s(%q): env.CallPath() = %q, the call is in %q", v.fn, v.tag, v.path, want)
	}
	// what a hook receives was made by its own run
	for i, o := range hs.runs {
		for _, d := range o.hook {
			for j := 0; j < c.nRuns; j++ {
				if j != i && c.ctxs[j] && strings.Contains(d, "@"+rToken(j)+"#") {
					return "hook-receives-own-run-only", fmt.Sprintf("the print hook of run %d received %q, made with the env of run %d", i, d, j)
				}
				if j != i && c.template && strings.Contains(d, "("+rToken(j)+":") {
					return "hook-receives-own-run-only", fmt.Sprintf("the print hook of run %d received %q, made by run %d", i, d, j)
				}
			}
		}
		if !c.hooks[i] && len(o.hook) > 0 {
			return "hook-receives-own-run-only", fmt.Sprintf("run %d has no print hook but a hook created for it received %q", i, o.hook)
		}
	}
	// every run equals the single run of a fresh build with the same options
	for i, o := range hs.runs {
		ref, late := c.reference(i)
		if late || hs.late {
			continue // asynchronous output still missing after the wait: nothing to compare
		}
		if o.key(c.hasAsync()) != ref.key(c.hasAsync()) {
			return "run-equals-fresh-build-run", fmt.Sprintf("run %d of %d: %s; a single run of a fresh build with the same options: %s", i, c.nRuns, o.key(c.hasAsync()), ref.key(c.hasAsync()))
		}
	}
	return "", ""
}

// ---------------------------------------------------------------------------------------------
// model line and correspondence

// calls lists, per statement, the native calls through callNative it makes: native index,
// kind of the calling VM (m = the run's VM, g = goroutine VM, c = VM of a callback), asynchronous
func (c *rcase) modelCalls() []string {
	var out []string
	add := func(name, vm string, async bool) {
		a := "s"
		if async {
			a = "a"
		}
		out = append(out, fmt.Sprintf("%d %s %s", rNativeIndex(name), vm, a))
	}
	for i, s := range c.stmts {
		b := []string{"println", "print"}[i%2]
		switch s.route {
		case rDirect, rValue, rClosure, rDefer, rMacro, rImportMacro, rPartial:
			add(s.fn, "m", false)
		case rDeferBuiltin:
			add(b, "m", false)
		case rGo, rGoValue:
			add(s.fn, "m", true)
		case rGoBuiltin:
			add(b, "m", true)
		case rGoClosure:
			add(s.fn, "g", false)
		case rMethod, rMethodValue, rDeferMethod:
			add("M", "m", false)
		case rMethodExpr:
			add("MX", "m", false)
		case rCallback:
			add("Call", "m", false)
			add("P", "c", false)
		case rSpread:
			add("V", "m", false)
		case rLoop:
			add(s.fn, "m", false)
			add(s.fn, "m", false)
		case rResult:
			add("Q", "m", false)
		case rStop:
			add("Stop", "m", false)
		case rFatal:
			add("Fatal", "m", false)
		}
	}
	return out
}

func (c *rcase) line(r *proto.Rand) string {
	var b strings.Builder
	fmt.Fprintf(&b, "C19 runs %d", len(rNatives))
	for _, n := range rNatives {
		fmt.Fprintf(&b, " %s", n.sig)
	}
	calls := c.modelCalls()
	fmt.Fprintf(&b, " %d", len(calls))
	for _, x := range calls {
		b.WriteString(" " + x)
	}
	fmt.Fprintf(&b, " %d", c.nRuns)
	// a schedule: every run gets enough steps (a call and its delivery), interleaved at random for
	// concurrent histories, one run after the other for sequential ones
	steps := 2*len(calls) + 2
	var sched []int
	if c.concurrent {
		left := make([]int, c.nRuns)
		for i := range left {
			left[i] = steps
		}
		for n := steps * c.nRuns; n > 0; n-- {
			i := r.Intn(c.nRuns)
			for left[i] == 0 {
				i = (i + 1) % c.nRuns
			}
			left[i]--
			sched = append(sched, i)
		}
	} else {
		for i := 0; i < c.nRuns; i++ {
			for k := 0; k < steps; k++ {
				sched = append(sched, i)
			}
		}
	}
	fmt.Fprintf(&b, " %d", len(sched))
	for _, i := range sched {
		fmt.Fprintf(&b, " %d", i)
	}
	return b.String()
}

// realEnvs renders what the invocations of the history saw, per run, in the model's notation:
// `<native>.<env seen>` sorted, runs separated by `|`; ok=false when an invocation cannot be
// attributed to a run without trusting its env (concurrent runs of a program)
func (c *rcase) realEnvs(hs *rhistory) (string, bool) {
	per := make([][]string, c.nRuns)
	for _, v := range hs.inv {
		if v.fn == "E" {
			continue // not a call through callNative
		}
		by := v.argRun
		if by == "" && !c.concurrent && v.current >= 0 {
			by = rToken(int(v.current))
		}
		i, err := strconv.Atoi(strings.TrimPrefix(by, "r"))
		if by == "" || err != nil || i < 0 || i >= c.nRuns {
			return "", false
		}
		name := v.fn
		if name == "M" && strings.Contains(v.tag, "x") {
			name = "MX"
		}
		e := strings.TrimPrefix(v.envRun, "r")
		if v.envRun == "nil" {
			e = "n"
		}
		per[i] = append(per[i], fmt.Sprintf("%d.%s", rNativeIndex(name), e))
	}
	var out []string
	for _, p := range per {
		sort.Strings(p)
		out = append(out, strings.Join(p, ","))
	}
	return strings.Join(out, "|"), true
}

// modelEnvs brings the model's answer `ok <f>.<e>,…|…` to the same form (the builtins println and
// print record nothing on the real side; runs without a context show `n`)
func (c *rcase) modelEnvs(ans string) (string, bool) {
	if !strings.HasPrefix(ans, "ok ") {
		return "", false
	}
	var out []string
	for _, run := range strings.Split(strings.TrimPrefix(ans, "ok "), "|") {
		var p []string
		for _, x := range strings.Split(run, ",") {
			if x == "" || x == "-" {
				continue
			}
			f, e, _ := strings.Cut(x, ".")
			if fi, _ := strconv.Atoi(f); rNatives[fi].name == "println" || rNatives[fi].name == "print" {
				continue
			}
			if ei, err := strconv.Atoi(e); err == nil && ei < c.nRuns && !c.ctxs[ei] {
				e = "n"
			}
			p = append(p, f+"."+e)
		}
		sort.Strings(p)
		out = append(out, strings.Join(p, ","))
	}
	return strings.Join(out, "|"), true
}

// ---------------------------------------------------------------------------------------------
// reporting

func (c *rcase) human() string {
	var b strings.Builder
	mode := "program"
	if c.template {
		mode = "template"
		if c.globals {
			mode += " (natives as Globals)"
		}
	}
	hist := "sequential"
	if c.concurrent {
		hist = fmt.Sprintf("concurrent (GOMAXPROCS=%d)", c.procs)
	}
	fmt.Fprintf(&b, "%s built once, %d %s runs, AllowGoStmt=%v; RunOptions per run:", mode, c.nRuns, hist, c.allowGo)
	for i := 0; i < c.nRuns; i++ {
		fmt.Fprintf(&b, " [%d: Print=%s Context=%s", i, map[bool]string{true: "own hook", false: "nil"}[c.hooks[i]], map[bool]string{true: "own (token " + rToken(i) + ")", false: "nil"}[c.ctxs[i]])
		if c.template {
			fmt.Fprintf(&b, " vars{tok:%q}", rToken(i))
		}
		b.WriteString("]")
	}
	b.WriteString("; routes:")
	for _, s := range c.stmts {
		b.WriteString(" " + routeNames[s.route])
	}
	var names []string
	fs := c.files()
	for n := range fs {
		names = append(names, n)
	}
	sort.Strings(names)
	for _, n := range names {
		fmt.Fprintf(&b, "\n--- %s\n%s", n, fs[n])
	}
	return b.String()
}

// rshrink: fewer statements, fewer runs, sequential instead of concurrent, plain options.
func (c *rcase) rshrink(failing func() bool) {
	try := func(edit func(), undo func()) bool {
		edit()
		if failing() {
			return true
		}
		undo()
		return false
	}
	if c.concurrent {
		try(func() { c.concurrent = false }, func() { c.concurrent = true })
	}
	for progress := true; progress; {
		progress = false
		for i := 0; i < len(c.stmts) && len(c.stmts) > 1; i++ {
			old := c.stmts
			if try(func() { c.stmts = append(append([]rstmt(nil), old[:i]...), old[i+1:]...) }, func() { c.stmts = old }) {
				progress = true
				i--
			}
		}
		for c.nRuns > 2 {
			n, hk, cx := c.nRuns, c.hooks, c.ctxs
			// drop the last run, or the first
			if try(func() { c.nRuns, c.hooks, c.ctxs = n-1, hk[:n-1], cx[:n-1] }, func() { c.nRuns, c.hooks, c.ctxs = n, hk, cx }) {
				progress = true
				continue
			}
			break
		}
	}
	for i := 0; i < c.nRuns; i++ {
		if !c.hooks[i] {
			try(func() { c.hooks[i] = true }, func() { c.hooks[i] = false })
		}
		if !c.ctxs[i] {
			try(func() { c.ctxs[i] = true }, func() { c.ctxs[i] = false })
		}
	}
	if c.allowGo && !c.hasAsync() {
		try(func() { c.allowGo = false }, func() { c.allowGo = true })
	}
	for i := range c.stmts {
		if c.stmts[i].fn != "P" {
			old := c.stmts[i].fn
			try(func() { c.stmts[i].fn = "P" }, func() { c.stmts[i].fn = old })
		}
	}
}

// ---------------------------------------------------------------------------------------------
// the stream

func runHistories(c *hx.Ctx) error {
	res := c.Res
	n := c.N(700, 12000)
	cases := make([]*rcase, n)
	lines := make([]string, n)
	for i := range cases {
		cases[i] = rGenerate(c.R, !c.Quick())
		lines[i] = cases[i].line(c.R)
	}
	var model []string
	if c.D != nil {
		var err error
		if model, err = c.D.Batch(lines); err != nil {
			return err
		}
	}
	failed := 0
	for i, cs := range cases {
		hs := cs.history()
		res.Count(lines[i]+fmt.Sprint(cs.template, cs.globals, cs.hooks, cs.ctxs, cs.stmts), true)
		res.Hist("runs-history-" + map[bool]string{true: "concurrent", false: "sequential"}[cs.concurrent])
		res.Hist("runs-" + map[bool]string{true: "template", false: "program"}[cs.template])
		for _, s := range cs.stmts {
			res.Hist("runs-route-" + routeNames[s.route])
		}
		distinctHooks := false
		for k := 1; k < cs.nRuns; k++ {
			distinctHooks = distinctHooks || cs.hooks[k] != cs.hooks[0]
		}
		if distinctHooks {
			res.Hist("runs-hook-vs-none")
		}
		if hs.buildErr != "" {
			res.Hist("runs-build-error")
			res.AddBreak(proto.Break{Kind: "correspondence", Name: "runs-generated-code-builds", Case: lines[i], Human: cs.human(), Impl: hs.buildErr, Model: "the generated code is valid"})
			continue
		}
		if hs.late {
			// what the goroutines started by the runs print never reached the hooks of the history
			res.Hist("runs-async-output-missing")
			res.AddBreak(proto.Break{Kind: "property", Name: "go-output-reaches-a-hook-of-the-history", Case: lines[i], Human: cs.human(),
				Impl:  fmt.Sprintf("after 5 s the print hooks of the history had received fewer than the %d values its %d runs print", cs.deliveries()*cs.nRuns, cs.nRuns),
				Model: "every run of a built artefact reaches the print hook, context and variables of its own RunOptions only"})
			if failed += 3; failed >= 8 {
				res.Notes = append(res.Notes, fmt.Sprintf("run histories: stopped after failing histories (%d of %d evaluated)", i+1, n))
				break
			}
			continue
		}
		if i%173 == 0 {
			res.Sample(map[string]string{"input": cs.human(), "line": lines[i], "run0": hs.runs[0].key(false)})
		}
		if clause, detail := cs.roracle(hs); clause != "" {
			// the smallest history on which a clause of the oracle fails (more than one attempt:
			// the scheduler and sync.Pool's per-P caches have a say in what a history shows)
			again := func() (string, string) {
				for k := 0; k < 3; k++ {
					if cl, d := cs.roracle(cs.history()); cl != "" {
						return cl, d
					}
				}
				return "", ""
			}
			cs.rshrink(func() bool { cl, _ := again(); return cl != "" })
			if cl, d := again(); cl != "" {
				clause, detail = cl, d
			}
			res.AddBreak(proto.Break{Kind: "property", Name: clause, Case: cs.line(c.R), Human: cs.human(), Impl: detail,
				Model: "every run of a built artefact reaches the print hook, context and variables of its own RunOptions only"})
			if failed++; failed >= 8 {
				res.Notes = append(res.Notes, fmt.Sprintf("run histories: stopped after %d failing histories (%d of %d evaluated)", failed, i+1, n))
				break
			}
			continue
		}
		if model != nil {
			want, ok1 := cs.modelEnvs(model[i])
			got, ok2 := cs.realEnvs(hs)
			if !ok1 {
				res.AddBreak(proto.Break{Kind: "correspondence", Name: "runs-model-answer", Case: lines[i], Human: cs.human(), Impl: "-", Model: model[i]})
			} else if ok2 && !hs.late && want != got {
				res.AddBreak(proto.Break{Kind: "correspondence", Name: "runs-env-seen-by-native-calls", Case: lines[i], Human: cs.human(), Impl: got, Model: want})
			} else if ok2 {
				res.Hist("runs-compared-with-model")
			}
		}
	}
	return nil
}
