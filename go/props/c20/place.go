package main

// Placement sweeps: the *function-kind* dimension of the limits matrix. Every resource (registers
// of each kind, constants, types, functions, natives, field paths, function literals) is consumed
// n times inside every kind of function builder the emitter creates: main, another declared
// function, init, a function literal, a nested literal, a deferred literal, the initialiser of one
// package-level variable, a chain of package-level variables in reverse initialisation order, many
// small package-level variables, the variables and the functions of an imported package; for
// templates the top level ({% %} statements and a {%% %%} block), a macro body, a macro and the
// top-level variables of an imported file, the top-level variables of an extending file, a rendered
// file, the body of a using statement.
//
// The number of entries a place needs besides the n swept ones differs from place to place, so
// the sizes are not calibrated by hand: the largest n that builds is searched (bisection between
// 1 and 2·limit+10), and the sizes around it are run too. Oracle, on every single execution:
// built and printed the generator's output, or a limit-exceeded *BuildError — nothing else (no
// panic of Build, no other error, no wrong output); one entry always builds; past the largest size
// that builds everything is refused.

import (
	"fmt"
	"os"
	"sort"
	"strconv"
	"strings"

	"github.com/open2b/scriggo"
	"github.com/open2b/scriggo/native"

	"verifharness/internal/hx"
	"verifharness/internal/proto"
)

// resource: what is consumed. pre and decl are `var` declarations (valid at package level, inside a
// function and, between {% %}, in a template); term(i) is an int expression that consumes entry i.
type resource struct {
	name    string
	around  string // limits table
	tmpl    bool   // usable in templates (needs no package-level func/type declaration)
	top     func(n int) string
	pre     func(n int) string
	decl    func(i int) string
	term    func(i int, tmpl bool) string
	val     func(i int) int
	natives bool
}

func resources() []resource {
	small := func(i int) int { return i%9 + 1 }
	return []resource{
		{name: "int-registers", around: "Registers", tmpl: true,
			decl: func(i int) string { return fmt.Sprintf("var v%d = %d", i, small(i)) },
			term: func(i int, _ bool) string { return fmt.Sprintf("v%d", i) }, val: small},
		{name: "string-registers", around: "Registers", tmpl: true,
			decl: func(i int) string { return fmt.Sprintf("var v%d = \"%s\"", i, strings.Repeat("x", small(i))) },
			term: func(i int, _ bool) string { return fmt.Sprintf("len(v%d)", i) }, val: small},
		{name: "float-registers", around: "Registers", tmpl: true,
			decl: func(i int) string { return fmt.Sprintf("var v%d = %d.0", i, small(i)) },
			term: func(i int, _ bool) string { return fmt.Sprintf("int(v%d)", i) }, val: small},
		{name: "general-registers", around: "Registers", tmpl: true,
			decl: func(i int) string { return fmt.Sprintf("var v%d = make([]int, %d)", i, small(i)) },
			term: func(i int, _ bool) string { return fmt.Sprintf("len(v%d)", i) }, val: small},
		{name: "string-constants", around: "Values.String", tmpl: true,
			pre:  func(int) string { return "var t = \"\"" },
			term: func(i int, _ bool) string { return fmt.Sprintf("len(t + \"c%d\")", i) }, val: func(i int) int { return len(fmt.Sprintf("c%d", i)) }},
		{name: "general-constants", around: "Values.General", tmpl: true,
			pre:  func(int) string { return "var c complex128" },
			term: func(i int, _ bool) string { return fmt.Sprintf("int(real(c + (%d + 1i)))", 1000+i) }, val: func(i int) int { return 1000 + i }},
		{name: "types", around: "Types", tmpl: true,
			term: func(i int, _ bool) string {
				return fmt.Sprintf("len([][%d]int8{%s})", i+1, strings.TrimSuffix(strings.Repeat("{}, ", i%2+1), ", "))
			}, val: func(i int) int { return i%2 + 1 }},
		{name: "function-literals", around: "Functions", tmpl: true,
			term: func(i int, _ bool) string { return fmt.Sprintf("func() int { return %d }()", small(i)) }, val: small},
		{name: "scriggo-functions", around: "Functions",
			top:  func(n int) string { return lines(n, func(i int) string { return fmt.Sprintf("func f%d() int { return %d }\n", i, small(i)) }) },
			term: func(i int, _ bool) string { return fmt.Sprintf("f%d()", i) }, val: small},
		{name: "native-functions", around: "NativeFunctions", tmpl: true, natives: true,
			term: func(i int, tmpl bool) string {
				if tmpl {
					return fmt.Sprintf("F%d()", i)
				}
				return fmt.Sprintf("p.F%d()", i)
			}, val: small},
		{name: "field-indexes", around: "FieldIndexes",
			top: func(n int) string {
				return "type T struct {\n" + lines(n, func(i int) string { return fmt.Sprintf("\tF%d int\n", i) }) + "}\n"
			},
			pre: func(n int) string {
				return "var t = T{" + seq(n, ", ", func(i int) string { return fmt.Sprintf("F%d: %d", i, small(i)) }) + "}"
			},
			term: func(i int, _ bool) string { return fmt.Sprintf("t.F%d", i) }, val: small},
	}
}

// a place: the kind of function the entries are consumed in
type place struct {
	name string
	tmpl bool
	gen  func(r resource, n int) program
}

func (r resource) decls(n int, tmpl bool) []string {
	var d []string
	if r.pre != nil {
		d = append(d, r.pre(n))
	}
	if r.decl != nil {
		for i := 0; i < n; i++ {
			d = append(d, r.decl(i))
		}
	}
	return d
}

// body: the statements that leave the sum of the n terms in s
func (r resource) body(n int, tmpl bool, indent string) string {
	var sb strings.Builder
	for _, d := range r.decls(n, tmpl) {
		sb.WriteString(indent + d + "\n")
	}
	sb.WriteString(indent + "var s = 0\n")
	for i := 0; i < n; i++ {
		sb.WriteString(indent + "s = s + " + r.term(i, tmpl) + "\n")
	}
	return sb.String()
}

func (r resource) expr(from, to int, tmpl bool) string {
	var terms []string
	for i := from; i < to; i++ {
		terms = append(terms, r.term(i, tmpl))
	}
	if len(terms) == 0 {
		return "0"
	}
	return balanced(terms)
}

// balanced sums the terms as a balanced tree of additions: a left-deep sum of n terms keeps a
// register per level and would exceed the registers long before any table fills
func balanced(terms []string) string {
	if len(terms) == 1 {
		return terms[0]
	}
	if len(terms) == 2 {
		return terms[0] + " + " + terms[1]
	}
	h := len(terms) / 2
	return "(" + balanced(terms[:h]) + ") + (" + balanced(terms[h:]) + ")"
}

func (r resource) sum(n int) int {
	s := 0
	for i := 0; i < n; i++ {
		s += r.val(i)
	}
	return s
}

func (r resource) topDecls(n int) string {
	if r.top == nil {
		return ""
	}
	return r.top(n)
}

func (r resource) nativeDecls(n int) native.Declarations {
	decls := native.Declarations{}
	for i := 0; i < n; i++ {
		v := r.val(i)
		decls["F"+strconv.Itoa(i)] = func() int { return v }
	}
	return decls
}

func (r resource) program(n int, files scriggo.Files) program {
	p := program{files: files, want: fmt.Sprintf("%d\n", r.sum(n))}
	if r.natives {
		p.opts = &scriggo.BuildOptions{Packages: native.Packages{"p": native.Package{Name: "p", Declarations: r.nativeDecls(n)}}}
	}
	return p
}

func (r resource) template(n int, files scriggo.Files) program {
	p := program{template: true, files: files, want: strconv.Itoa(r.sum(n))}
	if r.natives {
		p.opts = &scriggo.BuildOptions{Globals: r.nativeDecls(n)}
	}
	return p
}

func (r resource) imp() string {
	if r.natives {
		return "import \"p\"\n"
	}
	return ""
}

func joinLines(d []string) string {
	if len(d) == 0 {
		return ""
	}
	return strings.Join(d, "\n") + "\n"
}

// chain of k package-level variables, the first declared depending on the second and so on, so that
// they are initialised in the reverse of the declaration order
func (r resource) chain(n, k int, tmpl bool, name string) []string {
	if k > n {
		k = n
	}
	var d []string
	for j := 0; j < k; j++ {
		from, to := j*n/k, (j+1)*n/k
		e := r.expr(from, to, tmpl)
		if j < k-1 {
			e = fmt.Sprintf("%s%d + %s", name, j+1, e)
		}
		d = append(d, fmt.Sprintf("var %s%d = %s", name, j, e))
	}
	return d
}

func tmplStmts(d []string) string {
	var sb strings.Builder
	for _, s := range d {
		sb.WriteString("{% " + s + " %}")
	}
	return sb.String()
}

func places() []place {
	inFunc := func(name string, wrap func(r resource, n int, body func(indent string) string) string) place {
		return place{name: name, gen: func(r resource, n int) program {
			src := "package main\n" + r.imp() + r.topDecls(n) + wrap(r, n, func(indent string) string { return r.body(n, false, indent) })
			return r.program(n, scriggo.Files{"main.go": []byte(src)})
		}}
	}
	pkgVars := func(name string, vars func(r resource, n int) (decls []string, result string)) place {
		return place{name: name, gen: func(r resource, n int) program {
			d, res := vars(r, n)
			src := "package main\n" + r.imp() + r.topDecls(n) + joinLines(r.decls(n, false)) + joinLines(d) + "func main() {\n" + res + "}\n"
			return r.program(n, scriggo.Files{"main.go": []byte(src)})
		}}
	}
	tmpl := func(name string, files func(r resource, n int) scriggo.Files) place {
		return place{name: name, tmpl: true, gen: func(r resource, n int) program { return r.template(n, files(r, n)) }}
	}
	block := func(r resource, n int) string { return "{%%\n" + r.body(n, true, "\t") + "%%}{{ s }}" }
	return []place{
		inFunc("main", func(_ resource, _ int, body func(string) string) string {
			return "func main() {\n" + body("\t") + "\tprintln(s)\n}\n"
		}),
		inFunc("declared-function", func(_ resource, _ int, body func(string) string) string {
			return "func g() int {\n" + body("\t") + "\treturn s\n}\nfunc main() {\n\tprintln(g())\n}\n"
		}),
		inFunc("init-function", func(_ resource, _ int, body func(string) string) string {
			return "var out int\nfunc init() {\n" + body("\t") + "\tout = s\n}\nfunc main() {\n\tprintln(out)\n}\n"
		}),
		inFunc("function-literal", func(_ resource, _ int, body func(string) string) string {
			return "func main() {\n\tf := func() int {\n" + body("\t\t") + "\t\treturn s\n\t}\n\tprintln(f())\n}\n"
		}),
		inFunc("nested-literal", func(_ resource, _ int, body func(string) string) string {
			return "func main() {\n\tf := func() int {\n\t\tg := func() int {\n" + body("\t\t\t") + "\t\t\treturn s\n\t\t}\n\t\treturn g()\n\t}\n\tprintln(f())\n}\n"
		}),
		inFunc("deferred-literal", func(_ resource, _ int, body func(string) string) string {
			return "func g() (out int) {\n\tdefer func() {\n\t\trecover()\n" + body("\t\t") + "\t\tout = s\n\t}()\n\tdefer recover()\n\treturn 0\n}\nfunc main() {\n\tprintln(g())\n}\n"
		}),
		pkgVars("package-var-one-initialiser", func(r resource, n int) ([]string, string) {
			// the terms as the elements of one slice literal (a sum of n terms keeps registers per term)
			return []string{"var xs = []int{" + seq(n, ", ", func(i int) string { return r.term(i, false) }) + "}"}, "\ts := 0\n\tfor _, x := range xs {\n\t\ts = s + x\n\t}\n\tprintln(s)\n"
		}),
		pkgVars("package-var-init-chain", func(r resource, n int) ([]string, string) {
			return r.chain(n, 8, false, "x"), "\tprintln(x0)\n"
		}),
		pkgVars("package-vars-many", func(r resource, n int) ([]string, string) {
			return r.chain(n, n, false, "x"), "\tprintln(x0)\n"
		}),
		{name: "imported-package-vars", gen: func(r resource, n int) program {
			q := "package q\n" + r.imp() + r.topDecls(n) + joinLines(r.decls(n, false)) + joinLines(r.chain(n, 4, false, "x")) + "var X = x0\n"
			return r.program(n, scriggo.Files{"go.mod": []byte("module a.b\ngo 1.16"), "main.go": []byte("package main\nimport \"a.b/q\"\nfunc main() {\n\tprintln(q.X)\n}\n"), "q/q.go": []byte(q)})
		}},
		{name: "imported-package-function", gen: func(r resource, n int) program {
			q := "package q\n" + r.imp() + r.topDecls(n) + "func G() int {\n" + r.body(n, false, "\t") + "\treturn s\n}\n"
			return r.program(n, scriggo.Files{"go.mod": []byte("module a.b\ngo 1.16"), "main.go": []byte("package main\nimport \"a.b/q\"\nfunc main() {\n\tprintln(q.G())\n}\n"), "q/q.go": []byte(q)})
		}},
		tmpl("template-top-level", func(r resource, n int) scriggo.Files {
			var d []string
			d = append(d, r.decls(n, true)...)
			d = append(d, "var s = 0")
			for i := 0; i < n; i++ {
				d = append(d, "s = s + "+r.term(i, true))
			}
			return scriggo.Files{"index.txt": []byte(tmplStmts(d) + "{{ s }}")}
		}),
		tmpl("template-block", func(r resource, n int) scriggo.Files {
			return scriggo.Files{"index.txt": []byte(block(r, n))}
		}),
		tmpl("template-macro", func(r resource, n int) scriggo.Files {
			return scriggo.Files{"index.txt": []byte("{% macro M %}" + block(r, n) + "{% end macro %}{{ M() }}")}
		}),
		tmpl("template-imported-macro", func(r resource, n int) scriggo.Files {
			return scriggo.Files{"index.txt": []byte("{% import \"imp.txt\" %}{{ M() }}"), "imp.txt": []byte("{% macro M %}" + block(r, n) + "{% end macro %}")}
		}),
		tmpl("template-imported-vars", func(r resource, n int) scriggo.Files {
			d := append(r.decls(n, true), r.chain(n, 4, true, "x")...)
			return scriggo.Files{"index.txt": []byte("{% import \"imp.txt\" %}{{ X }}"), "imp.txt": []byte(tmplStmts(d) + "{% var X = x0 %}")}
		}),
		tmpl("template-extending-vars", func(r resource, n int) scriggo.Files {
			d := append(r.decls(n, true), r.chain(n, 4, true, "x")...)
			return scriggo.Files{"index.txt": []byte("{% extends \"layout.txt\" %}" + tmplStmts(d) + "{% macro Body %}{{ x0 }}{% end macro %}"), "layout.txt": []byte("{{ Body() }}")}
		}),
		tmpl("template-rendered-file", func(r resource, n int) scriggo.Files {
			return scriggo.Files{"index.txt": []byte("{{ render \"part.txt\" }}"), "part.txt": []byte(block(r, n))}
		}),
		tmpl("template-using-body", func(r resource, n int) scriggo.Files {
			return scriggo.Files{"index.txt": []byte("{% show itea; using %}" + block(r, n) + "{% end using %}")}
		}),
		tmpl("template-default-expression", func(r resource, n int) scriggo.Files {
			return scriggo.Files{"index.txt": []byte(tmplStmts(r.decls(n, true)) + "{{ undefinedName default " + r.expr(0, n, true) + " }}")}
		}),
	}
}

type placed struct {
	r resource
	p place
}

func (x placed) caseLine(n int) string { return fmt.Sprintf("C20 place %s %s %d", x.r.name, x.p.name, n) }

func (x placed) human(n int) string {
	return fmt.Sprintf("%d entries of %s (limit of table %s) consumed in: %s", n, x.r.name, x.r.around, x.p.name)
}

// run executes one size and applies the oracle; it reports whether the program was built.
func (x placed) run(c *hx.Ctx, n int, memo map[int]outcome) outcome {
	if o, ok := memo[n]; ok {
		return o
	}
	o := execute(x.p.gen(x.r, n))
	memo[n] = o
	if os.Getenv("C20_DEBUG") != "" {
		fmt.Fprintf(os.Stderr, "%s: %s %s %s\n", x.caseLine(n), o.kind, o.msg, o.detail)
	}
	return o
}

func runPlaced(c *hx.Ctx, x placed, limit int, only int) {
	res := c.Res
	memo := map[int]outcome{}
	fail := func(n int, o outcome, kind, why string) {
		// the smallest size that fails the same way: a few small candidates, then bisection below n
		if kind == "limit-"+o.kind {
			for _, m := range []int{1, 2, 3} {
				if m < n {
					if o2 := x.run(c, m, memo); o2.kind == o.kind {
						n, o = m, o2
						break
					}
				}
			}
			for lo, hi := 0, n; hi-lo > 1; {
				mid := (lo + hi) / 2
				if o2 := x.run(c, mid, memo); o2.kind == o.kind {
					hi, n, o = mid, mid, o2
				} else {
					lo = mid
				}
			}
		}
		res.AddBreak(proto.Break{Kind: "property", Name: kind, Case: x.caseLine(n), Human: x.human(n), Impl: o.kind + ": " + o.detail + why,
			Model: "built with the generator's output, or (only if the limits do not let the program in) a *scriggo.BuildError with a limit-exceeded message"})
	}
	check := func(n int) (built, ok bool) {
		o := x.run(c, n, memo)
		if o.kind != "built" && o.kind != "limit" {
			fail(n, o, "limit-"+o.kind, "")
			return false, false
		}
		return o.kind == "built", true
	}
	if only > 0 {
		res.Count(x.caseLine(only), true)
		check(only)
		return
	}
	hist := func(what string) { res.Hist("place " + x.p.name + " → " + what) }
	lo, hi := 1, 2*limit+10
	b, ok := check(lo)
	if !ok {
		res.Count(x.caseLine(lo), false)
		hist("failed")
		return
	}
	if !b {
		res.Count(x.caseLine(lo), true)
		hist("failed")
		fail(lo, memo[lo], "limit-spurious-limit", " (one entry is within every limit)")
		return
	}
	b, ok = check(hi)
	if !ok {
		res.Count(x.caseLine(hi), true)
		hist("failed")
		return
	}
	if b {
		// this way of consuming the resource does not fill the table in this place: nothing to sweep
		res.Count(x.caseLine(hi), false)
		hist("limit never reached")
		res.Hist("place: resource " + x.r.name + " does not reach a limit in " + x.p.name)
		return
	}
	for hi-lo > 1 {
		mid := (lo + hi) / 2
		b, ok = check(mid)
		if !ok {
			res.Count(x.caseLine(mid), true)
			hist("failed")
			return
		}
		if b {
			lo = mid
		} else {
			hi = mid
		}
	}
	// lo builds, lo+1 is refused: the sizes around, and two beyond
	around := []int{lo - 2, lo - 1, lo + 2, lo + 3, lo + 1 + c.R.Intn(lo+1), 1 + c.R.Intn(lo)}
	sort.Ints(around)
	for _, n := range around {
		if n < 1 {
			continue
		}
		b, ok = check(n)
		if !ok {
			res.Count(x.caseLine(n), true)
			hist("failed")
			return
		}
		if b != (n <= lo) {
			res.Count(x.caseLine(n), true)
			hist("failed")
			if b {
				fail(n, memo[n], "limit-not-raised", fmt.Sprintf(" (%d entries are refused with a limit error, %d are accepted)", lo+1, n))
			} else {
				fail(n, memo[n], "limit-spurious-limit", fmt.Sprintf(" (%d entries build, %d are refused)", lo, n))
			}
			return
		}
	}
	var ran []int
	for n := range memo {
		ran = append(ran, n)
	}
	sort.Ints(ran)
	for _, n := range ran {
		res.Count(x.caseLine(n), n >= lo-2 && n <= lo+3)
	}
	hist("largest size that builds found, refused beyond")
	if len(res.Samples) < 12 && c.R.Intn(8) == 0 {
		res.Sample(map[string]string{"case": x.caseLine(lo), "impl": "built; " + strconv.Itoa(lo+1) + " → " + memo[lo+1].detail})
	}
}

func placedSweeps(c *hx.Ctx, limitOf map[string]int) {
	rs, ps := resources(), places()
	// quick: every place with three of the resources (chosen by the seed); thorough: the whole matrix
	for _, p := range ps {
		order := make([]int, len(rs))
		for i := range order {
			order[i] = i
		}
		for i := len(order) - 1; i > 0; i-- {
			j := c.R.Intn(i + 1)
			order[i], order[j] = order[j], order[i]
		}
		done := 0
		for _, i := range order {
			r := rs[i]
			if (p.tmpl && !r.tmpl) || limitOf[r.around] <= 0 {
				continue
			}
			if c.Quick() && done >= 3 {
				break
			}
			runPlaced(c, placed{r, p}, limitOf[r.around], 0)
			done++
		}
	}
}

func replayPlaced(c *hx.Ctx, rname, pname string, n int) {
	for _, r := range resources() {
		for _, p := range places() {
			if r.name == rname && p.name == pname {
				runPlaced(c, placed{r, p}, 0, n)
			}
		}
	}
}

// ---- disassembly of built programs: Program.Disassemble / Template.Disassemble read the same
// operands as the VM; a program that builds must disassemble without a panic, also when its tables
// are filled beyond 127 entries (indexes that are negative as an int8).

func disassemble(p program) (panicked string) {
	defer func() {
		if r := recover(); r != nil {
			panicked = fmt.Sprint(r)
		}
	}()
	if p.template {
		tmpl, err := scriggo.BuildTemplate(p.files, "index.txt", p.opts)
		if err != nil {
			return ""
		}
		tmpl.Disassemble(-1)
		return ""
	}
	progr, err := scriggo.Build(p.files, p.opts)
	if err != nil {
		return ""
	}
	_, _ = progr.Disassemble("main")
	return ""
}

// A recorded defect of the disassembler is a prediction computed from the generated input alone:
// the smallest size of a (resource, place) whose disassembly fails. Any other smallest failing
// size, any other resource or any other panic is a violation. (The two classes there were —
// funcNameType indexing Functions/NativeFunctions with the int8 operand, first failing size 129,
// and fn.Types[int(uint(b))], first failing size 64/65 — were cured by 836cb24: no class is
// defined, every panic of the disassembler is a violation.)
type disasmClass struct {
	id        string
	resources []string
	first     map[string]int // place → smallest failing size (0: every place, firstAll)
	firstAll  int
}

var disasmClasses = []disasmClass{}

func (k disasmClass) predicts(rname, pname string, n int) bool {
	for _, r := range k.resources {
		if r == rname {
			if k.firstAll > 0 {
				return n == k.firstAll
			}
			return k.first[pname] == n
		}
	}
	return false
}

func disasmSweeps(c *hx.Ctx, only string, onlyN int) {
	ps := places()
	byName := map[string]place{}
	for _, p := range ps {
		byName[p.name] = p
	}
	// a recorded finding is active only while its minimal witness still fails in the recorded way
	active := map[string]bool{}
	for _, f := range c.Findings {
		for _, k := range disasmClasses {
			if f.ID == k.id {
				msg := disassemble(prog(f.Minimal, ""))
				active[k.id] = strings.Contains(msg, "index out of range [-128]")
				c.Res.Count("C20 finding "+f.ID, true)
			}
		}
	}
	for _, r := range resources() {
		if r.around == "Registers" || (only != "" && only != r.name) {
			continue
		}
		for _, pl := range []place{byName["main"], byName["function-literal"], byName["template-block"]} {
			if pl.tmpl && !r.tmpl {
				continue
			}
			sizes := []int{2, 100, 127, 128, 129, 130, 200 + c.R.Intn(40), 254, 255}
			if onlyN > 0 {
				sizes = []int{onlyN}
			}
			firstBad, lastGood, why := 0, 0, ""
			for _, n := range sizes {
				msg := disassemble(pl.gen(r, n))
				c.Res.Count(fmt.Sprintf("C20 disasm %s %s %d", r.name, pl.name, n), n >= 128)
				if msg != "" {
					firstBad, why = n, msg
					break
				}
				lastGood = n
			}
			if firstBad == 0 {
				c.Res.Hist("disassemble " + pl.name + " → no panic")
				continue
			}
			c.Res.Hist("disassemble " + pl.name + " → panic")
			for firstBad-lastGood > 1 && onlyN == 0 {
				mid := (firstBad + lastGood) / 2
				if msg := disassemble(pl.gen(r, mid)); msg != "" {
					firstBad, why = mid, msg
				} else {
					lastGood = mid
				}
			}
			b := proto.Break{Kind: "property", Name: "disassemble-panic", Case: fmt.Sprintf("C20 disasm %s %s %d", r.name, pl.name, firstBad),
				Human: fmt.Sprintf("Disassemble of the built program/template: %d entries of %s consumed in %s", firstBad, r.name, pl.name),
				Impl:  "panic: " + why, Model: "the disassembler reads every operand as the VM does: no panic for a program that builds"}
			for _, k := range disasmClasses {
				if active[k.id] && k.predicts(r.name, pl.name, firstBad) && strings.Contains(why, "index out of range [-128]") {
					b.Finding = k.id
				}
			}
			c.Res.AddBreak(b)
		}
	}
}
