package main

// C20 — exceeding an implementation limit is an error (LimitExceededError → *BuildError), never
// wrong code.
//
//  1. spec validation: reflect.Select's capacity (65536) that the generator writes down.
//  2. correspondence of the translator: every regenerated encoder/decoder and limit constant of
//     lean/ScriggoV/Gen/Encoding.lean against the real function (hooks verif_c20.go), on
//     exhaustive / boundary / random operands.
//  3. end to end through scriggo.Build / BuildTemplate / Run: programs and templates in which the
//     number of locals and temporaries per register type, parameters, distinct constants of each
//     kind, types, called functions, natives, field paths, text chunks, select cases, global and
//     closure variables and the jump distance is swept across each limit. Oracle (independent of
//     the model): the build succeeds and the run prints what the generator computed, or the
//     build fails with a *scriggo.BuildError whose message is a limit-exceeded message. Anything
//     else (panic, another error, wrong output) is a failure of the property. The model's
//     prediction (built / limit + message) is compared as a correspondence.

import (
	"bytes"
	"context"
	"encoding/json"
	"errors"
	"fmt"
	"os"
	"reflect"
	"regexp"
	"sort"
	"strconv"
	"strings"
	"time"

	"github.com/open2b/scriggo"
	"github.com/open2b/scriggo/native"
	hook "github.com/open2b/scriggo/verifhook/c20"

	"verifharness/internal/hx"
	"verifharness/internal/proto"
)

func main() { hx.Main("C20", run) }

// ---------------------------------------------------------------------------------------------
// the limits table as the driver reports it

type row struct {
	table    string
	guard    int // -1: none
	width    int // -1: none
	reserved int
	codec    string
	message  string
}

func loadRows(c *hx.Ctx) ([]row, error) {
	a, err := c.D.Ask("C20 rows")
	if err != nil {
		return nil, err
	}
	n, err := strconv.Atoi(strings.TrimPrefix(a, "ok "))
	if err != nil {
		return nil, fmt.Errorf("driver: rows: %q", a)
	}
	var lines []string
	for i := 0; i < n; i++ {
		lines = append(lines, fmt.Sprintf("C20 row %d", i))
	}
	res, err := c.D.Batch(lines)
	if err != nil {
		return nil, err
	}
	var rows []row
	for _, l := range res {
		f := strings.Fields(l)
		if len(f) != 7 || f[0] != "ok" {
			return nil, fmt.Errorf("driver: row: %q", l)
		}
		num := func(s string) int {
			if s == "-" {
				return -1
			}
			v, _ := strconv.Atoi(s)
			return v
		}
		msg, _ := proto.UnHex(f[6])
		rows = append(rows, row{table: f[1], guard: num(f[2]), width: num(f[3]), reserved: num(f[4]), codec: f[5], message: string(msg)})
	}
	return rows, nil
}

// ---------------------------------------------------------------------------------------------
// 2. encoders / decoders

type fnSpec struct {
	name   string
	params []string // i8 i16 u16 u32 i64 bool ctx
}

var fnSpecs = []fnSpec{
	{"encodeRenderContext", []string{"ctx", "bool", "bool"}},
	{"decodeRenderContext", []string{"u8"}},
	{"encodeInt16", []string{"i16"}},
	{"decodeInt16", []string{"i8", "i8"}},
	{"encodeUint16", []string{"u16"}},
	{"decodeUint16", []string{"i8", "i8"}},
	{"encodeUint24", []string{"u32"}},
	{"decodeUint24", []string{"i8", "i8", "i8"}},
	{"encodeValueIndex", []string{"rt", "i64"}},
	{"decodeValueIndex", []string{"i8", "i8"}},
	{"VM.decodeRenderContext", []string{"u8"}},
	{"VM.decodeInt16", []string{"i8", "i8"}},
	{"VM.decodeUint16", []string{"i8", "i8"}},
	{"VM.decodeUint24", []string{"i8", "i8", "i8"}},
	{"VM.decodeValueIndex", []string{"i8", "i8"}},
	{"encodeSetVar", []string{"i64"}},
	{"encodeIndex8", []string{"idx8"}},
	{"decodeIndex8", []string{"i8"}},
}

var interesting = func() []int64 {
	var v []int64
	for _, p := range []uint{0, 1, 2, 4, 6, 7, 8, 13, 14, 15, 16, 23, 24, 31, 32, 62} {
		x := int64(1) << p
		v = append(v, x-1, x, x+1, -x-1, -x, -x+1)
	}
	return v
}()

func domain(c *hx.Ctx, kind string, exhaustive bool) []int64 {
	var lo, hi int64
	switch kind {
	case "bool":
		return []int64{0, 1}
	case "i8":
		lo, hi = -128, 127
	case "u8":
		lo, hi = 0, 255
	case "rt":
		return []int64{0, 1, 2, 3}
	case "idx8":
		lo, hi = 0, 255
	case "ctx":
		out := []int64{}
		for i := int64(0); i < 20; i++ {
			out = append(out, i)
		}
		return append(out, 31, 32, 63, 64, 127, 128, 255, 256, 1<<32+3)
	case "i16":
		lo, hi = -32768, 32767
	case "u16":
		lo, hi = 0, 65535
	case "u32":
		lo, hi = 0, 1<<32-1
	case "i64":
		lo, hi = -1<<62, 1<<62
	}
	small := kind != "i64" && kind != "u32"
	if small && exhaustive {
		out := make([]int64, 0, hi-lo+1)
		for x := lo; x <= hi; x++ {
			out = append(out, x)
		}
		return out
	}
	var out []int64
	for _, x := range interesting {
		if lo <= x && x <= hi {
			out = append(out, x)
		}
	}
	out = append(out, lo, hi)
	n := c.N(300, 3000)
	if small {
		n = c.N(60, 256)
	}
	for i := 0; i < n; i++ {
		span := uint64(hi) - uint64(lo) + 1
		x := int64(uint64(lo) + c.R.U64()%span)
		if c.R.Intn(3) == 0 && kind != "i8" && kind != "u8" { // small magnitudes matter most
			x = lo + int64(c.R.U64()%min(span, uint64(1)<<uint(8+c.R.Intn(18))))
			if lo < 0 {
				x = int64(c.R.U64()%(1<<uint(8+c.R.Intn(10)))) - int64(c.R.Intn(2))*40000
				if x < lo || x > hi {
					x = 0
				}
			}
		}
		out = append(out, x)
	}
	return out
}

func min64(a, b int64) int64 {
	if a < b {
		return a
	}
	return b
}

func ints(v []int64) string {
	s := make([]string, len(v))
	for i, x := range v {
		s[i] = strconv.FormatInt(x, 10)
	}
	return strings.Join(s, " ")
}

func callReal(name string, args []int64) (line string) {
	defer func() {
		if r := recover(); r != nil {
			line = "err panic " + fmt.Sprint(r)
		}
	}()
	res, ok := hook.Call(name, args)
	if !ok {
		return "no-such-function"
	}
	return "ok " + ints(res)
}

func encoders(c *hx.Ctx) error {
	res := c.Res
	// constants
	lim := hook.Limits()
	var names []string
	for n := range lim {
		names = append(names, n)
	}
	sort.Strings(names)
	var lines []string
	for _, n := range names {
		lines = append(lines, "C20 const "+n)
	}
	ans, err := c.D.Batch(lines)
	if err != nil {
		return err
	}
	for i, n := range names {
		res.Count("const "+n, true)
		res.Hist("const")
		if want := fmt.Sprintf("ok %d", lim[n]); ans[i] != want {
			res.AddBreak(proto.Break{Kind: "correspondence", Name: "limit-constant", Case: lines[i], Human: n, Impl: want, Model: ans[i]})
		}
	}
	for _, fs := range fnSpecs {
		// cartesian product when small, otherwise boundary × boundary + random tuples
		doms := make([][]int64, len(fs.params))
		total := 1
		for i, p := range fs.params {
			doms[i] = domain(c, p, true)
			total *= len(doms[i])
		}
		var tuples [][]int64
		if total <= 70000 {
			idx := make([]int, len(doms))
			for {
				t := make([]int64, len(doms))
				for i := range doms {
					t[i] = doms[i][idx[i]]
				}
				tuples = append(tuples, t)
				k := len(idx) - 1
				for k >= 0 {
					idx[k]++
					if idx[k] < len(doms[k]) {
						break
					}
					idx[k] = 0
					k--
				}
				if k < 0 {
					break
				}
			}
			if c.Quick() && len(tuples) > 20000 { // three bytes: sample
				keep := tuples[:0]
				for i, t := range tuples {
					if i%5 == int(c.Seed%5) || allBoundary(t) {
						keep = append(keep, t)
					}
				}
				tuples = keep
			}
		} else {
			for i := range doms {
				doms[i] = domain(c, fs.params[i], false)
			}
			for i := 0; i < c.N(4000, 60000); i++ {
				t := make([]int64, len(doms))
				for k := range doms {
					t[k] = doms[k][c.R.Intn(len(doms[k]))]
				}
				tuples = append(tuples, t)
			}
		}
		lines = lines[:0]
		for _, t := range tuples {
			lines = append(lines, "C20 fn "+fs.name+" "+ints(t))
		}
		ans, err := c.D.Batch(lines)
		if err != nil {
			return err
		}
		for i, t := range tuples {
			res.Count(lines[i], true)
			res.Hist("fn " + fs.name)
			real := callReal(fs.name, t)
			if i == len(tuples)/2 {
				res.Sample(map[string]string{"line": lines[i], "model": ans[i], "impl": real})
			}
			if real != ans[i] {
				res.AddBreak(proto.Break{Kind: "correspondence", Name: "encoder-model-vs-" + fs.name, Case: lines[i],
					Human: fmt.Sprintf("%s(%s)", fs.name, ints(t)), Impl: real, Model: ans[i]})
			}
		}
	}
	return nil
}

func allBoundary(t []int64) bool {
	for _, x := range t {
		switch x {
		case -128, -127, -1, 0, 1, 63, 64, 126, 127, -64, -65:
		default:
			return false
		}
	}
	return true
}

// the property of the encoders on the real code, independent of the model: what the compiler
// encodes, the VM decodes back
func encoderOracle(c *hx.Ctx) {
	res := c.Res
	fail := func(name, human, impl, want string) {
		res.AddBreak(proto.Break{Kind: "property", Name: name, Case: "C20 roundtrip " + human, Human: human, Impl: impl, Model: want})
	}
	call := func(name string, args ...int64) []int64 {
		r, _ := hook.Call(name, args)
		return r
	}
	for v := int64(-32768); v <= 32767; v++ {
		ab := call("encodeInt16", v)
		if got := call("VM.decodeInt16", ab...); len(got) != 1 || got[0] != v {
			fail("int16-roundtrip", fmt.Sprintf("decodeInt16(encodeInt16(%d))", v), ints(got), fmt.Sprint(v))
		}
		res.Evaluations++
	}
	for v := int64(0); v <= 65535; v++ {
		ab := call("encodeUint16", v)
		if got := call("VM.decodeUint16", ab...); len(got) != 1 || got[0] != v {
			fail("uint16-roundtrip", fmt.Sprintf("decodeUint16(encodeUint16(%d))", v), ints(got), fmt.Sprint(v))
		}
		res.Evaluations++
	}
	u24 := domain(c, "u32", false)
	for i := 0; i < c.N(20000, 400000); i++ {
		u24 = append(u24, int64(c.R.U64()%(1<<24)))
	}
	for _, v := range u24 {
		if v >= 1<<24 {
			continue
		}
		abc := call("encodeUint24", v)
		if got := call("VM.decodeUint24", abc...); len(got) != 1 || got[0] != v {
			fail("uint24-roundtrip", fmt.Sprintf("decodeUint24(encodeUint24(%d))", v), ints(got), fmt.Sprint(v))
		}
		res.Evaluations++
	}
	for t := int64(0); t < 4; t++ {
		for i := int64(0); i < 1<<14; i++ {
			ab := call("encodeValueIndex", t, i)
			if got := call("VM.decodeValueIndex", ab...); len(got) != 2 || got[0] != t || got[1] != i {
				fail("valueindex-roundtrip", fmt.Sprintf("decodeValueIndex(encodeValueIndex(%d, %d))", t, i), ints(got), fmt.Sprint(t, i))
			}
			res.Evaluations++
		}
	}
	for ctx := int64(0); ctx < 16; ctx++ {
		for fl := int64(0); fl < 4; fl++ {
			in, set := fl&1, fl>>1
			cc := call("encodeRenderContext", ctx, in, set)
			got := call("VM.decodeRenderContext", cc...)
			if len(got) != 3 || got[0] != ctx || got[1] != in || got[2] != in&set {
				fail("rendercontext-roundtrip", fmt.Sprintf("decodeRenderContext(encodeRenderContext(%d, %d, %d))", ctx, in, set), ints(got), fmt.Sprint(ctx, in, in&set))
			}
			res.Evaluations++
		}
	}
	for v := int64(0); v < 1<<15; v++ {
		bc := call("encodeSetVar", v)
		if got := call("VM.decodeInt16", bc...); len(got) != 1 || got[0] != v {
			fail("setvar-roundtrip", fmt.Sprintf("decodeInt16(operands of emitSetVar(%d))", v), ints(got), fmt.Sprint(v))
		}
		res.Evaluations++
	}
	for r := int64(0); r < 256; r++ {
		x := call("encodeIndex8", r)
		if got := call("decodeIndex8", x...); len(got) != 1 || got[0] != r {
			fail("index8-roundtrip", fmt.Sprintf("uint8(int8(%d))", r), ints(got), fmt.Sprint(r))
		}
		res.Evaluations++
	}
}

// ---------------------------------------------------------------------------------------------
// 3. end-to-end sweeps

type program struct {
	template bool
	files    scriggo.Files
	opts     *scriggo.BuildOptions
	ctx      bool          // run with a cancellable context
	want     string        // what a run must print / render
	after    func() string // extra check on the host side after the run ("" = fine)
}

// variant says how the entries of a de-duplicated table are used once the n distinct ones are in:
// which of them are used again, whether everything happens inside a function literal (which has
// its own tables), and how many further entries are declared but never used.
type variant struct {
	reuse   []int
	closure bool
	unused  int
}

func (v variant) String() string {
	if len(v.reuse) == 0 && !v.closure && v.unused == 0 {
		return "-"
	}
	var parts []string
	if len(v.reuse) > 0 {
		var r []string
		for _, i := range v.reuse {
			r = append(r, strconv.Itoa(i))
		}
		parts = append(parts, "r"+strings.Join(r, ","))
	}
	if v.closure {
		parts = append(parts, "c")
	}
	if v.unused > 0 {
		parts = append(parts, "u"+strconv.Itoa(v.unused))
	}
	return strings.Join(parts, ";")
}

func parseVariant(s string) (v variant) {
	if s == "-" {
		return
	}
	for _, p := range strings.Split(s, ";") {
		switch {
		case p == "c":
			v.closure = true
		case strings.HasPrefix(p, "u"):
			v.unused, _ = strconv.Atoi(p[1:])
		case strings.HasPrefix(p, "r"):
			for _, x := range strings.Split(p[1:], ",") {
				i, _ := strconv.Atoi(x)
				v.reuse = append(v.reuse, i)
			}
		}
	}
	return
}

// uses is the sequence of entry numbers the program uses: 0 … n-1, then the re-used ones.
func (v variant) uses(n int) []int {
	idx := make([]int, 0, n+len(v.reuse))
	for i := 0; i < n; i++ {
		idx = append(idx, i)
	}
	for _, r := range v.reuse {
		if r >= 0 && r < n {
			idx = append(idx, r)
		}
	}
	return idx
}

type sweep struct {
	name   string
	table  string // row of the limits table the swept quantity fills ("" = no prediction of the model is compared)
	around string // table whose limit the sizes are taken around (default: table)
	base   int    // the program needs scale·n + base entries of that table (scale 0 = 1); calibrated on the
	scale  int    // unchanged tree: the accumulator s, its temporaries, the "" constant …
	heavy  bool   // thorough tier only
	big    bool   // one size costs around a second: fewer sizes
	dedup  bool   // the table is de-duplicated: variants with re-used entries make sense
	unused bool   // entries can be declared without being used (functions, natives, fields, globals)
	gen    func(n int, v variant) program
}

func (s sweep) template() bool { return strings.HasPrefix(s.name, "template-") }

func lines(n int, f func(i int) string) string {
	var sb strings.Builder
	for i := 0; i < n; i++ {
		sb.WriteString(f(i))
	}
	return sb.String()
}

func linesOf(idx []int, f func(i int) string) string {
	var sb strings.Builder
	for _, i := range idx {
		sb.WriteString(f(i))
	}
	return sb.String()
}

func prog(src string, want string) program {
	return program{files: scriggo.Files{"main.go": []byte(src)}, want: want}
}

// mainOf assembles `package main … func main() { pre; stmts; post }`, the statements inside a
// function literal (which captures the variables of pre) when closure is set.
func mainOf(top, pre, stmts, post string, closure bool) string {
	if closure {
		stmts = "\tfn := func() {\n" + stmts + "\t}\n\tfn()\n"
	}
	return "package main\n" + top + "func main() {\n" + pre + stmts + post + "}\n"
}

func localsSweep(name string, base int, decl func(i int) string, use func(i int) string, val func(i int) int) sweep {
	return sweep{name: name, table: "Registers", base: base, gen: func(n int, _ variant) program {
		sum := 0
		for i := 0; i < n; i++ {
			sum += val(i)
		}
		src := "package main\nfunc main() {\n" + lines(n, func(i int) string { return "\t" + decl(i) + "\n" }) +
			"\ts := 0\n" + lines(n, func(i int) string { return "\ts = s + " + use(i) + "\n" }) + "\tprintln(s)\n}\n"
		return prog(src, fmt.Sprintf("%d\n", sum))
	}}
}

func nativeVars(n int) (native.Packages, []int) {
	decls := native.Declarations{}
	vals := make([]int, n)
	for i := range vals {
		decls["V"+strconv.Itoa(i)] = &vals[i]
	}
	return native.Packages{"p": native.Package{Name: "p", Declarations: decls}}, vals
}

func mul3(idx []int) int {
	s := 0
	for _, i := range idx {
		s = s*3 + i
	}
	return s
}

func sweeps() []sweep {
	ss := []sweep{
		localsSweep("locals-int", 2, func(i int) string { return fmt.Sprintf("v%d := %d", i, i%50) },
			func(i int) string { return fmt.Sprintf("v%d", i) }, func(i int) int { return i % 50 }),
		localsSweep("locals-float", 0, func(i int) string { return fmt.Sprintf("v%d := %d.0", i, i%50) },
			func(i int) string { return fmt.Sprintf("int(v%d)", i) }, func(i int) int { return i % 50 }),
		localsSweep("locals-string", 1, func(i int) string { return fmt.Sprintf("v%d := \"%s\"", i, strings.Repeat("x", i%5)) },
			func(i int) string { return fmt.Sprintf("len(v%d)", i) }, func(i int) int { return i % 5 }),
		localsSweep("locals-general", 1, func(i int) string { return fmt.Sprintf("v%d := make([]int, %d)", i, i%5) },
			func(i int) string { return fmt.Sprintf("len(v%d)", i) }, func(i int) int { return i % 5 }),
		{name: "temporaries-int", table: "Registers", scale: 2, base: 2, gen: func(n int, _ variant) program {
			// g(0) + (g(1) + (g(2) + …)): every left operand is held while the rest is evaluated
			expr := fmt.Sprintf("g(%d)", n-1)
			sum := n - 1
			for i := n - 2; i >= 0; i-- {
				expr = fmt.Sprintf("g(%d) + (%s)", i, expr)
				sum += i
			}
			return prog("package main\nfunc g(x int) int { return x }\nfunc main() {\n\ts := "+expr+"\n\tprintln(s)\n}\n", fmt.Sprintf("%d\n", sum))
		}},
		{name: "parameters-int", around: "Registers", gen: func(n int, _ variant) program {
			var ps, as, add []string
			sum := 0
			for i := 0; i < n; i++ {
				ps = append(ps, fmt.Sprintf("p%d", i))
				as = append(as, strconv.Itoa(i%9))
				add = append(add, fmt.Sprintf("p%d", i))
				sum += i % 9
			}
			src := "package main\nfunc f(" + strings.Join(ps, ", ") + " int) int {\n\treturn " + strings.Join(add, " + ") + "\n}\nfunc main() {\n\tprintln(f(" + strings.Join(as, ", ") + "))\n}\n"
			return prog(src, fmt.Sprintf("%d\n", sum))
		}},
		{name: "int-constants", table: "Values.Int", big: true, dedup: true, gen: func(n int, v variant) program {
			idx := v.uses(n)
			sum := 0
			for _, i := range idx {
				sum += 1000 + i
			}
			return prog(mainOf("", "\ts := 0\n", linesOf(idx, func(i int) string { return fmt.Sprintf("\ts = s + %d\n", 1000+i) }), "\tprintln(s)\n", v.closure), fmt.Sprintf("%d\n", sum))
		}},
		{name: "float-constants", table: "Values.Float", big: true, dedup: true, gen: func(n int, v variant) program {
			idx := v.uses(n)
			sum := 0 // twice the float sum
			for _, i := range idx {
				sum += 2*(1000+i) + 1
			}
			return prog(mainOf("", "\tf := 0.0\n", linesOf(idx, func(i int) string { return fmt.Sprintf("\tf = f + %d.5\n", 1000+i) }), "\tprintln(int(f * 2))\n", v.closure), fmt.Sprintf("%d\n", sum))
		}},
		{name: "string-constants", table: "Values.String", base: 2, dedup: true, gen: func(n int, v variant) program {
			idx := v.uses(n)
			sum := 0
			for _, i := range idx {
				sum += len(fmt.Sprintf("c%d", i))
			}
			return prog(mainOf("", "\ts := 0\n\tt := \"\"\n", linesOf(idx, func(i int) string { return fmt.Sprintf("\tt = \"c%d\"\n\ts = s + len(t)\n", i) }), "\tprintln(s)\n", v.closure), fmt.Sprintf("%d\n", sum))
		}},
		{name: "general-constants", table: "Values.General", base: 1, dedup: true, gen: func(n int, v variant) program {
			// a complex constant is a general value
			idx := v.uses(n)
			sum := 0
			for _, i := range idx {
				sum += 1000 + i
			}
			return prog(mainOf("", "\tvar c complex128\n", linesOf(idx, func(i int) string { return fmt.Sprintf("\tc = c + (%d + 1i)\n", 1000+i) }), "\tprintln(int(real(c)), int(imag(c)))\n", v.closure), fmt.Sprintf("%d %d\n", sum, len(idx)))
		}},
		{name: "types", table: "Types", base: 2, dedup: true, gen: func(n int, v variant) program {
			idx := v.uses(n)
			want := 0
			for _, i := range idx {
				if i+1 == 2 {
					want += 2
				}
			}
			return prog(mainOf("", "\ts := 0\n\tvar e interface{} = [2]int8{}\n", linesOf(idx, func(i int) string {
				return fmt.Sprintf("\tif _, ok := e.([%d]int8); ok {\n\t\ts = s + %d\n\t}\n", i+1, i+1)
			}), "\tprintln(s)\n", v.closure), fmt.Sprintf("%d\n", want))
		}},
		{name: "scriggo-functions", table: "Functions", dedup: true, unused: true, gen: func(n int, v variant) program {
			idx := v.uses(n)
			return prog(mainOf(lines(n+v.unused, func(i int) string { return fmt.Sprintf("func f%d() int { return %d }\n", i, i) }),
				"\ts := 0\n", linesOf(idx, func(i int) string { return fmt.Sprintf("\ts = s*3 + f%d()\n", i) }), "\tprintln(s)\n", v.closure), fmt.Sprintf("%d\n", mul3(idx)))
		}},
		{name: "native-functions", table: "NativeFunctions", dedup: true, unused: true, gen: func(n int, v variant) program {
			idx := v.uses(n)
			decls := native.Declarations{}
			for i := 0; i < n+v.unused; i++ {
				i := i
				decls["F"+strconv.Itoa(i)] = func() int { return i }
			}
			p := prog(mainOf("import \"p\"\n", "\ts := 0\n", linesOf(idx, func(i int) string { return fmt.Sprintf("\ts = s*3 + p.F%d()\n", i) }), "\tprintln(s)\n", v.closure), fmt.Sprintf("%d\n", mul3(idx)))
			p.opts = &scriggo.BuildOptions{Packages: native.Packages{"p": native.Package{Name: "p", Declarations: decls}}}
			return p
		}},
		{name: "field-indexes", table: "FieldIndexes", dedup: true, unused: true, gen: func(n int, v variant) program {
			idx := v.uses(n)
			return prog(mainOf("type T struct {\n"+lines(n+v.unused, func(i int) string { return fmt.Sprintf("\tF%d int\n", i) })+"}\n", "\tvar t T\n\ts := 0\n"+lines(n, func(i int) string { return fmt.Sprintf("\tt.F%d = %d\n", i, i) }),
				linesOf(idx, func(i int) string { return fmt.Sprintf("\ts = s*3 + t.F%d\n", i) }), "\tprintln(s)\n", v.closure), fmt.Sprintf("%d\n", mul3(idx)))
		}},
		{name: "template-string-constants", table: "Values.String", base: 1, dedup: true, gen: func(n int, v variant) program {
			var src, want strings.Builder
			src.WriteString("{% var t = \"\" %}")
			for _, i := range v.uses(n) {
				fmt.Fprintf(&src, "{%% t = \"c%d\" %%}{{ len(t) }}", i)
				fmt.Fprintf(&want, "%d", len(fmt.Sprintf("c%d", i)))
			}
			return program{template: true, files: scriggo.Files{"index.txt": []byte(src.String())}, want: want.String()}
		}},
		{name: "text-chunks", table: "Text", big: true, gen: func(n int, _ variant) program {
			// `{{ "" }}` between two texts: a Show instruction separates them, so emitText cannot merge
			var src, want strings.Builder
			for i := 0; i < n; i++ {
				fmt.Fprintf(&src, "<%d>{{ \"\" }}", i)
				fmt.Fprintf(&want, "<%d>", i)
			}
			return program{template: true, files: scriggo.Files{"index.txt": []byte(src.String())}, want: want.String()}
		}},
		{name: "select-cases", table: "SelectCases", big: true, gen: func(n int, _ variant) program {
			p := prog("package main\nfunc main() {\n\tch := make(chan int, 1)\n\tch <- 7\n\tselect {\n"+strings.Repeat("\tcase <-ch:\n", n)+"\t}\n\tprintln(len(ch))\n}\n", "0\n")
			p.ctx = true // the VM adds the context's done case to the compiled ones
			return p
		}},
		{name: "global-variables", table: "Globals", big: true, dedup: true, unused: true, gen: func(n int, v variant) program {
			idx := v.uses(n)
			pkgs, vals := nativeVars(n + v.unused)
			p := prog(mainOf("import \"p\"\n", "", linesOf(idx, func(i int) string { return fmt.Sprintf("\tp.V%d = %d\n", i, i%7+1) }),
				fmt.Sprintf("\tprintln(p.V0, p.V%d)\n", n-1), false), fmt.Sprintf("1 %d\n", (n-1)%7+1))
			p.opts = &scriggo.BuildOptions{Packages: pkgs}
			p.after = func() string {
				for i, val := range vals {
					want := i%7 + 1
					if i >= n {
						want = 0
					}
					if val != want {
						return fmt.Sprintf("native variable V%d is %d after the run, expected %d", i, val, want)
					}
				}
				return ""
			}
			return p
		}},
		{name: "closure-variables", table: "ClosureVars", base: 1, heavy: true, big: true, dedup: true, gen: func(n int, v variant) program {
			idx := v.uses(n)
			pkgs, vals := nativeVars(n)
			p := prog("package main\nimport \"p\"\nfunc main() {\n\tx := 1\n\tf := func() {\n"+linesOf(idx, func(i int) string { return fmt.Sprintf("\t\tp.V%d = %d\n", i, i%7+1) })+
				fmt.Sprintf("\t\tx = 2\n\t}\n\tf()\n\tprintln(x, p.V%d)\n}\n", n-1), fmt.Sprintf("2 %d\n", (n-1)%7+1))
			p.opts = &scriggo.BuildOptions{Packages: pkgs}
			p.after = func() string {
				for i, val := range vals {
					if val != i%7+1 {
						return fmt.Sprintf("native variable V%d is %d after the run, the closure assigned %d", i, val, i%7+1)
					}
				}
				return ""
			}
			return p
		}},
	}
	return ss
}

// jump distances: within the limits always (the 2^24 boundary needs > 16 M instructions)
func jumpProgram(m int) program {
	body := strings.Repeat("\t\ts = s + 3\n", m)
	src := "package main\nfunc main() {\n\ts := 0\n\tfor i := 0; i < 2; i++ {\n" + body + "\t}\n\tif s > 0 {\n" + strings.Repeat("\t\ts = s + 2\n", m) + "\t} else {\n\t\ts = -1\n\t}\n\tprintln(s)\n}\n"
	return prog(src, fmt.Sprintf("%d\n", 6*m+2*m))
}

var limitMessage = regexp.MustCompile(` count exceeded [0-9]+$`)

type outcome struct {
	kind   string // built | limit | other-error | build-panic | run-panic | run-error | wrong-output
	detail string
	msg    string // limit message
}

func execute(p program) (o outcome) {
	var buildErr error
	var progr *scriggo.Program
	var tmpl *scriggo.Template
	func() {
		defer func() {
			if r := recover(); r != nil {
				o = outcome{kind: "build-panic", detail: fmt.Sprint(r)}
			}
		}()
		if p.template {
			tmpl, buildErr = scriggo.BuildTemplate(p.files, "index.txt", p.opts)
		} else {
			progr, buildErr = scriggo.Build(p.files, p.opts)
		}
	}()
	if o.kind != "" {
		return o
	}
	if buildErr != nil {
		var be *scriggo.BuildError
		if errors.As(buildErr, &be) && limitMessage.MatchString(be.Message()) {
			return outcome{kind: "limit", msg: be.Message(), detail: buildErr.Error()}
		}
		return outcome{kind: "other-error", detail: fmt.Sprintf("%T: %v", buildErr, buildErr)}
	}
	var out bytes.Buffer
	var runErr error
	func() {
		defer func() {
			if r := recover(); r != nil {
				o = outcome{kind: "run-panic", detail: fmt.Sprint(r)}
			}
		}()
		ro := &scriggo.RunOptions{Print: func(a any) { fmt.Fprint(&out, a) }}
		if p.ctx {
			ctx, cancel := context.WithTimeout(context.Background(), 60*time.Second)
			defer cancel()
			ro.Context = ctx
		}
		if p.template {
			runErr = tmpl.Run(&out, nil, ro)
		} else {
			runErr = progr.Run(ro)
		}
	}()
	if o.kind != "" {
		return o
	}
	if runErr != nil {
		return outcome{kind: "run-error", detail: runErr.Error()}
	}
	got := out.String()
	if !p.template {
		// println writes its arguments separated by a space and a newline through Print
		got = strings.Join(strings.Fields(got), " ") + "\n"
	}
	if got != p.want {
		return outcome{kind: "wrong-output", detail: diff(got, p.want)}
	}
	if p.after != nil {
		if d := p.after(); d != "" {
			return outcome{kind: "wrong-output", detail: d}
		}
	}
	return outcome{kind: "built"}
}

func diff(got, want string) string {
	i := 0
	for i < len(got) && i < len(want) && got[i] == want[i] {
		i++
	}
	cut := func(s string) string {
		if len(s) > i+24 {
			return s[i:i+24] + "…"
		}
		return s[i:]
	}
	return fmt.Sprintf("first difference at byte %d: got %q, want %q (lengths %d, %d)", i, cut(got), cut(want), len(got), len(want))
}

func messageRegexp(format string) *regexp.Regexp {
	q := regexp.QuoteMeta(format)
	q = strings.ReplaceAll(q, "%s", `\w+`)
	q = strings.ReplaceAll(q, "%d", `([0-9]+)`)
	return regexp.MustCompile("^" + q + "$")
}

func runCase(c *hx.Ctx, s sweep, n int, v variant, rows map[string]row) {
	res := c.Res
	caseLine := fmt.Sprintf("C20 sweep %s %d %s", s.name, n, v)
	o := execute(s.gen(n, v))
	r, haveRow := rows[s.table]
	if s.scale == 0 {
		s.scale = 1
	}
	near := haveRow && r.guard >= 0 && s.scale*n+s.base >= r.guard-2*s.scale
	res.Count(caseLine, near)
	hist := "sweep " + s.name
	if v.String() != "-" {
		hist += " (entries re-used / declared unused)"
	}
	res.Hist(hist + " → " + o.kind)
	if os.Getenv("C20_DEBUG") != "" {
		fmt.Fprintf(os.Stderr, "%s: %s %s %s\n", caseLine, o.kind, o.msg, o.detail)
	}
	human := func(n int, v variant) string {
		h := fmt.Sprintf("%s with %d distinct entries (table %s)", s.name, n, s.table)
		if s.table == "" {
			h = fmt.Sprintf("%s: %d", s.name, n)
		}
		if len(v.reuse) > 0 {
			h += fmt.Sprintf(", then entries %v used again", v.reuse)
		}
		if v.closure {
			h += ", inside a function literal"
		}
		if v.unused > 0 {
			h += fmt.Sprintf(", %d more declared but not used", v.unused)
		}
		return h
	}
	// the model's prediction
	var ans string
	if c.D != nil && haveRow {
		op := "outcome"
		if len(v.reuse) > 0 {
			op = "reuse"
		}
		ans, _ = c.D.Ask(fmt.Sprintf("C20 %s %s %d", op, s.table, s.scale*n+s.base))
	}
	// the property's own oracle: a program the limits let in builds and prints the generator's
	// output; any other is refused with a limit-exceeded *BuildError. Whether the limits let it in is
	// decided without the model when the variant only re-uses entries or leaves some unused: then the
	// program needs exactly as many entries as the plain one of the same size, which was swept too.
	bad := o.kind != "built" && o.kind != "limit"
	within := false
	if v.String() != "-" {
		plain := execute(s.gen(n, variant{closure: v.closure}))
		within = plain.kind == "built"
		if within && o.kind == "limit" {
			bad = true
			o.kind, o.detail = "spurious-limit", o.detail+" (the same program without the re-used / unused entries builds)"
		}
	}
	if bad {
		same := func(o2 outcome, v2 variant, m int) bool {
			if o.kind != "spurious-limit" {
				return o2.kind == o.kind
			}
			return o2.kind == "limit" && execute(s.gen(m, variant{closure: v2.closure})).kind == "built"
		}
		small, sv := n, v
		if v.String() != "-" {
			// simplify the variant: one re-used entry, no closure, nothing unused
			var simpler []variant
			if len(v.reuse) > 0 {
				simpler = append(simpler, variant{reuse: v.reuse[:1]}, variant{reuse: v.reuse[:1], closure: v.closure}, variant{reuse: v.reuse[:1], unused: v.unused})
			} else {
				simpler = append(simpler, variant{unused: v.unused}, variant{closure: v.closure})
			}
			for _, v2 := range simpler {
				if v2.String() == v.String() || v2.String() == "-" {
					continue
				}
				if o2 := execute(s.gen(n, v2)); same(o2, v2, n) {
					sv = v2
					if o.kind != "spurious-limit" {
						o = o2
					}
					break
				}
			}
		} else {
			// the smallest size of this sweep that fails the same way, looked for among a few small
			// sizes, the sizes around the operand's capacity and around the guard, and n/2
			cands := []int{1, 2, 3, n / 2, n - 2, n - 1}
			if haveRow {
				if r.width > 0 {
					at := (1<<uint(r.width) - r.reserved - s.base) / s.scale
					cands = append(cands, at-1, at, at+1, at+2)
				}
				if r.guard >= 0 {
					at := (r.guard - s.base) / s.scale
					cands = append(cands, at-1, at, at+1, at+2)
				}
			}
			sort.Ints(cands)
			for _, m := range cands {
				if m >= 1 && m < small {
					if o2 := execute(s.gen(m, v)); o2.kind == o.kind {
						small, o = m, o2
						break
					}
				}
			}
		}
		res.AddBreak(proto.Break{Kind: "property", Name: "limit-" + o.kind, Case: fmt.Sprintf("C20 sweep %s %d %s", s.name, small, sv),
			Human: human(small, sv), Impl: o.kind + ": " + o.detail,
			Model: "built with the generator's output, or (only if the limits do not let the program in) a *scriggo.BuildError with a limit-exceeded message"})
		return
	}
	if ans == "" {
		return
	}
	// correspondence with the model's prediction
	impl := "ok " + o.kind
	if o.kind == "limit" {
		impl = "ok limit " + o.msg
	}
	model := ans
	if f := strings.Fields(ans); len(f) == 3 && f[1] == "limit" {
		format, _ := proto.UnHex(f[2])
		model = "ok limit " + string(format)
		if o.kind == "limit" {
			m := messageRegexp(string(format)).FindStringSubmatch(o.msg)
			if m != nil && m[1] == strconv.Itoa(r.guard) {
				model = impl // same message, same bound
			}
		}
	}
	if len(res.Samples) < 8 && near {
		res.Sample(map[string]string{"case": caseLine, "model": ans, "impl": impl})
	}
	if impl != model {
		res.AddBreak(proto.Break{Kind: "correspondence", Name: "build-outcome-vs-limits-table", Case: caseLine, Human: human(n, v), Impl: impl, Model: model})
	}
}

// variants of a de-duplicated sweep at size n (the largest that fits, or one below)
func variantsOf(c *hx.Ctx, s sweep, n int) []variant {
	if !s.dedup || n < 3 {
		return nil
	}
	mid := 1 + c.R.Intn(n-2)
	vs := []variant{{reuse: []int{0, mid, n - 1}}}
	if !s.big || !c.Quick() {
		vs = append(vs, variant{reuse: []int{0}}, variant{reuse: []int{n - 1}}, variant{reuse: []int{mid}}, variant{reuse: []int{n - 1, 0, mid, 0}, closure: true})
	}
	if s.unused {
		vs = append(vs, variant{unused: 1})
		if !s.big || !c.Quick() {
			vs = append(vs, variant{unused: 1 + c.R.Intn(40), reuse: []int{mid}})
		}
	}
	if s.name == "global-variables" || s.name == "closure-variables" || s.template() {
		for i := range vs {
			vs[i].closure = false
		}
	}
	return vs
}

func sizes(c *hx.Ctx, s sweep, limit int) []int {
	if s.scale == 0 {
		s.scale = 1
	}
	at := (limit - s.base) / s.scale // the largest size that fits
	set := map[int]bool{}
	add := func(n int) {
		if n >= 1 {
			set[n] = true
		}
	}
	add(at - 1)
	add(at)
	add(at + 1)
	if s.big {
		if !c.Quick() {
			add(at + 2 + c.R.Intn(500))
			add(1 + c.R.Intn(at))
		}
	} else {
		add(at - 2)
		add(at + 2)
		add(2*at + 1) // where an unguarded 8-bit index would be back at 1
		add(at + 1 + c.R.Intn(at))
		for i := 0; i < c.N(3, 12); i++ {
			add(1 + c.R.Intn(at+3))
		}
		if !c.Quick() {
			for d := -6; d <= 6; d++ {
				add(at + d)
			}
		}
	}
	var out []int
	for n := range set {
		out = append(out, n)
	}
	sort.Ints(out)
	return out
}

// knownFindings replays the recorded findings of this property on the real code.
func knownFindings(c *hx.Ctx) {
	for _, f := range c.Findings {
		want, human := "", ""
		switch f.ID {
		case "opassign-register-leak":
			want, human = "189\n", "func main() { s := 0; s += 3 (63 times); println(s) }"
		case "nonlocal-field-assign-register-leak":
			want, human = "1\n", "func main() { var t T; fn := func() { t.F = 1 (128 times) }; fn(); println(t.F) }"
		default:
			continue
		}
		o := execute(prog(f.Minimal, want))
		c.Res.Count("C20 finding "+f.ID, true)
		if o.kind != "built" {
			c.Res.AddBreak(proto.Break{Kind: "property", Name: "limit-spurious-limit", Case: "C20 finding " + f.ID,
				Human: human, Impl: o.kind + ": " + o.detail, Model: "built, prints " + strings.TrimSpace(want), Finding: f.ID})
		}
	}
}

func specValidation(c *hx.Ctx) {
	// reflect.Select's capacity, as written in gen_encoding.go: 65536 cases are accepted, 65537 are not
	try := func(n int) (panicked bool) {
		defer func() {
			if recover() != nil {
				panicked = true
			}
		}()
		cases := make([]reflect.SelectCase, n)
		for i := range cases {
			cases[i] = reflect.SelectCase{Dir: reflect.SelectRecv} // nil channel: never ready
		}
		cases[0] = reflect.SelectCase{Dir: reflect.SelectDefault}
		reflect.Select(cases)
		return false
	}
	ok := !try(65536) && try(65537)
	c.Res.SpecChecks["reflect.Select capacity is 65536"]++
	if !ok {
		c.Res.AddBreak(proto.Break{Kind: "correspondence", Name: "reflect.Select-capacity", Case: "C20 spec reflect.Select", Human: "reflect.Select with 65536 / 65537 cases",
			Impl: "does not accept exactly up to 65536 cases", Model: "65536"})
	}
}

func run(c *hx.Ctx) error {
	res := c.Res
	res.Rule = "encoders: every regenerated encode/decode function against the real one on the whole domain when it has at most 65536 points, otherwise boundary values (±2^k, ±2^k±1) and random operands; round trips on the real code exhaustively (Int16, Uint16, ValueIndex, RenderContext, SetVar index, one-byte index) or on boundary + random values (Uint24). sweeps: generated programs/templates whose count of one resource is n, for n just below, at and just above the limit of its table (plus random n, 2·limit+1); at the full table and one short of it the de-duplicated tables (constants of each kind, types, functions, natives, field paths, globals, closure variables, template constants) are swept again with entries used a second time (first, last, a random middle one, several), inside a function literal, and with further entries declared but never used: these must build and print the generator's output whenever the plain program of that size does; non-trivial = n within 2 of the limit; distinct by (sweep, n, variant); arity sweeps (counts and literal indexes that travel as one-byte immediates: variadic arguments, append operands, composite literal sizes and keyed indexes, multiple assignment, results, switch cases, concatenation operands, nesting depth) at 1, 2, 126…129, 255…257 and random sizes below 300; placement sweeps (place.go): each resource consumed n times in each kind of function (main, declared, init, literals, package-variable initialisers, imported package, template top level/block/macro/imported/extending/rendered/using/default), bisection for the largest n that builds, every execution must be built-right or a limit error, non-trivial = within 3 of that n; disassembly of the built programs of the table sweeps at 2 … 255 entries"
	specValidation(c)

	if c.Replay != "" {
		if data, err := os.ReadFile(c.Replay); err == nil {
			var rp struct {
				Case string `json:"case"`
			}
			if json.Unmarshal(data, &rp) == nil {
				f := strings.Fields(rp.Case)
				if len(f) == 5 && f[1] == "disasm" {
					n, _ := strconv.Atoi(f[4])
					disasmSweeps(c, f[2], n)
					return nil
				}
				if len(f) == 5 && f[1] == "place" {
					n, _ := strconv.Atoi(f[4])
					replayPlaced(c, f[2], f[3], n)
					return nil
				}
				if (len(f) == 4 || len(f) == 5) && f[1] == "sweep" {
					v := variant{}
					if len(f) == 5 {
						v = parseVariant(f[4])
					}
					n, _ := strconv.Atoi(f[3])
					rows := map[string]row{}
					if c.D != nil {
						if rs, err := loadRows(c); err == nil {
							for _, r := range rs {
								rows[r.table] = r
							}
						}
					}
					for _, s := range append(sweeps(), arities()...) {
						if s.name == f[2] {
							runCase(c, s, n, v, rows)
						}
					}
					if f[2] == "jump-distance" {
						runJump(c, n)
					}
					return nil
				}
			}
		}
	}

	knownFindings(c)

	rows := map[string]row{}
	if c.D != nil {
		rs, err := loadRows(c)
		if err != nil {
			return err
		}
		for _, r := range rs {
			if old, ok := rows[r.table]; !ok || (r.guard >= 0 && (old.guard < 0 || r.guard < old.guard)) {
				rows[r.table] = r
			}
			res.Hist("table-row " + r.table)
		}
		if err := encoders(c); err != nil {
			return err
		}
	}
	encoderOracle(c)

	// where to sweep: the limit of each table as the real code has it (hooks), falling back to the
	// model's row; a table without any bound is swept at the capacity of its operand
	lim := hook.Limits()
	limitOf := map[string]int{
		"Registers": int(lim["maxRegistersCount"]), "Values.Int": int(lim["maxIntValuesCount"]), "Values.Float": int(lim["maxFloatValuesCount"]),
		"Values.String": int(lim["maxStringValuesCount"]), "Values.General": int(lim["maxGeneralValuesCount"]), "Types": int(lim["maxTypesCount"]),
		"Functions": int(lim["maxScriggoFunctionsCount"]), "NativeFunctions": int(lim["maxNativeFunctionsCount"]), "FieldIndexes": int(lim["maxFieldIndexesCount"]),
		"Text": int(lim["maxTextsCount"]), "SelectCases": int(lim["maxSelectCasesCount"]), "Globals": int(lim["maxGlobalsCount"]), "ClosureVars": int(lim["maxClosureVarsCount"]),
	}
	if os.Getenv("C20_ONLY") == "place" { // debugging aid: only the placement sweeps
		placedSweeps(c, limitOf)
		disasmSweeps(c, "", 0)
		return nil
	}
	for _, s := range sweeps() {
		if s.heavy && c.Quick() {
			continue
		}
		if s.around == "" {
			s.around = s.table
		}
		limit := limitOf[s.around]
		if limit <= 0 {
			continue
		}
		for _, n := range sizes(c, s, limit) {
			runCase(c, s, n, variant{}, rows)
		}
		// a full table (and one entry short of full): use entries again, leave declared ones unused
		at := (limit - s.base) / max(s.scale, 1)
		for _, v := range variantsOf(c, s, at) {
			runCase(c, s, at, v, rows)
		}
		if !s.big {
			for _, v := range variantsOf(c, s, at-1) {
				runCase(c, s, at-1, v, rows)
			}
		}
		// an operand-width boundary that lies beyond the limit the code checks today would be a
		// place where a raised limit goes wrong: also try just above the operand's capacity
		if r, ok := rows[s.table]; ok && r.width > 0 && !s.big {
			cap := 1<<uint(r.width) - r.reserved
			if cap > limit && cap < 70000 {
				runCase(c, s, (cap-s.base)/max(s.scale, 1)+1, variant{}, rows)
			}
		}
	}
	placedSweeps(c, limitOf)
	disasmSweeps(c, "", 0)
	for _, s := range arities() {
		ns := aritySizes(c, c.R.Intn)
		sort.Ints(ns)
		for _, n := range ns {
			runCase(c, s, n, variant{}, rows)
		}
	}
	for _, m := range []int{40, 130, 300, c.N(22000, 70000)} {
		runJump(c, m+c.R.Intn(7))
	}
	return nil
}

func runJump(c *hx.Ctx, m int) {
	o := execute(jumpProgram(m))
	c.Res.Count(fmt.Sprintf("C20 sweep jump-distance %d", m), m > 20000)
	c.Res.Hist("sweep jump-distance → " + o.kind)
	if o.kind != "built" {
		c.Res.AddBreak(proto.Break{Kind: "property", Name: "limit-" + o.kind, Case: fmt.Sprintf("C20 sweep jump-distance %d", m),
			Human: fmt.Sprintf("a loop and an if whose bodies have %d statements each", m), Impl: o.kind + ": " + o.detail, Model: "built, prints " + strconv.Itoa(8*m)})
	}
}
