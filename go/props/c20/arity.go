package main

// Arity sweeps: counts and literal indexes that travel as one-byte immediates (not as table
// indexes): number of variadic arguments, append operands, composite literal elements and keyed
// indexes, map literal size, multiple assignment arity, results count, switch cases, string
// concatenation operands, nesting depth. Oracle only: built with the generator's output, or a
// limit-exceeded *BuildError.

import (
	"fmt"
	"strconv"
	"strings"

	"github.com/open2b/scriggo"
	"github.com/open2b/scriggo/native"
)

func seq(n int, sep string, f func(i int) string) string {
	parts := make([]string, n)
	for i := range parts {
		parts[i] = f(i)
	}
	return strings.Join(parts, sep)
}

func mul3mod(n int, val func(i int) int) int {
	s := 0
	for i := 0; i < n; i++ {
		s = s*3 + val(i)
	}
	return s
}

const sumLoop = "\ts := 0\n\tfor _, x := range a {\n\t\ts = s*3 + x\n\t}\n"

func arities() []sweep {
	v100 := func(i int) int { return i % 100 }
	lit := func(i int) string { return strconv.Itoa(i % 100) }
	return []sweep{
		{name: "variadic-arguments", gen: func(n int, _ variant) program {
			return prog("package main\nfunc f(a ...int) int {\n"+sumLoop+"\treturn s\n}\nfunc main() {\n\tprintln(f("+seq(n, ", ", lit)+"))\n}\n",
				fmt.Sprintf("%d\n", mul3mod(n, v100)))
		}},
		{name: "variadic-arguments-strings", gen: func(n int, _ variant) program {
			// elements in string registers, indexes in int registers
			return prog("package main\nfunc f(a ...string) int {\n\ts := 0\n\tfor _, x := range a {\n\t\ts = s*3 + len(x)\n\t}\n\treturn s*1000 + len(a)\n}\nfunc main() {\n\tx := \"ab\"\n\ty := \"c\"\n\t_ = y\n\tprintln(f("+
				seq(n, ", ", func(i int) string { return []string{"x", "y"}[i%2] })+"))\n}\n",
				fmt.Sprintf("%d\n", mul3mod(n, func(i int) int { return 2 - i%2 })*1000+n))
		}},
		{name: "variadic-native-arguments", gen: func(n int, _ variant) program {
			p := prog("package main\nimport \"p\"\nfunc main() {\n\tprintln(p.F("+seq(n, ", ", lit)+"))\n}\n", fmt.Sprintf("%d\n", mul3mod(n, v100)))
			p.opts = &scriggo.BuildOptions{Packages: native.Packages{"p": native.Package{Name: "p", Declarations: native.Declarations{"F": func(a ...int) int {
				s := 0
				for _, x := range a {
					s = s*3 + x
				}
				return s
			}}}}}
			return p
		}},
		{name: "variadic-from-results", gen: func(n int, _ variant) program {
			// f(g()): the n results of g, of alternating types, become the variadic arguments
			types := seq(n, ", ", func(i int) string { return []string{"int", "string"}[i%2] })
			vals := seq(n, ", ", func(i int) string {
				if i%2 == 0 {
					return lit(i)
				}
				return "\"s\""
			})
			want := 0
			for i := 0; i < n; i++ {
				if i%2 == 0 {
					want = want*3 + i%100
				} else {
					want = want*3 + 1
				}
			}
			return prog("package main\nfunc g() ("+types+") {\n\treturn "+vals+"\n}\nfunc f(a ...interface{}) int {\n\ts := 0\n\tfor _, x := range a {\n\t\tif v, ok := x.(int); ok {\n\t\t\ts = s*3 + v\n\t\t} else {\n\t\t\ts = s*3 + len(x.(string))\n\t\t}\n\t}\n\treturn s\n}\nfunc main() {\n\tprintln(f(g()))\n}\n",
				fmt.Sprintf("%d\n", want))
		}},
		{name: "append-operands", gen: func(n int, _ variant) program {
			return prog("package main\nfunc main() {\n\ta := []int{}\n\ta = append(a, "+seq(n, ", ", lit)+")\n"+sumLoop+"\tprintln(len(a), s)\n}\n", fmt.Sprintf("%d %d\n", n, mul3mod(n, v100)))
		}},
		{name: "append-operands-variables", gen: func(n int, _ variant) program {
			return prog("package main\nfunc main() {\n\tx := 7\n\ta := []int{}\n\ta = append(a, "+seq(n, ", ", func(int) string { return "x" })+")\n"+sumLoop+"\tprintln(len(a), s)\n}\n",
				fmt.Sprintf("%d %d\n", n, mul3mod(n, func(int) int { return 7 })))
		}},
		{name: "slice-literal-elements", gen: func(n int, _ variant) program {
			return prog("package main\nfunc main() {\n\ta := []int{"+seq(n, ", ", func(i int) string { return strconv.Itoa(i%100 + 1) })+"}\n"+sumLoop+"\tprintln(len(a), s)\n}\n",
				fmt.Sprintf("%d %d\n", n, mul3mod(n, func(i int) int { return i%100 + 1 })))
		}},
		{name: "slice-literal-variables", gen: func(n int, _ variant) program {
			return prog("package main\nfunc main() {\n\tx := 5\n\ta := []int{"+seq(n, ", ", func(int) string { return "x" })+"}\n"+sumLoop+"\tprintln(len(a), s)\n}\n",
				fmt.Sprintf("%d %d\n", n, mul3mod(n, func(int) int { return 5 })))
		}},
		{name: "array-literal-elements", gen: func(n int, _ variant) program {
			return prog("package main\nfunc main() {\n\ta := [...]int{"+seq(n, ", ", func(i int) string { return strconv.Itoa(i%100 + 1) })+"}\n"+sumLoop+"\tprintln(len(a), s)\n}\n",
				fmt.Sprintf("%d %d\n", n, mul3mod(n, func(i int) int { return i%100 + 1 })))
		}},
		{name: "slice-literal-keyed-index", gen: func(n int, _ variant) program {
			return prog(fmt.Sprintf("package main\nfunc main() {\n\ta := []int{%d: 7, 9}\n\tprintln(len(a), a[%d], a[%d])\n}\n", n-1, n-1, n), fmt.Sprintf("%d 7 9\n", n+1))
		}},
		{name: "map-literal-size", gen: func(n int, _ variant) program {
			return prog("package main\nfunc main() {\n\tm := map[int]int{"+seq(n, ", ", func(i int) string { return fmt.Sprintf("%d: %d", i, i%100+1) })+fmt.Sprintf("}\n\tprintln(len(m), m[0], m[%d])\n}\n", n-1),
				fmt.Sprintf("%d 1 %d\n", n, (n-1)%100+1))
		}},
		{name: "struct-literal-fields", gen: func(n int, _ variant) program {
			return prog("package main\ntype T struct {\n"+lines(n, func(i int) string { return fmt.Sprintf("\tF%d int\n", i) })+"}\nfunc main() {\n\tt := T{"+
				seq(n, ", ", func(i int) string { return fmt.Sprintf("F%d: %d", i, i%100+1) })+fmt.Sprintf("}\n\tprintln(t.F0, t.F%d, t.F%d)\n}\n", n/2, n-1),
				fmt.Sprintf("1 %d %d\n", (n/2)%100+1, (n-1)%100+1))
		}},
		{name: "multiple-assignment", gen: func(n int, _ variant) program {
			return prog("package main\nfunc main() {\n\tvar a [300]int\n\ti := 0\n\t"+seq(n, ", ", func(k int) string { return fmt.Sprintf("a[%d]", k) })+" = "+seq(n, ", ", func(k int) string { return "i+" + strconv.Itoa(k%100) })+
				fmt.Sprintf("\n\tprintln(a[0], a[%d])\n}\n", n-1), fmt.Sprintf("0 %d\n", (n-1)%100))
		}},
		{name: "results-count", gen: func(n int, _ variant) program {
			return prog("package main\nfunc g() ("+seq(n, ", ", func(int) string { return "int" })+") {\n\treturn "+seq(n, ", ", lit)+"\n}\nfunc main() {\n\tvar a [300]int\n\t"+
				seq(n, ", ", func(k int) string { return fmt.Sprintf("a[%d]", k) })+fmt.Sprintf(" = g()\n\tprintln(a[0], a[%d])\n}\n", n-1), fmt.Sprintf("0 %d\n", (n-1)%100))
		}},
		{name: "switch-cases", gen: func(n int, _ variant) program {
			return prog(fmt.Sprintf("package main\nfunc main() {\n\tx := %d\n\ts := -1\n\tswitch x {\n", n-1)+lines(n, func(i int) string { return fmt.Sprintf("\tcase %d:\n\t\ts = %d\n", i, i+1000) })+"\t}\n\tprintln(s)\n}\n",
				fmt.Sprintf("%d\n", n-1+1000))
		}},
		{name: "string-concatenation-operands", gen: func(n int, _ variant) program {
			want := 0
			for i := 0; i < n; i++ {
				want += 2 - i%2
			}
			return prog("package main\nfunc main() {\n\tx := \"ab\"\n\ty := \"c\"\n\t_ = y\n\tt := "+seq(n, " + ", func(i int) string { return []string{"x", "y"}[i%2] })+"\n\tprintln(len(t))\n}\n", fmt.Sprintf("%d\n", want))
		}},
		{name: "nesting-depth", gen: func(n int, _ variant) program {
			return prog("package main\nfunc main() {\n\ts := 0\n"+strings.Repeat("\tif s >= 0 {\n\t\ts = s + 1\n", n)+strings.Repeat("\t}\n", n)+"\tprintln(s)\n}\n", fmt.Sprintf("%d\n", n))
		}},
		{name: "println-operands", gen: func(n int, _ variant) program {
			return prog("package main\nfunc main() {\n\tx := 1\n\tprintln("+seq(n, ", ", func(int) string { return "x" })+")\n}\n", strings.TrimSpace(strings.Repeat("1 ", n))+"\n")
		}},
	}
}

// aritySizes: around the signed and the unsigned one-byte boundary, a few small and random ones
func aritySizes(c interface {
	N(int, int) int
}, r func(int) int) []int {
	set := map[int]bool{1: true, 2: true, 126: true, 127: true, 128: true, 129: true, 255: true, 256: true, 257: true}
	for i := 0; i < c.N(2, 8); i++ {
		set[3+r(290)] = true
	}
	if c.N(0, 1) == 1 {
		for _, n := range []int{63, 64, 65, 125, 130, 191, 192, 254, 258, 300} {
			set[n] = true
		}
	}
	var out []int
	for n := range set {
		out = append(out, n)
	}
	return out
}
