package main

import (
	"crypto/sha256"
	"encoding/json"
	"fmt"
	"os"
	"os/exec"
	"path/filepath"
	"runtime"
	"strings"
	"time"

	"verifharness/internal/hx"
	"verifharness/internal/proto"
	"verifharness/props/c10/run"
)

// C14: generated deterministic concurrent programs (pipelines, fan-in with arguments the parent
// keeps changing, WaitGroup-like counting with shared cells, several producers and a closer,
// select with output-irrelevant choice; random Gosched calls) are run by Scriggo under several
// GOMAXPROCS settings; the printed output must equal that of the same source built by gc (one
// `go run` batch per check) — the property's oracle — and the trace of the Lean source-level and
// VM-level evaluators (Model/GoStmt.lean) under pseudo-random schedules, where modelled.
func main() { hx.Main("C14", runC14) }

type c14Case struct {
	Source string `json:"source"`
	Want   string `json:"want"` // gc's output
	Procs  int    `json:"procs"`
}

func (c c14Case) line() string {
	b, _ := json.Marshal(c)
	return "C14 case " + string(b)
}

const gcPrelude = `package main

import (
	"fmt"
	"runtime"
	"strconv"
	"strings"
	"sync"
)

type hT struct{}

func (hT) Gosched()                        { runtime.Gosched() }
func (hT) Itoa(n int) string               { return strconv.Itoa(n) }
func (hT) Send(ch chan int, x int)         { ch <- x }
func (hT) SendMul(ch chan int, a, b int)   { ch <- a * b }
func (hT) SendSum(ch chan int, xs ...int) {
	s := 0
	for _, x := range xs {
		s += x
	}
	ch <- s
}

var h hT
var cur *strings.Builder
var mu sync.Mutex

func println(a ...interface{}) { mu.Lock(); fmt.Fprintln(cur, a...); mu.Unlock() }

`

// gcBatch builds and runs every program with the gc toolchain, in one binary.
func gcBatch(progs []*program) ([]string, error) {
	dir, err := os.MkdirTemp("", "c14gc")
	if err != nil {
		return nil, err
	}
	defer os.RemoveAll(dir)
	var b strings.Builder
	b.WriteString(gcPrelude)
	for k, p := range progs {
		sfx := fmt.Sprintf("_%d", k)
		b.WriteString(p.source(sfx, "main"+sfx, false))
	}
	b.WriteString("\nfunc main() {\n")
	for k := range progs {
		fmt.Fprintf(&b, "\tcur = &strings.Builder{}\n\tmain_%d()\n\tmu.Lock()\n\tfmt.Printf(\"#%d %%q\\n\", cur.String())\n\tmu.Unlock()\n", k, k)
	}
	b.WriteString("}\n")
	if err := os.WriteFile(filepath.Join(dir, "main.go"), []byte(b.String()), 0o644); err != nil {
		return nil, err
	}
	if err := os.WriteFile(filepath.Join(dir, "go.mod"), []byte("module c14gc\n\ngo 1.21\n"), 0o644); err != nil {
		return nil, err
	}
	cmd := exec.Command("go", "run", ".")
	cmd.Dir = dir
	cmd.Env = append(os.Environ(), "GOFLAGS=-mod=mod", "GOPROXY=off", "GOWORK=off")
	out, err := cmd.CombinedOutput()
	if err != nil {
		return nil, fmt.Errorf("gc batch failed: %v\n%s", err, lastLines(string(out), 15))
	}
	res := make([]string, len(progs))
	seen := 0
	for _, l := range strings.Split(string(out), "\n") {
		var k int
		var s string
		if _, err := fmt.Sscanf(l, "#%d %q", &k, &s); err == nil && k >= 0 && k < len(res) {
			res[k] = s
			seen++
		}
	}
	if seen != len(progs) {
		return nil, fmt.Errorf("gc batch printed %d of %d results:\n%s", seen, len(progs), lastLines(string(out), 15))
	}
	return res, nil
}

func lastLines(s string, n int) string {
	ls := strings.Split(strings.TrimRight(s, "\n"), "\n")
	if len(ls) > n {
		ls = ls[len(ls)-n:]
	}
	return strings.Join(ls, "\n")
}

// scriggoRun builds source and runs it once under procs; returns what it printed.
func scriggoRun(a *run.Artefact, procs int) (run.Outcome, bool) {
	old := runtime.GOMAXPROCS(procs)
	defer runtime.GOMAXPROCS(old)
	done := make(chan run.Outcome, 1)
	go func() { done <- a.RunOnce(run.Input{}, nil) }()
	select {
	case o := <-done:
		return o, true
	case <-time.After(20 * time.Second):
		return run.Outcome{}, false
	}
}

func traceText(model string) (string, string) {
	// "ok 1,2,3 done" → "1\n2\n3\n", "done"
	f := strings.Fields(model)
	if len(f) != 3 || f[0] != "ok" {
		return "", "bad:" + model
	}
	if f[1] == "-" {
		return "", f[2]
	}
	return strings.ReplaceAll(f[1], ",", "\n") + "\n", f[2]
}

func runC14(c *hx.Ctx) error {
	res := c.Res
	res.Rule = "generated concurrent programs: main composed of 1-3 shapes (pipeline with 0-2 stages, fan-in whose parent changes the passed variables after each go, WaitGroup-like counting over a channel with one shared cell per worker, several producers plus a closer goroutine and range, select over two feeders with choice-independent sum; native functions started with go / called right after / deferred), and programs whose go statements pass int, float64, string and []int arguments in every mixture from frames with 0-3 live locals of each register class, several go statements per frame, in nested calls, the caller changing the passed locals afterwards (gc is their only oracle), and programs of 1-3 closed-channel parts that use what a receive gives after close (select loops over 2-5 channels of the classes int/string/float64/[]int, several per class, fed by goroutines or prefilled, in the forms `v, ok :=`, `v :=`, `x, ok =`, `x =`, received 1-3 more times after close, with nil-channel and never-ready cases and default; scripted send/close/select sequences with one ready case whose every outcome is printed; plain receives in all statement forms; range over closed channels; send/close panics under recover with their messages; gc is their only oracle); channels unbuffered or buffered 1-3, Gosched calls at random places; each run by Scriggo under GOMAXPROCS 1/2/4/8 several times and compared with gc's output of the same source and with the Lean source-level and VM-level evaluators under random schedules. Non-trivial: every program (each starts at least one goroutine); distinct by source"
	if c.Replay != "" {
		return replayC14(c)
	}
	n := c.N(480, 4000)
	var progs []*program
	for i := 0; i < n; i++ {
		switch {
		case i%4 == 3:
			progs = append(progs, genClosed(c.R))
		case i%3 == 2:
			progs = append(progs, genMixed(c.R))
		default:
			progs = append(progs, genProgram(c.R))
		}
	}
	// the known defects ride in the same gc batch
	for _, k := range knownC14 {
		progs = append(progs, &program{N: 4, M: 2, raw: k.raw, shapes: []string{"known:" + k.id}})
	}
	want, err := gcBatch(progs)
	if err != nil {
		return err
	}
	for j, k := range knownC14 {
		i := n + j
		src := progs[i].source("", "main", true)
		bad := ""
		if a, err := run.Build(run.Case{Kind: "program", Files: map[string]string{"main.go": src}, AllowGo: true}); err != nil {
			bad = "build error: " + err.Error()
		} else if o, ok := scriggoRun(a, 2); !ok || o.Printed != want[i] || o.Err != "" || o.Panic != "" {
			bad = o.String()
		}
		if bad != "" {
			res.AddBreak(proto.Break{Kind: "property", Name: "output-differs-from-gc", Finding: c.Known(k.id),
				Case: c14Case{Source: src, Want: want[i], Procs: 2}.line(), Human: src, Impl: bad, Model: fmt.Sprintf("gc prints %q", want[i])})
		}
	}
	progs, want = progs[:n], want[:n]

	// the Lean evaluators: source level and VM level (main at a non-zero frame pointer), one (quick) or two (thorough) random schedules each
	var lines []string
	var owner []int
	for i, p := range progs {
		if !p.modelled {
			continue
		}
		for _, lv := range []string{"src", "vm"} {
			for s := 0; s < c.N(1, 2); s++ {
				lines = append(lines, p.protoLine(lv, 3+i%5, 400000, c.R.U64()))
				owner = append(owner, i)
			}
		}
	}
	if c.D != nil && len(lines) > 0 {
		ans, err := c.D.Batch(lines)
		if err != nil {
			return err
		}
		for j, a := range ans {
			p := progs[owner[j]]
			txt, status := traceText(a)
			if status != "done" || txt != want[owner[j]] {
				res.AddBreak(proto.Break{Kind: "correspondence", Name: "lean-evaluator-vs-gc", Case: lines[j],
					Human: p.source("", "main", true), Impl: fmt.Sprintf("gc prints %q", want[owner[j]]), Model: a})
			}
			if j%197 == 0 {
				res.Sample(map[string]string{"line": lines[j], "model": a, "gc": want[owner[j]]})
			}
		}
		res.Histogram["lean-evaluations"] = len(lines)
	}

	// Scriggo
	var raceSample []run.Case
	failures := 0
	for i, p := range progs {
		src := p.source("", "main", true)
		cs := run.Case{Kind: "program", Files: map[string]string{"main.go": src}, AllowGo: true}
		a, err := run.Build(cs)
		if err != nil {
			return fmt.Errorf("generated program does not build: %v\n%s", err, src)
		}
		res.Count(src, true)
		for _, s := range p.shapes {
			res.Hist("shape:" + s)
		}
		res.Hist(fmt.Sprintf("goroutine-functions:%02d", len(p.funcs)-1))
		if i%41 == 0 {
			res.Sample(map[string]string{"source": src, "gc": want[i]})
		}
		if len(raceSample) < c.N(0, 120) && i%3 == 0 {
			rc := cs
			rc.Inputs = make([]run.Input, 3)
			rc.Procs = []int{1, 2, 4, 8}[i%4]
			raceSample = append(raceSample, rc)
		}
		for rep := 0; rep < c.N(4, 8); rep++ {
			procs := []int{1, 2, 4, 8}[(rep+i)%4]
			o, ok := scriggoRun(a, procs)
			res.Hist(fmt.Sprintf("procs%d", procs))
			bad := ""
			switch {
			case !ok:
				bad = "did not finish within 20 s"
			case o.Panic != "" || o.Err != "":
				bad = o.String()
			case o.Printed != want[i]:
				bad = fmt.Sprintf("printed %q", o.Printed)
			}
			if bad != "" {
				failures++
				// shrink: a single shape of the program that still fails
				if len(p.segs) > 1 || len(p.alts) > 1 {
					cands := p.alts
					for k := range p.segs {
						cands = append(cands, p.only(k))
					}
					if cw, err := gcBatch(cands); err == nil {
						for k, q := range cands {
							qs := q.source("", "main", true)
							qa, err := run.Build(run.Case{Kind: "program", Files: map[string]string{"main.go": qs}, AllowGo: true})
							if err != nil {
								continue
							}
							found := false
							for t := 0; t < 8 && !found; t++ {
								if qo, ok := scriggoRun(qa, procs); !ok || qo.Printed != cw[k] || qo.Err != "" || qo.Panic != "" {
									src, bad, found = qs, fmt.Sprintf("printed %q err=%q panic=%q", qo.Printed, qo.Err, qo.Panic), true
									want[i] = cw[k]
								}
							}
							if found {
								break
							}
						}
					}
				}
				res.AddBreak(proto.Break{Kind: "property", Name: "output-differs-from-gc", Case: c14Case{Source: src, Want: want[i], Procs: procs}.line(),
					Human: src, Impl: bad, Model: fmt.Sprintf("gc prints %q", want[i])})
				break
			}
		}
		if failures >= 3 {
			res.Notes = append(res.Notes, "stopped after 3 failing programs")
			break
		}
	}

	if len(raceSample) > 0 {
		note, races, err := raceStress(raceSample)
		if err != nil {
			res.Notes = append(res.Notes, "race-detector run skipped: "+err.Error())
		} else {
			res.Notes = append(res.Notes, note)
			res.Histogram["race-detector-cases"] = len(raceSample)
			if races != "" {
				res.AddBreak(proto.Break{Kind: "property", Name: "data-race", Case: "C14 racestress (thorough tier sample)", Human: races,
					Impl: "race detector reported a data race or a differing run", Model: "no race in the interpreter"})
			}
		}
	}
	return nil
}

// raceStress: see props/c10 (same command, built with -race).
func raceStress(cases []run.Case) (note string, races string, err error) {
	bin := filepath.Join("..", "bin", "racestress_C14")
	args := []string{"build", "-race", "-tags", "verif", "-o", bin}
	if repo := os.Getenv("VERIF_REPO"); repo != "" {
		if abs, _ := filepath.Abs(repo); abs != "/repo" {
			tag := fmt.Sprintf("%x", sha256.Sum256([]byte(abs)))[:8]
			args = append(args, "-modfile="+filepath.Join("..", "bin", "go_"+tag+".mod"))
		}
	}
	args = append(args, "./props/c10/racestress")
	cmd := exec.Command("go", args...)
	cmd.Env = append(os.Environ(), "CGO_ENABLED=1")
	if out, e := cmd.CombinedOutput(); e != nil {
		return "", "", fmt.Errorf("go build -race failed: %v: %s", e, lastLines(string(out), 5))
	}
	data, _ := json.Marshal(cases)
	rn := exec.Command(bin)
	rn.Stdin = strings.NewReader(string(data))
	rn.Env = append(os.Environ(), "GORACE=halt_on_error=0 exitcode=66")
	out, e := rn.CombinedOutput()
	text := string(out)
	if e != nil || strings.Contains(text, "DATA RACE") || strings.Contains(text, "MISMATCH") {
		return "", lastLines(text, 60), nil
	}
	return "race detector: " + strings.TrimSpace(lastLines(text, 1)), "", nil
}

func replayC14(c *hx.Ctx) error {
	data, err := os.ReadFile(c.Replay)
	if err != nil && !filepath.IsAbs(c.Replay) { // the check runs the harness in go/, the path is relative to its parent
		data, err = os.ReadFile(filepath.Join("..", c.Replay))
	}
	if err != nil {
		return err
	}
	var rp struct {
		Case string `json:"case"`
	}
	if err := json.Unmarshal(data, &rp); err != nil {
		return err
	}
	js, ok := strings.CutPrefix(rp.Case, "C14 case ")
	if !ok {
		return fmt.Errorf("replay: not a C14 case: %.80s", rp.Case)
	}
	var cs c14Case
	if err := json.Unmarshal([]byte(js), &cs); err != nil {
		return err
	}
	a, err := run.Build(run.Case{Kind: "program", Files: map[string]string{"main.go": cs.Source}, AllowGo: true})
	if err != nil {
		return err
	}
	for i := 0; i < 20; i++ {
		o, ok := scriggoRun(a, cs.Procs)
		c.Res.Count(cs.Source, true)
		if !ok || o.Printed != cs.Want || o.Err != "" || o.Panic != "" {
			c.Res.AddBreak(proto.Break{Kind: "property", Name: "output-differs-from-gc", Case: cs.line(), Human: cs.Source, Impl: o.String(), Model: fmt.Sprintf("gc prints %q", cs.Want)})
			break
		}
	}
	return nil
}
