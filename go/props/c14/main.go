package main

import (
	"crypto/sha256"
	"encoding/json"
	"fmt"
	"os"
	"os/exec"
	"path/filepath"
	"strings"
	"time"

	"verifharness/internal/hx"
	"verifharness/internal/proto"
	"verifharness/props/c10/run"
)

// C14: generated deterministic concurrent programs (pipelines, fan-in with arguments the parent
// keeps changing, WaitGroup-like counting with shared cells, several producers and a closer,
// select with output-irrelevant choice; random Gosched calls; closed.go: closed channels; opseq.go:
// sequences of channel operations per goroutine; forms.go: statement forms around select and range)
// are run by Scriggo under several GOMAXPROCS settings and under every context mode of exec.go (a
// context that is not cancelled must not change the run); the printed output must equal that of the same source built by gc (one
// `go run` batch per check) — the property's oracle — and the trace of the Lean source-level and
// VM-level evaluators (Model/GoStmt.lean) under pseudo-random schedules, where modelled.
func main() { hx.Main("C14", runC14) }

type c14Case struct {
	Source string `json:"source"`
	Want   string `json:"want"` // gc's output
	Procs  int    `json:"procs"`
	Mode   string `json:"mode,omitempty"` // context mode of the run (exec.go); empty: background
}

func (c c14Case) line() string {
	b, _ := json.Marshal(c)
	return "C14 case " + string(b)
}

const gcPrelude = `package main

import (
	"fmt"
	"runtime"
	"strconv"
	"strings"
	"sync"
)

type hT struct{}

func (hT) Gosched()                        { runtime.Gosched() }
func (hT) Itoa(n int) string               { return strconv.Itoa(n) }
func (hT) Send(ch chan int, x int)         { ch <- x }
func (hT) SendMul(ch chan int, a, b int)   { ch <- a * b }
func (hT) SendSum(ch chan int, xs ...int) {
	s := 0
	for _, x := range xs {
		s += x
	}
	ch <- s
}
func (hT) Produce(ch chan int, v int)     { ch <- v }
func (hT) Emit(out chan string, s string) { out <- s }
func (hT) NewBox(k int) hBox              { return hBox{K: k} }
func (hT) Twice(n int) int                { return 2 * n }
func (hT) Half(x float64) float64         { return x / 2 }
func (hT) Pair(n int) []int               { return []int{n, n + 1} }
func (hT) Sum(xs ...int) int {
	s := 0
	for _, x := range xs {
		s += x
	}
	return s
}
func (hT) EnvAdd(a, b int) int           { return a + b }
func (hT) DivMod(a, b int) (int, int)    { return a / b, a % b }
func (hT) Tag(s string, n int) string    { return s + strconv.Itoa(n) }

type hBox struct{ K int }

func (b hBox) Send(ch chan int, v int) { ch <- v + b.K }

var h hT
var cur *strings.Builder
var mu sync.Mutex

func println(a ...interface{}) { mu.Lock(); fmt.Fprintln(cur, a...); mu.Unlock() }

`

// gcBatch builds and runs every program with the gc toolchain, in one binary.
func gcBatch(progs []*program) ([]string, error) {
	dir, err := os.MkdirTemp("", "c14gc")
	if err != nil {
		return nil, err
	}
	defer os.RemoveAll(dir)
	var b strings.Builder
	b.WriteString(gcPrelude)
	for k, p := range progs {
		sfx := fmt.Sprintf("_%d", k)
		b.WriteString(p.source(sfx, "main"+sfx, false))
	}
	b.WriteString("\nfunc main() {\n")
	for k := range progs {
		fmt.Fprintf(&b, "\tcur = &strings.Builder{}\n\tmain_%d()\n\tmu.Lock()\n\tfmt.Printf(\"#%d %%q\\n\", cur.String())\n\tmu.Unlock()\n", k, k)
	}
	b.WriteString("}\n")
	if err := os.WriteFile(filepath.Join(dir, "main.go"), []byte(b.String()), 0o644); err != nil {
		return nil, err
	}
	if err := os.WriteFile(filepath.Join(dir, "go.mod"), []byte("module c14gc\n\ngo 1.21\n"), 0o644); err != nil {
		return nil, err
	}
	cmd := exec.Command("go", "run", ".")
	cmd.Dir = dir
	cmd.Env = append(os.Environ(), "GOFLAGS=-mod=mod", "GOPROXY=off", "GOWORK=off")
	out, err := cmd.CombinedOutput()
	if err != nil {
		return nil, fmt.Errorf("gc batch failed: %v\n%s", err, lastLines(string(out), 15))
	}
	res := make([]string, len(progs))
	seen := 0
	for _, l := range strings.Split(string(out), "\n") {
		var k int
		var s string
		if _, err := fmt.Sscanf(l, "#%d %q", &k, &s); err == nil && k >= 0 && k < len(res) {
			res[k] = s
			seen++
		}
	}
	if seen != len(progs) {
		return nil, fmt.Errorf("gc batch printed %d of %d results:\n%s", seen, len(progs), lastLines(string(out), 15))
	}
	return res, nil
}

func lastLines(s string, n int) string {
	ls := strings.Split(strings.TrimRight(s, "\n"), "\n")
	if len(ls) > n {
		ls = ls[len(ls)-n:]
	}
	return strings.Join(ls, "\n")
}

// predicting: the known findings to which generated programs are attributed by prediction.
var predicting = map[string]bool{"select-comm-decl-shares-select-scope": true, "labelled-break-out-of-for-select-ignores-label": true}

// hangLimit: how long a program that is predicted never to end is given.
const hangLimit = 700 * time.Millisecond

func traceText(model string) (string, string) {
	// "ok 1,2,3 done" → "1\n2\n3\n", "done"
	f := strings.Fields(model)
	if len(f) != 3 || f[0] != "ok" {
		return "", "bad:" + model
	}
	if f[1] == "-" {
		return "", f[2]
	}
	return strings.ReplaceAll(f[1], ",", "\n") + "\n", f[2]
}

func runC14(c *hx.Ctx) error {
	res := c.Res
	res.Rule = "generated concurrent programs: main composed of 1-3 shapes (pipeline with 0-2 stages, fan-in whose parent changes the passed variables after each go, WaitGroup-like counting over a channel with one shared cell per worker, several producers plus a closer goroutine and range, select over two feeders with choice-independent sum; native functions started with go / called right after / deferred), and programs whose go statements pass int, float64, string and []int arguments in every mixture from frames with 0-3 live locals of each register class, several go statements per frame, in nested calls, the caller changing the passed locals afterwards (gc is their only oracle), and programs of 1-3 closed-channel parts that use what a receive gives after close (select loops over 2-5 channels of the classes int/string/float64/[]int, several per class, fed by goroutines or prefilled, in the forms `v, ok :=`, `v :=`, `x, ok =`, `x =`, received 1-3 more times after close, with nil-channel and never-ready cases and default; scripted send/close/select sequences with one ready case whose every outcome is printed; plain receives in all statement forms; range over closed channels; send/close panics under recover with their messages; gc is their only oracle); channels unbuffered or buffered 1-3, Gosched calls at random places;, and programs of 1-3 goroutines each running a generated sequence of channel operations (send, receive in three forms, receive-ok, range until closed with nested bodies, select of 1-4 receive/send cases with or without default, close, len/cap, setting to nil) over local, goroutine-fed and nil channels, accepted by a simulator of Go's semantics (nothing blocks for ever, at most one select case is or becomes ready) with the Lean model of the same operations as second oracle (Go's reading, and the VM's reading under a Done channel with the buffer policy read off run.go), and programs of 1-3 blocks in which 1-3 go statements on a callee in one of 20 forms (declared Scriggo function, closure, literal, native direct / variadic, native or Scriggo function in a variable / slice element / map value / struct field / parameter / result of a call, native method call and method expression, builtin close) are followed, before and after the values are received, by calls in 12 forms (native with int / string / float / general / two results, variadic, with Env, Scriggo call, indirect native / Scriggo call, deferred native call) whose results are printed, and matrices of statement forms (range over channels of 13 element kinds x `:=`/`=`/no variable x 1-3 live locals of the class x 0-3 int locals; one select whose clauses declare names from a pool of two; break in select clauses: unlabelled, labelled, conditional, in for-select, next to nested for/switch breaks) whose points hit by a recorded defect are predicted from the program alone; each run by Scriggo under GOMAXPROCS 1/2/4/8 and under the four context modes {none, Background, WithCancel never cancelled, WithDeadline far ahead} — a context that is not cancelled must not change the run — and compared with gc's output of the same source and with the Lean evaluators. Non-trivial: every program; distinct by source"
	if c.Replay != "" {
		return replayC14(c)
	}
	n := c.N(480, 4000)
	var progs []*program
	// VERIF_C14_STRICT=1 (authoring time, fixes/FINDING-CLASSES.md point 3): the run consists of the
	// streams that predict known defects, and a class whose predictions come true in less than 95 %
	// of at least 12 predicted programs is a break
	strict := os.Getenv("VERIF_C14_STRICT") == "1"
	strictBias = strict
	for i := 0; i < n; i++ {
		if strict {
			if i%3 == 0 {
				progs = append(progs, genSeq(c.R))
			} else {
				progs = append(progs, genForms(c.R))
			}
			continue
		}
		switch i % 10 {
		case 9:
			if i < 1500 { // a matrix, not a space: a few hundred points cover it
				progs = append(progs, genForms(c.R))
			} else {
				progs = append(progs, genProgram(c.R))
			}
		case 4:
			progs = append(progs, genGoCallee(c.R))
		case 0, 5:
			progs = append(progs, genSeq(c.R))
		case 3, 7:
			progs = append(progs, genClosed(c.R))
		case 2, 8:
			progs = append(progs, genMixed(c.R))
		default:
			progs = append(progs, genProgram(c.R))
		}
	}
	// the minimal programs of the repaired defects: ordinary programs, in every run
	for _, k := range repairedC14 {
		progs = append(progs, &program{N: 4, M: 2, raw: k.raw, shapes: []string{k.shape, "repaired:" + k.id}})
	}
	n = len(progs)
	// the known defects ride in the same gc batch
	for _, k := range knownC14 {
		progs = append(progs, &program{N: 4, M: 2, raw: k.raw, shapes: []string{"known:" + k.id}})
	}
	want, err := gcBatch(progs)
	if err != nil {
		return err
	}
	// a known defect is ACTIVE in this run if it is listed as open and its recorded minimal program
	// still fails: only then may a generated program be attributed to it
	activeKnown := map[string]bool{}
	for j, k := range knownC14 {
		i := n + j
		src := progs[i].source("", "main", true)
		bad := ""
		mode := k.mode
		if mode == "" {
			mode = "background"
		}
		if a, err := buildProgram(src); err != nil {
			bad = "build error: " + err.Error()
		} else if k.hang {
			mode = "cancel"
			if o, ok := a.runModeT(2, mode, hangLimit); !ok {
				bad = "did not finish"
			} else if o.bad(want[i]) {
				bad = o.String()
			}
		} else if o, ok := a.runMode(2, mode); !ok || o.bad(want[i]) {
			bad = o.String()
		}
		if bad != "" {
			activeKnown[c.Known(k.id)] = true
			res.AddBreak(proto.Break{Kind: "property", Name: "output-differs-from-gc", Finding: c.Known(k.id),
				Case: c14Case{Source: src, Want: want[i], Procs: 2, Mode: mode}.line(), Human: src, Impl: bad, Model: fmt.Sprintf("gc prints %q", want[i])})
		}
	}
	delete(activeKnown, "")
	progs, want = progs[:n], want[:n]

	// the Lean evaluators: source level and VM level (main at a non-zero frame pointer), one (quick) or two (thorough) random schedules each
	var lines []string
	var owner []int
	var expect []string // what the Lean evaluator must print: gc's output, or the goroutine's line of it
	for i, p := range progs {
		if p.seq != nil {
			// one goroutine at a time: Go's reading and the VM's reading under a Done channel
			for k, g := range p.seq.gs {
				mine := ""
				for _, l := range strings.Split(want[i], "\n") {
					if t, ok := strings.CutPrefix(l, fmt.Sprintf("g%d ", k)); ok && t != "" {
						mine = strings.ReplaceAll(strings.TrimSuffix(t, ","), ",", "\n") + "\n"
					}
				}
				for _, mode := range []string{"go", "vm"} {
					lines = append(lines, g.protoLine(mode))
					owner = append(owner, i)
					expect = append(expect, mine)
				}
			}
			continue
		}
		if !p.modelled {
			continue
		}
		for _, lv := range []string{"src", "vm"} {
			for s := 0; s < c.N(1, 2); s++ {
				lines = append(lines, p.protoLine(lv, 3+i%5, 400000, c.R.U64()))
				owner = append(owner, i)
				expect = append(expect, want[i])
			}
		}
	}
	if c.D != nil && len(lines) > 0 {
		ans, err := c.D.Batch(lines)
		if err != nil {
			return err
		}
		leanBreaks := map[string]int{}
		for j, a := range ans {
			p := progs[owner[j]]
			txt, status := traceText(a)
			if status != "done" || txt != expect[j] {
				name := "lean-evaluator-vs-gc"
				if strings.HasPrefix(lines[j], "C14 seq vm ") {
					name = "lean-vm-reading-with-the-code's-buffer-policy-vs-gc"
				}
				if leanBreaks[name]++; leanBreaks[name] <= 3 {
					res.AddBreak(proto.Break{Kind: "correspondence", Name: name, Case: lines[j],
						Human: p.source("", "main", true), Impl: fmt.Sprintf("gc prints %q", want[owner[j]]), Model: a})
				}
			}
			if j%197 == 0 {
				res.Sample(map[string]string{"line": lines[j], "model": a, "gc": want[owner[j]]})
			}
		}
		res.Histogram["lean-evaluations"] = len(lines)
	}

	// Scriggo: every program under every context mode (a context that is not cancelled must not
	// change the run) and GOMAXPROCS 1/2/4/8
	var raceSample []run.Case
	failures := 0
	for i, p := range progs {
		src := p.source("", "main", true)
		cs := run.Case{Kind: "program", Files: map[string]string{"main.go": src}, AllowGo: true}
		a, err := buildProgram(src)
		res.Count(src, true)
		for _, s := range p.shapes {
			res.Hist("shape:" + s)
		}
		stoppable := len(p.shapes) > 0 && p.shapes[0] == "forms:select-break"
		pr := p.predict
		if pr != nil && !activeKnown[pr.id] {
			pr = nil // the recorded defect is gone (or not listed): nothing is attributed to it
		}
		if pr != nil {
			res.Hist("class/" + pr.id + "/predicted")
		}
		attribute := func(how string, mode string, procs int) {
			res.Hist("class/" + pr.id + "/fail-as-predicted")
			res.AddBreak(proto.Break{Kind: "property", Name: "output-differs-from-gc", Finding: pr.id,
				Case: c14Case{Source: src, Want: want[i], Procs: procs, Mode: mode}.line(), Human: src, Impl: how, Model: fmt.Sprintf("gc prints %q", want[i])})
		}
		if err != nil {
			if pr != nil && pr.effect == "build" && strings.Contains(err.Error(), pr.output) {
				attribute("build error: "+err.Error(), "", 0)
				continue
			}
			if !strings.HasPrefix(p.shapes[0], "forms:") {
				return fmt.Errorf("generated program does not build: %v\n%s", err, src)
			}
			failures++
			res.AddBreak(proto.Break{Kind: "property", Name: "valid-program-rejected", Case: c14Case{Source: src, Want: want[i]}.line(),
				Human: src, Impl: "build error: " + err.Error(), Model: fmt.Sprintf("gc builds it and prints %q", want[i])})
			continue
		}
		if pr != nil && pr.effect == "hang" {
			// predicted never to end: one short run under a context that can stop it
			if o, ok := a.runModeT(2, "cancel", hangLimit); !ok {
				attribute("did not finish", "cancel", 2)
			} else if o.bad(want[i]) {
				failures++
				res.AddBreak(proto.Break{Kind: "property", Name: "output-differs-from-gc", Case: c14Case{Source: src, Want: want[i], Procs: 2, Mode: "cancel"}.line(),
					Human: src, Impl: o.String(), Model: fmt.Sprintf("gc prints %q", want[i])})
			}
			continue
		}
		if p.seq == nil {
			if p.raw == "" {
				res.Hist(fmt.Sprintf("goroutine-functions:%02d", len(p.funcs)-1))
			}
		} else {
			res.Hist(fmt.Sprintf("opseq-goroutines:%d", len(p.seq.gs)))
		}
		if i%41 == 0 {
			res.Sample(map[string]string{"source": src, "gc": want[i]})
		}
		if len(raceSample) < c.N(0, 120) && i%3 == 0 && p.shapes[0] != "gocallee" { // the race binary has package h of props/c10/run
			rc := cs
			rc.Inputs = make([]run.Input, 3)
			rc.Procs = []int{1, 2, 4, 8}[i%4]
			raceSample = append(raceSample, rc)
		}
		for rep := 0; rep < c.N(4, 8); rep++ {
			procs := []int{1, 2, 4, 8}[(rep+i)%4]
			mode := ctxModes[(rep+i/4)%4]
			limit := 20 * time.Second
			if stoppable {
				// a break in a select clause: if it goes wrong the run never ends and spins —
				// only under contexts that can stop it, and not for long
				mode, limit = ctxModes[2+rep%2], 5*time.Second
			}
			o, ok := a.runModeT(procs, mode, limit)
			res.Hist(fmt.Sprintf("procs%d", procs))
			res.Hist("ctx:" + mode)
			bad := ""
			switch {
			case !ok:
				bad = "did not finish within 20 s"
			case o.Panic != "" || o.Err != "":
				bad = o.String()
			case o.Printed != want[i]:
				bad = fmt.Sprintf("printed %q", o.Printed)
			}
			if bad == "" {
				continue
			}
			if pr != nil && pr.effect == "output" && ok && o.Err == "" && o.Panic == "" && o.Printed == pr.output {
				attribute(bad, mode, procs)
				break
			}
			failures++
			failsAs := func(b *built, w string) (string, bool) {
				for t := 0; t < 6; t++ {
					if qo, ok := b.runMode(procs, mode); !ok || qo.bad(w) {
						return qo.String(), true
					}
				}
				return "", false
			}
			switch {
			case p.seq != nil:
				// shrink by operations; the simulator says what to expect, gc confirms at the end
				small := shrinkSeq(p.seq, func(q *seqProg) bool {
					qa, err := buildProgram(q.program().source("", "main", true))
					if err != nil {
						return false
					}
					// a step is taken only if the smaller program fails and no known defect explains
					// that (the original is explained by none)
					_, f := failsAs(qa, q.expected())
					return f
				})
				if small != p.seq {
					q := small.program()
					if cw, err := gcBatch([]*program{q}); err == nil && cw[0] == small.expected() {
						if qa, err := buildProgram(q.source("", "main", true)); err == nil {
							if how, f := failsAs(qa, cw[0]); f {
								src, bad, want[i] = q.source("", "main", true), how, cw[0]
							}
						}
					}
				}
			case len(p.segs) > 1 || len(p.alts) > 1:
				// shrink: a single shape of the program that still fails
				cands := p.alts
				for k := range p.segs {
					cands = append(cands, p.only(k))
				}
				if cw, err := gcBatch(cands); err == nil {
					for k, q := range cands {
						qs := q.source("", "main", true)
						qa, err := buildProgram(qs)
						if err != nil {
							continue
						}
						if how, f := failsAs(qa, cw[k]); f {
							src, bad, want[i] = qs, how, cw[k]
							break
						}
					}
				}
			}
			// does the program fail without a Done channel as well?
			name := "output-differs-from-gc"
			if ctxDone(mode) {
				if sa, err := buildProgram(src); err == nil {
					plainFails := false
					for t := 0; t < 6 && !plainFails; t++ {
						qo, ok := sa.runMode(procs, ctxModes[t%2])
						plainFails = !ok || qo.bad(want[i])
					}
					if !plainFails {
						name = "context-changes-uncancelled-run"
						bad += " under a context with a Done channel (" + mode + "); gc's output without one"
					}
				}
			}
			res.AddBreak(proto.Break{Kind: "property", Name: name, Case: c14Case{Source: src, Want: want[i], Procs: procs, Mode: mode}.line(),
				Human: src, Impl: bad, Model: fmt.Sprintf("gc prints %q", want[i])})
			break
		}
		if failures >= 3 {
			res.Notes = append(res.Notes, "stopped after 3 failing programs")
			break
		}
	}

	if strict {
		for _, k := range knownC14 {
			pred, came := res.Histogram["class/"+k.id+"/predicted"], res.Histogram["class/"+k.id+"/fail-as-predicted"]
			switch {
			case !activeKnown[k.id] || !predicting[k.id]:
			case pred < 12:
				res.AddBreak(proto.Break{Kind: "correspondence", Name: "finding-class-precision-unmeasured: " + k.id, Case: "C14 strict", Impl: fmt.Sprintf("%d programs predicted", pred), Model: "at least 12"})
			case came*100 < pred*95:
				res.AddBreak(proto.Break{Kind: "correspondence", Name: "finding-class-too-broad: " + k.id, Case: "C14 strict", Impl: fmt.Sprintf("%d of %d predictions came true", came, pred), Model: "at least 95 %"})
			}
		}
	}
	if len(raceSample) > 0 {
		note, races, err := raceStress(raceSample)
		if err != nil {
			res.Notes = append(res.Notes, "race-detector run skipped: "+err.Error())
		} else {
			res.Notes = append(res.Notes, note)
			res.Histogram["race-detector-cases"] = len(raceSample)
			if races != "" {
				res.AddBreak(proto.Break{Kind: "property", Name: "data-race", Case: "C14 racestress (thorough tier sample)", Human: races,
					Impl: "race detector reported a data race or a differing run", Model: "no race in the interpreter"})
			}
		}
	}
	return nil
}

// raceStress: see props/c10 (same command, built with -race).
func raceStress(cases []run.Case) (note string, races string, err error) {
	bin := filepath.Join("..", "bin", "racestress_C14")
	args := []string{"build", "-race", "-tags", "verif", "-o", bin}
	if repo := os.Getenv("VERIF_REPO"); repo != "" {
		if abs, _ := filepath.Abs(repo); abs != "/repo" {
			tag := fmt.Sprintf("%x", sha256.Sum256([]byte(abs)))[:8]
			args = append(args, "-modfile="+filepath.Join("..", "bin", "go_"+tag+".mod"))
		}
	}
	args = append(args, "./props/c10/racestress")
	cmd := exec.Command("go", args...)
	cmd.Env = append(os.Environ(), "CGO_ENABLED=1")
	if out, e := cmd.CombinedOutput(); e != nil {
		return "", "", fmt.Errorf("go build -race failed: %v: %s", e, lastLines(string(out), 5))
	}
	data, _ := json.Marshal(cases)
	rn := exec.Command(bin)
	rn.Stdin = strings.NewReader(string(data))
	rn.Env = append(os.Environ(), "GORACE=halt_on_error=0 exitcode=66")
	out, e := rn.CombinedOutput()
	text := string(out)
	if e != nil || strings.Contains(text, "DATA RACE") || strings.Contains(text, "MISMATCH") {
		return "", lastLines(text, 60), nil
	}
	return "race detector: " + strings.TrimSpace(lastLines(text, 1)), "", nil
}

func replayC14(c *hx.Ctx) error {
	data, err := os.ReadFile(c.Replay)
	if err != nil && !filepath.IsAbs(c.Replay) { // the check runs the harness in go/, the path is relative to its parent
		data, err = os.ReadFile(filepath.Join("..", c.Replay))
	}
	if err != nil {
		return err
	}
	var rp struct {
		Case string `json:"case"`
	}
	if err := json.Unmarshal(data, &rp); err != nil {
		return err
	}
	js, ok := strings.CutPrefix(rp.Case, "C14 case ")
	if !ok {
		return fmt.Errorf("replay: not a C14 case: %.80s", rp.Case)
	}
	var cs c14Case
	if err := json.Unmarshal([]byte(js), &cs); err != nil {
		return err
	}
	a, err := buildProgram(cs.Source)
	if err != nil {
		return err
	}
	if cs.Mode == "" {
		cs.Mode = "background"
	}
	for i := 0; i < 20; i++ {
		o, ok := a.runMode(cs.Procs, cs.Mode)
		c.Res.Count(cs.Source, true)
		if !ok || o.bad(cs.Want) {
			c.Res.AddBreak(proto.Break{Kind: "property", Name: "output-differs-from-gc", Case: cs.line(), Human: cs.Source, Impl: o.String(), Model: fmt.Sprintf("gc prints %q", cs.Want)})
			break
		}
	}
	return nil
}
