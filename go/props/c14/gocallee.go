package main

import (
	"fmt"
	"strings"

	"verifharness/internal/proto"
)

// ---- the callee of a go statement × what follows it in the same activation ------------------------
//
// A program of this stream has 1-3 blocks; a block is a function in which
//
//	1-3 go statements start a callee that sends a value on the block's channel — the callee in one
//	    of the forms: declared Scriggo function, closure, function literal, native function called
//	    directly, native or Scriggo function held in a variable / slice element / map value /
//	    struct field / parameter / returned by a call, method of a native type (call and method
//	    expression), native variadic function, the builtin close;
//	0-2 calls follow at once (they do not depend on the goroutines), the values are received, and
//	1-3 more calls follow — the calls in the forms: native function with an int / string / float /
//	    general result, with two results, variadic, with an Env parameter, Scriggo function,
//	    indirect call of a native and of a Scriggo function value, deferred native call;
//
// and every result is appended to the block's trace, which main prints. The callees only send
// and the followers are pure, so the output does not depend on the schedule; gc is the oracle.
// (Not generated, recorded as known finding go-method-value of C05: a method VALUE kept in a
// variable and a method of an interface value as the callee of go.)

type calleeForm struct {
	name  string
	setup string // statements before the go statements (may use k)
	call  string // the call, %s = the value sent
	param string // the block is called with this argument for its parameter pf
	sends bool   // the callee sends (value + adds) on ch
}

var calleeForms = []calleeForm{
	{name: "scriggo-declared", call: "sf@@(ch, %s)", sends: true},
	{name: "scriggo-closure", setup: "cl := func(c chan int, v int) { c <- v + k }", call: "cl(ch, %s)", sends: true},
	{name: "scriggo-literal", call: "func(c chan int, v int) { c <- v * 2 }(ch, %s)", sends: true},
	{name: "native-direct", call: "h.Produce(ch, %s)", sends: true},
	{name: "native-variadic-direct", call: "h.SendSum(ch, %s, 1, 2)", sends: true},
	{name: "native-in-variable", setup: "fv := h.Produce", call: "fv(ch, %s)", sends: true},
	{name: "scriggo-in-variable", setup: "fv := sf@@", call: "fv(ch, %s)", sends: true},
	{name: "native-in-slice-element", setup: "fs := []func(chan int, int){sf@@, h.Produce}", call: "fs[1](ch, %s)", sends: true},
	{name: "scriggo-in-slice-element", setup: "fs := []func(chan int, int){sf@@, h.Produce}", call: "fs[0](ch, %s)", sends: true},
	{name: "native-in-map-value", setup: "fm := map[string]func(chan int, int){\"s\": sf@@, \"n\": h.Produce}", call: "fm[\"n\"](ch, %s)", sends: true},
	{name: "scriggo-in-map-value", setup: "fm := map[string]func(chan int, int){\"s\": sf@@, \"n\": h.Produce}", call: "fm[\"s\"](ch, %s)", sends: true},
	{name: "native-in-struct-field", setup: "hd := holder@@{F: h.Produce}", call: "hd.F(ch, %s)", sends: true},
	{name: "scriggo-in-struct-field", setup: "hd := holder@@{F: sf@@}", call: "hd.F(ch, %s)", sends: true},
	{name: "native-in-parameter", call: "pf(ch, %s)", param: "h.Produce", sends: true},
	{name: "scriggo-in-parameter", call: "pf(ch, %s)", param: "sf@@", sends: true},
	{name: "native-result-of-call", call: "pickN@@()(ch, %s)", sends: true},
	{name: "scriggo-result-of-call", call: "pickS@@()(ch, %s)", sends: true},
	{name: "native-method-call", setup: "bx := h.NewBox(k)", call: "bx.Send(ch, %s)", sends: true},
	{name: "native-method-expression", setup: "bx := h.NewBox(k)", call: "@HBOX@.Send(bx, ch, %s)", sends: true},
	{name: "builtin-close", setup: "dn := make(chan int)", call: "close(dn)"},
}

const calleeDecls = `type holder@@ struct{ F func(chan int, int) }

func sf@@(c chan int, v int) { c <- v + 1 }

func sq@@(n int) int { return n*n + 1 }

func pickN@@() func(chan int, int) { return h.Produce }

func pickS@@() func(chan int, int) { return sf@@ }

`

type followerForm struct {
	name string
	code string // %[1]d = a number unique in the block, %[2]s = the operand
}

var followerForms = []followerForm{
	{"native-int-result", "a%[1]d := h.Twice(%[2]s)\n\ttr += h.Itoa(a%[1]d) + \",\"\n"},
	{"native-string-result", "s%[1]d := h.Tag(\"t\", %[2]s)\n\ttr += s%[1]d + \",\"\n"},
	{"native-float-result", "f%[1]d := h.Half(float64(%[2]s))\n\ttr += h.Itoa(int(f%[1]d*10)) + \",\"\n"},
	{"native-general-result", "p%[1]d := h.Pair(%[2]s)\n\ttr += h.Itoa(len(p%[1]d)) + \":\"\n\tfor _, e := range p%[1]d {\n\t\ttr += h.Itoa(e) + \",\"\n\t}\n"},
	{"native-two-results", "q%[1]d, r%[1]d := h.DivMod(%[2]s, 7)\n\ttr += h.Itoa(q%[1]d) + \"/\" + h.Itoa(r%[1]d) + \",\"\n"},
	{"native-variadic", "v%[1]d := h.Sum(%[2]s, 1, 2)\n\ttr += h.Itoa(v%[1]d) + \",\"\n"},
	{"native-with-env", "e%[1]d := h.EnvAdd(%[2]s, 5)\n\ttr += h.Itoa(e%[1]d) + \",\"\n"},
	{"scriggo-call", "y%[1]d := sq@@(%[2]s)\n\ttr += h.Itoa(y%[1]d) + \",\"\n"},
	{"indirect-native-call", "iv%[1]d := h.Twice\n\tz%[1]d := iv%[1]d(%[2]s)\n\ttr += h.Itoa(z%[1]d) + \",\"\n"},
	{"indirect-scriggo-call", "is%[1]d := sq@@\n\tw%[1]d := is%[1]d(%[2]s)\n\ttr += h.Itoa(w%[1]d) + \",\"\n"},
	{"deferred-native-call", "defer h.Send(dch, %[2]s)\n"},
	{"native-string-result-in-expression", "tr += h.Itoa(%[2]s) + \",\"\n"},
}

func genGoCallee(r *proto.Rand) *program {
	nblk := 1 + r.Intn(3)
	var blocks, calls []string
	var blockShapes [][]string
	for n := 0; n < nblk; n++ {
		var b strings.Builder
		var shapes []string
		cf := calleeForms[r.Intn(len(calleeForms))]
		ngo := 1 + r.Intn(3)
		if !cf.sends {
			ngo = 1 // close: once
		}
		k := 1 + r.Intn(9)
		fmt.Fprintf(&b, "func blk%d@@(pf func(chan int, int), dch chan int) string {\n\ttr := \"\"\n\tk := %d\n\t_, _ = pf, k\n", n, k)
		fmt.Fprintf(&b, "\tch := make(chan int%s)\n\t_ = ch\n", []string{"", ", 1", ", 3"}[r.Intn(3)])
		if cf.setup != "" {
			fmt.Fprintf(&b, "\t%s\n", cf.setup)
		}
		inLoop := ngo > 1 && r.Intn(2) == 0
		first := 10 + r.Intn(50)
		callWith := func(v string) string {
			if strings.Contains(cf.call, "%s") {
				return fmt.Sprintf(cf.call, v)
			}
			return cf.call
		}
		if inLoop {
			fmt.Fprintf(&b, "\tfor i := 0; i < %d; i++ {\n\t\tgo %s\n\t}\n", ngo, callWith(fmt.Sprintf("%d+i", first)))
		} else {
			for j := 0; j < ngo; j++ {
				fmt.Fprintf(&b, "\tgo %s\n", callWith(fmt.Sprint(first+j)))
			}
		}
		cnt := 0
		follow := func(operand string) {
			cnt++
			ff := followerForms[r.Intn(len(followerForms))]
			b.WriteString("\t" + fmt.Sprintf(ff.code, cnt, operand))
			shapes = append(shapes, "gocallee:then:"+ff.name)
		}
		for j := r.Intn(3); j > 0; j-- {
			follow("k")
		}
		if cf.sends {
			fmt.Fprintf(&b, "\tx := 0\n\tfor i := 0; i < %d; i++ {\n\t\tx += <-ch\n\t}\n", ngo)
		} else {
			b.WriteString("\t<-dn\n\tx := k + 3\n")
		}
		b.WriteString("\ttr += h.Itoa(x) + \";\"\n")
		for j := 1 + r.Intn(3); j > 0; j-- {
			follow("x")
		}
		b.WriteString("\treturn tr\n}\n\n")
		param := cf.param
		if param == "" {
			param = "nil"
		}
		calls = append(calls, fmt.Sprintf("\tprintln(\"blk%d\", blk%d@@(%s, dch))\n", n, n, param))
		shapes = append(shapes, "gocallee:go:"+cf.name)
		blocks = append(blocks, b.String())
		blockShapes = append(blockShapes, shapes)
	}
	mk := func(idx []int) *program {
		var b strings.Builder
		b.WriteString(calleeDecls)
		// one histogram entry per distinct shape
		seen := map[string]bool{}
		uniq := []string{"gocallee"}
		for _, n := range idx {
			b.WriteString(blocks[n])
			for _, s := range blockShapes[n] {
				if !seen[s] {
					seen[s] = true
					uniq = append(uniq, s)
				}
			}
		}
		b.WriteString("func @MAIN@() {\n\tdch := make(chan int, 16)\n")
		for _, n := range idx {
			b.WriteString(calls[n])
		}
		b.WriteString("\tclose(dch)\n\tfor v := range dch {\n\t\tprintln(\"deferred\", v)\n\t}\n}\n")
		return &program{N: 4, M: 2, raw: b.String(), shapes: uniq}
	}
	all := make([]int, nblk)
	for n := range all {
		all[n] = n
	}
	p := mk(all)
	if nblk > 1 {
		for n := 0; n < nblk; n++ {
			p.alts = append(p.alts, mk([]int{n})) // for shrinking: one program per block
		}
	}
	return p
}
