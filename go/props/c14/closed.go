package main

import (
	"fmt"
	"strings"

	"verifharness/internal/proto"
)

// ---- closed channels ------------------------------------------------------------------------
//
// Programs (Go source, gc is their only oracle) that USE what a receive gives after the channel
// was closed: the zero value and ok == false. Every program is deterministic whatever the
// scheduler and whatever case a select picks among the ready ones: values are accumulated per
// channel, every select loop makes a number of iterations that is fixed by construction, and
// where the result of every single select is printed at most one case is ready at a time.
//
//	select-loop        2-5 receive cases over channels of the classes int, string, float64, []int
//	                   (several of one class: the VM keeps one value register per class for all
//	                   receive cases of a select), fed by goroutines that close them or filled and
//	                   closed beforehand; forms `v, ok := <-c`, `v := <-c`, `x, ok = <-c`, `x = <-c`;
//	                   after a channel is closed it is received from E more times (zero values,
//	                   ok == false) before it is set to nil; optional nil-channel receive and send
//	                   cases and a receive case on an open channel nobody sends on; with
//	                   prefilled channels optionally a default case and a fixed iteration count
//	select-script      one goroutine, two or three channels of one class, a scripted sequence of
//	                   send / close / select{recv…, default} in which at most one case is ready:
//	                   the outcome of every select is printed (value, ok or "default")
//	plain-recv         receives from a filled-and-closed channel in all statement forms
//	range              range over a closed channel with leftovers, again over the drained one,
//	                   `for range`, a receive after the loop; producer goroutine that closes
//	panics             send on a closed channel, close of a closed and of a nil channel under
//	                   recover; select with a send case on a closed channel (with and without
//	                   default, next to a nil-channel case) under recover in the SAME goroutine —
//	                   the goroutine goes on with further channel operations in the VM whose
//	                   reflect.Select panicked — or in a goroutine of its own whose deferred
//	                   function sends the message; the messages are printed
//
// Shapes that once were stepped around and are generated since the defects were repaired: names
// declared again by a later select of the same function (select-script draws the names of its
// cases from one pool per channel), `for v := range ch` over channels of every class, a panic of
// reflect.Select (select with a send case, or — under a context with a Done channel — a plain
// send, on a closed channel) recovered in the goroutine that goes on, under all four context
// modes. Still open (replayed on every check, see knownC14): a short variable declaration in a
// select case is declared in the scope of the whole select — every case of ONE select uses names of
// its own here; forms.go predicts what happens when they do not.

type chClass struct {
	name, typ string
	val       func(i, k int) string // the i-th value sent, never the zero value
	isZero    string                // %s is zero
	acc       string                // accumulate %[2]s (a value) into the channel's accumulator acc%[1]d / accs%[1]d
	accDecl   string
	accShow   string
	render    string // %s as a string
}

var chClasses = []chClass{
	{"int", "int", func(i, k int) string { return fmt.Sprint(1 + i*7 + k) }, "%s == 0",
		"acc%[1]d += %[2]s", "acc%[1]d := 0", "h.Itoa(acc%[1]d)", "h.Itoa(%s)"},
	{"string", "string", func(i, k int) string { return fmt.Sprintf("%q", fmt.Sprintf("%s%d", words14[k%len(words14)], i)) }, "%s == \"\"",
		"accs%[1]d += %[2]s + \"|\"", "accs%[1]d := \"\"", "accs%[1]d", "\"[\" + %s + \"]\""},
	{"float", "float64", func(i, k int) string { return fmt.Sprintf("%d.25", 1+i+k%5) }, "%s == 0",
		"acc%[1]d += int(%[2]s * 4)", "acc%[1]d := 0", "h.Itoa(acc%[1]d)", "h.Itoa(int(%s * 4))"},
	{"general", "[]int", func(i, k int) string { return fmt.Sprintf("[]int{%d, %d}", 1+i+k, i) }, "%s == nil",
		"acc%[1]d += sl@@(%[2]s)", "acc%[1]d := \"\"", "acc%[1]d", "sl@@(%s)"},
}

func init() {
	// []int accumulates a string
	chClasses[3].acc = "acc%[1]d += sl@@(%[2]s) + \"|\""
}

const closedHelpers = `func b2s@@(b bool) string {
	if b {
		return "T"
	}
	return "F"
}

func sl@@(x []int) string {
	if x == nil {
		return "nil"
	}
	return h.Itoa(len(x)) + ":" + h.Itoa(x[0])
}

func msg@@(e interface{}) string {
	if e == nil {
		return "no panic"
	}
	if err, ok := e.(error); ok {
		return "panic: " + err.Error()
	}
	return "panic with a value that is not an error"
}

func try@@(name string, f func()) {
	defer func() {
		println(name, msg@@(recover()))
	}()
	f()
}

`

// perm is a random permutation of 0..n-1.
func perm(r *proto.Rand, n int) []int {
	p := make([]int, n)
	for i := range p {
		j := r.Intn(i + 1)
		p[i] = p[j]
		p[j] = i
	}
	return p
}

type closedGen struct {
	r *proto.Rand
	b strings.Builder
}

func (g *closedGen) f(format string, a ...any) { fmt.Fprintf(&g.b, format, a...) }

// selectLoop: see the head of the file.
func (g *closedGen) selectLoop(name string, prefill bool) {
	r := g.r
	nch := 2 + r.Intn(4)
	type ch struct {
		cls    chClass
		m      int  // values sent
		closed bool // closed after them
		extra  int  // receives after close before it is set to nil
		form   int  // 0 `v, ok :=`  1 `v :=`  2 `x, ok =`  3 `x =`
		cap    int
	}
	var chs []ch
	first := r.Intn(4)
	for j := 0; j < nch; j++ {
		c := ch{cls: chClasses[r.Intn(4)], m: r.Intn(4), closed: r.Intn(5) > 0, extra: 1 + r.Intn(3), form: r.Intn(4), cap: r.Intn(4)}
		if j == 1 || (j == 2 && r.Intn(2) == 0) { // several channels of one class
			c.cls = chs[0].cls
		}
		if j == 0 {
			c.cls, c.closed = chClasses[first], true
			c.m = 1 + r.Intn(3)
		}
		if !c.closed && c.m == 0 {
			c.m = 1
		}
		if prefill && c.cap < c.m {
			c.cap = c.m
		}
		chs = append(chs, c)
	}
	withDefault := prefill && r.Intn(2) == 0
	nilRecv, nilSend, emptyRecv := r.Intn(3) == 0, r.Intn(3) == 0, r.Intn(3) == 0
	g.f("func %s@@() {\n", name)
	total := 0
	for j, c := range chs {
		if c.cap == 0 {
			g.f("\tc%d := make(chan %s)\n", j, c.cls.typ)
		} else {
			g.f("\tc%d := make(chan %s, %d)\n", j, c.cls.typ, c.cap)
		}
		total += c.m
		if c.closed {
			total += c.extra
		}
	}
	k := r.Intn(40)
	for j, c := range chs {
		if prefill {
			for i := 0; i < c.m; i++ {
				g.f("\tc%d <- %s\n", j, c.cls.val(i, k+j))
			}
			if c.closed {
				g.f("\tclose(c%d)\n", j)
			}
			continue
		}
		g.f("\tgo func() {\n")
		for i := 0; i < c.m; i++ {
			g.f("\t\tc%d <- %s\n", j, c.cls.val(i, k+j))
			if r.Intn(4) == 0 {
				g.f("\t\th.Gosched()\n")
			}
		}
		if c.closed {
			g.f("\t\tclose(c%d)\n", j)
		}
		g.f("\t}()\n")
	}
	if nilRecv {
		g.f("\tvar nr chan %s\n", chs[0].cls.typ)
	}
	if nilSend {
		g.f("\tvar ns chan int\n")
	}
	if emptyRecv {
		g.f("\tem := make(chan %s)\n", chs[len(chs)-1].cls.typ)
	}
	for j, c := range chs {
		g.f("\t"+c.cls.accDecl+"\n", j)
		g.f("\tn%d, z%d := 0, 0\n", j, j)
		if c.form >= 2 {
			g.f("\tvar x%d %s = %s\n\tok%d := true\n\t_, _ = x%d, ok%d\n", j, c.cls.typ, c.cls.val(9, k), j, j, j)
		}
	}
	g.f("\tlive, dflt, bad := %d, 0, 0\n", nch)
	if withDefault {
		extra := 1 + r.Intn(3)
		g.f("\tfor it := 0; it < %d; it++ {\n", total+extra)
	} else {
		g.f("\tfor it := 0; live > 0 && it < %d; it++ {\n", total+3)
	}
	g.f("\t\tselect {\n")
	order := perm(r, nch)
	for _, j := range order {
		c := chs[j]
		v := fmt.Sprintf("v%d", j)
		okv := fmt.Sprintf("k%d", j)
		switch c.form {
		case 0:
			g.f("\t\tcase %s, %s := <-c%d:\n", v, okv, j)
		case 1:
			g.f("\t\tcase %s := <-c%d:\n", v, j)
		case 2:
			v, okv = fmt.Sprintf("x%d", j), fmt.Sprintf("ok%d", j)
			g.f("\t\tcase %s, %s = <-c%d:\n", v, okv, j)
		case 3:
			v = fmt.Sprintf("x%d", j)
			g.f("\t\tcase %s = <-c%d:\n", v, j)
		}
		if c.form == 0 || c.form == 2 {
			g.f("\t\t\t_ = %s\n", okv)
		}
		g.f("\t\t\t"+c.cls.acc+"\n", j, v)
		g.f("\t\t\tn%d++\n", j)
		switch {
		case !c.closed: // stays open: done after its m values
			g.f("\t\t\tif n%d == %d {\n\t\t\t\tc%d = nil\n\t\t\t\tlive--\n\t\t\t}\n", j, c.m, j)
		case c.form == 0 || c.form == 2:
			g.f("\t\t\tif !%s {\n\t\t\t\tz%d++\n\t\t\t\tif z%d == %d {\n\t\t\t\t\tc%d = nil\n\t\t\t\t\tlive--\n\t\t\t\t}\n\t\t\t}\n", okv, j, j, c.extra, j)
		default: // closed shows as the zero value (no sent value is zero)
			g.f("\t\t\tif "+c.cls.isZero+" {\n\t\t\t\tz%d++\n\t\t\t\tif z%d == %d {\n\t\t\t\t\tc%d = nil\n\t\t\t\t\tlive--\n\t\t\t\t}\n\t\t\t}\n", v, j, j, c.extra, j)
		}
	}
	if nilRecv {
		g.f("\t\tcase vn := <-nr:\n\t\t\t_ = vn\n\t\t\tbad++\n")
	}
	if nilSend {
		g.f("\t\tcase ns <- 1:\n\t\t\tbad++\n")
	}
	if emptyRecv {
		g.f("\t\tcase ve, ke := <-em:\n\t\t\t_, _ = ve, ke\n\t\t\tbad += 100\n")
	}
	if withDefault {
		g.f("\t\tdefault:\n\t\t\tdflt++\n")
	}
	g.f("\t\t}\n\t}\n")
	for j, c := range chs {
		g.f("\tprintln(\"%s c%d\", %s, n%d, z%d)\n", name, j, fmt.Sprintf(c.cls.accShow, j), j, j)
	}
	g.f("\tprintln(\"%s end\", live, dflt, bad)\n}\n\n", name)
}

// selectScript: see the head of the file.
func (g *closedGen) selectScript(name string) {
	r := g.r
	cls := chClasses[r.Intn(4)]
	nch := 2 + r.Intn(2)
	g.f("func %s@@() {\n", name)
	caps := make([]int, nch)
	buf := make([]int, nch)
	closed := make([]bool, nch)
	isNil := make([]bool, nch)
	for j := range caps {
		caps[j] = 1 + r.Intn(3)
		g.f("\tc%d := make(chan %s, %d)\n", j, cls.typ, caps[j])
	}
	withDefault := r.Intn(3) > 0
	forms := make([]int, nch)
	for j := range forms {
		forms[j] = r.Intn(4)
		if forms[j] >= 2 {
			g.f("\tvar x%d %s = %s\n\tok%d := true\n\t_, _ = x%d, ok%d\n", j, cls.typ, cls.val(8, j), j, j, j)
		}
	}
	nsel := 0
	// the names the cases declare: per channel, the same in every select statement of the function
	// (a later select declares again what an earlier one declared), or new ones in every select
	sameNames := r.Intn(3) > 0
	sel := func() {
		nsel++
		g.f("\tselect {\n")
		for _, j := range perm(r, nch) {
			v, k := fmt.Sprintf("v%dn%d", j, nsel), fmt.Sprintf("k%dn%d", j, nsel)
			if sameNames {
				v, k = fmt.Sprintf("v%d", j), fmt.Sprintf("k%d", j)
			}
			switch forms[j] {
			case 0:
				g.f("\tcase %s, %s := <-c%d:\n\t\tprintln(\"%s c%d\", "+cls.render+", b2s@@(%s))\n", v, k, j, name, j, v, k)
			case 1:
				g.f("\tcase %s := <-c%d:\n\t\tprintln(\"%s c%d\", "+cls.render+")\n", v, j, name, j, v)
			case 2:
				g.f("\tcase x%d, ok%d = <-c%d:\n\t\tprintln(\"%s c%d\", "+cls.render+", b2s@@(ok%d))\n", j, j, j, name, j, fmt.Sprintf("x%d", j), j)
			case 3:
				g.f("\tcase x%d = <-c%d:\n\t\tprintln(\"%s c%d\", "+cls.render+")\n", j, j, name, j, fmt.Sprintf("x%d", j))
			}
		}
		if withDefault {
			g.f("\tdefault:\n\t\tprintln(\"%s default\")\n", name)
		}
		g.f("\t}\n")
	}
	ready := func() (n, which int) {
		for j := range buf {
			if !isNil[j] && (buf[j] > 0 || closed[j]) {
				n++
				which = j
			}
		}
		return
	}
	sent := 0
	selects := 0
	for step := 0; step < 40 && selects < 6+r.Intn(6); step++ {
		nr, which := ready()
		switch x := r.Intn(10); {
		case x < 3 && nr == 0: // send: only while nothing is ready, so that one case is ready afterwards
			j := r.Intn(nch)
			if isNil[j] || closed[j] {
				continue
			}
			g.f("\tc%d <- %s\n", j, cls.val(sent, 3*j))
			sent++
			buf[j]++
		case x < 5 && nr <= 1: // close: the channel that is ready already, or any when none is
			j := which
			if nr == 0 {
				j = r.Intn(nch)
			}
			if isNil[j] || closed[j] {
				continue
			}
			g.f("\tclose(c%d)\n", j)
			closed[j] = true
		case x < 6 && nr == 1 && closed[which] && buf[which] == 0: // retire a closed, drained channel
			g.f("\tc%d = nil\n", which)
			isNil[which] = true
		default:
			if nr == 0 && !withDefault {
				continue // would block for ever
			}
			sel()
			selects++
			if nr == 1 && buf[which] > 0 {
				buf[which]--
			}
		}
	}
	g.f("}\n\n")
}

// plainRecv: see the head of the file.
func (g *closedGen) plainRecv(name string) {
	r := g.r
	cls := chClasses[r.Intn(4)]
	k := r.Intn(30)
	m := r.Intn(3)
	g.f("func %s@@() {\n\tc := make(chan %s, 3)\n", name, cls.typ)
	for i := 0; i < m; i++ {
		g.f("\tc <- %s\n", cls.val(i, k))
	}
	g.f("\tclose(c)\n")
	var shown []string
	show := func(v string) { shown = append(shown, fmt.Sprintf(cls.render, v)) }
	n := 0
	for i, cnt := 0, 3+r.Intn(5); i < cnt; i++ {
		n++
		v, ok := fmt.Sprintf("r%d", n), fmt.Sprintf("o%d", n)
		switch r.Intn(5) {
		case 0:
			g.f("\t%s := <-c\n", v)
			show(v)
		case 1:
			g.f("\t%s, %s := <-c\n", v, ok)
			show(v)
			shown = append(shown, "b2s@@("+ok+")")
		case 2:
			g.f("\t%s := %s\n\t%s = <-c\n", v, cls.val(5+i, k), v)
			show(v)
		case 3:
			g.f("\tvar %s %s = %s\n\t%s := true\n\t%s, %s = <-c\n", v, cls.typ, cls.val(6+i, k), ok, v, ok)
			show(v)
			shown = append(shown, "b2s@@("+ok+")")
		case 4:
			shown = append(shown, fmt.Sprintf(cls.render, "<-c"))
		}
	}
	g.f("\tprintln(\"%s\", %s)\n}\n\n", name, strings.Join(shown, ", "))
}

// rangeClosed: see the head of the file.
func (g *closedGen) rangeClosed(name string) {
	r := g.r
	cls := chClasses[r.Intn(4)]
	k := r.Intn(30)
	m := r.Intn(4)
	conc := r.Intn(2) == 0
	g.f("func %s@@() {\n", name)
	if conc {
		g.f("\tc := make(chan %s, %d)\n\tgo func() {\n", cls.typ, r.Intn(3))
		for i := 0; i < m; i++ {
			g.f("\t\tc <- %s\n", cls.val(i, k))
		}
		g.f("\t\tclose(c)\n\t}()\n")
	} else {
		g.f("\tc := make(chan %s, 4)\n", cls.typ)
		for i := 0; i < m; i++ {
			g.f("\tc <- %s\n", cls.val(i, k))
		}
		g.f("\tclose(c)\n")
	}
	g.f("\t"+cls.accDecl+"\n\tcnt := 0\n", 0)
	if r.Intn(2) == 0 {
		g.f("\tfor v := range c {\n\t\t"+cls.acc+"\n\t\tcnt++\n\t}\n", 0, "v")
		g.f("\tvar v %s = %s\n", cls.typ, cls.val(7, k))
	} else {
		g.f("\tvar v %s = %s\n", cls.typ, cls.val(7, k))
		g.f("\tfor v = range c {\n\t\t"+cls.acc+"\n\t\tcnt++\n\t}\n", 0, "v")
	}
	g.f("\tfor v = range c {\n\t\tcnt += 100\n\t}\n")
	g.f("\tfor range c {\n\t\tcnt += 1000\n\t}\n")
	g.f("\tlast, ok := <-c\n\tv = <-c\n")
	g.f("\tprintln(\"%s\", %s, cnt, %s, b2s@@(ok), %s)\n}\n\n", name, fmt.Sprintf(cls.accShow, 0), fmt.Sprintf(cls.render, "last"), fmt.Sprintf(cls.render, "v"))
}

// panics: see the head of the file.
func (g *closedGen) panics(name string) {
	r := g.r
	cls := chClasses[r.Intn(4)]
	k := r.Intn(30)
	g.f("func %s@@() {\n\tc := make(chan %s, %d)\n\tclose(c)\n\tvar n chan %s\n\t_ = n\n\to := make(chan int, 1)\n\t_ = o\n", name, cls.typ, r.Intn(3), cls.typ)
	for _, x := range perm(r, 5)[:2+r.Intn(4)] {
		switch x {
		case 0:
			g.f("\ttry@@(\"%s send\", func() { c <- %s })\n", name, cls.val(0, k))
		case 1:
			g.f("\ttry@@(\"%s close-closed\", func() { close(c) })\n", name)
		case 2:
			g.f("\ttry@@(\"%s close-nil\", func() { close(n) })\n", name)
		case 3:
			g.f("\ttry@@(\"%s recv-closed\", func() { v, ok := <-c; println("+cls.render+", b2s@@(ok)) })\n", name, "v")
		case 4:
			// a select with a send case on the closed channel: reflect.Select panics
			var sel strings.Builder
			fmt.Fprintf(&sel, "select {\n\t\t\tcase c <- %s:\n\t\t\t\tprintln(\"sent\")\n", cls.val(1, k))
			if r.Intn(2) == 0 {
				sel.WriteString("\t\t\tcase vn := <-n:\n\t\t\t\t_ = vn\n\t\t\t\tprintln(\"nil channel received\")\n")
			}
			if r.Intn(2) == 0 {
				sel.WriteString("\t\t\tdefault:\n\t\t\t\tprintln(\"default\")\n")
			}
			sel.WriteString("\t\t\t}\n")
			if r.Intn(3) > 0 {
				// recovered in this goroutine, which goes on: the operations that follow meet the
				// VM whose reflect.Select panicked
				g.f("\ttry@@(\"%s select-send\", func() {\n\t\t\t%s\t})\n", name, sel.String())
			} else {
				// in a goroutine of its own, whose deferred function sends the message
				g.f("\t{\n\t\tres := make(chan string)\n\t\tgo func() {\n\t\t\tdefer func() { res <- msg@@(recover()) }()\n\t\t\t%s\t\t}()\n\t\tprintln(\"%s select-send\", <-res)\n\t}\n", sel.String(), name)
			}
		}
		// after every step: a channel operation of this goroutine that is ready in one way only
		switch r.Intn(4) {
		case 0:
			g.f("\tselect {\n\tcase w%d := <-o:\n\t\tprintln(\"%s other\", w%d)\n\tdefault:\n\t\tprintln(\"%s other default\")\n\t}\n", x, name, x, name)
		case 1:
			g.f("\to <- %d\n\tprintln(\"%s other\", <-o)\n", 40+x, name)
		}
	}
	g.f("\tlast, ok := <-c\n\tprintln(\"%s\", "+cls.render+", b2s@@(ok))\n}\n\n", name, "last")
}

// genClosed generates a program of 1-3 closed-channel segments (alts: one program per segment,
// for shrinking).
func genClosed(r *proto.Rand) *program {
	n := 1 + r.Intn(3)
	var segs, names, shapes []string
	for i := 0; i < n; i++ {
		g := &closedGen{r: r}
		name := fmt.Sprintf("seg%d", i)
		switch x := r.Intn(12); {
		case x < 3:
			g.selectLoop(name, false)
			shapes = append(shapes, "closed:select-loop-fed-by-goroutines")
		case x < 5:
			g.selectLoop(name, true)
			shapes = append(shapes, "closed:select-loop-prefilled")
		case x < 8:
			g.selectScript(name)
			shapes = append(shapes, "closed:select-script-one-ready-case")
		case x < 9:
			g.plainRecv(name)
			shapes = append(shapes, "closed:plain-receives")
		case x < 10:
			g.rangeClosed(name)
			shapes = append(shapes, "closed:range")
		default:
			g.panics(name)
			shapes = append(shapes, "closed:panics-under-recover")
		}
		segs = append(segs, g.b.String())
		names = append(names, name)
	}
	mk := func(idx []int) string {
		var b strings.Builder
		b.WriteString(closedHelpers)
		for _, i := range idx {
			b.WriteString(segs[i])
		}
		b.WriteString("func @MAIN@() {\n")
		for _, i := range idx {
			fmt.Fprintf(&b, "\t%s@@()\n", names[i])
		}
		b.WriteString("}\n")
		return b.String()
	}
	all := make([]int, n)
	for i := range all {
		all[i] = i
	}
	p := &program{N: 4, M: 2, raw: mk(all), shapes: shapes}
	if n > 1 {
		for i := 0; i < n; i++ {
			p.alts = append(p.alts, &program{N: 4, M: 2, raw: mk([]int{i}), shapes: []string{shapes[i]}})
		}
	}
	return p
}

// ---- known defects of the tree that are still open, replayed on every check --------------------------------

// knownProg is a known defect: raw is a program in the raw form of program.raw (gc's output of it
// comes from the same gc batch as everything else).
type knownProg struct {
	id, raw string
	mode    string // context mode of the replay; empty: background
	hang    bool   // the defect: the program never ends (run under a cancellable context for a short time)
}

var knownC14 = []knownProg{
	// a short variable declaration in a select case is declared in the scope of the whole select
	// statement instead of the case clause: two cases cannot declare the same name
	{id: "select-comm-decl-shares-select-scope",
		raw: "func @MAIN@() {\n\ta := make(chan int, 1)\n\tb := make(chan int, 1)\n\ta <- 1\n\tselect {\n\tcase v := <-a:\n\t\tprintln(\"a\", v)\n\tcase v := <-b:\n\t\tprintln(\"b\", v)\n\t}\n}\n"},
	// the label of a labelled break is ignored: `break L` out of the for that encloses a select
	// leaves (at best) the select only — the for-select loop never ends
	{id: "labelled-break-out-of-for-select-ignores-label", hang: true,
		raw: "func @MAIN@() {\n\ta := make(chan int, 1)\n\ta <- 1\n\tn := 0\nL:\n\tfor {\n\t\tselect {\n\t\tcase v := <-a:\n\t\t\tn += v\n\t\t\tbreak L\n\t\t}\n\t}\n\tprintln(\"out\", n)\n}\n"},
}

// repairedC14: the minimal programs of defects that were recorded and have been repaired in the
// tree (fixes/COMMITS-2.md). Nothing is attributed to them: they are ordinary programs of every run
// (under GOMAXPROCS 1/2/4/8 and all four context modes) and must behave as under gc — a fixed
// matrix next to the generators, which draw the same shapes at random. shape: the stream whose
// treatment the program gets (forms:select-break runs only under contexts that can stop it).
var repairedC14 = []struct{ id, shape, raw string }{
	{"recovered-select-panic-leaves-stale-cases", "closed:panics-under-recover",
		"func @MAIN@() {\n\tc := make(chan int)\n\tclose(c)\n\tfunc() {\n\t\tdefer func() { recover() }()\n\t\tselect {\n\t\tcase c <- 1:\n\t\t}\n\t}()\n\td := make(chan int, 1)\n\tselect {\n\tcase v := <-d:\n\t\tprintln(v)\n\tdefault:\n\t\tprintln(\"default\")\n\t}\n}\n"},
	{"recovered-send-panic-leaves-stale-cases-under-done-context", "closed:panics-under-recover",
		"func @MAIN@() {\n\tc := make(chan int)\n\tclose(c)\n\tfunc() {\n\t\tdefer func() { recover() }()\n\t\tc <- 1\n\t}()\n\td := make(chan int, 1)\n\tselect {\n\tcase v := <-d:\n\t\tprintln(v)\n\tdefault:\n\t\tprintln(\"default\")\n\t}\n}\n"},
	{"range-chan-declared-var-int-register", "closed:range",
		"func @MAIN@() {\n\ta := \"keep\"\n\tc := make(chan string, 1)\n\tc <- \"clobber\"\n\tclose(c)\n\tfor s := range c {\n\t\t_ = s\n\t}\n\tprintln(a)\n}\n"},
	{"select-send-cases-share-value-register", "closed:select-script-one-ready-case",
		"func @MAIN@() {\n\ta := make(chan int, 1)\n\tvar b chan int\n\tselect {\n\tcase a <- 1:\n\tcase b <- 2:\n\t}\n\tprintln(<-a)\n}\n"},
	{"break-in-select-clause-never-lands", "forms:select-break",
		"func @MAIN@() {\n\ta := make(chan int, 1)\n\ta <- 1\n\tselect {\n\tcase v := <-a:\n\t\tif v == 1 {\n\t\t\tbreak\n\t\t}\n\t\tprintln(\"not reached\")\n\t}\n\tprintln(\"end\")\n}\n"},
	{"select-case-var-reuses-released-register", "closed:select-script-one-ready-case",
		"func id@@(x string) string { return x }\n\nfunc @MAIN@() {\n\ta := make(chan string, 2)\n\ta <- \"one\"\n\ta <- \"two\"\n\tselect {\n\tcase v := <-a:\n\t\tprintln(id@@(\"x\") + v)\n\t}\n\tselect {\n\tcase v := <-a:\n\t\tprintln(id@@(\"y\") + v)\n\t}\n}\n"},
}
