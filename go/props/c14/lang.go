package main

import (
	"fmt"
	"strings"

	"verifharness/internal/proto"
)

// The mini language of Model/GoStmt.lean: generated once, rendered as protocol tokens for the
// Lean evaluators and as Go source for Scriggo and gc.

type expr struct {
	op   byte // 'l' literal, 'v' local, '+', '*'
	n    int
	a, b *expr
}

func lit(n int) *expr      { return &expr{op: 'l', n: n} }
func loc(i int) *expr      { return &expr{op: 'v', n: i} }
func add(a, b *expr) *expr { return &expr{op: '+', a: a, b: b} }
func mul(a, b *expr) *expr { return &expr{op: '*', a: a, b: b} }
func (e *expr) toks() string {
	switch e.op {
	case 'l':
		return fmt.Sprintf("l:%d", e.n)
	case 'v':
		return fmt.Sprintf("v:%d", e.n)
	}
	return string(e.op) + ":" + e.a.toks() + ":" + e.b.toks()
}
func (e *expr) src() string {
	switch e.op {
	case 'l':
		if e.n < 0 {
			return fmt.Sprintf("(%d)", e.n)
		}
		return fmt.Sprint(e.n)
	case 'v':
		return fmt.Sprintf("r%d", e.n)
	}
	return "(" + e.a.src() + " " + string(e.op) + " " + e.b.src() + ")"
}

type stmt struct {
	op   byte // A L T S R C P G O Y N F, and 'X' = select-sum (Go only, not modelled in Lean)
	x, y int
	e    *expr
	body []stmt
	n    int
	nat  string // for 'S': the native function that performs the send (h.Send, h.SendMul, h.SendSum)
	e2   *expr  // second operand of SendMul / SendSum
}

// value sent by a (possibly native) send statement, as the model sees it
func (s stmt) sent() *expr {
	switch s.nat {
	case "SendMul":
		return mul(s.e, s.e2)
	case "SendSum":
		return add(s.e, s.e2)
	}
	return s.e
}

// wrapper describes a function of the model that stands for a native function started with go:
// `go f(a, b)` is rendered `go h.<name>(ch, a, b)`.
type wrapper struct {
	name string
	ch   int
}

func toks(ss []stmt) string {
	parts := []string{fmt.Sprint(len(ss))}
	for _, s := range ss {
		switch s.op {
		case 'S':
			parts = append(parts, "S", fmt.Sprint(s.x), s.sent().toks())
		case 'A', 'T':
			parts = append(parts, string(s.op), fmt.Sprint(s.x), s.e.toks())
		case 'L', 'R':
			parts = append(parts, string(s.op), fmt.Sprint(s.x), fmt.Sprint(s.y))
		case 'C', 'O':
			parts = append(parts, string(s.op), fmt.Sprint(s.x))
		case 'P', 'G':
			parts = append(parts, string(s.op), s.e.toks())
		case 'Y':
			parts = append(parts, "Y")
		case 'N':
			parts = append(parts, "N", fmt.Sprint(s.n), toks(s.body))
		case 'F':
			parts = append(parts, "F", fmt.Sprint(s.x), fmt.Sprint(s.y), toks(s.body))
		}
	}
	return strings.Join(parts, ":")
}

type program struct {
	N, M                   int
	funcs                  [][]stmt // funcs[0] is main
	nparams                []int
	caps                   []int
	cells                  int
	shapes                 []string
	wrappers               map[int]wrapper // function index → native function it stands for
	deferred               map[int][]stmt  // function index → native sends deferred at its start (run in this order at its end)
	segs                   [][]stmt        // the statements of main, one segment per shape
	modelled               bool
	alts                   []*program  // raw programs of several independent parts: one program per part (for shrinking)
	raw                    string      // a program outside the mini language: Go source with @@ after every package-level name and @MAIN@ for main
	seq                    *seqProg    // a program of the operation-sequence stream (opseq.go): Model/ChanSeq.lean is its second oracle
	predict                *prediction // what a recorded defect of the frozen tree makes of this program (forms.go); nil: it must behave as under gc
}

func (p *program) protoLine(level string, fp0, fuel int, seed uint64) string {
	caps := "-"
	if len(p.caps) > 0 {
		var cs []string
		for _, c := range p.caps {
			cs = append(cs, fmt.Sprint(c))
		}
		caps = strings.Join(cs, ",")
	}
	parts := []string{fmt.Sprint(len(p.funcs))}
	for k, f := range p.funcs {
		parts = append(parts, toks(append(append([]stmt(nil), f...), p.deferred[k]...)))
	}
	return fmt.Sprintf("C14 run %s %d %d %d %s %d %d %d %s", level, p.N, p.M, fp0, caps, p.cells, fuel, seed%1000000007, strings.Join(parts, ":"))
}

type srcWriter struct {
	p     *program
	b     strings.Builder
	sfx   string
	depth int
	loops int
}

func (w *srcWriter) ind() string { return strings.Repeat("\t", w.depth) }

func (w *srcWriter) stmts(ss []stmt) {
	for i := 0; i < len(ss); i++ {
		s := ss[i]
		switch s.op {
		case 'A':
			fmt.Fprintf(&w.b, "%sr%d = %s\n", w.ind(), s.x, s.e.src())
		case 'L':
			fmt.Fprintf(&w.b, "%sr%d = cell%d%s\n", w.ind(), s.x, s.y, w.sfx)
		case 'T':
			fmt.Fprintf(&w.b, "%scell%d%s = %s\n", w.ind(), s.x, w.sfx, s.e.src())
		case 'S':
			switch s.nat {
			case "":
				fmt.Fprintf(&w.b, "%sch%d%s <- %s\n", w.ind(), s.x, w.sfx, s.e.src())
			case "Send":
				fmt.Fprintf(&w.b, "%sh.Send(ch%d%s, %s)\n", w.ind(), s.x, w.sfx, s.e.src())
			default:
				fmt.Fprintf(&w.b, "%sh.%s(ch%d%s, %s, %s)\n", w.ind(), s.nat, s.x, w.sfx, s.e.src(), s.e2.src())
			}
		case 'R':
			fmt.Fprintf(&w.b, "%sr%d = <-ch%d%s\n", w.ind(), s.x, s.y, w.sfx)
		case 'C':
			fmt.Fprintf(&w.b, "%sclose(ch%d%s)\n", w.ind(), s.x, w.sfx)
		case 'P':
			fmt.Fprintf(&w.b, "%sprintln(%s)\n", w.ind(), s.e.src())
		case 'G':
			// arguments are always immediately followed by their go statement
			var args []string
			for ; ss[i].op == 'G'; i++ {
				args = append(args, ss[i].e.src())
			}
			if wr, ok := w.p.wrappers[ss[i].x]; ok {
				fmt.Fprintf(&w.b, "%sgo h.%s(ch%d%s, %s)\n", w.ind(), wr.name, wr.ch, w.sfx, strings.Join(args, ", "))
			} else {
				fmt.Fprintf(&w.b, "%sgo f%d%s(%s)\n", w.ind(), ss[i].x, w.sfx, strings.Join(args, ", "))
			}
		case 'O':
			fmt.Fprintf(&w.b, "%sgo f%d%s()\n", w.ind(), s.x, w.sfx)
		case 'Y':
			fmt.Fprintf(&w.b, "%sh.Gosched()\n", w.ind())
		case 'N':
			w.loops++
			v := fmt.Sprintf("i%d", w.loops)
			fmt.Fprintf(&w.b, "%sfor %s := 0; %s < %d; %s++ {\n", w.ind(), v, v, s.n, v)
			w.depth++
			w.stmts(s.body)
			w.depth--
			fmt.Fprintf(&w.b, "%s}\n", w.ind())
		case 'F':
			fmt.Fprintf(&w.b, "%sfor r%d = range ch%d%s {\n", w.ind(), s.x, s.y, w.sfx)
			w.depth++
			w.stmts(s.body)
			w.depth--
			fmt.Fprintf(&w.b, "%s}\n", w.ind())
		case 'X': // r[x] += every value received from channels y and n, e.n values in all, by select
			w.loops++
			v := fmt.Sprintf("i%d", w.loops)
			fmt.Fprintf(&w.b, "%sfor %s := 0; %s < %d; %s++ {\n%s\tselect {\n%s\tcase r3 = <-ch%d%s:\n%s\t\tr%d = r%d + r3\n%s\tcase r3 = <-ch%d%s:\n%s\t\tr%d = r%d + r3*2\n%s\t}\n%s}\n",
				w.ind(), v, v, s.e.n, v, w.ind(), w.ind(), s.y, w.sfx, w.ind(), s.x, s.x, w.ind(), s.n, w.sfx, w.ind(), s.x, s.x, w.ind(), w.ind())
		}
	}
}

// source renders the program; sfx is appended to every package-level name (gc batch), mainName
// is the name of function 0.
func (p *program) source(sfx, mainName string, standalone bool) string {
	if p.raw != "" {
		src := strings.ReplaceAll(strings.ReplaceAll(p.raw, "@MAIN@", mainName), "@@", sfx)
		// a type of package h: `h.Box` for Scriggo, `hBox` in the gc batch (where h is a variable)
		if standalone {
			src = strings.ReplaceAll(src, "@HBOX@", "h.Box")
		} else {
			src = strings.ReplaceAll(src, "@HBOX@", "hBox")
		}
		if standalone {
			return "package main\n\nimport \"h\"\n\n" + src + "\nvar _ = h.Gosched\n"
		}
		return src
	}
	w := &srcWriter{sfx: sfx, p: p}
	if standalone {
		w.b.WriteString("package main\n\nimport \"h\"\n\n")
	}
	for i, c := range p.caps {
		if c == 0 {
			fmt.Fprintf(&w.b, "var ch%d%s = make(chan int)\n", i, sfx)
		} else {
			fmt.Fprintf(&w.b, "var ch%d%s = make(chan int, %d)\n", i, sfx, c)
		}
	}
	for i := 0; i < p.cells; i++ {
		fmt.Fprintf(&w.b, "var cell%d%s int\n", i, sfx)
	}
	for k, f := range p.funcs {
		if _, ok := p.wrappers[k]; ok {
			continue // stands for a native function
		}
		var params, locals, all []string
		for i := 0; i < p.N; i++ {
			all = append(all, fmt.Sprintf("r%d", i))
			if k > 0 && i < p.nparams[k] {
				params = append(params, fmt.Sprintf("r%d", i))
			} else {
				locals = append(locals, fmt.Sprintf("r%d", i))
			}
		}
		name := fmt.Sprintf("f%d%s", k, sfx)
		if k == 0 {
			name = mainName
		}
		ps := ""
		if len(params) > 0 {
			ps = strings.Join(params, ", ") + " int"
		}
		fmt.Fprintf(&w.b, "\nfunc %s(%s) {\n", name, ps)
		if len(locals) > 0 {
			fmt.Fprintf(&w.b, "\tvar %s int\n", strings.Join(locals, ", "))
		}
		blanks := strings.TrimSuffix(strings.Repeat("_, ", len(all)), ", ")
		fmt.Fprintf(&w.b, "\t%s = %s\n", blanks, strings.Join(all, ", "))
		w.depth = 1
		if d := p.deferred[k]; len(d) > 0 { // deferred calls run last-in first-out
			for i := len(d) - 1; i >= 0; i-- {
				w.b.WriteString("\tdefer ")
				var one srcWriter
				one.p, one.sfx = p, sfx
				one.stmts([]stmt{d[i]})
				w.b.WriteString(one.b.String())
			}
		}
		w.stmts(f)
		w.b.WriteString("}\n")
	}
	if standalone {
		w.b.WriteString("\nvar _ = h.Gosched\n")
	}
	return w.b.String()
}

// ---- generator ---------------------------------------------------------------------------

type gen struct {
	r *proto.Rand
	p *program
}

func (g *gen) newChan() int {
	g.p.caps = append(g.p.caps, []int{0, 0, 1, 2, 3}[g.r.Intn(5)])
	return len(g.p.caps) - 1
}
func (g *gen) newFunc(nparams int, body []stmt) int {
	g.p.funcs = append(g.p.funcs, g.yields(body))
	g.p.nparams = append(g.p.nparams, nparams)
	return len(g.p.funcs) - 1
}

// yields inserts Gosched calls at random places (never between arguments and their go).
func (g *gen) yields(ss []stmt) []stmt {
	var out []stmt
	for i, s := range ss {
		if g.r.Intn(5) == 0 && (i == 0 || ss[i-1].op != 'G') {
			out = append(out, stmt{op: 'Y'})
		}
		if s.op == 'N' || s.op == 'F' {
			s.body = g.yields(s.body)
		}
		out = append(out, s)
	}
	return out
}

func (g *gen) newChanCap(c int) int {
	g.p.caps = append(g.p.caps, c)
	return len(g.p.caps) - 1
}

// newWrapper adds a model function standing for the native function `name` sending on ch.
func (g *gen) newWrapper(name string, ch int) int {
	var body []stmt
	n := 2
	switch name {
	case "Send":
		body, n = []stmt{{op: 'S', x: ch, e: loc(0)}}, 1
	case "SendMul":
		body = []stmt{{op: 'S', x: ch, e: mul(loc(0), loc(1))}}
	case "SendSum":
		body = []stmt{{op: 'S', x: ch, e: add(loc(0), loc(1))}}
	}
	g.p.funcs = append(g.p.funcs, body)
	g.p.nparams = append(g.p.nparams, n)
	k := len(g.p.funcs) - 1
	g.p.wrappers[k] = wrapper{name, ch}
	return k
}

// nativeFanIn: native functions of several signatures started with go in a loop (the same
// function again and again, its arguments changing), results summed.
func (g *gen) nativeFanIn() []stmt {
	k := 2 + g.r.Intn(19)
	res := g.newChan()
	w1, w2, w3 := g.newWrapper("Send", res), g.newWrapper("SendMul", res), g.newWrapper("SendSum", res)
	body := goCall(w1, add(mul(loc(0), lit(7)), loc(1)))
	per := 1
	if g.r.Intn(2) == 0 {
		body = append(body, goCall(w2, loc(0), loc(1))...)
		per++
	}
	if g.r.Intn(2) == 0 {
		body = append(body, goCall(w3, loc(1), lit(g.r.Intn(40)))...)
		per++
	}
	if g.r.Intn(3) == 0 {
		body = append(body, goCall(w1, loc(1))...) // the same function again right after
		per++
	}
	body = append(body, stmt{op: 'A', x: 0, e: add(loc(0), lit(1))}, stmt{op: 'A', x: 1, e: add(loc(1), lit(3))})
	return []stmt{
		{op: 'A', x: 0, e: lit(1 + g.r.Intn(5))},
		{op: 'A', x: 1, e: lit(g.r.Intn(9))},
		{op: 'N', n: k, body: body},
		{op: 'A', x: 2, e: lit(0)},
		{op: 'N', n: k * per, body: []stmt{{op: 'R', x: 3, y: res}, {op: 'A', x: 2, e: add(loc(2), loc(3))}}},
		{op: 'P', e: loc(2)},
	}
}

// nativeSyncAfterGo: a native function started with go and called synchronously right after.
func (g *gen) nativeSyncAfterGo() []stmt {
	b := g.newChanCap(4 + g.r.Intn(3))
	w1, w2 := g.newWrapper("Send", b), g.newWrapper("SendMul", b)
	K := 10 + g.r.Intn(90)
	ss := []stmt{{op: 'A', x: 0, e: lit(1 + g.r.Intn(9))}, {op: 'A', x: 1, e: lit(2 + g.r.Intn(9))}}
	ss = append(ss, goCall(w1, loc(0))...)
	ss = append(ss, stmt{op: 'S', x: b, nat: "Send", e: lit(K)})
	ss = append(ss, goCall(w2, loc(0), loc(1))...)
	ss = append(ss, stmt{op: 'S', x: b, nat: "SendMul", e: lit(3), e2: lit(K)},
		stmt{op: 'A', x: 2, e: lit(0)},
		stmt{op: 'N', n: 4, body: []stmt{{op: 'R', x: 3, y: b}, {op: 'A', x: 2, e: add(loc(2), loc(3))}}},
		stmt{op: 'P', e: loc(2)})
	return ss
}

// deferNative: goroutines whose native sends are deferred.
func (g *gen) deferNative() []stmt {
	k := 1 + g.r.Intn(4)
	res := g.newChan()
	w := g.newFunc(1, []stmt{{op: 'A', x: 1, e: add(loc(0), lit(1))}, {op: 'S', x: res, e: loc(1)}})
	g.p.deferred[w] = []stmt{
		{op: 'S', x: res, nat: "Send", e: mul(loc(0), lit(3))},
		{op: 'S', x: res, nat: "SendMul", e: loc(0), e2: lit(5)},
		{op: 'S', x: res, nat: "SendSum", e: loc(0), e2: lit(g.r.Intn(30))},
	}
	ss := []stmt{{op: 'A', x: 0, e: lit(g.r.Intn(20))}}
	for i := 0; i < k; i++ {
		ss = append(ss, goCall(w, loc(0))...)
		ss = append(ss, stmt{op: 'A', x: 0, e: add(loc(0), lit(2))})
	}
	return append(ss, stmt{op: 'A', x: 2, e: lit(0)},
		stmt{op: 'N', n: 4 * k, body: []stmt{{op: 'R', x: 3, y: res}, {op: 'A', x: 2, e: add(loc(2), loc(3))}}},
		stmt{op: 'P', e: loc(2)})
}

func goCall(f int, args ...*expr) []stmt {
	var ss []stmt
	for _, a := range args {
		ss = append(ss, stmt{op: 'G', e: a})
	}
	return append(ss, stmt{op: 'O', x: f})
}

// pipeline: producer → stages → main prints every value in order.
func (g *gen) pipeline() []stmt {
	n := 1 + g.r.Intn(5)
	k := 1 + g.r.Intn(7)
	c := g.newChan()
	prod := g.newFunc(1, []stmt{
		{op: 'A', x: 1, e: lit(0)},
		{op: 'N', n: n, body: []stmt{{op: 'S', x: c, e: add(loc(0), mul(loc(1), lit(k)))}, {op: 'A', x: 1, e: add(loc(1), lit(1))}}},
		{op: 'C', x: c},
	})
	main := goCall(prod, lit(g.r.Intn(50)))
	for s := g.r.Intn(3); s > 0; s-- {
		c2 := g.newChan()
		st := g.newFunc(1, []stmt{
			{op: 'F', x: 1, y: c, body: []stmt{{op: 'S', x: c2, e: add(mul(loc(1), loc(0)), lit(s))}}},
			{op: 'C', x: c2},
		})
		main = append(main, goCall(st, lit(2+g.r.Intn(3)))...)
		c = c2
	}
	return append(main, stmt{op: 'F', x: 0, y: c, body: []stmt{{op: 'P', e: loc(0)}}})
}

// fanIn: the parent keeps changing the variables it passed (go arguments are a snapshot).
func (g *gen) fanIn() []stmt {
	k := 2 + g.r.Intn(5)
	res := g.newChan()
	w := g.newFunc(2, []stmt{
		{op: 'A', x: 2, e: add(mul(loc(0), lit(100)), mul(loc(1), loc(1)))},
		{op: 'S', x: res, e: loc(2)},
	})
	body := append(goCall(w, loc(0), loc(1)), stmt{op: 'A', x: 0, e: add(loc(0), lit(1))}, stmt{op: 'A', x: 1, e: add(loc(1), lit(3))})
	return []stmt{
		{op: 'A', x: 0, e: lit(g.r.Intn(5))},
		{op: 'A', x: 1, e: lit(g.r.Intn(9))},
		{op: 'N', n: k, body: body},
		{op: 'A', x: 2, e: lit(0)},
		{op: 'N', n: k, body: []stmt{{op: 'R', x: 3, y: res}, {op: 'A', x: 2, e: add(loc(2), loc(3))}}},
		{op: 'P', e: loc(2)},
	}
}

// waitGroup: workers write their own shared cell, signal on a channel; main waits, then reads.
func (g *gen) waitGroup() []stmt {
	k := 1 + g.r.Intn(4)
	done := g.newChan()
	first := g.p.cells
	g.p.cells += k
	main := []stmt{{op: 'A', x: 1, e: lit(g.r.Intn(20))}}
	for c := first; c < first+k; c++ {
		w := g.newFunc(1, []stmt{{op: 'T', x: c, e: add(mul(loc(0), lit(7)), lit(c))}, {op: 'S', x: done, e: lit(1)}})
		main = append(main, goCall(w, loc(1))...)
		main = append(main, stmt{op: 'A', x: 1, e: add(loc(1), lit(5))})
	}
	main = append(main, stmt{op: 'N', n: k, body: []stmt{{op: 'R', x: 3, y: done}}})
	for c := first; c < first+k; c++ {
		main = append(main, stmt{op: 'L', x: 2, y: c}, stmt{op: 'P', e: loc(2)})
	}
	return main
}

// closer: several producers on one channel, a goroutine closes it when all are done.
func (g *gen) closer() []stmt {
	k := 1 + g.r.Intn(4)
	m := 1 + g.r.Intn(4)
	data, done := g.newChan(), g.newChan()
	prod := g.newFunc(1, []stmt{
		{op: 'A', x: 1, e: lit(0)},
		{op: 'N', n: m, body: []stmt{{op: 'S', x: data, e: add(loc(0), loc(1))}, {op: 'A', x: 1, e: add(loc(1), lit(1))}}},
		{op: 'S', x: done, e: lit(1)},
	})
	cl := g.newFunc(0, []stmt{{op: 'N', n: k, body: []stmt{{op: 'R', x: 0, y: done}}}, {op: 'C', x: data}})
	var main []stmt
	for i := 0; i < k; i++ {
		main = append(main, goCall(prod, lit(10*i+g.r.Intn(7)))...)
	}
	main = append(main, goCall(cl)...)
	return append(main, stmt{op: 'A', x: 2, e: lit(0)},
		stmt{op: 'F', x: 3, y: data, body: []stmt{{op: 'A', x: 2, e: add(loc(2), loc(3))}}},
		stmt{op: 'P', e: loc(2)})
}

// selectSum: two feeders, main drains both with a select whose choice does not matter.
func (g *gen) selectSum() []stmt {
	a, b := g.newChan(), g.newChan()
	n := 1 + g.r.Intn(4)
	feed := func(c int) int {
		return g.newFunc(1, []stmt{{op: 'A', x: 1, e: lit(0)},
			{op: 'N', n: n, body: []stmt{{op: 'S', x: c, e: add(loc(0), loc(1))}, {op: 'A', x: 1, e: add(loc(1), lit(1))}}}})
	}
	fa, fb := feed(a), feed(b)
	g.p.modelled = false
	main := append(goCall(fa, lit(g.r.Intn(30))), goCall(fb, lit(g.r.Intn(30)))...)
	return append(main, stmt{op: 'A', x: 2, e: lit(0)}, stmt{op: 'X', x: 2, y: a, n: b, e: lit(2 * n)}, stmt{op: 'P', e: loc(2)})
}

func genProgram(r *proto.Rand) *program {
	p := &program{N: 4, M: 2, funcs: [][]stmt{nil}, nparams: []int{0}, modelled: true, wrappers: map[int]wrapper{}, deferred: map[int][]stmt{}}
	g := &gen{r: r, p: p}
	for n := 1 + r.Intn(3); n > 0; n-- {
		var seg []stmt
		switch x := r.Intn(16); {
		case x >= 13:
			seg = g.deferNative()
			p.shapes = append(p.shapes, "defer-native")
		case x >= 12:
			seg = g.nativeSyncAfterGo()
			p.shapes = append(p.shapes, "native-go-then-sync")
		case x >= 10:
			seg = g.nativeFanIn()
			p.shapes = append(p.shapes, "native-fan-in")
		case x < 3:
			seg = g.pipeline()
			p.shapes = append(p.shapes, "pipeline")
		case x < 6:
			seg = g.fanIn()
			p.shapes = append(p.shapes, "fan-in-snapshot")
		case x < 8:
			seg = g.waitGroup()
			p.shapes = append(p.shapes, "waitgroup-cells")
		case x < 9:
			seg = g.closer()
			p.shapes = append(p.shapes, "producers-closer-range")
		default:
			seg = g.selectSum()
			p.shapes = append(p.shapes, "select-sum")
		}
		p.segs = append(p.segs, g.yields(seg))
	}
	for _, seg := range p.segs {
		p.funcs[0] = append(p.funcs[0], seg...)
	}
	return p
}

// only returns the program reduced to one of its shapes (everything else stays declared).
func (p *program) only(k int) *program {
	q := *p
	q.funcs = append([][]stmt{p.segs[k]}, p.funcs[1:]...)
	q.shapes = []string{p.shapes[k]}
	q.segs = [][]stmt{p.segs[k]}
	return &q
}

// ---- go statements with arguments of every register class ---------------------------------------

// genMixed generates a program (Go source, not in the mini language: gc is its only oracle) whose
// go statements pass int, float64, string and general ([]int) arguments in every mixture, from
// frames with different numbers of live int / float / string / general locals, several go
// statements per frame, inside nested calls; the caller changes the passed locals afterwards.
func genMixed(r *proto.Rand) *program {
	var b strings.Builder
	classes := []string{"i", "f", "s", "g"}
	typ := map[string]string{"i": "int", "f": "float64", "s": "string", "g": "[]int"}
	nw := 2 + r.Intn(5)
	ncallers := 1 + r.Intn(3)
	type worker struct{ params []string }
	var ws []worker
	for j := 0; j < nw; j++ {
		var w worker
		for n := 1 + r.Intn(4); n > 0; n-- {
			w.params = append(w.params, classes[r.Intn(4)])
		}
		ws = append(ws, w)
		fmt.Fprintf(&b, "var c%d@@ = make(chan string)\n", j)
	}
	b.WriteString("var keep@@ = make(chan string, 8)\n\n")
	for j, w := range ws {
		var ps, parts []string
		for k, c := range w.params {
			ps = append(ps, fmt.Sprintf("p%d %s", k, typ[c]))
			switch c {
			case "i":
				parts = append(parts, fmt.Sprintf("h.Itoa(p%d)", k))
			case "f":
				parts = append(parts, fmt.Sprintf("h.Itoa(int(p%d*4))", k))
			case "s":
				parts = append(parts, fmt.Sprintf("p%d", k))
			case "g":
				parts = append(parts, fmt.Sprintf("h.Itoa(len(p%d)) + \"/\" + h.Itoa(p%d[0])", k, k))
			}
		}
		fmt.Fprintf(&b, "func w%d@@(%s) {\n\tc%d@@ <- \"w%d:\" + %s\n}\n\n", j, strings.Join(ps, ", "), j, j, strings.Join(parts, " + \",\" + "))
	}
	// distribute the workers over the frames: main and the callers
	frames := ncallers + 1
	assign := make([][]int, frames)
	for j := range ws {
		f := r.Intn(frames)
		assign[f] = append(assign[f], j)
	}
	frame := func(k int, name, param string) {
		fmt.Fprintf(&b, "func %s(%s) {\n", name, param)
		p := "p"
		if param == "" {
			fmt.Fprintf(&b, "\tp := %d\n", 1+r.Intn(9))
		}
		locals := map[string][]string{}
		var all []string
		for _, c := range classes {
			for n := r.Intn(4); n > 0; n-- {
				v := fmt.Sprintf("%s%d", c, len(locals[c]))
				locals[c] = append(locals[c], v)
				all = append(all, v)
				switch c {
				case "i":
					fmt.Fprintf(&b, "\t%s := %s*%d + %d\n", v, p, 2+r.Intn(5), r.Intn(50))
				case "f":
					fmt.Fprintf(&b, "\t%s := float64(%s) + %d.5\n", v, p, r.Intn(9))
				case "s":
					fmt.Fprintf(&b, "\t%s := \"%s\" + h.Itoa(%s)\n", v, words14[r.Intn(len(words14))], p)
				case "g":
					fmt.Fprintf(&b, "\t%s := []int{%s + %d, %d}\n", v, p, r.Intn(30), r.Intn(9))
				}
			}
		}
		arg := func(c string) string {
			if l := locals[c]; len(l) > 0 && r.Intn(4) > 0 {
				return l[r.Intn(len(l))]
			}
			switch c {
			case "i":
				return fmt.Sprintf("%s + %d", p, r.Intn(100))
			case "f":
				return fmt.Sprintf("float64(%s) + %d.25", p, r.Intn(9))
			case "s":
				return fmt.Sprintf("\"%s\" + h.Itoa(%s)", words14[r.Intn(len(words14))], p)
			}
			return fmt.Sprintf("[]int{%s, %d, %d}", p, r.Intn(9), r.Intn(9))
		}
		nested := func() {
			if k+1 < frames {
				fmt.Fprintf(&b, "\tcaller%d@@(%s + %d)\n", k+1, p, 1+r.Intn(3))
			}
		}
		early := r.Intn(2) == 0
		if early {
			nested()
		}
		for _, j := range assign[k] {
			var args []string
			for _, c := range ws[j].params {
				args = append(args, arg(c))
			}
			fmt.Fprintf(&b, "\tgo w%d@@(%s)\n", j, strings.Join(args, ", "))
			// the caller goes on changing what it passed
			for _, c := range classes {
				if l := locals[c]; len(l) > 0 && r.Intn(2) == 0 {
					v := l[r.Intn(len(l))]
					switch c {
					case "i":
						fmt.Fprintf(&b, "\t%s = %s + 100\n", v, v)
					case "f":
						fmt.Fprintf(&b, "\t%s = %s + 8\n", v, v)
					case "s":
						fmt.Fprintf(&b, "\t%s = %s + \"!\"\n", v, v)
					case "g":
						fmt.Fprintf(&b, "\t%s = append(%s, 7)\n", v, v)
					}
				}
			}
		}
		if !early {
			nested()
		}
		// every local stays live across the go statements
		sum := []string{fmt.Sprintf("\"%s:\"", name[:len(name)-2])}
		for _, v := range all {
			switch v[0] {
			case 'i':
				sum = append(sum, "h.Itoa("+v+")")
			case 'f':
				sum = append(sum, "h.Itoa(int("+v+"*4))")
			case 's':
				sum = append(sum, v)
			case 'g':
				sum = append(sum, "h.Itoa(len("+v+"))")
			}
		}
		fmt.Fprintf(&b, "\tkeep@@ <- %s\n}\n\n", strings.Join(sum, " + \" \" + "))
	}
	for k := frames - 1; k >= 1; k-- {
		frame(k, fmt.Sprintf("caller%d@@", k), "p int")
	}
	frame(0, "frame0@@", "")
	b.WriteString("func @MAIN@() {\n\tframe0@@()\n")
	for j := range ws {
		fmt.Fprintf(&b, "\tprintln(<-c%d@@)\n", j)
	}
	for k := 0; k < frames; k++ {
		b.WriteString("\tprintln(<-keep@@)\n")
	}
	b.WriteString("}\n")
	return &program{N: 4, M: 2, raw: b.String(), shapes: []string{"go-args-of-every-register-class"}}
}

var words14 = []string{"a", "bc", "def", "x-", "Zq"}
