package main

import (
	"context"
	"fmt"
	"io/fs"
	"reflect"
	"runtime"
	"strconv"
	"strings"
	"sync"
	"testing/fstest"
	"time"

	"github.com/open2b/scriggo"
	"github.com/open2b/scriggo/native"
)

// The context of a run is part of the property: a context that is never cancelled must not
// change what an uncancelled run does. Every generated program is run under each of these modes
// and must print the same (gc's output) under all of them.
//
//	none        RunOptions.Context == nil
//	background  context.Background(): Done() == nil, the VM takes its plain channel paths
//	cancel      context.WithCancel, never cancelled while the program runs: Done() != nil, every
//	            blocking channel operation of the VM goes through reflect.Select with the Done case
//	deadline    context.WithDeadline an hour ahead: as cancel, with a timer behind it
var ctxModes = []string{"none", "background", "cancel", "deadline"}

// ctxDone says whether the mode gives the VM a non-nil Done channel.
func ctxDone(mode string) bool { return mode == "cancel" || mode == "deadline" }

func modeContext(mode string) (context.Context, func()) {
	switch mode {
	case "background":
		return context.Background(), func() {}
	case "cancel":
		return context.WithCancel(context.Background())
	case "deadline":
		return context.WithDeadline(context.Background(), time.Now().Add(time.Hour))
	}
	return nil, func() {}
}

// hDecls is package h of the generated programs (the functions the gc prelude has as methods of hT).
func hDecls() native.Declarations {
	return native.Declarations{
		"Gosched": func() { runtime.Gosched() },
		"Itoa":    func(n int) string { return strconv.Itoa(n) },
		"Send":    func(ch chan int, x int) { ch <- x },
		"SendMul": func(ch chan int, a, b int) { ch <- a * b },
		"SendSum": func(ch chan int, xs ...int) {
			s := 0
			for _, x := range xs {
				s += x
			}
			ch <- s
		},
		// the callee-forms stream (gocallee.go): natives to start with go …
		"Produce": func(ch chan int, v int) { ch <- v },
		"Emit":    func(out chan string, s string) { out <- s },
		"Box":     reflect.TypeOf(Box{}),
		"NewBox":  func(k int) Box { return Box{K: k} },
		// … and natives called afterwards, with results of every register class
		"Twice":  func(n int) int { return 2 * n },
		"Half":   func(x float64) float64 { return x / 2 },
		"Pair":   func(n int) []int { return []int{n, n + 1} },
		"Sum":    func(xs ...int) int { return sumInts(xs) },
		"EnvAdd": func(env native.Env, a, b int) int { _ = env.Context(); return a + b },
		"DivMod": func(a, b int) (int, int) { return a / b, a % b },
		"Tag":    func(s string, n int) string { return s + strconv.Itoa(n) },
	}
}

// Box is a native type with a method that sends (started with go as a method call).
type Box struct{ K int }

func (b Box) Send(ch chan int, v int) { ch <- v + b.K }

func sumInts(xs []int) int {
	s := 0
	for _, x := range xs {
		s += x
	}
	return s
}

type built struct{ p *scriggo.Program }

type outcome struct {
	Printed, Err, Panic string
}

func (o outcome) String() string {
	return fmt.Sprintf("printed %q err=%q panic=%q", o.Printed, o.Err, o.Panic)
}

func (o outcome) bad(want string) bool { return o.Printed != want || o.Err != "" || o.Panic != "" }

func buildProgram(src string) (b *built, err error) {
	defer func() {
		if r := recover(); r != nil {
			err = fmt.Errorf("build panic: %v", r)
		}
	}()
	var fsys fs.FS = fstest.MapFS{"main.go": &fstest.MapFile{Data: []byte(src)}}
	p, err := scriggo.Build(fsys, &scriggo.BuildOptions{AllowGoStmt: true,
		Packages: native.Packages{"h": native.Package{Name: "h", Declarations: hDecls()}}})
	if err != nil {
		return nil, err
	}
	return &built{p}, nil
}

// runMode runs the program once under GOMAXPROCS procs and the context mode; ok == false: it did
// not finish within 20 s.
func (b *built) runMode(procs int, mode string) (outcome, bool) {
	return b.runModeT(procs, mode, 20*time.Second)
}

// runModeT: as runMode with the given time limit. After the limit the context is cancelled, and
// under a Done mode the run is waited for (it stops at its next instruction).
func (b *built) runModeT(procs int, mode string, limit time.Duration) (outcome, bool) {
	old := runtime.GOMAXPROCS(procs)
	defer runtime.GOMAXPROCS(old)
	done := make(chan outcome, 1)
	ctx, cancel := modeContext(mode)
	go func() {
		var o outcome
		var printed strings.Builder
		var mu sync.Mutex
		defer func() {
			if r := recover(); r != nil {
				o.Panic = fmt.Sprint(r)
			}
			mu.Lock()
			o.Printed = printed.String()
			mu.Unlock()
			done <- o
		}()
		opts := &scriggo.RunOptions{Context: ctx, Print: func(v any) {
			mu.Lock()
			fmt.Fprint(&printed, v)
			mu.Unlock()
		}}
		if err := b.p.Run(opts); err != nil {
			o.Err = err.Error()
		}
	}()
	select {
	case o := <-done:
		// The context is deliberately NOT cancelled after a run that returned: goroutines of the program
		// that are still running keep running after Run returns (unlike gc, where they die with main), and one
		// started with `go` on a function VALUE runs inside a callable wrapper (runtime.(*callable).Value) that
		// panics with the context's error when its VM is cancelled — in its own goroutine, which kills the
		// whole process (seen once in a thorough run: "panic: context canceled … created by (*VM).callNative").
		// The property is about uncancelled runs; the context is left to the garbage collector.
		_ = cancel
		return o, true
	case <-time.After(limit):
		cancel() // a hanging run under a Done mode is stopped; the others leak their goroutines
		if ctxDone(mode) {
			select {
			case <-done:
			case <-time.After(5 * time.Second):
			}
		}
		return outcome{}, false
	}
}
