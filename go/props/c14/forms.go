package main

import (
	"fmt"
	"strings"

	"verifharness/internal/proto"
)

// ---- statement forms around select and range over channels ------------------------------------
//
// Three small families, each a matrix with gc as the oracle. Every family contains points at which
// a recorded defect of the frozen tree shows; what the defect makes of such a program is
// PREDICTED from the program alone (fixes/FINDING-CLASSES.md): the prediction names the known
// finding and the exact effect (the exact output, the build error, or "never ends"). A failing
// program is attributed to a finding only if (a) the finding's recorded minimal program still
// fails in this run, (b) the prediction was made before the program ran and (c) the real run shows
// exactly the predicted effect; everything else is a violation. Programs for which nothing is
// predicted — most of each matrix — must behave as under gc.
//
//	range-kinds   `for v := range c`, `for v = range c`, `for range c` over a filled and closed
//	              channel of element kind int, int8, uint16, bool, string, float64, float32, []int,
//	              [2]int, struct, pointer, interface, map — with 1-3 live locals of the element's
//	              register class and 0-3 int locals declared before the loop, all printed after it
//	              (nothing predicted: the loop variable declared by `:=` once got an int register
//	              whatever the element kind and the elements landed in a live local, repaired by
//	              3edea63)
//	select-names  one select of 2-4 receive cases in the forms `v := <-c`, `v, ok := <-c`, `<-c`
//	              over channels of the classes int/string/float64/[]int, one of them ready, the
//	              names drawn from a pool of two (known defect select-comm-decl-shares-select-scope:
//	              two cases that declare the same name do not build)
//	select-break  `break` in a clause of a select: unlabelled (leaves the select), labelled with the
//	              enclosing for, under a condition that is true or false, in a for-select loop that
//	              goes on, next to breaks of a for or switch nested in the clause (known defect
//	              labelled-break-out-of-for-select-ignores-label: the label of `break L` is
//	              ignored, the break leaves the select only and the for goes on for ever; the
//	              unlabelled break, whose jump once was never given its address, is repaired by
//	              5caa505 and must behave as under gc)

// prediction: see above.
type prediction struct {
	id     string // the known finding
	effect string // "output": prints exactly `output`; "build": Build fails with an error containing `output`; "hang": never ends
	output string
}

type kindSpec struct {
	typ   string
	class string // register class: int, float, string, general
	vals  [3]string
	show  string // %s as a string
}

var rangeKinds = []kindSpec{
	{typ: "int", class: "int", vals: [3]string{"11", "22", "33"}, show: "h.Itoa(%s)"},
	{typ: "int8", class: "int", vals: [3]string{"-3", "4", "5"}, show: "h.Itoa(int(%s))"},
	{typ: "uint16", class: "int", vals: [3]string{"300", "400", "500"}, show: "h.Itoa(int(%s))"},
	{typ: "bool", class: "int", vals: [3]string{"true", "true", "true"}, show: "bs@@(%s)"},
	{typ: "string", class: "string", vals: [3]string{`"ab"`, `"cd"`, `"ef"`}, show: "%s"},
	{typ: "float64", class: "float", vals: [3]string{"1.5", "2.25", "3.75"}, show: "h.Itoa(int(%s * 100))"},
	{typ: "float32", class: "float", vals: [3]string{"0.5", "1.25", "2.5"}, show: "h.Itoa(int(%s * 100))"},
	{typ: "[]int", class: "general", vals: [3]string{"[]int{7}", "[]int{8, 9}", "[]int{1, 2, 3}"}, show: "sli@@(%s)"},
	{typ: "[2]int", class: "general", vals: [3]string{"[2]int{1, 2}", "[2]int{3, 4}", "[2]int{5, 6}"}, show: "h.Itoa(%s[0]*10 + %[1]s[1])"},
	{typ: "pt@@", class: "general", vals: [3]string{"pt@@{1, 2}", "pt@@{3, 4}", "pt@@{5, 6}"}, show: "h.Itoa(%s.X*10 + %[1]s.Y)"},
	{typ: "*int", class: "general", vals: [3]string{"&pa@@", "&pb@@", "&pc@@"}, show: "h.Itoa(*%s)"},
	{typ: "interface{}", class: "general", vals: [3]string{"interface{}(5)", "interface{}(6)", "interface{}(7)"}, show: "h.Itoa(%s.(int))"},
	{typ: "map[string]int", class: "general", vals: [3]string{`map[string]int{"a": 1}`, `map[string]int{"a": 2}`, `map[string]int{"a": 3}`}, show: `h.Itoa(%s["a"])`},
}

const formsHelpers = `type pt@@ struct{ X, Y int }

var pa@@, pb@@, pc@@ = 71, 72, 73

func bs@@(b bool) string {
	if b {
		return "T"
	}
	return "F"
}

func sli@@(x []int) string {
	if x == nil {
		return "nil"
	}
	return h.Itoa(len(x)) + ":" + h.Itoa(x[0])
}

`

func show(k kindSpec, v string) string { return fmt.Sprintf(k.show, v) }

// genRangeKind: one point of the range-kinds matrix. The program prints two lines: the variables
// after the loop, and the texts of the three values of the kind's table (so that the harness
// knows how a value of the kind prints without evaluating Go).
func genRangeKind(r *proto.Rand) *program {
	k := rangeKinds[r.Intn(len(rangeKinds))]
	form := r.Intn(3)   // 0 `v :=`  1 `v =`  2 no variable
	nk := 1 + r.Intn(3) // live locals of the element's kind
	ni := r.Intn(4)     // int locals
	nvals := r.Intn(4)  // values in the channel
	if strictBias && r.Intn(2) == 0 {
		form, k = 0, rangeKinds[4+r.Intn(len(rangeKinds)-4)]
	}
	var b strings.Builder
	b.WriteString(formsHelpers)
	// the loop is in a function whose parameters are the live variables: nk of the element's kind,
	// then ni ints, then the channel — parameters get the first registers of their class in the
	// order of declaration, no temporaries in between
	var params, args, parts []string
	for j := 1; j <= nk; j++ {
		params = append(params, fmt.Sprintf("k%d %s", j, k.typ))
		args = append(args, k.vals[(j-1)%3])
		parts = append(parts, show(k, fmt.Sprintf("k%d", j)))
	}
	for j := 1; j <= ni; j++ {
		params = append(params, fmt.Sprintf("n%d int", j))
		args = append(args, fmt.Sprint(100*j))
		parts = append(parts, fmt.Sprintf("h.Itoa(n%d)", j))
	}
	fmt.Fprintf(&b, "func body@@(%s, c chan %s) {\n", strings.Join(params, ", "), k.typ)
	switch form {
	case 0:
		b.WriteString("\tfor v := range c {\n\t\t_ = v\n")
	case 1:
		fmt.Fprintf(&b, "\tvar v %s\n\tfor v = range c {\n\t\t_ = v\n", k.typ)
	default:
		b.WriteString("\tfor range c {\n")
	}
	if ni > 0 {
		b.WriteString("\t\tn1++\n")
	}
	b.WriteString("\t}\n")
	fmt.Fprintf(&b, "\tprintln(%s)\n}\n\n", strings.Join(parts, ", "))
	b.WriteString("func @MAIN@() {\n")
	fmt.Fprintf(&b, "\tc := make(chan %s, 3)\n", k.typ)
	// the values are sent in reverse order of the table: the last one received differs from what
	// most locals hold
	last := -1
	for j := 0; j < nvals; j++ {
		last = (5 - j) % 3
		fmt.Fprintf(&b, "\tc <- %s\n", k.vals[last])
	}
	fmt.Fprintf(&b, "\tclose(c)\n\tbody@@(%s, c)\n", strings.Join(args, ", "))
	fmt.Fprintf(&b, "\tt0, t1, t2 := %s, %s, %s\n\tprintln(%s, %s, %s)\n}\n", k.vals[0], k.vals[1], k.vals[2], show(k, "t0"), show(k, "t1"), show(k, "t2"))
	p := &program{N: 4, M: 2, raw: b.String(), shapes: []string{"forms:range-kinds", "forms:range-kinds:" + k.class + []string{":decl", ":assign", ":novar"}[form]}}
	return p
}

// genSelectNames: one point of the select-names matrix.
func genSelectNames(r *proto.Rand) *program {
	n := 2 + r.Intn(3)
	ready := r.Intn(n)
	var b strings.Builder
	b.WriteString(formsHelpers)
	b.WriteString("func @MAIN@() {\n")
	type cs struct {
		cls  chClass
		form int // 0 `v :=`  1 `v, ok :=`  2 none
		name string
	}
	var cases []cs
	declared := map[string]int{}
	for j := 0; j < n; j++ {
		c := cs{cls: chClasses[r.Intn(4)], form: r.Intn(3), name: []string{"v", "w"}[r.Intn(2)]}
		if j == ready && c.form == 2 {
			c.form = r.Intn(2)
		}
		cases = append(cases, c)
		if c.form < 2 {
			declared[c.name]++
		}
		fmt.Fprintf(&b, "\tc%d := make(chan %s, 1)\n", j, c.cls.typ)
	}
	fmt.Fprintf(&b, "\tc%d <- %s\n", ready, cases[ready].cls.val(1, 2))
	b.WriteString("\tselect {\n")
	for j, c := range cases {
		switch c.form {
		case 0:
			fmt.Fprintf(&b, "\tcase %s := <-c%d:\n\t\tprintln(\"case %d\", %s)\n", c.name, j, j, strings.ReplaceAll(fmt.Sprintf(c.cls.render, c.name), "sl@@", "sli@@"))
		case 1:
			fmt.Fprintf(&b, "\tcase %s, ok := <-c%d:\n\t\tprintln(\"case %d\", %s, bs@@(ok))\n", c.name, j, j, strings.ReplaceAll(fmt.Sprintf(c.cls.render, c.name), "sl@@", "sli@@"))
		default:
			fmt.Fprintf(&b, "\tcase <-c%d:\n\t\tprintln(\"case %d\")\n", j, j)
		}
	}
	b.WriteString("\t}\n}\n")
	p := &program{N: 4, M: 2, raw: b.String(), shapes: []string{"forms:select-names"}}
	// the prediction: the frozen tree checks every clause in ONE scope, in source order. The first
	// clause whose `:=` declares nothing new is rejected with "no new variables"; one that declares
	// something new but names a variable an earlier clause declared with another type is an
	// assignment of the wrong type; a redeclaration with the same type goes through.
	scope := map[string]string{}
	for j, c := range cases {
		if c.form == 2 {
			continue
		}
		names := map[string]string{c.name: c.cls.typ}
		if c.form == 1 {
			names["ok"] = "bool"
		}
		fresh := 0
		for nm := range names {
			if _, ok := scope[nm]; !ok {
				fresh++
			}
		}
		if fresh == 0 {
			p.predict = &prediction{id: "select-comm-decl-shares-select-scope", effect: "build", output: "no new variables on left side of :="}
			break
		}
		if t, ok := scope[c.name]; ok && t != c.cls.typ {
			p.predict = &prediction{id: "select-comm-decl-shares-select-scope", effect: "build",
				output: fmt.Sprintf("cannot use <-c%d (type %s) as type %s in assignment", j, c.cls.typ, t)}
			break
		}
		for nm, t := range names {
			scope[nm] = t
		}
	}
	if p.predict != nil {
		p.shapes = append(p.shapes, "forms:select-names:clauses-collide-in-one-scope")
	} else if declared["v"] > 1 || declared["w"] > 1 {
		p.shapes = append(p.shapes, "forms:select-names:same-name-redeclared-compatibly")
	} else {
		p.shapes = append(p.shapes, "forms:select-names:names-differ")
	}
	return p
}

// genSelectBreak: one point of the select-break matrix.
func genSelectBreak(r *proto.Rand) *program {
	var b strings.Builder
	b.WriteString(formsHelpers)
	shape := r.Intn(6)
	cond := r.Intn(2) == 0 // the condition the break is under
	n := 2 + r.Intn(3)     // values in the channel
	stop := 1 + r.Intn(n)  // the value at which the break is executed (if cond)
	executed := false      // a break whose innermost breakable statement is the select is executed
	b.WriteString("func @MAIN@() {\n")
	fmt.Fprintf(&b, "\ta := make(chan int, %d)\n", n)
	for j := 1; j <= n; j++ {
		fmt.Fprintf(&b, "\ta <- %d\n", j)
	}
	b.WriteString("\tclose(a)\n\tsum := 0\n")
	at := fmt.Sprint(stop)
	if !cond {
		at = "99"
	}
	name := ""
	switch shape {
	case 0: // unlabelled break in the clause of a single select
		name = "break-leaves-select"
		fmt.Fprintf(&b, "\tselect {\n\tcase v := <-a:\n\t\tsum += v\n\t\tif v*%d == %s {\n\t\t\tbreak\n\t\t}\n\t\tsum += 1000\n\t}\n", stop, at)
		executed = cond
	case 1: // unlabelled break in a for-select loop: the loop goes on
		name = "break-leaves-select-loop-goes-on"
		fmt.Fprintf(&b, "\tfor i := 0; i < %d; i++ {\n\t\tselect {\n\t\tcase v := <-a:\n\t\t\tif v == %s {\n\t\t\t\tbreak\n\t\t\t}\n\t\t\tsum += v\n\t\t}\n\t\tsum += 100\n\t}\n", n, at)
		executed = cond
	case 2: // labelled break out of the enclosing for
		name = "labelled-break-leaves-for"
		fmt.Fprintf(&b, "L:\n\tfor {\n\t\tselect {\n\t\tcase v, ok := <-a:\n\t\t\tif !ok {\n\t\t\t\tsum += 5000\n\t\t\t\tbreak L\n\t\t\t}\n\t\t\tif v == %s {\n\t\t\t\tbreak L\n\t\t\t}\n\t\t\tsum += v\n\t\t}\n\t}\n", at)
		executed = true // the loop ends by one of the two breaks
	case 3: // break of a for nested in the clause: not the select's
		name = "break-of-for-nested-in-clause"
		fmt.Fprintf(&b, "\tselect {\n\tcase v := <-a:\n\t\tfor j := 0; j < 5; j++ {\n\t\t\tif j == %d {\n\t\t\t\tbreak\n\t\t\t}\n\t\t\tsum += v + j\n\t\t}\n\t\tsum += 1000\n\t}\n", stop)
	case 4: // break of a switch nested in the clause
		name = "break-of-switch-nested-in-clause"
		fmt.Fprintf(&b, "\tselect {\n\tcase v := <-a:\n\t\tswitch {\n\t\tcase v == 1:\n\t\t\tsum += 7\n\t\t\tif sum > 0 {\n\t\t\t\tbreak\n\t\t\t}\n\t\t\tsum += 70\n\t\tdefault:\n\t\t\tsum += 700\n\t\t}\n\t\tsum += 1000\n\t}\n")
	case 5: // break in the default clause
		name = "break-in-default-clause"
		fmt.Fprintf(&b, "\tvar e chan int\n\tselect {\n\tcase v := <-e:\n\t\tsum += v\n\tdefault:\n\t\tsum += 3\n\t\tif sum == %s {\n\t\t\tbreak\n\t\t}\n\t\tsum += 1000\n\t}\n", map[bool]string{true: "3", false: "4"}[cond])
		executed = cond
	}
	b.WriteString("\trest := 0\n\tfor range a {\n\t\trest++\n\t}\n\tprintln(sum, rest)\n}\n")
	p := &program{N: 4, M: 2, raw: b.String(), shapes: []string{"forms:select-break", "forms:select-break:" + name}}
	if executed {
		p.shapes = append(p.shapes, "forms:select-break:break-of-select-executed")
		if shape == 2 {
			// the label is ignored, the break leaves the select only: the for goes on for ever
			p.predict = &prediction{id: "labelled-break-out-of-for-select-ignores-label", effect: "hang"}
		}
	}
	return p
}

// strictBias (VERIF_C14_STRICT=1): the generators draw more often around the recorded defects.
var strictBias bool

func genForms(r *proto.Rand) *program {
	switch r.Intn(5) {
	case 0, 1:
		return genRangeKind(r)
	case 2:
		return genSelectNames(r)
	}
	return genSelectBreak(r)
}
