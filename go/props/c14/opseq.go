package main

import (
	"fmt"
	"strings"

	"verifharness/internal/proto"
)

// ---- sequences of channel operations, goroutine by goroutine ----------------------------------
//
// A program of this stream has a main goroutine and 0-3 worker goroutines; each runs a sequence of
// channel operations of its own over channels of its own:
//
//	send · receive (three statement forms) · receive with ok (two forms) · range until closed (with
//	a body of further operations, nested at most twice) · select of 1-4 receive/send cases with or
//	without default · close · len/cap · setting the channel variable to nil
//
// over channels that are local (buffered 1-3, used by this goroutine only), fed (a feeder
// goroutine sends a fixed list of values and — mostly — closes; unbuffered or buffered; the
// goroutine only receives from it, so what it sees does not depend on the schedule) or nil. Every
// operation appends what it delivered to the goroutine's trace, the traces are printed by main.
//
// The sequence is generated against a simulator of Go's channel semantics (simSeq) so that no
// operation blocks for ever or panics and every select has at most one case that is or becomes
// ready (and, with a default case, none that only becomes ready when the feeder gets to run).
// Oracles: gc (the same source in the gc batch) and the Lean model of the same operations
// (Model/ChanSeq.lean, `seq go …` = Go's reading, `seq vm …` = the VM's reading under a Done
// channel with the buffer policy read off run.go). A channel fed and closed by another goroutine
// is, for the sequential models, a channel filled and closed beforehand.

type sCase struct {
	send     bool
	ch, form int // form: 0 `case <-c`, 1 `case v := <-c`, 2 `case v, ok := <-c`
	v        int
}

type sop struct {
	op    byte // S R K F X C L Z
	ch, v int
	form  int // how the statement is written
	body  []sop
	cases []sCase
	dflt  bool
}

type sChan struct {
	cap      int // local: capacity of the channel; fed: capacity of the channel the feeder sends on
	isNil    bool
	fed      bool
	fedVals  []int
	fedClose bool
}

type seqG struct {
	chans []sChan
	ops   []sop
}

type seqProg struct {
	gs        []seqG // gs[0] is the main goroutine
	mainFirst bool   // main runs its operations before it collects the workers' traces
}

// ---- simulator (Go's semantics, sequential) ----

type simCh struct {
	cap    int
	buf    []int
	closed bool
	isNil  bool
	fed    bool
}

func initSim(chans []sChan) []simCh {
	st := make([]simCh, len(chans))
	for i, c := range chans {
		st[i] = simCh{cap: c.cap, isNil: c.isNil, fed: c.fed}
		if c.fed {
			st[i].buf = append([]int(nil), c.fedVals...)
			st[i].closed = c.fedClose
			if st[i].cap < len(c.fedVals) {
				st[i].cap = len(c.fedVals)
			}
			if st[i].cap == 0 {
				st[i].cap = 1
			}
		}
	}
	return st
}

func (c *simCh) recvReady() bool { return !c.isNil && (len(c.buf) > 0 || c.closed) }
func (c *simCh) sendReady() bool { return !c.isNil && !c.closed && len(c.buf) < c.cap }

func (c *simCh) recv() (int, bool) {
	if len(c.buf) > 0 {
		v := c.buf[0]
		c.buf = c.buf[1:]
		return v, true
	}
	return 0, false
}

func b2i(b bool) int {
	if b {
		return 1
	}
	return 0
}

// simSeq runs ops; err is "" or why the sequence is not acceptable. sharedSendReg (not Go's
// semantics; what the tree did before c092f56, kept to say what a failing program looks like):
// every send case of a select sends the value of the statement's LAST send case.
func simSeq(st []simCh, ops []sop, trace *[]int, fuel *int, sharedSendReg bool) string {
	for _, o := range ops {
		*fuel--
		if *fuel < 0 {
			return "too long"
		}
		var c *simCh
		if o.op != 'X' {
			c = &st[o.ch]
		}
		switch o.op {
		case 'S':
			if c.fed || !c.sendReady() {
				return "send would block or panic"
			}
			c.buf = append(c.buf, o.v)
		case 'R', 'K':
			if !c.recvReady() {
				return "receive would block"
			}
			v, ok := c.recv()
			*trace = append(*trace, v)
			if o.op == 'K' {
				*trace = append(*trace, b2i(ok))
			}
		case 'F':
			if c.isNil || !c.closed {
				return "range over a channel that is not closed"
			}
			for {
				if !st[o.ch].recvReady() {
					return "range would block"
				}
				v, ok := st[o.ch].recv()
				if !ok {
					break
				}
				*trace = append(*trace, v)
				if e := simSeq(st, o.body, trace, fuel, sharedSendReg); e != "" {
					return e
				}
			}
		case 'X':
			ready, which := 0, -1
			for j, cs := range o.cases {
				cc := &st[cs.ch]
				r := false
				if cs.send {
					if cc.fed || (!cc.isNil && cc.closed) {
						return "send case on a fed or closed channel"
					}
					r = cc.sendReady()
				} else {
					r = cc.recvReady()
				}
				if r {
					if o.dflt && cc.fed {
						return "default next to a case that becomes ready when the feeder runs"
					}
					ready++
					if which < 0 {
						which = j
					}
				}
			}
			switch {
			case ready > 1:
				return "more than one ready case"
			case ready == 0 && !o.dflt:
				return "select would block"
			case ready == 0:
				*trace = append(*trace, len(o.cases))
			default:
				cs := o.cases[which]
				*trace = append(*trace, which)
				if cs.send {
					v := cs.v
					if sharedSendReg {
						for _, c2 := range o.cases {
							if c2.send {
								v = c2.v
							}
						}
					}
					st[cs.ch].buf = append(st[cs.ch].buf, v)
				} else {
					v, ok := st[cs.ch].recv()
					if cs.form >= 1 {
						*trace = append(*trace, v)
					}
					if cs.form == 2 {
						*trace = append(*trace, b2i(ok))
					}
				}
			}
		case 'C':
			if c.fed || c.isNil || c.closed {
				return "close would panic"
			}
			c.closed = true
		case 'L':
			if c.fed {
				return "len of a fed channel"
			}
			if c.isNil {
				*trace = append(*trace, 0, 0)
			} else {
				*trace = append(*trace, len(c.buf), c.cap)
			}
		case 'Z':
			c.isNil = true
		}
	}
	return ""
}

// simG: the trace of a goroutine, or an error.
func simG(g seqG) ([]int, string) { return simGWith(g, false) }

func simGWith(g seqG, sharedSendReg bool) ([]int, string) {
	var tr []int
	fuel := 300
	e := simSeq(initSim(g.chans), g.ops, &tr, &fuel, sharedSendReg)
	return tr, e
}

// ---- generator ----

type seqGen struct {
	r    *proto.Rand
	val  int
	bias bool // strict mode: more select statements with several send cases, whose values are received afterwards
}

func (sg *seqGen) nextVal() int { sg.val += 1 + sg.r.Intn(9); return sg.val }

func (sg *seqGen) genChans() []sChan {
	r := sg.r
	n := 2 + r.Intn(3)
	var cs []sChan
	for i := 0; i < n; i++ {
		switch x := r.Intn(8); {
		case x == 0 && i > 0:
			cs = append(cs, sChan{isNil: true})
		case x < 4:
			c := sChan{fed: true, cap: []int{0, 0, 1, 2}[r.Intn(4)], fedClose: r.Intn(5) > 0}
			for k := r.Intn(4); k > 0; k-- {
				c.fedVals = append(c.fedVals, sg.nextVal())
			}
			cs = append(cs, c)
		default:
			cs = append(cs, sChan{cap: 1 + r.Intn(3)})
		}
	}
	return cs
}

// candidate draws one operation, not yet checked.
func (sg *seqGen) candidate(nch, depth int) sop {
	r := sg.r
	ch := r.Intn(nch)
	x := r.Intn(20)
	if sg.bias && r.Intn(2) == 0 {
		x = 13 // a select
	}
	switch {
	case x < 5:
		return sop{op: 'S', ch: ch, v: sg.nextVal()}
	case x < 8:
		return sop{op: 'R', ch: ch, form: r.Intn(3)}
	case x < 10:
		return sop{op: 'K', ch: ch, form: r.Intn(2)}
	case x < 13:
		return sop{op: 'F', ch: ch, form: r.Intn(2)}
	case x < 16:
		o := sop{op: 'X', dflt: r.Intn(2) == 0}
		sends := 0
		for n := 1 + r.Intn(4); n > 0; n-- {
			cs := sCase{ch: r.Intn(nch), form: r.Intn(3)}
			// several send cases in one select: every one sends its own value (the tree once
			// kept ONE value register per class for all of them)
			if sends < 3 && (r.Intn(3) == 0 || sg.bias && r.Intn(2) == 0) {
				cs.send, cs.v = true, sg.nextVal()
				sends++
			}
			o.cases = append(o.cases, cs)
		}
		return o
	case x < 18:
		return sop{op: 'C', ch: ch}
	case x < 19:
		return sop{op: 'L', ch: ch}
	}
	return sop{op: 'Z', ch: ch}
}

// genOps extends a sequence operation by operation, keeping only what the simulator accepts
// after everything generated so far.
func (sg *seqGen) genOps(chans []sChan, prefix func(ops []sop) []sop, n, depth int) []sop {
	var ops []sop
	for tries := 0; len(ops) < n && tries < 12*n; tries++ {
		o := sg.candidate(len(chans), depth)
		if o.op == 'F' && depth < 2 {
			// the body is generated in the state of the first iteration and must be acceptable in
			// every iteration: try a few bodies, fall back to an empty one
			for k := 0; k < 3; k++ {
				withBody := o
				withBody.body = sg.genOps(chans, func(body []sop) []sop {
					b := o
					b.body = body
					return prefix(append(append([]sop(nil), ops...), b))
				}, sg.r.Intn(3), depth+1)
				if accept(chans, prefix(append(append([]sop(nil), ops...), withBody))) {
					o = withBody
					break
				}
			}
		}
		if accept(chans, prefix(append(append([]sop(nil), ops...), o))) {
			ops = append(ops, o)
		}
	}
	return ops
}

func accept(chans []sChan, ops []sop) bool {
	_, e := simG(seqG{chans, ops})
	return e == ""
}

func genSeqG(sg *seqGen) seqG {
	g := seqG{chans: sg.genChans()}
	n := 3 + sg.r.Intn(9)
	g.ops = sg.genOps(g.chans, func(ops []sop) []sop { return ops }, n, 0)
	// end by draining what is ready: a range over every closed channel, a receive from every
	// channel that still holds a value — so that an operation follows the last loop
	if sg.bias || sg.r.Intn(2) == 0 {
		for ch := range g.chans {
			for _, o := range []sop{{op: 'F', ch: ch, form: sg.r.Intn(2)}, {op: 'K', ch: ch, form: sg.r.Intn(2)}, {op: 'R', ch: ch, form: sg.r.Intn(3)}} {
				if (sg.bias || sg.r.Intn(2) == 0) && accept(g.chans, append(append([]sop(nil), g.ops...), o)) {
					g.ops = append(g.ops, o)
				}
			}
		}
	}
	return g
}

// ---- rendering ----

func (o sop) toks() []string {
	switch o.op {
	case 'S':
		return []string{"S", fmt.Sprint(o.ch), fmt.Sprint(o.v)}
	case 'F':
		t := []string{"F", fmt.Sprint(o.ch), fmt.Sprint(len(o.body))}
		for _, b := range o.body {
			t = append(t, b.toks()...)
		}
		return t
	case 'X':
		t := []string{"X", fmt.Sprint(len(o.cases)), fmt.Sprint(b2i(o.dflt))}
		for _, c := range o.cases {
			if c.send {
				t = append(t, "s", fmt.Sprint(c.ch), fmt.Sprint(c.v))
			} else {
				t = append(t, "r", fmt.Sprint(c.ch), fmt.Sprint(c.form))
			}
		}
		return t
	}
	return []string{string(o.op), fmt.Sprint(o.ch)}
}

// protoLine: `C14 seq <mode> <fuel> <chans> <ops>`
func (g seqG) protoLine(mode string) string {
	cs := []string{fmt.Sprint(len(g.chans))}
	for _, c := range initSim(g.chans) {
		cs = append(cs, fmt.Sprint(c.cap), fmt.Sprint(b2i(c.closed)), fmt.Sprint(b2i(c.isNil)), fmt.Sprint(len(c.buf)))
		for _, v := range c.buf {
			cs = append(cs, fmt.Sprint(v))
		}
	}
	os := []string{fmt.Sprint(len(g.ops))}
	for _, o := range g.ops {
		os = append(os, o.toks()...)
	}
	return fmt.Sprintf("C14 seq %s 600 %s %s", mode, strings.Join(cs, ":"), strings.Join(os, ":"))
}

type seqWriter struct {
	b     *strings.Builder
	names int
}

func (w *seqWriter) f(depth int, format string, a ...any) {
	w.b.WriteString(strings.Repeat("\t", depth))
	fmt.Fprintf(w.b, format, a...)
}

func (w *seqWriter) ops(ops []sop, depth int) {
	for _, o := range ops {
		w.names++
		n := w.names
		switch o.op {
		case 'S':
			w.f(depth, "c%d <- %d\n", o.ch, o.v)
		case 'R':
			switch o.form {
			case 0:
				w.f(depth, "x = <-c%d\n", o.ch)
				w.f(depth, "tr += h.Itoa(x) + \",\"\n")
			case 1:
				w.f(depth, "y%d := <-c%d\n", n, o.ch)
				w.f(depth, "tr += h.Itoa(y%d) + \",\"\n", n)
			default:
				w.f(depth, "tr += h.Itoa(<-c%d) + \",\"\n", o.ch)
			}
		case 'K':
			if o.form == 0 {
				w.f(depth, "y%d, k%d := <-c%d\n", n, n, o.ch)
				w.f(depth, "tr += h.Itoa(y%d) + \",\" + ob@@(k%d)\n", n, n)
			} else {
				w.f(depth, "x, ok = <-c%d\n", o.ch)
				w.f(depth, "tr += h.Itoa(x) + \",\" + ob@@(ok)\n")
			}
		case 'F':
			if o.form == 0 {
				w.f(depth, "for y%d := range c%d {\n", n, o.ch)
				w.f(depth+1, "tr += h.Itoa(y%d) + \",\"\n", n)
			} else {
				w.f(depth, "for x = range c%d {\n", o.ch)
				w.f(depth+1, "tr += h.Itoa(x) + \",\"\n")
			}
			w.ops(o.body, depth+1)
			w.f(depth, "}\n")
		case 'X':
			w.f(depth, "select {\n")
			for j, c := range o.cases {
				// the names a case declares: of its own in the whole function, or (two selects
				// out of three) the same for the j-th case of every select — a later select
				// declares again what an earlier one declared
				yv, kv := fmt.Sprintf("y%dn%d", n, j), fmt.Sprintf("k%dn%d", n, j)
				if n%3 != 0 {
					yv, kv = fmt.Sprintf("ys%d", j), fmt.Sprintf("ks%d", j)
				}
				switch {
				case c.send:
					w.f(depth, "case c%d <- %d:\n", c.ch, c.v)
					w.f(depth+1, "tr += \"%d,\"\n", j)
				case c.form == 0:
					w.f(depth, "case <-c%d:\n", c.ch)
					w.f(depth+1, "tr += \"%d,\"\n", j)
				case c.form == 1:
					w.f(depth, "case %s := <-c%d:\n", yv, c.ch)
					w.f(depth+1, "tr += \"%d,\" + h.Itoa(%s) + \",\"\n", j, yv)
				default:
					w.f(depth, "case %s, %s := <-c%d:\n", yv, kv, c.ch)
					w.f(depth+1, "tr += \"%d,\" + h.Itoa(%s) + \",\" + ob@@(%s)\n", j, yv, kv)
				}
			}
			if o.dflt {
				w.f(depth, "default:\n")
				w.f(depth+1, "tr += \"%d,\"\n", len(o.cases))
			}
			w.f(depth, "}\n")
		case 'C':
			w.f(depth, "close(c%d)\n", o.ch)
		case 'L':
			w.f(depth, "tr += h.Itoa(len(c%d)) + \",\" + h.Itoa(cap(c%d)) + \",\"\n", o.ch, o.ch)
		case 'Z':
			w.f(depth, "c%d = nil\n", o.ch)
		}
	}
}

const seqHelpers = `func ob@@(b bool) string {
	if b {
		return "1,"
	}
	return "0,"
}

func feed@@(c chan int, vs []int, cl bool) {
	for _, v := range vs {
		c <- v
	}
	if cl {
		close(c)
	}
}

`

// raw renders the program in the raw form of program.raw.
func (p *seqProg) raw() string {
	var b strings.Builder
	b.WriteString(seqHelpers)
	for k, g := range p.gs {
		fmt.Fprintf(&b, "func g%d@@() string {\n\ttr := \"\"\n\tx, ok := 0, false\n\t_, _ = x, ok\n", k)
		for i, c := range g.chans {
			switch {
			case c.isNil:
				fmt.Fprintf(&b, "\tvar c%d chan int\n", i)
			case c.cap == 0:
				fmt.Fprintf(&b, "\tc%d := make(chan int)\n", i)
			default:
				fmt.Fprintf(&b, "\tc%d := make(chan int, %d)\n", i, c.cap)
			}
			if c.fed {
				var vs []string
				for _, v := range c.fedVals {
					vs = append(vs, fmt.Sprint(v))
				}
				fmt.Fprintf(&b, "\tgo feed@@(c%d, []int{%s}, %v)\n", i, strings.Join(vs, ", "), c.fedClose)
			} else {
				fmt.Fprintf(&b, "\t_ = c%d\n", i)
			}
		}
		w := &seqWriter{b: &b}
		w.ops(g.ops, 1)
		b.WriteString("\treturn tr\n}\n\n")
	}
	b.WriteString("func @MAIN@() {\n")
	for k := 1; k < len(p.gs); k++ {
		fmt.Fprintf(&b, "\tres%d := make(chan string)\n\tgo func() { res%d <- g%d@@() }()\n", k, k, k)
	}
	if p.mainFirst {
		b.WriteString("\tprintln(\"g0\", g0@@())\n")
	}
	for k := 1; k < len(p.gs); k++ {
		fmt.Fprintf(&b, "\tprintln(\"g%d\", <-res%d)\n", k, k)
	}
	if !p.mainFirst {
		b.WriteString("\tprintln(\"g0\", g0@@())\n")
	}
	b.WriteString("}\n")
	return b.String()
}

// expected is the output according to the simulator (used while shrinking; gc decides).
func (p *seqProg) expected() string { return p.expectedWith(false) }

func (p *seqProg) expectedWith(sharedSendReg bool) string {
	line := func(k int) string {
		tr, _ := simGWith(p.gs[k], sharedSendReg)
		var s strings.Builder
		for _, v := range tr {
			fmt.Fprintf(&s, "%d,", v)
		}
		return fmt.Sprintf("g%d %s\n", k, s.String())
	}
	var out strings.Builder
	if p.mainFirst {
		out.WriteString(line(0))
	}
	for k := 1; k < len(p.gs); k++ {
		out.WriteString(line(k))
	}
	if !p.mainFirst {
		out.WriteString(line(0))
	}
	return out.String()
}

// features names what the program contains (for the histogram).
func (p *seqProg) features() []string {
	seen := map[string]bool{}
	var walk func(ops []sop, inBody bool)
	walk = func(ops []sop, inBody bool) {
		for i, o := range ops {
			switch o.op {
			case 'F':
				seen["opseq:range-until-closed"] = true
				if i+1 < len(ops) {
					seen["opseq:operation-after-range-until-closed"] = true
				}
				if len(o.body) > 0 {
					seen["opseq:operations-in-range-body"] = true
				}
				walk(o.body, true)
			case 'X':
				if o.dflt {
					seen["opseq:select-with-default"] = true
				} else {
					seen["opseq:select-without-default"] = true
				}
				sends := 0
				for _, c := range o.cases {
					if c.send {
						seen["opseq:select-send-case"] = true
						sends++
					}
				}
				if sends > 1 {
					seen["opseq:select-several-send-cases"] = true
				}
			case 'S':
				seen["opseq:send"] = true
			case 'R':
				seen["opseq:receive"] = true
			case 'K':
				seen["opseq:receive-ok"] = true
			case 'C':
				seen["opseq:close"] = true
			case 'L':
				seen["opseq:len-cap"] = true
			case 'Z':
				seen["opseq:channel-set-to-nil"] = true
			}
		}
	}
	for _, g := range p.gs {
		walk(g.ops, false)
		for _, c := range g.chans {
			if c.fed {
				seen["opseq:channel-fed-by-goroutine"] = true
			}
		}
	}
	var out []string
	for k := range seen {
		out = append(out, k)
	}
	return out
}

func (p *seqProg) program() *program {
	return &program{N: 4, M: 2, raw: p.raw(), shapes: append([]string{"opseq"}, p.features()...), seq: p}
}

func genSeq(r *proto.Rand) *program {
	sg := &seqGen{r: r, bias: strictBias}
	p := &seqProg{mainFirst: r.Intn(2) == 0}
	for n := 1 + r.Intn(3); n > 0; n-- {
		p.gs = append(p.gs, genSeqG(sg))
	}
	return p.program()
}

// ---- shrinking ----

// shrinkSeq removes goroutines, operations, select cases and channels feeders' values while the
// program stays acceptable to the simulator and `fails` (the real run differs from the simulator's
// expectation) holds.
func shrinkSeq(p *seqProg, fails func(q *seqProg) bool) *seqProg {
	cur := p
	try := func(q *seqProg) bool {
		for _, g := range q.gs {
			if _, e := simG(g); e != "" {
				return false
			}
		}
		if fails(q) {
			cur = q
			return true
		}
		return false
	}
	// one goroutine alone, as main
	for k := range p.gs {
		if len(cur.gs) > 1 && try(&seqProg{gs: []seqG{p.gs[k]}, mainFirst: true}) {
			break
		}
	}
	for changed := true; changed; {
		changed = false
		for k := range cur.gs {
			g := cur.gs[k]
			for _, cand := range dropOne(g.ops) {
				q := &seqProg{gs: append([]seqG(nil), cur.gs...), mainFirst: cur.mainFirst}
				q.gs[k] = seqG{chans: g.chans, ops: cand}
				if try(q) {
					changed = true
					break
				}
			}
			if changed {
				break
			}
		}
	}
	return cur
}

// dropOne lists the sequences with one operation (or one select case, or one range body) less.
func dropOne(ops []sop) [][]sop {
	var out [][]sop
	for i := range ops {
		rest := append(append([]sop(nil), ops[:i]...), ops[i+1:]...)
		out = append(out, rest)
	}
	for i, o := range ops {
		repl := func(n sop) {
			c := append([]sop(nil), ops...)
			c[i] = n
			out = append(out, c)
		}
		switch o.op {
		case 'F':
			for _, b := range dropOne(o.body) {
				n := o
				n.body = b
				repl(n)
			}
		case 'X':
			if len(o.cases) > 1 {
				for j := range o.cases {
					n := o
					n.cases = append(append([]sCase(nil), o.cases[:j]...), o.cases[j+1:]...)
					repl(n)
				}
			}
			if o.dflt {
				n := o
				n.dflt = false
				repl(n)
			}
		}
	}
	return out
}
