package main

import (
	"fmt"
	"strings"
	"testing/fstest"

	"github.com/open2b/scriggo"
	"github.com/open2b/scriggo/native"
	hook "github.com/open2b/scriggo/verifhook/c07"
)

func render(name, src string, v string) string {
	fsys := fstest.MapFS{name: &fstest.MapFile{Data: []byte(src)}}
	t, err := scriggo.BuildTemplate(fsys, name, &scriggo.BuildOptions{Globals: native.Declarations{"v": (*string)(nil)}})
	if err != nil {
		return "BUILD: " + err.Error()
	}
	var b strings.Builder
	err = t.Run(&b, map[string]any{"v": v}, nil)
	if err != nil {
		return "RUN: " + err.Error()
	}
	return b.String()
}

func main() {
	ch, n, err := hook.Escape("css", "<c", true, true)
	fmt.Printf("%q %d %v\n", ch, n, err)
	v := "<c \"'&= é\xff%41+/"
	for _, t := range [][2]string{
		{"a.html", `<p>{{ v }}</p>`},
		{"a.html", `<p title="{{ v }}">`},
		{"a.html", `<p title='{{ v }}'>`},
		{"a.html", `<p title={{ v }}>`},
		{"a.html", `<script>var a = "{{ v }}";</script>`},
		{"a.html", `<script>var a = '{{ v }}';</script>`},
		{"a.html", `<script type="application/ld+json">{"a": "{{ v }}"}</script>`},
		{"a.html", `<style>a::before{content:"{{ v }}"}</style>`},
		{"a.html", `<style>a::before{content:'{{ v }}'}</style>`},
		{"a.html", `<p style="content:'{{ v }}'">`},
		{"a.html", `<a href="/p?x={{ v }}">`},
		{"a.html", `<a href="/p/{{ v }}">`},
		{"a.html", `<a href=/p?x={{ v }}>`},
		{"a.html", `<a href=/p/{{ v }}>`},
		{"a.js", `var a = "{{ v }}";`},
		{"a.json", `{"a": "{{ v }}"}`},
		{"a.css", `a::before{content:"{{ v }}"}`},
	} {
		fmt.Printf("%s  %s\n   => %q\n", t[0], t[1], render(t[0], t[1], v))
	}
}
