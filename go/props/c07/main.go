package main

import (
	"encoding/json"
	"fmt"
	"html"
	"net/url"
	"os"
	"regexp"
	"strconv"
	"strings"
	"testing/fstest"
	"unicode/utf8"

	"github.com/open2b/scriggo"
	"github.com/open2b/scriggo/native"
	hook "github.com/open2b/scriggo/verifhook/c07"

	"verifharness/internal/hx"
	"verifharness/internal/proto"
)

// C07: escaped values decode back to the exact original text.
//
//   - correspondence: every escaper of internal/runtime/escapers.go (called through the verif
//     hook with a recording writer) against Model/Escape.lean, chunk by chunk;
//   - the property's oracle on the real output, independent of the model: html.UnescapeString,
//     strconv.Unquote + encoding/json + a byte-level JS unescaper, a CSS unescaper written from
//     CSS Syntax 3, url.QueryUnescape / url.PathUnescape;
//   - the same through real templates (BuildTemplate + Run, the value as a global variable in
//     every string-bearing context);
//   - validation of Spec/Decode.lean against the same standard-library decoders.
func main() { hx.Main("C07", run) }

// ---------------------------------------------------------------- real code

type escaper struct {
	name   string // protocol name
	which  string // hook name
	ee, q  bool
	oracle func(s, out string) string // "" or the failing clause
	human  string
}

var escapers = []escaper{
	{"html", "html", false, false, oracleHTML, "htmlEscape(%q)"},
	{"htmlnoent", "htmlnoent", false, false, nil, "htmlNoEntitiesEscape(%q)"},
	{"attr11", "attr", true, true, oracleHTML, "attributeEscape(%q, escapeEntities=true, quoted=true)"},
	{"attr10", "attr", true, false, oracleHTML, "attributeEscape(%q, escapeEntities=true, quoted=false)"},
	{"attr01", "attr", false, true, nil, "attributeEscape(%q, escapeEntities=false, quoted=true)"},
	{"attr00", "attr", false, false, nil, "attributeEscape(%q, escapeEntities=false, quoted=false)"},
	{"css", "css", false, false, oracleCSS, "cssStringEscape(%q)"},
	{"js", "js", false, false, oracleJS, "jsStringEscape(%q)"},
	{"path1", "path", false, true, oraclePath, "pathEscape(%q, quoted=true)"},
	{"path0", "path", false, false, oraclePath, "pathEscape(%q, quoted=false)"},
	{"query", "query", false, false, oracleQuery, "queryEscape(%q)"},
}

func escaperByName(n string) *escaper {
	for i := range escapers {
		if escapers[i].name == n {
			return &escapers[i]
		}
	}
	return nil
}

// callReal runs the real escaper; line is its result in the protocol's canonical form.
func callReal(e *escaper, s string) (out string, line string) {
	defer func() {
		if r := recover(); r != nil {
			out, line = "", "err panic: "+fmt.Sprint(r)
		}
	}()
	chunks, n, err := hook.Escape(e.which, s, e.ee, e.q)
	if err != nil {
		return "", "err error: " + err.Error()
	}
	out = strings.Join(chunks, "")
	if n == -1 {
		n = len(out)
	}
	hs := make([]string, len(chunks))
	for i, c := range chunks {
		hs[i] = proto.Hex([]byte(c))
	}
	cs := "none"
	if len(chunks) > 0 {
		cs = strings.Join(hs, ",")
	}
	return out, fmt.Sprintf("ok %d %s", n, cs)
}

// ---------------------------------------------------------------- oracles (standard decoders)

func oracleHTML(s, out string) string {
	if html.UnescapeString(out) != s {
		return "html-decodes-back"
	}
	return ""
}

// toValid is s with every invalid UTF-8 byte replaced by U+FFFD: what a decoder that works
// on code points (strconv, encoding/json) returns for bytes that are not UTF-8.
func toValid(s string) string { return string([]rune(s)) }

func oracleJS(s, out string) string {
	if d, ok := jsUnescape(out, false); !ok || d != s {
		return "js-decodes-back"
	}
	if d, ok := jsUnescape(out, true); !ok || d != s {
		return "json-decodes-back"
	}
	if d, err := strconv.Unquote(`"` + out + `"`); err != nil || d != toValid(s) {
		return "strconv-unquote"
	}
	var v string
	if err := json.Unmarshal([]byte(`"`+out+`"`), &v); err != nil || v != toValid(s) {
		return "encoding-json"
	}
	return ""
}

// CSS cannot represent U+0000: a NUL, raw or escaped, is U+FFFD (CSS Syntax 3 par. 3.3, 4.3.7).
// This is the property's "target language cannot represent a code point" exception.
func oracleCSS(s, out string) string {
	if cssUnescape(out) != strings.ReplaceAll(s, "\x00", "\ufffd") {
		return "css-decodes-back"
	}
	return ""
}

func oracleQuery(s, out string) string {
	if d, err := url.QueryUnescape(out); err != nil || d != s {
		return "query-decodes-back"
	}
	if d, err := url.PathUnescape(out); err != nil || d != s {
		return "percent-decodes-back"
	}
	if !pctAlphabet(out) {
		return "query-alphabet"
	}
	return ""
}

// pathEscape keeps what already is a percent-encoded triplet and encodes the rest, so the
// rendered attribute value, entity-decoded and then percent-decoded, is the path the author
// wrote with its own %XX decoded (a `%` not followed by two hex digits stands for itself).
func oraclePath(s, out string) string {
	d, err := url.PathUnescape(html.UnescapeString(out))
	if err != nil {
		return "path-output-is-percent-encoded"
	}
	var b strings.Builder
	for i := 0; i < len(s); i++ {
		if s[i] == '%' && i+2 < len(s) && isHex(s[i+1]) && isHex(s[i+2]) {
			b.WriteByte(byte(unhex(s[i+1])<<4 | unhex(s[i+2])))
			i += 2
		} else {
			b.WriteByte(s[i])
		}
	}
	if d != b.String() {
		return "path-decodes-back"
	}
	return ""
}

func isHex(c byte) bool {
	return '0' <= c && c <= '9' || 'a' <= c && c <= 'f' || 'A' <= c && c <= 'F'
}

func unhex(c byte) int {
	switch {
	case '0' <= c && c <= '9':
		return int(c - '0')
	case 'a' <= c && c <= 'f':
		return int(c-'a') + 10
	}
	return int(c-'A') + 10
}

// pctAlphabet: only RFC 3986 unreserved characters and %XX.
func pctAlphabet(out string) bool {
	for i := 0; i < len(out); i++ {
		c := out[i]
		switch {
		case c == '%':
			if i+2 >= len(out) || !isHex(out[i+1]) || !isHex(out[i+2]) {
				return false
			}
			i += 2
		case '0' <= c && c <= '9' || 'a' <= c && c <= 'z' || 'A' <= c && c <= 'Z' || c == '-' || c == '.' || c == '_' || c == '~':
		default:
			return false
		}
	}
	return true
}

// cssUnescape is the value of a CSS string token whose content is in, written from CSS
// Syntax Module Level 3: par. 3.3 preprocessing (CR, FF, CR LF -> LF; NUL -> U+FFFD), par. 4.3.5 consume
// a string token (`\` EOF: nothing; `\` newline: nothing), par. 4.3.7 consume an escaped code point
// (1-6 hex digits, then one whitespace; 0, surrogates and > 0x10FFFF -> U+FFFD). Bytes that are
// not part of an escape are copied.
func cssUnescape(in string) string {
	var b strings.Builder
	pre := func(c byte) {
		switch c {
		case 0:
			b.WriteString("\ufffd")
		case '\f', '\r':
			b.WriteByte('\n')
		default:
			b.WriteByte(c)
		}
	}
	for i := 0; i < len(in); {
		c := in[i]
		if c == '\r' && i+1 < len(in) && in[i+1] == '\n' {
			b.WriteByte('\n')
			i += 2
			continue
		}
		if c != '\\' {
			pre(c)
			i++
			continue
		}
		i++
		if i == len(in) {
			break
		}
		d := in[i]
		switch {
		case d == '\r' && i+1 < len(in) && in[i+1] == '\n':
			i += 2
		case d == '\n' || d == '\f' || d == '\r':
			i++
		case isHex(d):
			v, n := 0, 0
			for n < 6 && i < len(in) && isHex(in[i]) {
				v = v*16 + unhex(in[i])
				i++
				n++
			}
			if i < len(in) {
				switch in[i] {
				case '\r':
					i++
					if i < len(in) && in[i] == '\n' {
						i++
					}
				case '\n', '\f', '\t', ' ':
					i++
				}
			}
			if v == 0 || v > 0x10FFFF || 0xD800 <= v && v <= 0xDFFF {
				v = 0xFFFD
			}
			b.WriteRune(rune(v))
		default:
			pre(d)
			i++
		}
	}
	return b.String()
}

// jsUnescape is the string value (UTF-8) of a JavaScript (strict mode) or JSON string
// literal with body in; ok=false when in is not a valid body between either kind of quote.
// Bytes outside escapes are copied, so it is exact on invalid UTF-8 too.
func jsUnescape(in string, jsonMode bool) (string, bool) {
	var b strings.Builder
	hex4 := func(i int) (int, bool) {
		if i+4 > len(in) {
			return 0, false
		}
		v := 0
		for k := 0; k < 4; k++ {
			if !isHex(in[i+k]) {
				return 0, false
			}
			v = v*16 + unhex(in[i+k])
		}
		return v, true
	}
	for i := 0; i < len(in); {
		c := in[i]
		if c != '\\' {
			if c == '"' || jsonMode && c < 0x20 || !jsonMode && (c == '\'' || c == '\n' || c == '\r') {
				return "", false
			}
			b.WriteByte(c)
			i++
			continue
		}
		i++
		if i == len(in) {
			return "", false
		}
		d := in[i]
		i++
		switch d {
		case 'b':
			b.WriteByte(8)
		case 'f':
			b.WriteByte(12)
		case 'n':
			b.WriteByte(10)
		case 'r':
			b.WriteByte(13)
		case 't':
			b.WriteByte(9)
		case '"', '\\', '/':
			b.WriteByte(d)
		case 'u':
			if !jsonMode && i < len(in) && in[i] == '{' {
				j, v, n := i+1, 0, 0
				for j < len(in) && isHex(in[j]) {
					if v <= 0x10FFFF {
						v = v*16 + unhex(in[j])
					}
					j++
					n++
				}
				if n == 0 || j >= len(in) || in[j] != '}' || v > 0x10FFFF {
					return "", false
				}
				b.WriteRune(rune(v)) // surrogates become U+FFFD
				i = j + 1
				continue
			}
			u, ok := hex4(i)
			if !ok {
				return "", false
			}
			i += 4
			if 0xD800 <= u && u <= 0xDBFF && i+1 < len(in) && in[i] == '\\' && in[i+1] == 'u' {
				if l, ok := hex4(i + 2); ok && 0xDC00 <= l && l <= 0xDFFF {
					b.WriteRune(rune(0x10000 + (u-0xD800)<<10 + (l - 0xDC00)))
					i += 6
					continue
				}
			}
			b.WriteRune(rune(u)) // a lone surrogate becomes U+FFFD
		default:
			if jsonMode {
				return "", false
			}
			switch {
			case d == 'v':
				b.WriteByte(11)
			case d == 'x':
				if i+2 > len(in) || !isHex(in[i]) || !isHex(in[i+1]) {
					return "", false
				}
				b.WriteRune(rune(unhex(in[i])*16 + unhex(in[i+1])))
				i += 2
			case d == '0':
				if i < len(in) && '0' <= in[i] && in[i] <= '9' {
					return "", false
				}
				b.WriteByte(0)
			case '1' <= d && d <= '9':
				return "", false
			case d == '\r':
				if i < len(in) && in[i] == '\n' {
					i++
				}
			case d == '\n':
			case d == 0xE2 && i+1 < len(in) && in[i] == 0x80 && (in[i+1] == 0xA8 || in[i+1] == 0xA9):
				i += 2
			default:
				b.WriteByte(d)
			}
		}
	}
	return b.String(), true
}

// ---------------------------------------------------------------- templates

type tmplCtx struct {
	file, src string
	esc       string // the escaper this context must apply
	tmpl      *scriggo.Template
	pre, post string
}

var tmplCtxs = []*tmplCtx{
	{file: "t.html", src: `<p>{{ v }}</p>`, esc: "html"},
	{file: "t.html", src: `<p title="{{ v }}">`, esc: "attr11"},
	{file: "t.html", src: `<p title='{{ v }}'>`, esc: "attr11"},
	{file: "t.html", src: `<p title={{ v }}>`, esc: "attr10"},
	{file: "t.html", src: `<script>var a = "{{ v }}";</script>`, esc: "js"},
	{file: "t.html", src: `<script>var a = '{{ v }}';</script>`, esc: "js"},
	{file: "t.html", src: `<script type="application/ld+json">{"a": "{{ v }}"}</script>`, esc: "js"},
	{file: "t.js", src: `var a = "{{ v }}";`, esc: "js"},
	{file: "t.json", src: `{"a": "{{ v }}"}`, esc: "js"},
	{file: "t.html", src: `<style>a::before{content:"{{ v }}"}</style>`, esc: "css"},
	{file: "t.html", src: `<style>a::before{content:'{{ v }}'}</style>`, esc: "css"},
	{file: "t.css", src: `a::before{content:"{{ v }}"}`, esc: "css"},
	{file: "t.html", src: `<a href="/p?x={{ v }}">`, esc: "query"},
	{file: "t.html", src: `<a href='/p?x={{ v }}'>`, esc: "query"},
	{file: "t.html", src: `<a href=/p?x={{ v }}>`, esc: "query"},
	{file: "t.html", src: `<a href="/p/{{ v }}">`, esc: "path1"},
	{file: "t.html", src: `<a href=/p/{{ v }}>`, esc: "path0"},
}

func buildTemplates() error {
	for _, t := range tmplCtxs {
		fsys := fstest.MapFS{t.file: &fstest.MapFile{Data: []byte(t.src)}}
		tm, err := scriggo.BuildTemplate(fsys, t.file, &scriggo.BuildOptions{Globals: native.Declarations{"v": (*string)(nil)}})
		if err != nil {
			return fmt.Errorf("template %q does not build: %v", t.src, err)
		}
		t.tmpl = tm
		i := strings.Index(t.src, "{{ v }}")
		t.pre, t.post = t.src[:i], t.src[i+len("{{ v }}"):]
	}
	return nil
}

func (t *tmplCtx) render(s string) (out string, fail string) {
	defer func() {
		if r := recover(); r != nil {
			out, fail = "", "panic: "+fmt.Sprint(r)
		}
	}()
	var b strings.Builder
	if err := t.tmpl.Run(&b, map[string]any{"v": s}, nil); err != nil {
		return "", "error: " + err.Error()
	}
	return b.String(), ""
}

// ---------------------------------------------------------------- inputs

var multiByte = []string{"\u00e9", "\u2028", "\u2029", "\u2027", "\u202a", "\ufffd", "\U0001F600", "\u03cc", "\x80", "\xbf", "\xc3", "\xe2", "\xe2\x80", "\xff", "\xed\xa0\x80", "\xf4\x90\x80\x80", "\xc0\xaf"}

// the property's dictionary: every ASCII byte (each is escape-relevant for at least one of the
// tables or decoders) and a few sequences that matter to a decoder
func dictionary() []string {
	var d []string
	for c := 0; c < 128; c++ {
		d = append(d, string([]byte{byte(c)}))
	}
	d = append(d, "\u2028", "\u2029", "\u00e9", "\xff", "\xe2\x80", "%4", "%41", "%", "\\u", "\\", "&amp;", "&#", "&#x", "&lt", "\r\n", "</", "]]>", "\\3c", "&#34")
	return d
}

func successors() []string {
	var s []string
	for c := 0; c < 128; c++ {
		s = append(s, string([]byte{byte(c)}))
	}
	return append(s, multiByte...)
}

var special = []byte("\"'&<>\\/+%=`;:(){}# \t\n\r\f\x00\x0b\x7fcdefCDEF09abAB-._~?")

func randomString(r *proto.Rand, validUTF8 bool) string {
	n := r.Intn(40)
	var b []byte
	for len(b) < n {
		switch r.Intn(6) {
		case 0, 1:
			b = append(b, special[r.Intn(len(special))])
		case 2:
			b = append(b, byte(r.Intn(128)))
		case 3:
			b = append(b, byte('a'+r.Intn(26)))
		case 4:
			if validUTF8 {
				var cp rune
				switch r.Intn(4) {
				case 0:
					cp = rune(0x80 + r.Intn(0x780))
				case 1:
					cp = rune(0x2020 + r.Intn(16))
				case 2:
					cp = rune(0x800 + r.Intn(0xF800))
				default:
					cp = rune(0x10000 + r.Intn(0x100000))
				}
				if 0xD800 <= cp && cp <= 0xDFFF {
					cp = 0x2028
				}
				b = utf8.AppendRune(b, cp)
			} else {
				b = append(b, byte(0x80+r.Intn(128)))
			}
		default:
			if validUTF8 {
				b = append(b, multiByte[r.Intn(8)]...)
			} else {
				b = append(b, multiByte[r.Intn(len(multiByte))]...)
			}
		}
	}
	return string(b)
}

// ---------------------------------------------------------------- spec validation corpora

var htmlTokens = []string{"&", "&amp;", "&lt;", "&gt;", "&quot;", "&apos;", "&amp", "&lt", "&gt", "&quot", "&apos", "&#", "&#x", "&#X", ";", "0", "1", "9", "34", "39", "x", "f", "F", "128", "80", "9f", "d800", "110000", "fffd", "0000", " ", "z", "=", "<", "\xc3\xa9", "\xff", "#"}
var cssTokens = []string{"\\", "\\\\", "0", "3", "c", "C", "f", "g", "z", " ", "\t", "\n", "\r", "\r\n", "\f", "\x00", "\\3c", "\\10ffff", "\\110000", "\\d800", "\\0", "\\000000", "\"", "'", "\xc3\xa9", "\xff"}
var jsTokens = []string{"\\", "\\\\", "\\u", "\\u0041", "\\u2028", "\\ud83d", "\\ude00", "\\uD83D\\uDE00", "\\x", "\\x41", "\\xe9", "\\u{", "\\u{1F600}", "}", "\\0", "\\1", "\\8", "\\b", "\\v", "\\'", "\\\"", "\\/", "\\a", "\\\n", "\\\r\n", "\\\u2028", "\"", "'", "\n", "\r", "\t", "\x00", "\x1f", "\x7f", "0", "4", "a", "f", "z", "\u2028", "\xc3\xa9", "\xff", "</"}
var pctTokens = []string{"%", "%4", "%41", "%ff", "%FF", "%zz", "%0", "+", "a", "Z", "0", "f", "~", "-", " ", "&", "=", "\xff", "\xc3\xa9"}

func tokenString(r *proto.Rand, toks []string) string {
	var b strings.Builder
	for n := r.Intn(7); n > 0; n-- {
		b.WriteString(toks[r.Intn(len(toks))])
	}
	return b.String()
}

var goHTMLQuirk = regexp.MustCompile(`&#[xX];|&#[0-9]([^0-9;]|$)|&#[xX][0-9a-fA-F]{8}|&#[0-9]{10}`)

func optLine(s string, ok bool) string {
	if !ok {
		return "err invalid"
	}
	return "ok " + proto.Hex([]byte(s))
}

// stdDecode is the standard-library (or Go-written-from-the-standard) answer to `C07 dec`.
// applicable=false when the independent decoder is not defined on this input in the way
// the specification is (encoding/json on invalid UTF-8).
func stdDecode(which, in string) (line string, applicable bool) {
	switch which {
	case "html":
		// html.UnescapeString departs from the standard in three corners: it decides "no digits
		// matched" by position, so `&#x;` becomes U+FFFD and a one-digit decimal reference
		// without `;` is left alone; and it accumulates the number in an int32, so a reference
		// with 8+ hex / 10+ decimal digits wraps around instead of being U+FFFD. Not compared there.
		if goHTMLQuirk.MatchString(in) {
			return "", false
		}
		return optLine(html.UnescapeString(in), true), true
	case "css":
		return optLine(cssUnescape(in), true), true
	case "js":
		d, ok := jsUnescape(in, false)
		return optLine(d, ok), true
	case "json":
		if !utf8.ValidString(in) {
			d, ok := jsUnescape(in, true)
			return optLine(d, ok), true
		}
		var v string
		err := json.Unmarshal([]byte(`"`+in+`"`), &v)
		return optLine(v, err == nil), true
	case "pct0":
		d, err := url.PathUnescape(in)
		return optLine(d, err == nil), true
	case "pct1":
		d, err := url.QueryUnescape(in)
		return optLine(d, err == nil), true
	}
	return "", false
}

// ---------------------------------------------------------------- run

func run(c *hx.Ctx) error {
	res := c.Res
	res.Rule = "inputs: dictionary (all 128 ASCII bytes + 19 decoder-relevant sequences) alone, followed by every ASCII byte and 17 sampled non-ASCII successors (valid and invalid UTF-8), the same after a plain prefix, plus random valid and random invalid UTF-8 (length < 40, biased to escape-relevant bytes); every input goes through all 11 escaper configurations directly and a sample through 17 template contexts; a case (escaper, input) is non-trivial when the input has a byte outside [0-9A-Za-z]; distinct by (escaper, input); plus URL attributes (href/src/action/srcset, quoted and unquoted) assembled from 1-6 segments alternating literal text and shown values, where ? & = # , space and %XX come from text or from values at every position (random shapes and path+parameters shapes): the real renderer call by call and the real template against the model of the URL state machine, and an oracle through the HTML tokenizer and net/url on every unambiguous query-value / path-segment slot; plus whole URL documents from a grammar of URL shapes (href/src/action/srcset with 1-3 candidates and descriptors, quoted and unquoted; scheme/host prefix or a URL-valued base value with its own query; 0-3 path segments, 0-4 parameters with ? & &amp; delimiters, fragment; every component a mix of static text - commas, dots, @ ; + and %41 included - and 0-2 shown values; values built from character-reference look-alikes (&amp; &#38; &copy &lt …), %26 % + # , space = ? / quotes, non-ASCII and invalid UTF-8): the rendered document is tokenized, the attribute split as a browser does (srcset candidates; # ? & =) and every component percent-decoded with net/url, and must be the structure the template spells out with every slot holding the Go string shown; the shapes of the four recorded findings of the URL state machine are not drawn (each is replayed by itself)"

	var inputs []string
	if c.Replay != "" {
		if data, err := os.ReadFile(c.Replay); err == nil {
			var rp struct {
				Case string `json:"case"`
			}
			if json.Unmarshal(data, &rp) == nil {
				if f := strings.Fields(rp.Case); len(f) == 4 && f[0] == "C07" {
					if b, err := proto.UnHex(f[3]); err == nil {
						inputs = append(inputs, string(b))
						res.Notes = append(res.Notes, fmt.Sprintf("replaying %q first", b))
					}
				}
			}
		}
	}
	dict, succ := dictionary(), successors()
	inputs = append(inputs, "")
	for _, d := range dict {
		inputs = append(inputs, d)
		for _, s := range succ {
			inputs = append(inputs, d+s)
		}
	}
	nDict := len(inputs)
	// the same after a plain prefix and with a plain suffix (exercises `last != i`), sampled
	for i := 0; i < c.N(4000, 40000); i++ {
		d, s := dict[c.R.Intn(len(dict))], succ[c.R.Intn(len(succ))]
		switch c.R.Intn(3) {
		case 0:
			inputs = append(inputs, "ab"+d+s)
		case 1:
			inputs = append(inputs, d+s+"yz")
		default:
			inputs = append(inputs, d+s+dict[c.R.Intn(len(dict))]+succ[c.R.Intn(len(succ))])
		}
	}
	nPre := len(inputs) - nDict
	nRand := c.N(6000, 150000)
	for i := 0; i < nRand; i++ {
		inputs = append(inputs, randomString(c.R, i%2 == 0))
	}
	res.Histogram["inputs-dictionary-x-successor"] = nDict
	res.Histogram["inputs-prefixed-suffixed"] = nPre
	res.Histogram["inputs-random-valid-utf8"] = (nRand + 1) / 2
	res.Histogram["inputs-random-invalid-utf8"] = nRand / 2

	if err := buildTemplates(); err != nil {
		return err
	}

	// 0. generated predicates against the real ones, all 256 bytes
	if c.D != nil {
		var lines []string
		for n := 0; n < 256; n++ {
			lines = append(lines, fmt.Sprintf("C07 pred prefix %d", n), fmt.Sprintf("C07 pred ishex %d", n))
		}
		ans, err := c.D.Batch(lines)
		if err != nil {
			return err
		}
		for n := 0; n < 256; n++ {
			for k, real := range []bool{hook.PrefixWithSpace(byte(n)), hook.IsHexDigit(byte(n))} {
				want := "ok 0"
				if real {
					want = "ok 1"
				}
				res.Count(lines[2*n+k], true)
				if ans[2*n+k] != want {
					res.AddBreak(proto.Break{Kind: "correspondence", Name: "generated-predicate-vs-real", Case: lines[2*n+k], Impl: want, Model: ans[2*n+k]})
				}
			}
		}
	}

	plain := func(s string) bool {
		for i := 0; i < len(s); i++ {
			c := s[i]
			if !('0' <= c && c <= '9' || 'a' <= c && c <= 'z' || 'A' <= c && c <= 'Z') {
				return false
			}
		}
		return true
	}
	reported := map[string]bool{}
	propertyBreak := func(e *escaper, s, clause string) {
		if reported[e.name+clause] {
			return
		}
		reported[e.name+clause] = true
		min := hx.ShrinkBytes([]byte(s), func(b []byte) bool {
			out, line := callReal(e, string(b))
			return strings.HasPrefix(line, "ok ") && e.oracle(string(b), out) == clause
		})
		out, _ := callReal(e, string(min))
		res.AddBreak(proto.Break{Kind: "property", Name: e.name + ":" + clause, Case: "C07 esc " + e.name + " " + proto.Hex(min),
			Human: fmt.Sprintf(e.human, min) + fmt.Sprintf(" = %q does not decode back to the input", out), Impl: "ok " + proto.Hex([]byte(out)), Model: "decodes to " + proto.Hex(min)})
	}

	// 1. every escaper on every input: correspondence + oracle; collect outputs for 3.
	type decCase struct{ which, in string }
	var decCases []decCase
	const batch = 20000
	for lo := 0; lo < len(inputs); lo += batch {
		hi := min(lo+batch, len(inputs))
		var lines []string
		for _, s := range inputs[lo:hi] {
			for i := range escapers {
				lines = append(lines, "C07 esc "+escapers[i].name+" "+proto.Hex([]byte(s)))
			}
		}
		var model []string
		if c.D != nil {
			var err error
			if model, err = c.D.Batch(lines); err != nil {
				return err
			}
		}
		k := 0
		for idx, s := range inputs[lo:hi] {
			nontrivial := !plain(s)
			for i := range escapers {
				e := &escapers[i]
				out, line := callReal(e, s)
				res.Count(e.name+"\x00"+s, nontrivial)
				if (lo+idx)%4099 == 0 && nontrivial && i == (lo+idx)%len(escapers) {
					smp := map[string]string{"input": s, "line": lines[k], "impl": line}
					if model != nil {
						smp["model"] = model[k]
					}
					res.Sample(smp)
				}
				if model != nil && model[k] != line {
					res.AddBreak(proto.Break{Kind: "correspondence", Name: "escaper-model-vs-real:" + e.name, Case: lines[k],
						Human: fmt.Sprintf(e.human, s), Impl: line, Model: model[k]})
				}
				if !strings.HasPrefix(line, "ok ") {
					if !reported[e.name+"fails"] {
						reported[e.name+"fails"] = true
						res.AddBreak(proto.Break{Kind: "property", Name: e.name + ":no-error-no-panic", Case: lines[k], Human: fmt.Sprintf(e.human, s), Impl: line, Model: "ok"})
					}
				} else if e.oracle != nil {
					if clause := e.oracle(s, out); clause != "" {
						propertyBreak(e, s, clause)
					}
					if (lo+idx)%3 == 0 {
						switch e.name {
						case "html", "attr10":
							decCases = append(decCases, decCase{"html", out})
						case "css":
							decCases = append(decCases, decCase{"css", out})
						case "js":
							decCases = append(decCases, decCase{"js", out}, decCase{"json", out})
						case "query":
							decCases = append(decCases, decCase{"pct0", out}, decCase{"pct1", out})
						}
					}
				}
				k++
			}
		}
	}
	res.Hist("escaper-configurations-11")

	// 2. through real templates
	step := c.N(7, 1)
	nT := 0
	for idx, s := range inputs {
		if idx >= nDict && idx%step != 0 || idx < nDict && idx%(step*2) != 0 {
			continue
		}
		for _, t := range tmplCtxs {
			e := escaperByName(t.esc)
			if s == "" && strings.HasPrefix(e.name, "path") {
				// nothing to decode; and showInURL indexes s[len(s)-1] in some states (C05's finding)
				continue
			}
			direct, dline := callReal(e, s)
			got, fail := t.render(s)
			nT++
			res.Count("tmpl\x00"+t.src+"\x00"+s, !plain(s))
			if fail != "" || !strings.HasPrefix(dline, "ok ") {
				res.AddBreak(proto.Break{Kind: "property", Name: "template:renders:" + e.name, Case: "C07 esc " + e.name + " " + proto.Hex([]byte(s)),
					Human: fmt.Sprintf("template %s `%s` with v=%q", t.file, t.src, s), Impl: fail + dline, Model: "renders"})
				continue
			}
			if want := t.pre + direct + t.post; got != want {
				res.AddBreak(proto.Break{Kind: "correspondence", Name: "template-vs-direct-escaper:" + e.name, Case: "C07 esc " + e.name + " " + proto.Hex([]byte(s)),
					Human: fmt.Sprintf("template %s `%s` with v=%q", t.file, t.src, s), Impl: got, Model: want})
			}
			// the property on the rendered text itself, whether or not it is what the escaper
			// called directly writes
			if e.oracle != nil && strings.HasPrefix(got, t.pre) && strings.HasSuffix(got, t.post) && len(got) >= len(t.pre)+len(t.post) {
				bodyOf := func(doc string) string { return strings.TrimSuffix(strings.TrimPrefix(doc, t.pre), t.post) }
				if clause := e.oracle(s, bodyOf(got)); clause != "" && !reported["tmpl"+e.name+clause] {
					reported["tmpl"+e.name+clause] = true
					min := string(hx.ShrinkBytes([]byte(s), func(b []byte) bool {
						doc, fail := t.render(string(b))
						return fail == "" && strings.HasPrefix(doc, t.pre) && strings.HasSuffix(doc, t.post) && len(doc) >= len(t.pre)+len(t.post) &&
							e.oracle(string(b), bodyOf(doc)) == clause
					}))
					mdoc, _ := t.render(min)
					res.AddBreak(proto.Break{Kind: "property", Name: "template:" + e.name + ":" + clause, Case: "C07 esc " + e.name + " " + proto.Hex([]byte(min)),
						Human: fmt.Sprintf("template %s `%s` with v=%q renders %q, which does not decode back to v", t.file, t.src, min, mdoc), Impl: "ok " + proto.Hex([]byte(bodyOf(mdoc))), Model: "decodes to " + proto.Hex([]byte(min))})
				}
			}
		}
	}
	res.Histogram["template-renders"] = nT

	// 3. the Lean reference decoders against the standard library (spec validation)
	for i := 0; i < c.N(4000, 60000); i++ {
		decCases = append(decCases,
			decCase{"html", tokenString(c.R, htmlTokens)},
			decCase{"css", tokenString(c.R, cssTokens)},
			decCase{"pct0", tokenString(c.R, pctTokens)},
			decCase{"pct1", tokenString(c.R, pctTokens)})
		j := tokenString(c.R, jsTokens)
		decCases = append(decCases, decCase{"js", j}, decCase{"json", j})
	}
	if c.D != nil {
		lines := make([]string, len(decCases))
		for i, d := range decCases {
			lines[i] = "C07 dec " + d.which + " " + proto.Hex([]byte(d.in))
		}
		ans, err := c.D.Batch(lines)
		if err != nil {
			return err
		}
		for i, d := range decCases {
			want, ok := stdDecode(d.which, d.in)
			if !ok {
				res.SpecChecks["skipped-stdlib-departs-from-standard"]++
				continue
			}
			res.SpecChecks["decode-"+d.which+"-vs-stdlib"]++
			if ans[i] != want {
				res.AddBreak(proto.Break{Kind: "correspondence", Name: "spec-decoder-vs-stdlib:" + d.which, Case: lines[i],
					Human: fmt.Sprintf("decode %s %q", d.which, d.in), Impl: want, Model: ans[i]})
			}
		}
		// alphabet predicate of the spec against the harness's
		var al []string
		for i := 0; i < len(decCases); i += 5 {
			al = append(al, "C07 alpha "+proto.Hex([]byte(decCases[i].in)))
		}
		ans, err = c.D.Batch(al)
		if err != nil {
			return err
		}
		for i := range al {
			want := "ok 0"
			if pctAlphabet(decCases[i*5].in) {
				want = "ok 1"
			}
			res.SpecChecks["pct-alphabet-vs-harness"]++
			if ans[i] != want {
				res.AddBreak(proto.Break{Kind: "correspondence", Name: "spec-alphabet", Case: al[i], Impl: want, Model: ans[i]})
			}
		}
	}
	if err := runURL(c); err != nil {
		return err
	}
	return runURLDoc(c)
}
