package main

import (
	"bytes"
	"fmt"
	"net/url"
	"strings"
	"testing/fstest"

	"github.com/open2b/scriggo"
	"github.com/open2b/scriggo/native"
	c05 "github.com/open2b/scriggo/verifhook/c05"

	"verifharness/internal/hx"
	"verifharness/internal/proto"
	html "verifharness/internal/xnethtml"
)

// URL attributes assembled from several literal texts and shown values: the renderer's URL
// state machine (renderer.Text / showInURL / endURL: inURL, query, addAmpersand,
// removeQuestionMark) decides per value between pathEscape and queryEscape.
//
//   - correspondence A: a real renderer driven call by call (C05's bridge) against
//     Model/URLState + Model/URLRender: bytes written and the four flags after every call;
//   - correspondence B: real templates (BuildTemplate + Run) against the same model run on the
//     calls the template stands for;
//   - oracle (independent of the model): the rendered document is tokenized (x/net/html), the
//     attribute value parsed with net/url, and every value the template puts in an unambiguous
//     query-value slot must come back from url.QueryUnescape of that parameter; every value in
//     an unambiguous path-segment slot from url.PathUnescape of that segment.

type urlSeg struct {
	hole bool
	txt  string // literal text, or the value shown
}

type urlCase struct {
	tag, attr string
	quote     string // `"`, `'` or "" (unquoted)
	segs      []urlSeg
}

func (u *urlCase) isSet() bool { return u.attr == "srcset" }

// source is the template source; holes are {{ v1 }}, {{ v2 }}, …
func (u *urlCase) source() (src string, vars map[string]any) {
	var b strings.Builder
	vars = map[string]any{}
	fmt.Fprintf(&b, "<%s %s=%s", u.tag, u.attr, u.quote)
	n := 0
	for _, s := range u.segs {
		if s.hole {
			n++
			fmt.Fprintf(&b, "{{ v%d }}", n)
			vars[fmt.Sprintf("v%d", n)] = s.txt
		} else {
			b.WriteString(s.txt)
		}
	}
	b.WriteString(u.quote + ">")
	return b.String(), vars
}

func (u *urlCase) human() string {
	src, vars := u.source()
	var vs []string
	for i := 1; i <= len(vars); i++ {
		vs = append(vs, fmt.Sprintf("v%d=%q", i, vars[fmt.Sprintf("v%d", i)]))
	}
	return "template `" + src + "` with " + strings.Join(vs, " ")
}

// calls is the sequence of renderer calls the template stands for (adjacent literal texts are
// one Text call, as the emitter writes them).
func (u *urlCase) calls() []c05.URLCall {
	quoted := u.quote != ""
	calls := []c05.URLCall{{IsText: true, Txt: fmt.Sprintf("<%s %s=%s", u.tag, u.attr, u.quote)}}
	pending := ""
	for _, s := range u.segs {
		if !s.hole {
			pending += s.txt
			continue
		}
		if pending != "" {
			calls = append(calls, c05.URLCall{IsText: true, Txt: pending, InURL: true, IsSet: u.isSet()})
			pending = ""
		}
		calls = append(calls, c05.URLCall{Txt: s.txt, InURL: true, IsSet: u.isSet(), Quoted: quoted})
	}
	if pending != "" {
		calls = append(calls, c05.URLCall{IsText: true, Txt: pending, InURL: true, IsSet: u.isSet()})
	}
	return append(calls, c05.URLCall{IsText: true, Txt: u.quote + ">"})
}

func b01(b bool) string {
	if b {
		return "1"
	}
	return "0"
}

func callsLine(calls []c05.URLCall) string {
	var b strings.Builder
	b.WriteString("C07 url")
	for _, c := range calls {
		if c.IsText {
			fmt.Fprintf(&b, " t %s %s %s", proto.Hex([]byte(c.Txt)), b01(c.InURL), b01(c.IsSet))
		} else {
			fmt.Fprintf(&b, " s %s %s %s", proto.Hex([]byte(c.Txt)), b01(c.InURL), b01(c.Quoted))
		}
	}
	return b.String()
}

// realCalls drives the real renderer; the result is in the protocol's canonical form.
func realCalls(calls []c05.URLCall) (line string, out string) {
	chunks, states, panicked, msg := c05.URL(calls)
	if panicked >= 0 {
		return "err panic at call " + fmt.Sprint(panicked) + ": " + msg, ""
	}
	var b strings.Builder
	for _, cs := range chunks {
		for _, c := range cs {
			b.WriteString(c)
		}
	}
	sts := make([]string, len(states))
	for i, s := range states {
		sts[i] = b01(s.InURL) + b01(s.Query) + b01(s.AddAmpersand) + b01(s.RemoveQuestionMark)
	}
	st := "-"
	if len(sts) > 0 {
		st = strings.Join(sts, ".")
	}
	return "ok " + proto.Hex([]byte(b.String())) + " " + st, b.String()
}

func renderURLTemplate(u *urlCase) (out string, fail string) {
	defer func() {
		if r := recover(); r != nil {
			out, fail = "", "panic: "+fmt.Sprint(r)
		}
	}()
	src, vars := u.source()
	decl := native.Declarations{}
	for k := range vars {
		decl[k] = (*string)(nil)
	}
	fsys := fstest.MapFS{"t.html": &fstest.MapFile{Data: []byte(src)}}
	t, err := scriggo.BuildTemplate(fsys, "t.html", &scriggo.BuildOptions{Globals: decl})
	if err != nil {
		return "", "build: " + err.Error()
	}
	var b bytes.Buffer
	if err := t.Run(&b, vars, nil); err != nil {
		return "", "run: " + err.Error()
	}
	return b.String(), ""
}

// attrValue tokenizes doc and returns the (entity-decoded) value of attribute attr of its
// first start tag.
func attrValue(doc, attr string) (string, bool) {
	z := html.NewTokenizer(strings.NewReader(doc))
	for {
		switch z.Next() {
		case html.ErrorToken:
			return "", false
		case html.StartTagToken, html.SelfClosingTagToken:
			_, has := z.TagName()
			for has {
				var k, v []byte
				k, v, has = z.TagAttr()
				if string(k) == attr {
					return string(v), true
				}
			}
			return "", false
		}
	}
}

// urlOracle checks, on the rendered document, the slots that the template's own structure
// makes unambiguous. It returns the failing clause ("" if none) and how many slots it checked.
//
// A hole is a query-value slot when: the literal right before it ends with `?pN=` (and no `?`
// occurs earlier, in a literal or in a value), or with `&pN=` / `&amp;pN=` (and a `?` does
// occur earlier); no `#` occurs earlier; what follows the hole is the end of the attribute or
// a literal starting with `&` or `#`. Names pN are unique and values never contain `p`.
// A hole is a path-segment slot when no `?`/`#` occurs earlier, the literal before it ends
// with `/dN/`, what follows is the end or a literal starting with `/` or `?`, and the value
// is non-empty and free of `/ ? # %`.
func urlOracle(u *urlCase, doc string) (clause string, detail string, checked int) {
	if u.isSet() {
		return "", "", 0
	}
	val, ok := attrValue(doc, u.attr)
	if !ok {
		return "url-attribute-survives-tokenizer", "attribute " + u.attr + " not found by the HTML tokenizer", 0
	}
	var parsed *url.URL
	sawHash := false
	for i, s := range u.segs {
		if s.hole && i > 0 && !u.segs[i-1].hole && !sawHash {
			lit := u.segs[i-1].txt
			// sawQ/sawHash describe what precedes the literal lit
			next := ""
			atEnd := i == len(u.segs)-1
			nextLit := !atEnd && !u.segs[i+1].hole
			if nextLit {
				next = u.segs[i+1].txt
			}
			name := ""
			if j := strings.LastIndex(lit, "p"); j >= 0 && strings.HasSuffix(lit, "=") {
				name = lit[j : len(lit)-1]
			}
			preQ := questionBefore(u, i-1) // a `?` occurs before this literal
			head := ""
			if name != "" {
				head = lit[:len(lit)-len(name)-1]
			}
			followOK := atEnd || nextLit && (strings.HasPrefix(next, "&") || strings.HasPrefix(next, "#"))
			var delimOK bool
			switch {
			case strings.HasSuffix(head, "?"):
				// the `?` that starts the query: the first of the URL, or the one the renderer drops
				// right after the value that brought the first `?`
				// (not when that value has a second `?` at its very end: finding
				// url-value-ends-with-second-question-mark, the `?` of the text is dropped with
				// nothing in its place)
				valueStarted := head == "?" && i >= 2 && u.segs[i-2].hole && strings.Contains(u.segs[i-2].txt, "?") &&
					!strings.Contains(u.segs[i-2].txt, "#") && !questionBefore(u, i-2) && !endsWithSecondQuestionMark(u.segs[i-2].txt)
				delimOK = !preQ && strings.Count(head, "?") == 1 || valueStarted
			case strings.HasSuffix(head, "&") || strings.HasSuffix(head, "&amp;"):
				delimOK = preQ || strings.Contains(head, "?")
			}
			querySlot := name != "" && !strings.Contains(lit, "#") && followOK && delimOK
			if querySlot {
				if parsed == nil {
					var err error
					if parsed, err = url.Parse(val); err != nil {
						return "", "", checked // not a URL net/url accepts: nothing to assert
					}
				}
				var found []string
				for _, kv := range strings.Split(parsed.RawQuery, "&") {
					if strings.HasPrefix(kv, name+"=") {
						found = append(found, kv[len(name)+1:])
					}
				}
				checked++
				if len(found) != 1 {
					return "url-query-parameter-present", fmt.Sprintf("attribute value %q: query %q has %d parameters named %s, want 1", val, parsed.RawQuery, len(found), name), checked
				}
				if d, err := url.QueryUnescape(found[0]); err != nil || d != s.txt {
					return "url-query-value-decodes-back", fmt.Sprintf("attribute value %q: parameter %s is %q, which decodes to %q, not to the value %q", val, name, found[0], d, s.txt), checked
				}
			}
			if !preQ && !strings.ContainsAny(lit, "?#") && strings.HasSuffix(lit, "/") && s.txt != "" && !strings.ContainsAny(s.txt, "/?#%") &&
				(atEnd || nextLit && (strings.HasPrefix(next, "/") || strings.HasPrefix(next, "?"))) {
				if j := strings.LastIndex(lit, "/d"); j >= 0 {
					marker := lit[j:]
					if parsed == nil {
						var err error
						if parsed, err = url.Parse(val); err != nil {
							return "", "", checked
						}
					}
					ep := parsed.EscapedPath()
					if k := strings.Index(ep, marker); k >= 0 {
						seg := ep[k+len(marker):]
						if e := strings.IndexByte(seg, '/'); e >= 0 {
							seg = seg[:e]
						}
						checked++
						if d, err := url.PathUnescape(seg); err != nil || d != s.txt {
							return "url-path-segment-decodes-back", fmt.Sprintf("attribute value %q: path segment after %s is %q, which decodes to %q, not to the value %q", val, marker, seg, d, s.txt), checked
						}
					}
				}
			}
		}
		if strings.Contains(s.txt, "#") {
			sawHash = true
		}
	}
	return "", "", checked
}

// endsWithSecondQuestionMark: the shape of finding url-value-ends-with-second-question-mark
func endsWithSecondQuestionMark(v string) bool {
	return strings.HasSuffix(v, "?") && strings.Count(v, "?") >= 2
}

func questionBefore(u *urlCase, i int) bool {
	for _, s := range u.segs[:i] {
		if strings.Contains(s.txt, "?") {
			return true
		}
	}
	return false
}

var urlAttrs = [][2]string{{"a", "href"}, {"img", "src"}, {"form", "action"}, {"a", "href"}, {"img", "srcset"}}

var urlValues = []string{"x", "x&y=z", "%41", "1+1", "a#b", "a b", "/q?a=1", "/q?a=1&", "/q?", "q?a", "é", "", "a?b#c", "&", "=", "?", "\"'<>", "a,b", "%", "%zz", "a/b", "http://h/q?a=1", "\xff", "1 2+3&4=5#6"}

func genURLCase(r *proto.Rand) *urlCase {
	at := urlAttrs[r.Intn(len(urlAttrs))]
	u := &urlCase{tag: at[0], attr: at[1], quote: []string{`"`, `"`, `'`, ""}[r.Intn(4)]}
	n := 1 + r.Intn(5)
	k := 0
	lits := func() string {
		k++
		pool := []string{
			fmt.Sprintf("/d%d/", k), fmt.Sprintf("/f%d", k), fmt.Sprintf("?p%d=", k), fmt.Sprintf("&p%d=", k),
			fmt.Sprintf("&amp;p%d=", k), fmt.Sprintf("#h%d", k), fmt.Sprintf("p%d=", k), fmt.Sprintf("/d%d/f?p%d=", k, k),
			fmt.Sprintf("&p%d=1&amp;p%d0=", k, k), fmt.Sprintf("/f%d?", k), "?", "&", "&amp;", "=", "/", "%41", "%4", "+", ",", ", ", " ", "#", "http://h/", ".",
		}
		for {
			l := pool[r.Intn(len(pool))]
			if u.quote == "" && strings.ContainsAny(l, " ") {
				continue
			}
			// the first picks are the structured ones most of the time
			if r.Intn(3) > 0 {
				l = pool[r.Intn(9)]
			}
			return l
		}
	}
	hole := r.Intn(2) == 0
	for i := 0; i < n; i++ {
		if hole {
			v := urlValues[r.Intn(len(urlValues))]
			if r.Intn(6) == 0 {
				v = strings.NewReplacer("p", "q", "d", "e").Replace(randomString(r, r.Intn(2) == 0))
			}
			u.segs = append(u.segs, urlSeg{hole: true, txt: v})
		} else {
			u.segs = append(u.segs, urlSeg{txt: lits()})
		}
		// mostly alternate; sometimes two holes or two literals in a row
		if r.Intn(8) != 0 {
			hole = !hole
		}
	}
	return u
}

// a few fixed shapes that must always be covered
func fixedURLCases() []*urlCase {
	mk := func(quote string, segs ...urlSeg) *urlCase { return &urlCase{tag: "a", attr: "href", quote: quote, segs: segs} }
	T := func(s string) urlSeg { return urlSeg{txt: s} }
	H := func(s string) urlSeg { return urlSeg{hole: true, txt: s} }
	var cs []*urlCase
	for _, q := range []string{`"`, ""} {
		for _, v := range []string{"x&y=z", "%41", "1+1", "a#b", "x"} {
			cs = append(cs,
				mk(q, H("/q?a=1"), T("&p2="), H(v)),
				mk(q, H("/q?a=1"), T("&amp;p2="), H(v)),
				mk(q, H("/q?a=1"), T("?p2="), H(v)),
				mk(q, T("/f1?p1="), H(v), T("&p2="), H(v)),
				mk(q, T("/f1?p1="), H(v), T("&p2="), H(v), T("&p3="), H(v)),
				mk(q, T("/d1/"), H(v), T("?p2="), H(v)),
				mk(q, H("/q"), T("?p2="), H(v), T("#h3")),
			)
		}
	}
	return cs
}

// knownURLFindings replays the recorded findings of the URL state machine on the real engine.
func knownURLFindings(c *hx.Ctx) {
	// url-adjacent-values: a value directly after the value that brought the `?`
	u := &urlCase{tag: "a", attr: "href", quote: `"`, segs: []urlSeg{{hole: true, txt: "/q?p1="}, {hole: true, txt: "1&y=2"}}}
	doc, fail := renderURLTemplate(u)
	if fail != "" {
		return
	}
	val, _ := attrValue(doc, "href")
	pu, err := url.Parse(val)
	if err != nil {
		return
	}
	if got := pu.Query().Get("p1"); got != "1&y=2" {
		c.Res.AddBreak(proto.Break{Kind: "property", Name: "url-query-value-decodes-back", Case: callsLine(u.calls()), Human: u.human() + " renders " + doc,
			Impl: fmt.Sprintf("p1=%q", got), Model: "p1=\"1&y=2\"", Finding: c.Known("url-adjacent-values")})
	}
}

// url-value-ends-with-second-question-mark, replayed on the real engine
func knownSecondQuestionMarkFinding(c *hx.Ctx) {
	u := &urlCase{tag: "a", attr: "href", quote: `"`, segs: []urlSeg{{hole: true, txt: "/q?a=1?"}, {txt: "?p2="}, {hole: true, txt: "x"}}}
	doc, fail := renderURLTemplate(u)
	if fail != "" {
		return
	}
	val, _ := attrValue(doc, "href")
	pu, err := url.Parse(val)
	if err != nil {
		return
	}
	if q := pu.Query(); q.Get("p2") != "x" || q.Get("a") != "1?" {
		c.Res.AddBreak(proto.Break{Kind: "property", Name: "url-query-value-decodes-back", Case: callsLine(u.calls()), Human: u.human() + " renders " + doc,
			Impl: fmt.Sprintf("a=%q p2=%q", q.Get("a"), q.Get("p2")), Model: "a=\"1?\" p2=\"x\"", Finding: c.Known("url-value-ends-with-second-question-mark")})
	}
}

// url-srcset-stale-flags, replayed on the real engine
func knownSrcsetFinding(c *hx.Ctx) {
	u := &urlCase{tag: "img", attr: "srcset", quote: `"`, segs: []urlSeg{{hole: true, txt: "a?b="}, {txt: ", "}, {hole: true, txt: "img"}, {txt: "?w="}, {hole: true, txt: "x&y=z"}, {txt: " 2x"}}}
	alone := &urlCase{tag: "img", attr: "srcset", quote: `"`, segs: u.segs[2:]}
	doc, f1 := renderURLTemplate(u)
	docAlone, f2 := renderURLTemplate(alone)
	if f1 != "" || f2 != "" {
		return
	}
	v1, _ := attrValue(doc, "srcset")
	v2, _ := attrValue(docAlone, "srcset")
	// the second image candidate must not depend on what the first one was
	if i := strings.Index(v1, ", "); i < 0 || v1[i+2:] != v2 {
		c.Res.AddBreak(proto.Break{Kind: "property", Name: "url-query-value-decodes-back", Case: callsLine(u.calls()), Human: u.human() + " renders " + doc,
			Impl: v1, Model: "second candidate " + v2, Finding: c.Known("url-srcset-stale-flags")})
	}
}

// a URL with the usual structure: a path (literal, or a base value that may bring its own
// query), then parameters `?pN=`/`&pN=`/`&amp;pN=` each followed by a value, then maybe `#hN`
func genStructuredURLCase(r *proto.Rand) *urlCase {
	at := urlAttrs[r.Intn(4)]
	u := &urlCase{tag: at[0], attr: at[1], quote: []string{`"`, `'`, ""}[r.Intn(3)]}
	val := func() string {
		if r.Intn(5) == 0 {
			return strings.NewReplacer("p", "q", "d", "e").Replace(randomString(r, r.Intn(2) == 0))
		}
		return urlValues[r.Intn(len(urlValues))]
	}
	hasQ := false
	switch r.Intn(4) {
	case 0:
		u.segs = append(u.segs, urlSeg{txt: "/d1/"}, urlSeg{hole: true, txt: val()})
		hasQ = strings.Contains(u.segs[1].txt, "?")
	case 1:
		base := []string{"/q?a=1", "/q", "/q?a=1&", "/q?", "http://h/q?a=1", "q?a"}[r.Intn(6)]
		u.segs = append(u.segs, urlSeg{hole: true, txt: base})
		hasQ = strings.Contains(base, "?")
	case 2:
		u.segs = append(u.segs, urlSeg{txt: "/f1"})
	}
	for k, n := 2, r.Intn(4); n > 0; n, k = n-1, k+1 {
		delim := []string{"&", "&amp;"}[r.Intn(2)]
		if !hasQ || r.Intn(6) == 0 {
			delim = "?"
		}
		hasQ = true
		u.segs = append(u.segs, urlSeg{txt: fmt.Sprintf("%sp%d=", delim, k)}, urlSeg{hole: true, txt: val()})
	}
	if r.Intn(4) == 0 {
		u.segs = append(u.segs, urlSeg{txt: "#h9"})
	}
	if len(u.segs) == 0 {
		u.segs = append(u.segs, urlSeg{hole: true, txt: val()})
	}
	return u
}

func runURL(c *hx.Ctx) error {
	res := c.Res
	knownURLFindings(c)
	knownSrcsetFinding(c)
	knownSecondQuestionMarkFinding(c)
	var cases []*urlCase
	cases = append(cases, fixedURLCases()...)
	for i := 0; i < c.N(2500, 60000); i++ {
		cases = append(cases, genURLCase(c.R), genStructuredURLCase(c.R))
	}
	lines := make([]string, len(cases))
	for i, u := range cases {
		lines[i] = callsLine(u.calls())
	}
	var model []string
	if c.D != nil {
		var err error
		if model, err = c.D.Batch(lines); err != nil {
			return err
		}
	}
	reported := map[string]bool{}
	checkedSlots := 0
	for i, u := range cases {
		nontrivial := len(u.segs) > 1
		res.Count("url\x00"+lines[i], nontrivial)
		res.Hist(fmt.Sprintf("url-segments-%d", len(u.segs)))
		// A: renderer call by call
		real, realOut := realCalls(u.calls())
		if model != nil && model[i] != real {
			res.AddBreak(proto.Break{Kind: "correspondence", Name: "url-state-machine-model-vs-renderer", Case: lines[i], Human: u.human(), Impl: real, Model: model[i]})
		}
		// B: the real template
		doc, fail := renderURLTemplate(u)
		if fail != "" {
			if strings.HasPrefix(fail, "build:") {
				res.Hist("url-template-does-not-build")
				continue
			}
			if !reported["renders"] {
				reported["renders"] = true
				res.AddBreak(proto.Break{Kind: "property", Name: "url-template-renders", Case: lines[i], Human: u.human(), Impl: fail, Model: "renders"})
			}
			continue
		}
		if strings.HasPrefix(real, "ok ") && doc != realOut {
			res.AddBreak(proto.Break{Kind: "correspondence", Name: "url-template-vs-renderer-calls", Case: lines[i], Human: u.human(), Impl: doc, Model: realOut})
		}
		if i == 3 || i%997 == 0 {
			res.Sample(map[string]string{"template": u.human(), "line": lines[i], "rendered": doc})
		}
		// oracle
		clause, detail, n := urlOracle(u, doc)
		checkedSlots += n
		if clause != "" && !reported[clause] {
			reported[clause] = true
			min := shrinkURLCase(u, clause)
			mdoc, _ := renderURLTemplate(min)
			_, mdetail, _ := urlOracle(min, mdoc)
			if mdetail == "" {
				min, mdoc, mdetail = u, doc, detail
			}
			res.AddBreak(proto.Break{Kind: "property", Name: clause, Case: callsLine(min.calls()), Human: min.human() + " renders `" + mdoc + "`: " + mdetail, Impl: mdoc, Model: "every value decodes back from its slot"})
		}
	}
	res.Histogram["url-slots-checked-by-oracle"] = checkedSlots
	return nil
}

// shrinkURLCase drops segments and simplifies values while the same clause keeps failing.
func shrinkURLCase(u *urlCase, clause string) *urlCase {
	fails := func(x *urlCase) bool {
		doc, fail := renderURLTemplate(x)
		if fail != "" {
			return false
		}
		cl, _, _ := urlOracle(x, doc)
		return cl == clause
	}
	cur := u
	for changed := true; changed; {
		changed = false
		for i := range cur.segs {
			cand := &urlCase{tag: cur.tag, attr: cur.attr, quote: cur.quote}
			cand.segs = append(append([]urlSeg{}, cur.segs[:i]...), cur.segs[i+1:]...)
			if len(cand.segs) > 0 && fails(cand) {
				cur, changed = cand, true
				break
			}
		}
	}
	for i, s := range cur.segs {
		if !s.hole {
			continue
		}
		for _, v := range []string{"x", "x&y", "/q?a=1"} {
			if len(v) >= len(s.txt) {
				continue
			}
			cand := &urlCase{tag: cur.tag, attr: cur.attr, quote: cur.quote, segs: append([]urlSeg{}, cur.segs...)}
			cand.segs[i].txt = v
			if fails(cand) {
				cur = cand
				break
			}
		}
	}
	return cur
}
