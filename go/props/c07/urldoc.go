package main

import (
	"fmt"
	"net/url"
	"strings"

	"verifharness/internal/hx"
	"verifharness/internal/proto"
)

// The property's own oracle applied to whole rendered documents ("what a browser makes of the
// attribute"), on URL attributes drawn from a grammar of URL shapes in which every shown value
// has a known role.
//
//	attribute  = candidate                       href, src, action
//	           | candidate (", " candidate)*     srcset (each with an optional descriptor)
//	candidate  = prefix (base | ("/" comp)*) [("?"|"&"|"&amp;") param (("&"|"&amp;") param)*] ["#" comp]
//	param      = comp ["=" comp]
//	comp       = (literal | {{ value }})*
//	base       = {{ value }}                     a URL-valued value: a path that may bring its own query
//
// Literals come from a pool of static texts an author writes (commas, dots, `@`, `;`, `%41`,
// `+` included; never a bare `&`, a truncated `%X` or — outside the delimiters — `? # /`).
// Roles: a value in a path segment is written by pathEscape (which keeps the value's own %XX
// on purpose), a value in a query key, a query value or the fragment by queryEscape.
//
// Oracle, independent of the model and of the escapers: the rendered document is tokenized
// (x/net/html: finds the attribute and entity-decodes its value), a srcset value is split
// into its image candidates as HTML prescribes, each URL is split as a browser does — at the
// first `#`, then at the first `?`, the query at every `&`, each parameter at its first `=` —
// and every component is percent-decoded with net/url (PathUnescape for path and fragment,
// QueryUnescape for keys and values). The result must be the structure the template spells
// out, with every slot holding exactly the Go string that was shown (a path value: that string
// with its own %XX decoded).

type udPart struct {
	slot bool
	txt  string
}

type udComp []udPart

type udParam struct {
	delim    string // "?", "&" or "&amp;"
	key, val udComp
	eq       bool
}

type udCand struct {
	prefix  string
	hasBase bool
	base    string
	segs    []udComp
	params  []udParam
	hasFrag bool
	frag    udComp
	desc    string // srcset descriptor without the leading space, or ""
}

type udCase struct {
	tag, attr, quote string
	cands            []udCand
}

func (d *udCase) isSet() bool { return d.attr == "srcset" }

// flat is the case as a sequence of literal texts and shown values.
func (d *udCase) flat() *urlCase {
	u := &urlCase{tag: d.tag, attr: d.attr, quote: d.quote}
	lit := func(s string) {
		if s == "" {
			return
		}
		if n := len(u.segs); n > 0 && !u.segs[n-1].hole {
			u.segs[n-1].txt += s
			return
		}
		u.segs = append(u.segs, urlSeg{txt: s})
	}
	comp := func(c udComp) {
		for _, p := range c {
			if p.slot {
				u.segs = append(u.segs, urlSeg{hole: true, txt: p.txt})
			} else {
				lit(p.txt)
			}
		}
	}
	for i := range d.cands {
		c := &d.cands[i]
		if i > 0 {
			lit(", ")
		}
		lit(c.prefix)
		if c.hasBase {
			u.segs = append(u.segs, urlSeg{hole: true, txt: c.base})
		}
		for _, s := range c.segs {
			lit("/")
			comp(s)
		}
		for _, p := range c.params {
			lit(p.delim)
			comp(p.key)
			if p.eq {
				lit("=")
				comp(p.val)
			}
		}
		if c.hasFrag {
			lit("#")
			comp(c.frag)
		}
		if c.desc != "" {
			lit(" " + c.desc)
		}
	}
	return u
}

// ---------------------------------------------------------------- what the template spells out

type udKV struct {
	key, val string
	eq       bool
}

type udURL struct {
	path    string
	params  []udKV
	hasFrag bool
	frag    string
	desc    string
}

// ownDecode is percent-decoding of a text that already carries its own escapes (a literal the
// author wrote, or a value shown in a path, where pathEscape keeps them on purpose): `%XX` is
// the byte, a `%` that is not followed by two hex digits stands for itself.
func ownDecode(s string, plusAsSpace bool) string {
	var b strings.Builder
	for i := 0; i < len(s); i++ {
		switch {
		case s[i] == '%' && i+2 < len(s) && isHex(s[i+1]) && isHex(s[i+2]):
			b.WriteByte(byte(unhex(s[i+1])<<4 | unhex(s[i+2])))
			i += 2
		case s[i] == '+' && plusAsSpace:
			b.WriteByte(' ')
		default:
			b.WriteByte(s[i])
		}
	}
	return b.String()
}

const (
	rolePath = iota
	roleQuery
	roleFrag
)

func (c udComp) expect(role int) string {
	var b strings.Builder
	for _, p := range c {
		switch {
		case p.slot && role == rolePath:
			b.WriteString(ownDecode(p.txt, false))
		case p.slot:
			b.WriteString(p.txt)
		default:
			b.WriteString(ownDecode(p.txt, role == roleQuery))
		}
	}
	return b.String()
}

// splitURL splits a URL as a browser does; nothing is decoded.
func splitURL(s string) (path string, query string, hasQuery bool, frag string, hasFrag bool) {
	if i := strings.IndexByte(s, '#'); i >= 0 {
		s, frag, hasFrag = s[:i], s[i+1:], true
	}
	if i := strings.IndexByte(s, '?'); i >= 0 {
		s, query, hasQuery = s[:i], s[i+1:], true
	}
	return s, query, hasQuery, frag, hasFrag
}

func splitQuery(q string) [][3]string {
	var out [][3]string
	for _, kv := range strings.Split(q, "&") {
		if kv == "" {
			continue
		}
		if i := strings.IndexByte(kv, '='); i >= 0 {
			out = append(out, [3]string{kv[:i], kv[i+1:], "="})
		} else {
			out = append(out, [3]string{kv, "", ""})
		}
	}
	return out
}

func (c *udCand) expect() udURL {
	e := udURL{desc: c.desc}
	var path strings.Builder
	path.WriteString(c.prefix)
	if c.hasBase {
		// the base is shown by pathEscape: it is a URL text of its own, which keeps its %XX
		p, q, _, _, _ := splitURL(c.base)
		path.WriteString(ownDecode(p, false))
		for _, kv := range splitQuery(q) {
			e.params = append(e.params, udKV{ownDecode(kv[0], true), ownDecode(kv[1], true), kv[2] != ""})
		}
	}
	for _, s := range c.segs {
		path.WriteString("/" + s.expect(rolePath))
	}
	e.path = path.String()
	for _, p := range c.params {
		kv := udKV{key: p.key.expect(roleQuery), eq: p.eq}
		if p.eq {
			kv.val = p.val.expect(roleQuery)
		}
		if kv.key == "" && !kv.eq {
			continue
		}
		e.params = append(e.params, kv)
	}
	if c.hasFrag {
		e.hasFrag, e.frag = true, c.frag.expect(roleFrag)
	}
	return e
}

// ---------------------------------------------------------------- what a browser sees

func isHTMLSpace(c byte) bool { return c == ' ' || c == '\t' || c == '\n' || c == '\f' || c == '\r' }

// parseSrcset is HTML's "parse a srcset attribute" as far as splitting goes: the URL of each
// image candidate string and its descriptors (as one trimmed string).
func parseSrcset(s string) (urls, descs []string) {
	i := 0
	for {
		for i < len(s) && (isHTMLSpace(s[i]) || s[i] == ',') {
			i++
		}
		if i >= len(s) {
			return
		}
		j := i
		for j < len(s) && !isHTMLSpace(s[j]) {
			j++
		}
		u := s[i:j]
		i = j
		desc := ""
		if strings.HasSuffix(u, ",") {
			u = strings.TrimRight(u, ",")
		} else {
			k, paren := i, 0
			for k < len(s) && (s[k] != ',' || paren > 0) {
				switch s[k] {
				case '(':
					paren++
				case ')':
					if paren > 0 {
						paren--
					}
				}
				k++
			}
			desc = strings.Trim(s[i:k], " \t\n\f\r")
			i = k
		}
		urls, descs = append(urls, u), append(descs, desc)
	}
}

// seenURL decodes one URL of the attribute value; clause != "" when a component is not
// percent-encoded text at all.
func seenURL(raw string) (e udURL, clause, detail string) {
	p, q, _, f, hasFrag := splitURL(raw)
	var err error
	if e.path, err = url.PathUnescape(p); err != nil {
		return e, "url-path-decodes-back", fmt.Sprintf("path %q: %v", p, err)
	}
	for _, kv := range splitQuery(q) {
		k, err1 := url.QueryUnescape(kv[0])
		v, err2 := url.QueryUnescape(kv[1])
		if err1 != nil {
			return e, "url-query-key-decodes-back", fmt.Sprintf("query key %q: %v", kv[0], err1)
		}
		if err2 != nil {
			return e, "url-query-value-decodes-back", fmt.Sprintf("query value %q of %q: %v", kv[1], kv[0], err2)
		}
		e.params = append(e.params, udKV{k, v, kv[2] != ""})
	}
	if hasFrag {
		e.hasFrag = true
		if e.frag, err = url.PathUnescape(f); err != nil {
			return e, "url-fragment-decodes-back", fmt.Sprintf("fragment %q: %v", f, err)
		}
	}
	return e, "", ""
}

// udOracle: the failing clause ("" if none) and a description.
func udOracle(d *udCase, doc string) (clause, detail string) {
	val, ok := attrValue(doc, d.attr)
	if !ok {
		return "url-attribute-survives-tokenizer", "attribute " + d.attr + " not found by the HTML tokenizer"
	}
	urls, descs := []string{val}, []string{""}
	if d.isSet() {
		urls, descs = parseSrcset(val)
	}
	if len(urls) != len(d.cands) {
		return "url-srcset-candidates", fmt.Sprintf("attribute value %q has %d image candidates, the template spells out %d", val, len(urls), len(d.cands))
	}
	for i := range d.cands {
		want := d.cands[i].expect()
		got, cl, det := seenURL(urls[i])
		where := fmt.Sprintf("attribute value %q", val)
		if d.isSet() {
			where += fmt.Sprintf(", candidate %d %q", i+1, urls[i])
		}
		if cl != "" {
			return cl, where + ": " + det
		}
		if descs[i] != want.desc {
			return "url-srcset-candidates", fmt.Sprintf("%s: descriptor %q, want %q", where, descs[i], want.desc)
		}
		if got.path != want.path {
			return "url-path-decodes-back", fmt.Sprintf("%s: the path decodes to %q, the template spells out %q", where, got.path, want.path)
		}
		for k := 0; k < len(got.params) && k < len(want.params); k++ {
			g, w := got.params[k], want.params[k]
			if g.key != w.key {
				return "url-query-key-decodes-back", fmt.Sprintf("%s: parameter %d is named %q, the template spells out %q", where, k+1, g.key, w.key)
			}
			if g.val != w.val || g.eq != w.eq {
				if g.eq != w.eq {
					return "url-query-value-decodes-back", fmt.Sprintf("%s: parameter %q has a value (`=`): %v, the template spells out: %v", where, g.key, g.eq, w.eq)
				}
				return "url-query-value-decodes-back", fmt.Sprintf("%s: parameter %q decodes to %q, the template spells out %q", where, g.key, g.val, w.val)
			}
		}
		if len(got.params) != len(want.params) {
			return "url-query-value-decodes-back", fmt.Sprintf("%s: the query has %d parameters, the template spells out %d", where, len(got.params), len(want.params))
		}
		if got.hasFrag != want.hasFrag || got.frag != want.frag {
			return "url-fragment-decodes-back", fmt.Sprintf("%s: the fragment decodes to %q (present: %v), the template spells out %q (present: %v)", where, got.frag, got.hasFrag, want.frag, want.hasFrag)
		}
	}
	return "", ""
}

// ---------------------------------------------------------------- generator

// character-reference look-alikes and everything else that means something to one of the
// two decoders (entity, percent) or to the URL splitter
var udValueTokens = []string{
	"&amp;", "&amp", "&#38;", "&#x26;", "&#38", "&copy", "&copy;", "&lt", "&lt;", "&gt;", "&para", "&reg", "&quot;", "&apos;", "&nbsp;", "&#",
	"&#;", "&", "&&", ";", "amp;", "%26", "%", "%4", "%41", "%zz", "%2", "+", "#", ",", " ", "=", "?", "/", "a", "x1", "Q", "A", "copy", "lt",
	"é", "\"", "'", "<", ">", "`", "\xff", "\t", "\n", "\x00", ":", "@", ".", "-", "~", "*", "\\", "€", "1", "y=z",
}

var udLiterals = []string{"a", "b2", "x-y", "a,b", "1,2,3", "45.1,9.2", "@", ",", "v.", "_", "~t", "%41", "%2C", "+", ";", ":", "en", "0", "f.png", "(1)", "!", "$", "*", "a,"}
var udKeyLiterals = []string{"q", "tags", "x1", "id", "k", "u2", "w", "n,m"}

func udValue(r *proto.Rand, role int, inSet bool) string {
	var b strings.Builder
	switch r.Intn(8) {
	case 0:
		b.WriteString(urlValues[r.Intn(len(urlValues))])
	case 1:
		b.WriteString(randomString(r, r.Intn(2) == 0))
	default:
		for n := 1 + r.Intn(4); n > 0; n-- {
			b.WriteString(udValueTokens[r.Intn(len(udValueTokens))])
		}
	}
	s := b.String()
	if role == rolePath {
		// a value with `?` or `#` in the path starts the query or the fragment by itself: that is
		// the base role
		s = strings.NewReplacer("?", "q", "#", "h").Replace(s)
		if inSet {
			// in a srcset white space ends the URL and a comma may end the candidate: pathEscape
			// is not meant for them (the property is about query values)
			s = strings.Map(func(c rune) rune {
				if c == ',' || c < 0x80 && isHTMLSpace(byte(c)) {
					return '_'
				}
				return c
			}, s)
		}
	}
	return s
}

func udGenComp(r *proto.Rand, role int, inSet bool, pool []string) udComp {
	var c udComp
	lit := func() {
		for {
			l := pool[r.Intn(len(pool))]
			if inSet && strings.Contains(l, ",") {
				continue
			}
			c = append(c, udPart{txt: l})
			return
		}
	}
	switch r.Intn(10) {
	case 0, 1, 2, 3:
		c = append(c, udPart{slot: true, txt: udValue(r, role, inSet)})
	case 4, 5:
		lit()
	case 6:
		lit()
		c = append(c, udPart{slot: true, txt: udValue(r, role, inSet)})
	case 7:
		c = append(c, udPart{slot: true, txt: udValue(r, role, inSet)})
		lit()
	case 8:
		lit()
		c = append(c, udPart{slot: true, txt: udValue(r, role, inSet)})
		lit()
	default:
		c = append(c, udPart{slot: true, txt: udValue(r, role, inSet)}, udPart{slot: true, txt: udValue(r, role, inSet)})
	}
	return c
}

var udBasePaths = []string{"/q", "q", "/p/a%20b", "http://h/q", "/a,b/c", "/Q&amp;A", "/x+y", "/é", "//h/i.png", ""}

func udGenBase(r *proto.Rand, inSet bool) string {
	if r.Intn(3) == 0 {
		pool := []string{"/q?a=1", "/q", "/q?a=1&", "/q?", "http://h/q?a=1", "q?a", "/q?a=1&b=2", "/q?a=Q%26A", "/q?a=1&amp;b=2", "/q?a=&lt;&copy", "/q?a=1+1&", "/q?a=%"}
		return pool[r.Intn(len(pool))]
	}
	for {
		b := udBasePaths[r.Intn(len(udBasePaths))]
		if inSet && (strings.Contains(b, ",") || b == "") {
			continue
		}
		{
			for n := r.Intn(3); n > 0; n-- {
				sep := "&"
				if !strings.Contains(b, "?") {
					sep = "?"
				}
				v := strings.NewReplacer("?", "", "#", "").Replace(udValue(r, roleQuery, false))
				b += sep + []string{"a", "b", "c1"}[r.Intn(3)] + "=" + v
			}
		}
		return b
	}
}

func udGenCand(r *proto.Rand, d *udCase) udCand {
	inSet, unq := d.isSet(), d.quote == ""
	var c udCand
	hasQ := false
	switch r.Intn(5) {
	case 0:
		c.hasBase, c.base = true, udGenBase(r, inSet)
		hasQ = strings.Contains(c.base, "?")
	default:
		c.prefix = []string{"", "", "", "http://h", "//h.example", "https://h:8080"}[r.Intn(6)]
		for n := r.Intn(4); n > 0; n-- {
			c.segs = append(c.segs, udGenComp(r, rolePath, inSet, udLiterals))
		}
	}
	nParams := []int{0, 1, 1, 2, 2, 3, 4}[r.Intn(7)]
	for k := 0; k < nParams; k++ {
		var p udParam
		p.key = udComp{{txt: udKeyLiterals[r.Intn(len(udKeyLiterals))]}}
		if inSet {
			p.key = udComp{{txt: []string{"q", "w", "x1"}[r.Intn(3)]}}
		}
		if r.Intn(5) == 0 {
			p.key = udGenComp(r, roleQuery, inSet, udKeyLiterals)
		}
		switch {
		case k == 0 && !hasQ:
			p.delim = "?"
		case k == 0:
			p.delim = []string{"?", "&", "&amp;"}[r.Intn(3)]
		default:
			p.delim = []string{"&", "&amp;"}[r.Intn(2)]
		}
		// a bare `&` in front of a value is an ambiguous ampersand the author wrote
		if p.delim == "&" && len(p.key) > 0 && p.key[0].slot {
			p.delim = "&amp;"
		}
		p.eq = r.Intn(8) != 0
		if p.eq {
			p.val = udGenComp(r, roleQuery, inSet, udLiterals)
			if r.Intn(12) == 0 {
				p.val = nil
			}
		}
		c.params = append(c.params, p)
	}
	if r.Intn(4) == 0 {
		c.hasFrag = true
		c.frag = udGenComp(r, roleFrag, inSet, udLiterals)
	}
	if inSet && !unq && r.Intn(4) != 0 {
		c.desc = []string{"1x", "2x", "1.5x", "100w", "640w"}[r.Intn(5)]
	}
	return c
}

func udGen(r *proto.Rand) *udCase {
	for {
		at := urlAttrs[r.Intn(len(urlAttrs))]
		d := &udCase{tag: at[0], attr: at[1], quote: []string{`"`, `"`, `'`, ""}[r.Intn(4)]}
		n := 1
		if d.isSet() && d.quote != "" {
			n = 1 + r.Intn(3)
		}
		for i := 0; i < n; i++ {
			d.cands = append(d.cands, udGenCand(r, d))
		}
		if d.valid() {
			return d
		}
	}
}

// valid tells whether the case is one the stream draws: well-formed for the template lexer
// and the HTML tokenizer, and outside the shapes of the recorded findings of the URL state
// machine (which are replayed by themselves at the start of every run). The shrinker keeps
// to it as well, so a failing case cannot shrink into one of those shapes.
func (d *udCase) valid() bool {
	u := d.flat()
	if len(u.segs) == 0 {
		return false
	}
	hasSlot := false
	for i, s := range u.segs {
		if s.hole {
			hasSlot = true
			continue
		}
		if d.quote == "" && strings.ContainsAny(s.txt, " \t\n\f\r\"'`<>") {
			return false
		}
		if strings.Contains(s.txt, d.quote) && d.quote != "" {
			return false
		}
		if strings.Contains(s.txt, "{") || strings.Contains(s.txt, "}") {
			return false
		}
		// unquoted: the value must not be empty and must not end the tag early
		if d.quote == "" && i == len(u.segs)-1 && strings.HasSuffix(s.txt, "/") {
			return false
		}
	}
	if !hasSlot {
		return false
	}
	for i := range d.cands {
		c := &d.cands[i]
		// an empty URL is no candidate / no URL at all
		if c.prefix == "" && !c.hasBase && len(c.segs) == 0 && d.isSet() {
			return false
		}
		if c.hasBase && d.isSet() && (c.base == "" || strings.ContainsAny(c.base, ", \t\n\f\r")) {
			return false
		}
		// finding url-srcset-stale-flags: in a srcset a value that brings the `?` when the static
		// text right after it is the one with the comma that ends its candidate (no other value
		// of that URL in between): that text does not reset the flags the value has set
		if d.isSet() && c.hasBase && strings.Contains(c.base, "?") && i < len(d.cands)-1 {
			slotAfter := false
			for _, p := range c.params {
				for _, x := range append(append(udComp{}, p.key...), p.val...) {
					slotAfter = slotAfter || x.slot
				}
			}
			for _, x := range c.frag {
				slotAfter = slotAfter || c.hasFrag && x.slot
			}
			if !slotAfter {
				return false
			}
		}
		// the base role: nothing of it may start the fragment
		if c.hasBase && strings.Contains(c.base, "#") {
			return false
		}
		// path values: no `?`/`#` (base role); in a srcset no white space or comma
		for _, s := range c.segs {
			for _, p := range s {
				if p.slot && strings.ContainsAny(p.txt, "?#") {
					return false
				}
				if p.slot && d.isSet() && strings.ContainsAny(p.txt, ", \t\n\f\r") {
					return false
				}
				if !p.slot && d.isSet() && strings.Contains(p.txt, ",") {
					return false
				}
			}
		}
		// (finding url-adjacent-values cannot arise: a base is always followed by a literal)
		// finding url-lone-question-mark-text: after a base that brought the `?` (and does not end
		// with `&` or `?`) a literal that is just `?` is dropped without the `&amp;` that replaces it
		if udLoneQuestionMark(c) {
			return false
		}
		// finding url-value-ends-with-second-question-mark
		if c.hasBase && endsWithSecondQuestionMark(c.base) && len(c.params) > 0 && c.params[0].delim == "?" {
			return false
		}
		for _, p := range c.params {
			if p.delim == "&" && len(p.key) > 0 && p.key[0].slot {
				return false
			}
			if len(p.key) == 0 {
				return false
			}
		}
	}
	if d.isSet() {
		// finding url-srcset-comma-text-hides-query: a literal text with a comma is not looked
		// at for `?`/`#`, so a query that starts in the same text as the candidate separator
		// goes unnoticed. Also no comma inside the URLs of a set.
		for _, s := range u.segs {
			if s.hole {
				continue
			}
			if i := strings.LastIndexByte(s.txt, ','); i >= 0 && strings.ContainsAny(s.txt[i:], "?#") {
				return false
			}
			for i := 0; i < len(s.txt); i++ {
				if s.txt[i] == ',' && !(i+1 < len(s.txt) && s.txt[i+1] == ' ') {
					return false
				}
			}
		}
		// a candidate's URL must not be empty or end with a comma of its own, and unquoted sets
		// have one candidate
		if d.quote == "" && len(d.cands) > 1 {
			return false
		}
	}
	return true
}

// udLoneQuestionMark: the shape of finding url-lone-question-mark-text
func udLoneQuestionMark(c *udCand) bool {
	if !c.hasBase || !strings.Contains(c.base, "?") || len(c.params) == 0 {
		return false
	}
	if last := c.base[len(c.base)-1]; last == '&' || last == '?' {
		return false
	}
	p := c.params[0]
	return p.delim == "?" && len(p.key) > 0 && p.key[0].slot
}

// ---------------------------------------------------------------- shrinking

func (d *udCase) clone() *udCase {
	n := &udCase{tag: d.tag, attr: d.attr, quote: d.quote}
	cc := func(c udComp) udComp { return append(udComp(nil), c...) }
	for _, c := range d.cands {
		m := c
		m.segs = nil
		for _, s := range c.segs {
			m.segs = append(m.segs, cc(s))
		}
		m.params = nil
		for _, p := range c.params {
			m.params = append(m.params, udParam{p.delim, cc(p.key), cc(p.val), p.eq})
		}
		m.frag = cc(c.frag)
		n.cands = append(n.cands, m)
	}
	return n
}

// comps returns pointers to every component of the case
func (d *udCase) comps() []*udComp {
	var out []*udComp
	for i := range d.cands {
		c := &d.cands[i]
		for k := range c.segs {
			out = append(out, &c.segs[k])
		}
		for k := range c.params {
			out = append(out, &c.params[k].key, &c.params[k].val)
		}
		out = append(out, &c.frag)
	}
	return out
}

func udFails(d *udCase, clause string) bool {
	if !d.valid() {
		return false
	}
	doc, fail := renderURLTemplate(d.flat())
	if fail != "" {
		return false
	}
	cl, _ := udOracle(d, doc)
	return cl == clause
}

func udShrink(d *udCase, clause string) *udCase {
	cur := d
	try := func(mut func(n *udCase) bool) bool {
		n := cur.clone()
		if !mut(n) {
			return false
		}
		if udFails(n, clause) {
			cur = n
			return true
		}
		return false
	}
	for changed := true; changed; {
		changed = false
		// candidates
		for i := 0; i < len(cur.cands) && len(cur.cands) > 1; i++ {
			if try(func(n *udCase) bool { n.cands = append(n.cands[:i], n.cands[i+1:]...); return true }) {
				changed = true
				i--
			}
		}
		for i := range cur.cands {
			// whole parts of a candidate
			for k := 0; k < len(cur.cands[i].params); k++ {
				if try(func(n *udCase) bool {
					c := &n.cands[i]
					c.params = append(c.params[:k], c.params[k+1:]...)
					if k == 0 && len(c.params) > 0 && !(c.hasBase && strings.Contains(c.base, "?")) {
						c.params[0].delim = "?"
					}
					return true
				}) {
					changed = true
					k--
				}
			}
			for k := 0; k < len(cur.cands[i].segs); k++ {
				if try(func(n *udCase) bool { c := &n.cands[i]; c.segs = append(c.segs[:k], c.segs[k+1:]...); return true }) {
					changed = true
					k--
				}
			}
			for _, f := range []func(c *udCand) bool{
				func(c *udCand) bool { ok := c.hasFrag; c.hasFrag, c.frag = false, nil; return ok },
				func(c *udCand) bool { ok := c.desc != ""; c.desc = ""; return ok },
				func(c *udCand) bool { ok := c.prefix != ""; c.prefix = ""; return ok },
				func(c *udCand) bool {
					ok := c.hasBase
					c.hasBase, c.base = false, ""
					if ok && len(c.params) > 0 {
						c.params[0].delim = "?"
					}
					if ok {
						c.segs = append([]udComp{{{txt: "a"}}}, c.segs...)
					}
					return ok
				},
			} {
				if try(func(n *udCase) bool { return f(&n.cands[i]) }) {
					changed = true
				}
			}
		}
		// parts of components
		for ci := range cur.comps() {
			for k := 0; k < len(*cur.comps()[ci]); k++ {
				if try(func(n *udCase) bool {
					c := n.comps()[ci]
					*c = append((*c)[:k], (*c)[k+1:]...)
					return true
				}) {
					changed = true
					k--
				}
			}
		}
		if cur.attr != "href" && !cur.isSet() {
			if try(func(n *udCase) bool { n.tag, n.attr = "a", "href"; return true }) {
				changed = true
			}
		}
		if cur.quote != `"` {
			if try(func(n *udCase) bool { n.quote = `"`; return true }) {
				changed = true
			}
		}
	}
	// values and literals
	for ci := range cur.comps() {
		for k := range *cur.comps()[ci] {
			p := (*cur.comps()[ci])[k]
			if p.slot {
				min := hx.ShrinkBytes([]byte(p.txt), func(b []byte) bool {
					n := cur.clone()
					(*n.comps()[ci])[k].txt = string(b)
					return udFails(n, clause)
				})
				(*cur.comps()[ci])[k].txt = string(min)
			} else if p.txt != "a" {
				try(func(n *udCase) bool { (*n.comps()[ci])[k].txt = "a"; return true })
			}
		}
	}
	for i := range cur.cands {
		if cur.cands[i].hasBase {
			min := hx.ShrinkBytes([]byte(cur.cands[i].base), func(b []byte) bool {
				n := cur.clone()
				n.cands[i].base = string(b)
				return udFails(n, clause)
			})
			cur.cands[i].base = string(min)
		}
	}
	return cur
}

// ---------------------------------------------------------------- recorded finding

// url-srcset-comma-text-hides-query, replayed on the real engine
func knownSrcsetCommaFinding(c *hx.Ctx) {
	T := func(s string) udComp { return udComp{{txt: s}} }
	H := func(s string) udComp { return udComp{{slot: true, txt: s}} }
	d := &udCase{tag: "img", attr: "srcset", quote: `"`, cands: []udCand{
		{segs: []udComp{T("a")}, desc: "1x"},
		{segs: []udComp{T("b")}, params: []udParam{{delim: "?", key: T("w"), val: H("x&y"), eq: true}}, desc: "2x"},
	}}
	u := d.flat()
	doc, fail := renderURLTemplate(u)
	if fail != "" {
		return
	}
	if clause, detail := udOracle(d, doc); clause != "" {
		c.Res.AddBreak(proto.Break{Kind: "property", Name: clause, Case: callsLine(u.calls()), Human: u.human() + " renders `" + doc + "`: " + detail,
			Impl: doc, Model: "every value decodes back from its slot", Finding: c.Known("url-srcset-comma-text-hides-query")})
	}
}

// url-lone-question-mark-text, replayed on the real engine
func knownLoneQuestionMarkFinding(c *hx.Ctx) {
	d := &udCase{tag: "a", attr: "href", quote: `"`, cands: []udCand{
		{hasBase: true, base: "/q?a=1", params: []udParam{{delim: "?", key: udComp{{slot: true, txt: "b"}}, val: udComp{{txt: "2"}}, eq: true}}},
	}}
	u := d.flat()
	doc, fail := renderURLTemplate(u)
	if fail != "" {
		return
	}
	if clause, detail := udOracle(d, doc); clause != "" {
		c.Res.AddBreak(proto.Break{Kind: "property", Name: clause, Case: callsLine(u.calls()), Human: u.human() + " renders `" + doc + "`: " + detail,
			Impl: doc, Model: "every value decodes back from its slot", Finding: c.Known("url-lone-question-mark-text")})
	}
}

// ---------------------------------------------------------------- run

func runURLDoc(c *hx.Ctx) error {
	res := c.Res
	knownSrcsetCommaFinding(c)
	knownLoneQuestionMarkFinding(c)
	n := c.N(6000, 120000)
	cases := make([]*udCase, n)
	flats := make([]*urlCase, n)
	lines := make([]string, n)
	for i := range cases {
		cases[i] = udGen(c.R)
		flats[i] = cases[i].flat()
		lines[i] = callsLine(flats[i].calls())
	}
	var model []string
	if c.D != nil {
		var err error
		if model, err = c.D.Batch(lines); err != nil {
			return err
		}
	}
	reported := map[string]bool{}
	for i, d := range cases {
		u := flats[i]
		res.Count("urldoc\x00"+lines[i], true)
		res.Hist("urldoc-attr-" + d.attr)
		res.Hist(fmt.Sprintf("urldoc-slots-%d", strings.Count(lines[i], " s ")))
		for _, s := range u.segs {
			if !s.hole && !d.isSet() && strings.Contains(s.txt, ",") {
				res.Hist("urldoc-comma-in-static-text")
				break
			}
		}
		real, realOut := realCalls(u.calls())
		if model != nil && model[i] != real {
			res.AddBreak(proto.Break{Kind: "correspondence", Name: "url-state-machine-model-vs-renderer", Case: lines[i], Human: u.human(), Impl: real, Model: model[i]})
		}
		doc, fail := renderURLTemplate(u)
		if fail != "" {
			if strings.HasPrefix(fail, "build:") {
				res.Hist("urldoc-template-does-not-build")
				continue
			}
			if !reported["renders"] {
				reported["renders"] = true
				res.AddBreak(proto.Break{Kind: "property", Name: "url-template-renders", Case: lines[i], Human: u.human(), Impl: fail, Model: "renders"})
			}
			continue
		}
		if strings.HasPrefix(real, "ok ") && doc != realOut {
			res.AddBreak(proto.Break{Kind: "correspondence", Name: "url-template-vs-renderer-calls", Case: lines[i], Human: u.human(), Impl: doc, Model: realOut})
		}
		if i%1499 == 0 {
			res.Sample(map[string]string{"template": u.human(), "line": lines[i], "rendered": doc})
		}
		clause, detail := udOracle(d, doc)
		if clause == "" || reported[clause] {
			continue
		}
		reported[clause] = true
		min := udShrink(d, clause)
		mu := min.flat()
		mdoc, _ := renderURLTemplate(mu)
		_, mdetail := udOracle(min, mdoc)
		if mdetail == "" {
			mu, mdoc, mdetail = u, doc, detail
		}
		res.AddBreak(proto.Break{Kind: "property", Name: "document:" + clause, Case: callsLine(mu.calls()), Human: mu.human() + " renders `" + mdoc + "`: " + mdetail,
			Impl: mdoc, Model: "every value decodes back from its slot"})
	}
	return nil
}
