package main

import (
	"fmt"
	"math/big"
	"strings"

	"verifharness/internal/hx"
)

type streamCase struct {
	p    *Prog
	kind string
}

func raw(s string) *E { return &E{K: 'x', S: s} }

// extraStreams are the small streams outside the model's syntax: they are judged by
// Build-vs-go/types alone.
func extraStreams(c *hx.Ctx) []streamCase {
	var out []streamCase
	n := c.N(250, 20000)
	for i := 0; i < n; i++ {
		out = append(out, streamCase{complexProgram(c), "stream:complex-interface"})
	}
	for i := 0; i < n; i++ {
		out = append(out, streamCase{delayedShiftProgram(c), "stream:delayed-shift"})
	}
	for i := 0; i < n; i++ {
		g := &gen{r: c.R}
		out = append(out, streamCase{packageLevel(g.program()), "stream:package-level"})
	}
	out = append(out, systematicPrograms(c)...)
	for _, src := range importPrograms {
		out = append(out, streamCase{&Prog{Pre: src.pre, Stmts: []*S{{K: "raw", Raw: src.body}}}, "stream:imports"})
	}
	return out
}

// ---- complex and interface operands ----

var cxAtoms = []string{"c", "c", "d", "i", "f", "n", "s", "b", "1", "2.5", "1i", "0", "nil", `"s"`, "true",
	"complex128(1)", "interface{}(f)", "interface{}(n)", "complex(f, f)", "real(c)", "imag(c)", "'a'", "k", "kc"}
var cxTypes = []string{"complex128", "complex64", "float64", "int", "interface{}", "string", "bool", "int8"}

const cxPrelude = "var c complex128\n\tvar d complex64\n\tvar i interface{}\n\tvar f float64\n\tvar n int\n\tvar s string\n\tvar b bool\n\tconst k = 2i\n\tconst kc complex128 = 3\n\t_, _, _, _, _, _, _ = c, d, i, f, n, s, b"

func cxExpr(c *hx.Ctx, d int) *E {
	if d <= 0 || c.R.Intn(3) == 0 {
		return raw(cxAtoms[c.R.Intn(len(cxAtoms))])
	}
	switch c.R.Intn(8) {
	case 0:
		return un(allUnOps[c.R.Intn(len(allUnOps))], cxExpr(c, d-1))
	case 1:
		return conv(cxTypes[c.R.Intn(len(cxTypes))], cxExpr(c, d-1))
	default:
		return bin(allBinOps[c.R.Intn(len(allBinOps))], cxExpr(c, d-1), cxExpr(c, d-1))
	}
}

func complexProgram(c *hx.Ctx) *Prog {
	p := &Prog{Stmts: []*S{{K: "raw", Raw: cxPrelude}}}
	for i, n := 0, 1+c.R.Intn(2); i < n; i++ {
		e := cxExpr(c, 1+c.R.Intn(2))
		switch c.R.Intn(5) {
		case 0:
			p.Stmts = append(p.Stmts, &S{K: "raw", Raw: "var _ " + cxTypes[c.R.Intn(len(cxTypes))] + " = " + e.src()})
		case 1:
			lhs := []string{"c", "d", "i", "f", "n"}[c.R.Intn(5)]
			op := allBinOps[c.R.Intn(11)]
			p.Stmts = append(p.Stmts, &S{K: "raw", Raw: lhs + " " + op + "= " + e.src()})
		case 2:
			lhs := []string{"c", "d", "i", "f", "n"}[c.R.Intn(5)]
			p.Stmts = append(p.Stmts, &S{K: "raw", Raw: lhs + " = " + e.src()})
		default:
			p.Stmts = append(p.Stmts, &S{K: "blank", A: e})
		}
	}
	return p
}

// ---- non-constant shifts of untyped constants (delayed typing) ----

func delayedShiftProgram(c *hx.Ctx) *Prog {
	g := &gen{r: c.R}
	p := &Prog{}
	// a count variable and a few typed variables
	cnt := g.fresh()
	ct := g.pick([]string{"uint", "int", "uint8"})
	g.vars = append(g.vars, gvar{cnt, ct})
	p.Stmts = append(p.Stmts, &S{K: "var", ID: cnt, T: ct, A: ilit(int64(g.r.Intn(8)))})
	for i := 0; i < 2; i++ {
		p.Stmts = append(p.Stmts, g.declaration())
	}
	lits := []*E{ilit(1), ilit(0), flit(1, 0), flit(25, -1), ilit(255), ilit(1000), {K: 'r', N: big.NewInt('a')}, blit(new(big.Int).Lsh(big.NewInt(1), 40))}
	sh := func() *E {
		return bin(g.pick([]string{"<<", ">>"}), lits[g.r.Intn(len(lits))].clone(), ident(cnt))
	}
	wrap := func(e *E) *E {
		switch g.r.Intn(8) {
		case 0:
			o, _ := g.expr(g.pick(basicTypes), 1, false)
			return bin(g.pick(allBinOps), e, o)
		case 1:
			o, _ := g.expr(g.pick(basicTypes), 1, false)
			return bin(g.pick(allBinOps), o, e)
		case 2:
			return un(g.pick(allUnOps), e)
		case 3:
			return bin(g.pick(arithOps), e, g.floatLit())
		case 4:
			return bin(g.pick(cmpOps), e, sh())
		case 5:
			return conv(g.pick(basicTypes), e)
		}
		return e
	}
	for i, n := 0, 1+g.r.Intn(2); i < n; i++ {
		e := wrap(wrap(sh()))
		switch g.r.Intn(5) {
		case 0:
			id := g.fresh()
			t := g.pick(basicTypes)
			g.vars = append(g.vars, gvar{id, t})
			p.Stmts = append(p.Stmts, &S{K: "var", ID: id, T: t, A: e})
		case 1:
			id := g.fresh()
			g.vars = append(g.vars, gvar{id, "int"})
			p.Stmts = append(p.Stmts, &S{K: "short", ID: id, A: e})
		case 2:
			v := g.vars[g.r.Intn(len(g.vars))]
			p.Stmts = append(p.Stmts, &S{K: "asg", ID: v.id, A: e})
		case 3:
			v := g.vars[g.r.Intn(len(g.vars))]
			p.Stmts = append(p.Stmts, &S{K: "op", ID: v.id, Op: g.pick(allBinOps[:11]), A: e})
		default:
			p.Stmts = append(p.Stmts, &S{K: "blank", A: e})
		}
	}
	for _, v := range g.vars {
		p.Stmts = append(p.Stmts, &S{K: "blank", A: ident(v.id)})
	}
	return p
}

// ---- package-level declarations ----

// packageLevel hoists the declarations of a body to the package block (initialisation order
// is by dependency there, and unused variables are legal).
func packageLevel(p *Prog) *Prog {
	q := &Prog{}
	var pre []string
	for _, s := range p.Stmts {
		switch s.K {
		case "var", "const":
			pre = append(pre, s.src())
		case "short":
			pre = append(pre, "var "+name(s.ID)+" = "+s.A.src())
		default:
			q.Stmts = append(q.Stmts, s.clone())
		}
	}
	q.Pre = strings.Join(pre, "\n")
	if len(q.Stmts) == 0 {
		q.Stmts = []*S{{K: "raw", Raw: ""}}
	}
	return q
}

// ---- imports ----

type importCase struct{ pre, body string }

var importPrograms = []importCase{
	{`import "strings"`, `_ = strings.ToUpper("a")`},
	{`import "strings"`, ``},
	{`import s "strings"`, `_ = s.ToUpper("a")`},
	{`import s "strings"`, `_ = strings.ToUpper("a")`},
	{`import s "strings"`, ``},
	{`import _ "strings"`, ``},
	{`import . "strings"`, `_ = ToUpper("a")`},
	{`import . "strings"`, ``},
	{"import \"strings\"\nimport \"strings\"", `_ = strings.ToUpper("a")`},
	{"import \"strings\"\nimport s \"strings\"", `_ = strings.ToUpper("a"); _ = s.Repeat("a", 2)`},
	{`import "strings"`, `_ = strings.Foo`},
	{`import "strings"`, `strings := 1; _ = strings`},
	{`import "strings"`, `_ = strings.ToUpper(1)`},
	{`import "strings"`, `var x int = strings.ToUpper("a"); _ = x`},
	{`import "strings"`, `_ = strings.Repeat("a", 2.0)`},
	{`import "strings"`, `_ = strings.Repeat("a", 2.5)`},
	{`import "strings"`, `_ = strings.Repeat("a")`},
	{`import "strings"`, `_ = strings`},
	{`import "nosuchpackage"`, ``},
}

var _ = fmt.Sprint

// ---- systematic programs (inside the model's syntax) ----

// one representative operator per class, rotated so that every operator is used
var sysOps = [][]string{
	{"+", "-", "*", "/", "%", "&", "|", "^", "&^"},
	{"==", "!=", "<", "<=", ">", ">="},
	{"&&", "||"},
	{"<<", ">>"},
}

func zeroLit(t string) *E {
	switch {
	case t == "string":
		return &E{K: 's', S: "a"}
	case t == "bool":
		return &E{K: 't', B: true}
	case t == "float64":
		return flit(15, -1)
	}
	return ilit(1)
}

// systematicPrograms: every ordered pair of basic types under an operator of every class (with
// variable and with constant operands); every integer type at and just beyond its bounds in
// every context where an untyped constant meets it; every kind of shift count.
func systematicPrograms(c *hx.Ctx) []streamCase {
	var out []streamCase
	n := 0
	for _, t1 := range basicTypes {
		for _, t2 := range basicTypes {
			for ci, ops := range sysOps {
				n++
				op := ops[(n+int(c.Seed))%len(ops)]
				if c.Quick() && t1 == t2 && ci != (n%4) {
					continue
				}
				// variables
				out = append(out, streamCase{&Prog{Stmts: []*S{
					{K: "var", ID: 0, T: t1}, {K: "var", ID: 1, T: t2},
					{K: "blank", A: bin(op, ident(0), ident(1))},
				}}, "systematic:type-pairs"})
				// typed constants
				out = append(out, streamCase{&Prog{Stmts: []*S{
					{K: "blank", A: bin(op, conv(t1, zeroLit(t1)), conv(t2, zeroLit(t2)))},
				}}, "systematic:type-pairs-const"})
				// variable and untyped constant of the other type's kind
				if ci < 2 && (n+int(c.Seed))%3 == 0 {
					out = append(out, streamCase{&Prog{Stmts: []*S{
						{K: "var", ID: 0, T: t1},
						{K: "blank", A: bin(op, ident(0), zeroLit(t2))},
					}}, "systematic:type-pairs-untyped"})
				}
			}
		}
	}
	for _, t := range intTypes {
		min, max := minMax(t)
		vals := []*big.Int{new(big.Int).Sub(min, big.NewInt(1)), min, max, new(big.Int).Add(max, big.NewInt(1))}
		for _, v := range vals {
			lit := func() *E { return signedLit(v) }
			progs := [][]*S{
				{{K: "var", ID: 0, T: t, A: lit()}, {K: "blank", A: ident(0)}},
				{{K: "var", ID: 0, T: t}, {K: "asg", ID: 0, A: lit()}, {K: "blank", A: ident(0)}},
				{{K: "blank", A: conv(t, lit())}},
				{{K: "var", ID: 0, T: t}, {K: "blank", A: bin("|", ident(0), lit())}},
				{{K: "var", ID: 0, T: t}, {K: "blank", A: bin("==", lit(), ident(0))}},
				{{K: "const", ID: 0, T: t, A: lit()}},
				{{K: "var", ID: 0, T: t}, {K: "op", ID: 0, Op: "+", A: lit()}},
				{{K: "const", ID: 0, A: lit()}, {K: "var", ID: 1, T: t, A: ident(0)}, {K: "blank", A: ident(1)}},
				{{K: "blank", A: bin("-", conv(t, signedLit(max)), conv(t, signedLit(new(big.Int).Sub(max, v))))}},
			}
			for _, ss := range progs {
				out = append(out, streamCase{&Prog{Stmts: ss}, "systematic:bounds"})
			}
		}
	}
	counts := []*E{
		{K: 's', S: "1"}, flit(15, -1), flit(2, 0), {K: 't', B: true}, un("-", ilit(1)), conv("int", un("-", ilit(1))),
		{K: 'n'}, {K: 'r', N: big.NewInt(3)}, ilit(64), ilit(1000), blit(new(big.Int).Lsh(big.NewInt(1), 64)),
		conv("uint8", ilit(3)), conv("string", &E{K: 's', S: "1"}), ident(1), ident(2), ident(3), ident(4),
		bin("<", ident(1), ilit(1)), bin("+", flit(15, -1), flit(5, -1)),
	}
	lhs := []*E{ident(0), conv("int8", ilit(1)), ilit(1), flit(2, 0), flit(25, -1), {K: 's', S: "a"}, ident(3), ident(2), {K: 'n'}}
	for _, cnt := range counts {
		for _, l := range lhs {
			for _, op := range []string{"<<", ">>"} {
				ss := []*S{
					{K: "var", ID: 0, T: "int16"}, {K: "var", ID: 1, T: "uint"}, {K: "var", ID: 2, T: "float64"},
					{K: "var", ID: 3, T: "string"}, {K: "var", ID: 4, T: "int"},
					{K: "blank", A: bin(op, l.clone(), cnt.clone())},
				}
				for id := 0; id < 5; id++ {
					ss = append(ss, &S{K: "blank", A: ident(id)})
				}
				out = append(out, streamCase{&Prog{Stmts: ss}, "systematic:shift-operands"})
			}
		}
		out = append(out, streamCase{&Prog{Stmts: []*S{
			{K: "var", ID: 0, T: "int16"}, {K: "var", ID: 1, T: "uint"}, {K: "var", ID: 2, T: "float64"},
			{K: "var", ID: 3, T: "string"}, {K: "var", ID: 4, T: "int"},
			{K: "op", ID: 0, Op: "<<", A: cnt.clone()},
			{K: "blank", A: ident(1)}, {K: "blank", A: ident(2)}, {K: "blank", A: ident(3)}, {K: "blank", A: ident(4)},
		}}, "systematic:shift-operands"})
	}
	return out
}
