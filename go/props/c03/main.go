package main

import (
	"encoding/json"
	"fmt"
	"os"
	"regexp"
	"strings"

	"verifharness/internal/hx"
	"verifharness/internal/proto"
)

// C03: Build accepts a program exactly when the Go type checker does, and a rejection is a
// *BuildError.
//
//   - oracle on the real code (independent of the model): scriggo.Build on generated Go source
//     vs go/parser + go/types on the same source; "panic"/"other error" is a failure by itself;
//   - correspondence: the Lean model of the Go typing rules of the fragment
//     (Model/TypeCheck.lean) through the driver: accept/reject and the type (and constant value)
//     of every declared name vs go/types (specification validation) and vs Build (accept/reject).
func main() { hx.Main("C03", run) }

type tcase struct {
	p     *Prog
	kind  string // "base" or the mutation name, or the stream name
	src   string
	real  buildOutcome
	orc   typesOutcome
	model string
	line  string // protocol line, when not derived from p
	u     *uprog // declaration/use stream: the program is not a *Prog
}

func (tc *tcase) protoLine() string {
	if tc.line != "" {
		return tc.line
	}
	return tc.p.line()
}

// clause names the way the real code fails the property on this case, "" if it does not.
func clause(real buildOutcome, orc typesOutcome) string {
	switch {
	case real.Class == "panic":
		return "build-panics"
	case real.Class == "other":
		return "rejection-is-not-a-BuildError"
	case real.Class == "ok" && !orc.OK:
		return "accepts-what-go/types-rejects"
	case real.Class == "builderror" && orc.OK:
		return "rejects-what-go/types-accepts"
	}
	return ""
}

// classify recognises, on a shrunk failing case, the classes of recorded findings that cannot
// be pinned to one program: it returns the finding id or "".
//
//   - untyped-float-constant-arithmetic-not-exact: Build rejects with "truncated to integer" a
//     constant that go/types accepts, and the program has a constant subexpression whose exact
//     value is not a binary fraction (Scriggo computes quotients in binary floating point of 512
//     bits, go/types with exact rationals: 3000.0 * (76 / 1000.0) is 228 only exactly).
//   - short-redeclaration-of-constant: Build accepts a multi-name := whose already declared name is
//     a constant of the same scope (`const c = 1; c, x := 2, 3`), go/types says "cannot assign to c".
func classify(cl string, r buildOutcome, o typesOutcome, min *Prog) string {
	if cl == "rejects-what-go/types-accepts" && o.NonDyadic && strings.Contains(r.Msg, "truncated to integer") {
		return "untyped-float-constant-arithmetic-not-exact"
	}
	if cl == "accepts-what-go/types-rejects" && min != nil {
		consts := map[int]bool{}
		for _, s := range min.Stmts {
			switch s.K {
			case "const":
				consts[s.ID] = true
			case "short2":
				for _, id := range []int{s.ID, s.ID2} {
					if consts[id] && strings.Contains(o.Msg, "cannot assign to "+name(id)) {
						return "short-redeclaration-of-constant"
					}
				}
			}
		}
	}
	return ""
}

var knownClassSeen = map[string]int{}

var (
	labeledContinue = regexp.MustCompile(`continue L\d+`)
	labeledBreak    = regexp.MustCompile(`break L\d+`)
	labeledRange    = regexp.MustCompile(`L\d+: for [^{]*range`)
)

// classifyU recognises classes of recorded findings on the source of a failing case of the text
// streams.
//
//   - range-loop-considered-terminating: Build accepts a function with results that go/types
//     rejects with "missing return", and turning every `for range "ab"` into a loop with a
//     condition (never terminating either, for the specification) makes Build reject it too: the
//     only cause is that Build takes a `for` with a range clause for a terminating statement.
//   - continue-label-not-implemented / break-label-in-range-not-implemented: Build panics with
//     "internal error: not implemented" and the program has a labeled continue, respectively a
//     labeled break together with a labeled range loop (the emitter has no code for a labeled
//     continue, nor for a labeled break that leaves a range loop other than from a nested loop).
func classifyU(cl, src string) string {
	if cl == "build-panics" {
		if r := buildReal(src); r.Class == "panic" && strings.Contains(r.Msg, "internal error: not implemented") {
			switch {
			case labeledContinue.MatchString(src):
				return "continue-label-not-implemented"
			case labeledRange.MatchString(src) && labeledBreak.MatchString(src):
				return "break-label-in-range-not-implemented"
			}
		}
		return ""
	}
	if cl == "accepts-what-go/types-rejects" && strings.Contains(src, `for range "ab"`) {
		_, o := evalSrc(src)
		if !o.OK && strings.Contains(o.Msg, "missing return") {
			alt := strings.ReplaceAll(src, `for range "ab"`, "for x < 3")
			r2, o2 := evalSrc(alt)
			if r2.Class == "builderror" && !o2.OK && strings.Contains(r2.Msg, "missing return") {
				return "range-loop-considered-terminating"
			}
		}
	}
	return ""
}

func evalSrc(src string) (buildOutcome, typesOutcome) { return buildReal(src), checkTypes(src) }

// shrink: statement deletion, then replacing expressions by their operands, as long as the same
// clause keeps failing.
func shrink(p *Prog, cl string) *Prog {
	failing := func(q *Prog) bool {
		r, o := evalSrc(q.src())
		return clause(r, o) == cl && o.known() == ""
	}
	cur := p.clone()
	for changed := true; changed; {
		changed = false
		// drop a name altogether: every statement that declares or mentions it
		for id := 0; id < 64; id++ {
			q := &Prog{Pre: cur.Pre}
			for _, s := range cur.Stmts {
				if !s.mentions(id) {
					q.Stmts = append(q.Stmts, s.clone())
				}
			}
			if len(q.Stmts) > 0 && len(q.Stmts) < len(cur.Stmts) && failing(q) {
				cur, changed = q, true
			}
		}
		for i := 0; i < len(cur.Stmts); i++ {
			q := cur.clone()
			q.Stmts = append(q.Stmts[:i:i], q.Stmts[i+1:]...)
			if len(q.Stmts) > 0 && failing(q) {
				cur, changed = q, true
				i--
			}
		}
		// pairs and triples of statements (a declaration, a copy of it and its use)
		for i := 0; i < len(cur.Stmts) && len(cur.Stmts) <= 14; i++ {
			for j := i + 1; j < len(cur.Stmts); j++ {
				for k := j; k < len(cur.Stmts); k++ {
					q := &Prog{Pre: cur.Pre}
					for m, s := range cur.Stmts {
						if m != i && m != j && m != k {
							q.Stmts = append(q.Stmts, s.clone())
						}
					}
					if len(q.Stmts) > 0 && failing(q) {
						cur, changed = q, true
						i, j, k = 0, 0, len(cur.Stmts)
					}
				}
			}
		}
		// expression simplification: replace a node by one of its operands
		for again := true; again; {
			again = false
			n := 0
			cur.walk(func(*E, func(*E)) { n++ })
			for i := 0; i < n && !again; i++ {
				for side := 0; side < 2 && !again; side++ {
					q := cur.clone()
					k := 0
					done := false
					q.walk(func(e *E, set func(*E)) {
						if k == i && !done {
							done = true
							if side == 0 && e.A != nil {
								set(e.A)
							} else if side == 1 && e.C != nil {
								set(e.C)
							} else {
								done = false
							}
						}
						k++
					})
					if done && failing(q) {
						cur, again, changed = q, true, true
					}
				}
			}
		}
	}
	return cur
}

func (s *S) mentions(id int) bool {
	switch s.K {
	case "var", "short", "const", "asg", "op", "inc", "dec":
		if s.ID == id {
			return true
		}
	case "short2":
		if s.ID == id || s.ID2 == id {
			return true
		}
	}
	found := false
	var rec func(e *E)
	rec = func(e *E) {
		if e == nil {
			return
		}
		if e.K == 'v' && e.ID == id {
			found = true
		}
		rec(e.A)
		rec(e.C)
	}
	rec(s.A)
	rec(s.B)
	return found
}

func findingSrc(min string) string {
	if strings.HasPrefix(min, "package ") {
		return min
	}
	return "package main\nfunc main() {\n" + min + "\n}\n"
}

func run(c *hx.Ctx) error {
	res := c.Res
	res.Rule = "generated function bodies of 3–12 declarations/assignments over the 15 basic types (base programs, ≈70% accepted by go/types) and one single-point mutant of each (20 mutation kinds: other identifier, wrap/drop conversion, swap operator, boundary constant, typed literal, shift-count kind, nil, random subexpression, undefined name, delete/duplicate/swap statement, changed declared type, :=/=, var/const, assign to other name, forced comparison, dropped operator, unused variable); systematic programs (every ordered pair of basic types under an operator of each class with variable/constant/untyped operands; every integer type at min-1, min, max, max+1 in 9 contexts; 19 count kinds × 9 shifted operands); a declaration/use stream (multi-name := with partial redeclaration, multi-value calls, assigned-never-read, closures, shadowing, if/for/switch init, blank identifier, labels, imports) and a terminating-statement stream (functions with results ending in every statement form of the specification's list, half of them terminating by construction with a break/continue injected at some depth; skeleton also judged by the Lean terminating predicate); small streams outside the model judged by Build-vs-go/types only (complex/interface operands, non-constant shifts of untyped constants, package-level declarations, imports); an assignability/convertibility matrix (assign_matrix.go: 71 pool types incl. interfaces with methods and native types implementing them × 203 values incl. non-constant untyped booleans and shifts × 55 contexts, systematic — all cells at the thorough tier; every untyped value in every context, typed values in three rotating contexts and the neighbourhood of every finding class at the quick tier — plus random programs with nested values; finding classes predicted from cell coordinates and go/types' verdict, precision measured per run); a type-identity matrix (identity.go: ~100 seed types and random ones of depth <= 3 over a structural type syntax, each paired with itself and with every ONE-EDIT variant at any nesting level — variadic-ness, parameter/result added, dropped, swapped, channel direction, array length, slice/array, struct field name, case, tag, embedded-ness, order, count, map key/element swapped, pointer depth, another basic type, another interface method set, named vs unnamed vs another defined type, byte/uint8 rune/int32 any/interface{} respellings — in both directions, in 12 contexts (var, assignment, argument, return, conversion, struct field, slice element, map value, send, variadic argument, append, ==) with the value written as variable, call result, function/composite literal, make, new, method value or method expression; plus every ordered pair of 55 types of all kinds in var-decl and conversion; also judged: the Lean model's identical/assignable/convertible against go/types' Identical/AssignableTo/ConvertibleTo on every pair, and go/types' API against its verdict on the program); a case is non-trivial when it has at least one operator or conversion; distinct by source text"

	if c.Replay != "" {
		return replay(c)
	}

	if f := os.Getenv("C03_TRY"); f != "" { // debugging aid: one source file on Build and go/types
		data, err := os.ReadFile(f)
		if err != nil {
			return err
		}
		r, o := evalSrc(string(data))
		fmt.Fprintf(os.Stderr, "build: %s %s\ngo/types: ok=%v %s\n", r.Class, r.Msg, o.OK, o.Msg)
		return nil
	}
	if os.Getenv("C03_ONLY") == "identity" { // debugging aid: the type-identity matrix alone
		return runIdentity(c)
	}
	if os.Getenv("C03_ONLY") == "matrix" { // debugging aid: the assignability matrix alone
		runMatrix(c)
		return validateAssignableModel(c)
	}

	// 0. recorded findings: replay the exact minimal programs on the real code
	for _, f := range c.Findings {
		src := findingSrc(f.Minimal)
		r, o := evalSrc(src)
		if cl := clause(r, o); cl != "" {
			res.AddBreak(proto.Break{Kind: "property", Name: cl, Case: "source", Human: src,
				Impl: r.Class + " " + r.Msg, Model: fmt.Sprintf("go/types ok=%v %s", o.OK, o.Msg), Finding: f.ID})
		}
	}

	n := c.N(2500, 200000)
	var cases []*tcase
	add := func(p *Prog, kind string) {
		cases = append(cases, &tcase{p: p, kind: kind, src: p.src()})
	}
	for i := 0; i < n; i++ {
		g := &gen{r: c.R}
		base := g.program()
		add(base, "base")
		m, name := g.mutate(base)
		if name != "none" {
			add(m, name)
		}
	}
	for _, p := range extraStreams(c) {
		add(p.p, p.kind)
	}
	for i, nu := 0, c.N(1500, 120000); i < nu; i++ {
		u := usageProgram(c)
		cases = append(cases, &tcase{p: &Prog{Pre: "-"}, u: u, kind: "stream:declaration-use", src: u.src()})
	}

	for i, nt := 0, c.N(1500, 150000); i < nt; i++ {
		u := terminatingProgram(c)
		cases = append(cases, &tcase{p: &Prog{Pre: "-"}, u: u, kind: "stream:terminating-statements", src: u.src()})
	}

	// model answers
	var lines []string
	var idx []int
	for i, tc := range cases {
		if tc.u != nil && tc.u.line != "" {
			lines = append(lines, tc.u.line)
			idx = append(idx, i)
		} else if tc.p.inModel() {
			lines = append(lines, tc.p.line())
			idx = append(idx, i)
		}
	}
	if c.D != nil {
		ans, err := c.D.Batch(lines)
		if err != nil {
			return err
		}
		for k, i := range idx {
			cases[i].model = ans[k]
		}
	}

	for i, tc := range cases {
		tc.real, tc.orc = evalSrc(tc.src)
		nontrivial := strings.ContainsAny(tc.src, "+-*/%&|^<>=!(") && strings.Count(tc.src, "(") > 1
		res.Count(tc.src, nontrivial)
		res.Hist("kind:" + tc.kind)
		res.Hist("build:" + tc.real.Class)
		if tc.kind == "base" {
			res.Hist(fmt.Sprintf("base-accepted-by-go/types:%v", tc.orc.OK))
		}
		if tc.orc.OK {
			res.Hist("go/types:ok")
		} else {
			res.Hist("go/types:error")
		}
		if i%997 == 0 {
			res.Sample(map[string]string{"kind": tc.kind, "source": tc.src, "build": tc.real.Class + " " + tc.real.Msg,
				"go/types": fmt.Sprintf("ok=%v %s", tc.orc.OK, tc.orc.Msg), "model": tc.model})
		}
		cl := clause(tc.real, tc.orc)
		if k := tc.orc.known(); k != "" && (cl == "rejects-what-go/types-accepts" || cl == "accepts-what-go/types-rejects") {
			// a recorded accept/reject difference (known_findings.json: the exact minimal program
			// is replayed at the start of the run); programs of these shapes are recognised on
			// go/types' own type information and not judged again. A panic or a non-BuildError
			// is still a failure.
			res.Hist("known-shape:" + k)
			if (tc.orc.Quirk || tc.orc.RefBug) && tc.model != "" {
				compareModel(c, tc) // the reference is wrong here: the model is still tied to Build
			}
			continue
		}
		if tc.u != nil {
			// error classes: reported, not judged
			if !tc.orc.OK && tc.real.Class == "builderror" {
				rc := errClass(tc.real.Msg)
				same := false
				for _, k := range tc.orc.Classes {
					same = same || k == rc
				}
				if same {
					res.Hist("error-class:same")
				} else {
					res.Hist("error-class:different")
					if classNotes < 3 {
						classNotes++
						res.Notes = append(res.Notes, fmt.Sprintf("error class differs (not a failure): Build %q, go/types %v on %q", tc.real.Msg, tc.orc.Classes, tc.src))
					}
				}
			}
			if !tc.orc.OK {
				for _, k := range tc.orc.Classes {
					res.Hist("go/types-error:" + k)
				}
			}
		}
		if tc.u != nil && tc.u.line != "" && tc.model != "" {
			// the specification's "terminating statement" (Model/Terminating.lean) vs go/types
			missing := !tc.orc.OK && strings.Contains(tc.orc.Msg, "missing return")
			switch {
			case tc.orc.OK || missing:
				res.SpecChecks["terminating-model-vs-go/types"]++
				want := "ok terminating"
				if missing {
					want = "ok falls-off"
					res.Hist("terminating:missing-return")
				} else {
					res.Hist("terminating:accepted")
				}
				if tc.model != want {
					res.AddBreak(proto.Break{Kind: "correspondence", Name: "terminating-model-vs-go/types", Case: tc.u.line,
						Human: tc.src, Impl: want + "   [" + tc.orc.Msg + "]", Model: tc.model})
				} else if cl == "" && (tc.model == "ok terminating") != (tc.real.Class == "ok") {
					res.AddBreak(proto.Break{Kind: "correspondence", Name: "terminating-model-vs-Build", Case: tc.u.line,
						Human: tc.src, Impl: tc.real.Class + " " + tc.real.Msg, Model: tc.model})
				}
			default:
				res.Hist("terminating:other-go/types-error")
			}
		}
		if cl == "" && tc.u != nil {
			continue
		}
		if cl != "" && tc.u != nil {
			if fid := classifyU(cl, tc.src); fid != "" && c.Known(fid) != "" && knownClassSeen[fid] >= 5 {
				// the class is recognised on the program as generated (the test is semantic: it
				// holds only if the recorded difference is the sole cause); the first five of a
				// run are shrunk as well, for the record
				knownClassSeen[fid]++
				res.Hist("known-class:" + fid)
				continue
			}
			min := shrinkU(tc.u, cl)
			r, o := evalSrc(min.src())
			b := proto.Break{Kind: "property", Name: cl, Case: "source", Human: min.src(),
				Impl: r.Class + " " + r.Msg, Model: fmt.Sprintf("go/types ok=%v %s", o.OK, o.Msg)}
			for _, f := range c.Findings {
				if findingSrc(f.Minimal) == min.src() {
					b.Finding = f.ID
				}
			}
			if fid := classifyU(cl, min.src()); fid != "" {
				b.Finding = c.Known(fid)
				knownClassSeen[fid]++
				res.Hist("known-class:" + fid)
			}
			res.AddBreak(b)
			if os.Getenv("C03_VERBOSE") != "" && b.Finding == "" && !seenMin[min.src()] {
				seenMin[min.src()] = true
				fmt.Fprintf(os.Stderr, "---- %s (%s)\n%s  build: %s %s\n  go/types: ok=%v %s\n", cl, tc.kind, min.src(), r.Class, r.Msg, o.OK, o.Msg)
			}
			continue
		}
		if cl != "" {
			min := shrink(tc.p, cl)
			r, o := evalSrc(min.src())
			b := proto.Break{Kind: "property", Name: cl, Case: "source", Human: min.src(),
				Impl: r.Class + " " + r.Msg, Model: fmt.Sprintf("go/types ok=%v %s", o.OK, o.Msg)}
			if min.inModel() {
				b.Case = min.line()
			}
			for _, f := range c.Findings {
				if findingSrc(f.Minimal) == canonical(min).src() {
					b.Finding = f.ID
				}
			}
			if fid := classify(cl, r, o, min); fid != "" {
				b.Finding = c.Known(fid)
			}
			res.AddBreak(b)
			if os.Getenv("C03_VERBOSE") != "" && !seenMin[canonical(min).src()] {
				seenMin[canonical(min).src()] = true
				fmt.Fprintf(os.Stderr, "---- %s (%s)\n%s  build: %s %s\n  go/types: ok=%v %s\n", cl, tc.kind, min.src(), r.Class, r.Msg, o.OK, o.Msg)
			}
			continue
		}
		if tc.model == "" {
			continue
		}
		compareModel(c, tc)
	}
	runMatrix(c)
	if err := validateAssignableModel(c); err != nil {
		return err
	}
	return runIdentity(c)
}

// replay re-runs the case of a replay file: the recorded source on Build and go/types, and the
// recorded protocol line (if any) on the model.
func replay(c *hx.Ctx) error {
	data, err := os.ReadFile(c.Replay)
	if err != nil { // the check runs the harness in /verif/go and hands on the path as given to it
		if data, err = os.ReadFile("../" + c.Replay); err != nil {
			return err
		}
	}
	var rp struct {
		Case   string         `json:"case"`
		Human  string         `json:"human"`
		Detail map[string]any `json:"detail"`
	}
	if err := json.Unmarshal(data, &rp); err != nil {
		return err
	}
	if rp.Human == "" && rp.Detail != nil {
		rp.Human, _ = rp.Detail["human"].(string)
		rp.Case, _ = rp.Detail["case"].(string)
	}
	if rp.Human == "" {
		return fmt.Errorf("replay file %s has no source", c.Replay)
	}
	r, o := evalSrc(rp.Human)
	model := ""
	if c.D != nil && strings.HasPrefix(rp.Case, "C03 ") {
		if model, err = c.D.Ask(rp.Case); err != nil {
			return err
		}
	}
	c.Res.Count(rp.Human, true)
	c.Res.Sample(map[string]string{"source": rp.Human, "build": r.Class + " " + r.Msg,
		"go/types": fmt.Sprintf("ok=%v %s", o.OK, o.Msg), "model": model})
	if cl := clause(r, o); cl != "" && (o.known() == "" || cl == "build-panics" || cl == "rejection-is-not-a-BuildError") {
		b := proto.Break{Kind: "property", Name: cl, Case: rp.Case, Human: rp.Human,
			Impl: r.Class + " " + r.Msg, Model: fmt.Sprintf("go/types ok=%v %s", o.OK, o.Msg)}
		for _, f := range c.Findings {
			if findingSrc(f.Minimal) == rp.Human {
				b.Finding = f.ID
			}
		}
		if fid := classify(cl, r, o, nil); fid != "" {
			b.Finding = c.Known(fid)
		}
		c.Res.AddBreak(b)
		return nil
	}
	if model != "" {
		compareModel(c, &tcase{p: &Prog{}, src: rp.Human, real: r, orc: o, model: model, line: rp.Case})
	}
	return nil
}

var seenMin = map[string]bool{}
var classNotes int

// canonical renames the identifiers of a program in order of first occurrence.
func canonical(p *Prog) *Prog {
	q := p.clone()
	ren := map[int]int{}
	get := func(id int) int {
		if n, ok := ren[id]; ok {
			return n
		}
		ren[id] = len(ren)
		return ren[id]
	}
	for _, s := range q.Stmts {
		var rec func(e *E)
		rec = func(e *E) {
			if e == nil {
				return
			}
			if e.K == 'v' {
				e.ID = get(e.ID)
			}
			rec(e.A)
			rec(e.C)
		}
		switch s.K {
		case "asg", "op", "inc", "dec":
			s.ID = get(s.ID)
			rec(s.A)
		case "var", "short", "const":
			rec(s.A)
			s.ID = get(s.ID)
		case "short2":
			rec(s.A)
			rec(s.B)
			s.ID = get(s.ID)
			s.ID2 = get(s.ID2)
		default:
			rec(s.A)
		}
	}
	return q
}

// compareModel ties the model's judgement to go/types (specification validation) and to Build.
func compareModel(c *hx.Ctx, tc *tcase) {
	res := c.Res
	m := tc.model
	switch {
	case strings.HasPrefix(m, "outside"):
		res.Hist("model:" + m)
		return
	case strings.HasPrefix(m, "ok"):
		res.Hist("model:ok")
	case strings.HasPrefix(m, "rej "):
		res.Hist("model:" + strings.Join(strings.Fields(m)[:2], " "))
	default:
		res.AddBreak(proto.Break{Kind: "correspondence", Name: "driver-answer", Case: tc.protoLine(), Human: tc.src, Impl: "", Model: m})
		return
	}
	modelOK := strings.HasPrefix(m, "ok")
	if tc.orc.Quirk || tc.orc.RefBug {
		// the model states the specification's rule (and exact arithmetic); go/types departs
		// from it here: only the tie to Build is checked
		if modelOK != (tc.real.Class == "ok") {
			res.AddBreak(proto.Break{Kind: "correspondence", Name: "model-vs-Build", Case: tc.protoLine(), Human: tc.src,
				Impl: tc.real.Class + " " + tc.real.Msg, Model: m})
		}
		return
	}
	// specification validation: the model is the Go rule; go/types is the reference implementation
	res.SpecChecks["model-vs-go/types"]++
	want := "rej"
	if tc.orc.OK {
		want = strings.TrimSpace("ok " + declsString(tc.orc.Decls))
	}
	got := m
	if !modelOK {
		got = "rej"
	}
	if !sameDecls(got, want) {
		res.AddBreak(proto.Break{Kind: "correspondence", Name: "model-vs-go/types", Case: tc.protoLine(), Human: tc.src,
			Impl: want + "   [" + tc.orc.Msg + "]", Model: m})
		return
	}
	// correspondence: the model's accept/reject vs the real Build
	if modelOK != (tc.real.Class == "ok") {
		res.AddBreak(proto.Break{Kind: "correspondence", Name: "model-vs-Build", Case: tc.protoLine(), Human: tc.src,
			Impl: tc.real.Class + " " + tc.real.Msg, Model: m})
	}
}

// sameDecls compares two "ok id:type[:value] …" answers; a value "?" (go/constant no longer
// exact) matches anything.
func sameDecls(a, b string) bool {
	if a == b {
		return true
	}
	fa, fb := strings.Fields(a), strings.Fields(b)
	if len(fa) != len(fb) {
		return false
	}
	for i := range fa {
		if fa[i] == fb[i] {
			continue
		}
		pa, pb := strings.Split(fa[i], ":"), strings.Split(fb[i], ":")
		if len(pa) != 3 || len(pb) != 3 || pa[0] != pb[0] || pa[1] != pb[1] || (pa[2] != "?" && pb[2] != "?") {
			return false
		}
	}
	return true
}
