package main

import (
	_ "embed"
	"fmt"
	goast "go/ast"
	"go/constant"
	"go/parser"
	"go/token"
	"go/types"
	"math/big"
	"reflect"
	"sort"
	"strings"
	"sync"

	"github.com/open2b/scriggo"
	"github.com/open2b/scriggo/native"

	"verifharness/props/c03/tp"
)

// ---- the real code: scriggo.Build ----

type buildOutcome struct {
	Class string // "ok", "builderror", "other", "panic"
	Msg   string
}

// packages available to the import stream (the same names exist in GOROOT for go/types)
var nativePkgs = native.Packages{
	"strings": native.Package{Name: "strings", Declarations: native.Declarations{
		"ToUpper": strings.ToUpper,
		"Repeat":  strings.Repeat,
	}},
	// the assignability matrix: interfaces with methods and named types with methods (Scriggo
	// source cannot declare methods); go/types type-checks the same file, tp/tp.go
	"tp": native.Package{Name: "tp", Declarations: native.Declarations{
		"Stringer": reflect.TypeOf((*tp.Stringer)(nil)).Elem(),
		"Nobody":   reflect.TypeOf((*tp.Nobody)(nil)).Elem(),
		"Both":     reflect.TypeOf((*tp.Both)(nil)).Elem(),
		"Dur":      reflect.TypeOf(tp.Dur(0)),
		"Buf":      reflect.TypeOf(tp.Buf{}),
		"Err":      reflect.TypeOf(tp.Err{}),
		"PErr":     reflect.TypeOf(tp.PErr{}),
		"ES":       reflect.TypeOf(tp.ES{}),
		"NewErr":   tp.NewErr,
		"Pair":     tp.Pair,
		// the type-identity matrix (identity.go): unnamed interface types through alias names, and
		// a type with methods for method values and method expressions
		"IM":   reflect.TypeOf((*tp.IM)(nil)).Elem(),
		"IN":   reflect.TypeOf((*tp.IN)(nil)).Elem(),
		"IMN":  reflect.TypeOf((*tp.IMN)(nil)).Elem(),
		"INM":  reflect.TypeOf((*tp.INM)(nil)).Elem(),
		"IMO":  reflect.TypeOf((*tp.IMO)(nil)).Elem(),
		"IMNO": reflect.TypeOf((*tp.IMNO)(nil)).Elem(),
		"IMi":  reflect.TypeOf((*tp.IMi)(nil)).Elem(),
		"IMr":  reflect.TypeOf((*tp.IMr)(nil)).Elem(),
		"IMv":  reflect.TypeOf((*tp.IMv)(nil)).Elem(),
		"IMs":  reflect.TypeOf((*tp.IMs)(nil)).Elem(),
		"IMe":  reflect.TypeOf((*tp.IMe)(nil)).Elem(),
		"MT":   reflect.TypeOf(tp.MT{}),
	}},
}

//go:embed tp/tp.go
var tpSource string

func buildReal(src string) (out buildOutcome) {
	defer func() {
		if r := recover(); r != nil {
			out = buildOutcome{"panic", fmt.Sprint(r)}
		}
	}()
	_, err := scriggo.Build(scriggo.Files{"main.go": []byte(src)}, &scriggo.BuildOptions{Packages: nativePkgs})
	if err == nil {
		return buildOutcome{"ok", ""}
	}
	if be, ok := err.(*scriggo.BuildError); ok {
		return buildOutcome{"builderror", be.Error()}
	}
	return buildOutcome{"other", fmt.Sprintf("%T: %v", err, err)}
}

// ---- the oracle: go/parser + go/types ----

type decl struct {
	Name string
	Type string // "int8", … or "untyped int" …
	Val  string // canonical constant value, "" for variables
}

type typesOutcome struct {
	OK  bool
	Msg string // first error
	// Classes: the classes (errClass) of all the errors go/types reports
	Classes []string
	Decls   []decl // objects declared in main's body, in source order (only when OK)
	// Quirk: the program has a shift whose count is a typed constant of non-integer type;
	// go/types accepts it (the count of a non-constant shift is not looked at when it is a
	// typed constant), the language specification does not.
	Quirk bool
	// FloatDivZero: a non-constant floating-point (or complex) dividend over a constant zero:
	// legal Go (IEEE result at run time); Scriggo rejects it by design, its own test suite
	// expects "division by zero" (known finding float-division-by-constant-zero).
	FloatDivZero bool
	// BigShift: a shift with a constant count ≥ 512: Scriggo's 512-bit constant limit differs
	// from go/types' count limit 1074 (C02's known finding, DESIGN §8 row 28).
	BigShift bool
	// UntypedCount: a shift whose count is a non-constant untyped expression (it contains a shift
	// of an untyped constant by a non-constant count, `x << (1<<s + c)`): go/types converts the
	// count to uint "incorrectly, preserving pre-existing behaviour" (its own comment,
	// go.dev/issue/47410): floating-point constants in it are checked, integer ones are not
	// (`x >> ((1 >> s) + (-3))` is accepted). Scriggo converts every constant of the count to
	// uint, as the specification says. Not judged.
	UntypedCount bool
	// HugeFloat: a floating-point literal with a decimal exponent beyond ±300: arithmetic
	// with it needs more than the 512 bits of mantissa Scriggo keeps (the specification allows
	// rounding; go/constant stays exact longer), e.g. `var x int = 30/1e400 + 34`. Not judged.
	HugeFloat bool
	// NonDyadic: some constant subexpression has an exact value that is not a binary fraction
	// (e.g. 76 / 1000.0). Not a reason to skip anything: used only to recognise the recorded
	// finding "untyped-float-constant-arithmetic-not-exact" on an already failing, shrunk case.
	NonDyadic bool
	// RefBug: the constant division MinInt64 / -1, which go/constant's int64 fast path wraps to
	// MinInt64 (the exact quotient 2^63 does not fit int/int64): the reference is wrong, the
	// case is not judged.
	RefBug bool
}

// known reports the recorded difference this program falls under, "" if none.
func (o typesOutcome) known() string {
	switch {
	case o.Quirk:
		return "typed-non-integer-constant-shift-count"
	case o.FloatDivZero:
		return "float-division-by-constant-zero"
	case o.BigShift:
		return "constant-shift-count-512"
	case o.RefBug:
		return "go/constant-MinInt64-div-minus-one"
	case o.UntypedCount:
		return "untyped-non-constant-shift-count"
	case o.HugeFloat:
		return "float-literal-beyond-512-bit-precision"
	}
	return ""
}

// stringsImporter gives go/types the same two-function package "strings" that Build gets from
// nativePkgs (no GOROOT export data or sources needed).
type stringsImporter struct {
	once   sync.Once
	pkg    *types.Package
	tpOnce sync.Once
	tpPkg  *types.Package
	tpErr  error
}

func (im *stringsImporter) Import(path string) (*types.Package, error) {
	if path == "tp" {
		// the native package of the assignability matrix: its own source, type-checked
		im.tpOnce.Do(func() {
			fset := token.NewFileSet()
			f, err := parser.ParseFile(fset, "tp.go", tpSource, 0)
			if err != nil {
				im.tpErr = err
				return
			}
			im.tpPkg, im.tpErr = (&types.Config{}).Check("tp", fset, []*goast.File{f}, nil)
		})
		return im.tpPkg, im.tpErr
	}
	if path != "strings" {
		return nil, fmt.Errorf("package %s is not in std", path)
	}
	im.once.Do(func() {
		pkg := types.NewPackage("strings", "strings")
		str, in := types.Typ[types.String], types.Typ[types.Int]
		v := func(t types.Type) *types.Var { return types.NewVar(token.NoPos, pkg, "", t) }
		pkg.Scope().Insert(types.NewFunc(token.NoPos, pkg, "ToUpper",
			types.NewSignatureType(nil, nil, nil, types.NewTuple(v(str)), types.NewTuple(v(str)), false)))
		pkg.Scope().Insert(types.NewFunc(token.NoPos, pkg, "Repeat",
			types.NewSignatureType(nil, nil, nil, types.NewTuple(v(str), v(in)), types.NewTuple(v(str)), false)))
		pkg.MarkComplete()
		im.pkg = pkg
	})
	return im.pkg, nil
}

var theImporter = &stringsImporter{}

func checkTypes(src string) typesOutcome {
	fset := token.NewFileSet()
	f, err := parser.ParseFile(fset, "main.go", src, parser.SkipObjectResolution)
	if err != nil {
		return typesOutcome{Msg: "syntax: " + err.Error()}
	}
	var first error
	var classes []string
	conf := types.Config{
		Error: func(e error) {
			if first == nil {
				first = e
			}
			classes = append(classes, errClass(e.Error()))
		},
	}
	conf.Importer = theImporter
	info := &types.Info{Defs: map[*goast.Ident]types.Object{}, Types: map[goast.Expr]types.TypeAndValue{}}
	conf.Check("main", fset, []*goast.File{f}, info)
	quirk := false
	isQuirk := func(y goast.Expr) bool {
		tv, ok := info.Types[y]
		if !ok || tv.Value == nil {
			return false
		}
		b, ok := tv.Type.Underlying().(*types.Basic)
		return ok && b.Info()&types.IsUntyped == 0 && b.Info()&types.IsInteger == 0
	}
	fdz, bigShift := false, false
	bigCount := func(y goast.Expr) bool {
		tv, ok := info.Types[y]
		if !ok || tv.Value == nil {
			return false
		}
		v := constant.ToInt(tv.Value)
		return v.Kind() == constant.Int && constant.Compare(v, token.GEQ, constant.MakeInt64(512))
	}
	floatDivZero := func(x, y goast.Expr) bool {
		tx, ok1 := info.Types[x]
		ty, ok2 := info.Types[y]
		if !ok1 || !ok2 || tx.Value != nil || ty.Value == nil {
			return false
		}
		b, ok := tx.Type.Underlying().(*types.Basic)
		if !ok || b.Info()&(types.IsFloat|types.IsComplex) == 0 {
			return false
		}
		k := ty.Value.Kind()
		return (k == constant.Int || k == constant.Float || k == constant.Complex) && constant.Compare(ty.Value, token.EQL, constant.MakeInt64(0))
	}
	untypedCount, hugeFloat := false, false
	// delayed reports whether e contains a shift of a constant by a non-constant count
	delayed := func(e goast.Expr) bool {
		found := false
		goast.Inspect(e, func(n goast.Node) bool {
			if b, ok := n.(*goast.BinaryExpr); ok && (b.Op == token.SHL || b.Op == token.SHR) {
				tx, ok1 := info.Types[b.X]
				ty, ok2 := info.Types[b.Y]
				if ok1 && ok2 && tx.Value != nil && ty.Value == nil {
					found = true
				}
			}
			return true
		})
		return found
	}
	isUntypedCount := func(y goast.Expr) bool {
		tv, ok := info.Types[y]
		return (!ok || tv.Value == nil) && delayed(y)
	}
	refBug := false
	minIntDiv := func(x, y goast.Expr) bool {
		tx, ok1 := info.Types[x]
		ty, ok2 := info.Types[y]
		if !ok1 || !ok2 || tx.Value == nil || ty.Value == nil || tx.Value.Kind() != constant.Int || ty.Value.Kind() != constant.Int {
			return false
		}
		return constant.Compare(tx.Value, token.EQL, constant.MakeInt64(-1<<63)) && constant.Compare(ty.Value, token.EQL, constant.MakeInt64(-1))
	}
	goast.Inspect(f, func(n goast.Node) bool {
		switch n := n.(type) {
		case *goast.BinaryExpr:
			if n.Op == token.QUO && minIntDiv(n.X, n.Y) {
				refBug = true
			}
			if n.Op == token.SHL || n.Op == token.SHR {
				untypedCount = untypedCount || isUntypedCount(n.Y)
				quirk = quirk || isQuirk(n.Y)
				bigShift = bigShift || bigCount(n.Y)
			}
			if n.Op == token.QUO {
				fdz = fdz || floatDivZero(n.X, n.Y)
			}
		case *goast.BasicLit:
			if n.Kind == token.FLOAT && len(n.Value) > 300 {
				hugeFloat = true
			}
		case *goast.AssignStmt:
			if len(n.Lhs) == 1 && len(n.Rhs) == 1 {
				if n.Tok == token.SHL_ASSIGN || n.Tok == token.SHR_ASSIGN {
					untypedCount = untypedCount || isUntypedCount(n.Rhs[0])
					quirk = quirk || isQuirk(n.Rhs[0])
					bigShift = bigShift || bigCount(n.Rhs[0])
				}
				if n.Tok == token.QUO_ASSIGN {
					fdz = fdz || floatDivZero(n.Lhs[0], n.Rhs[0])
				}
			}
		}
		return true
	})
	nonDyadic := false
	for _, tv := range info.Types {
		if tv.Value == nil || tv.Value.Kind() != constant.Float {
			continue
		}
		den := constant.Denom(tv.Value)
		if den.Kind() != constant.Int {
			continue
		}
		if d, ok := new(big.Int).SetString(den.ExactString(), 10); ok && d.Sign() > 0 {
			if new(big.Int).And(d, new(big.Int).Sub(d, big.NewInt(1))).Sign() != 0 {
				nonDyadic = true
			}
		}
	}
	out := typesOutcome{OK: first == nil, NonDyadic: nonDyadic, Quirk: quirk, FloatDivZero: fdz, BigShift: bigShift, RefBug: refBug,
		UntypedCount: untypedCount, HugeFloat: hugeFloat}
	if first != nil {
		out.Msg = first.Error()
		out.Classes = classes
		return out
	}
	type od struct {
		pos token.Pos
		d   decl
	}
	var ds []od
	for id, obj := range info.Defs {
		if obj == nil || obj.Parent() == nil || obj.Parent() == obj.Pkg().Scope() {
			continue
		}
		d := decl{Name: id.Name, Type: obj.Type().String()}
		if c, ok := obj.(*types.Const); ok {
			d.Val = constString(c.Val())
		}
		ds = append(ds, od{id.Pos(), d})
	}
	sort.Slice(ds, func(i, j int) bool { return ds[i].pos < ds[j].pos })
	for _, d := range ds {
		out.Decls = append(out.Decls, d.d)
	}
	return out
}

// constString is the canonical constant value of the protocol: decimal integers, "n/d" for
// non-integral rationals, true/false, hex strings. "?" when go/constant no longer holds an
// exact rational (huge floats); such values are not compared.
func constString(v constant.Value) string {
	switch v.Kind() {
	case constant.Bool:
		return fmt.Sprint(constant.BoolVal(v))
	case constant.String:
		return "s" + hexOf(constant.StringVal(v))
	case constant.Int:
		return v.ExactString()
	case constant.Float:
		n, d := constant.Num(v), constant.Denom(v)
		if n.Kind() != constant.Int || d.Kind() != constant.Int {
			return "?"
		}
		if d.ExactString() == "1" {
			return n.ExactString()
		}
		return n.ExactString() + "/" + d.ExactString()
	}
	return "?"
}

// declsString is the canonical form compared with the model's answer.
func declsString(ds []decl) string {
	var parts []string
	for _, d := range ds {
		t := strings.ReplaceAll(d.Type, "untyped ", "u")
		switch t {
		case "rune":
			t = "int32"
		case "byte":
			t = "uint8"
		}
		s := strings.TrimPrefix(d.Name, "x") + ":" + t
		if d.Val != "" {
			s += ":" + d.Val
		}
		parts = append(parts, s)
	}
	return strings.Join(parts, " ")
}
