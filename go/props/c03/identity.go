package main

import (
	"fmt"
	goast "go/ast"
	"go/parser"
	"go/token"
	"go/types"
	"os"
	"sort"
	"strconv"
	"strings"

	"verifharness/internal/hx"
	"verifharness/internal/proto"
)

// The type-identity matrix.
//
// The assignability matrix (assign_matrix.go) has a pool of types; it has no *identity* dimension:
// no two pool types differ in exactly one structural feature of a composite type literal. This
// stream has. A *pair* is (A, B) with B obtained from A by ONE edit of the structural type syntax
// at some nesting level:
//
//	func      variadic-ness (...T vs []T), a parameter or result added / dropped, two swapped
//	chan      direction
//	array     length; slice vs array
//	struct    a field renamed, its tag added / changed / dropped, embedded vs named alike,
//	          two fields swapped, a field added / dropped
//	map       key and element swapped
//	pointer   one level more or less
//	basic     another predeclared type; byte/uint8, rune/int32, any/interface{} (same type)
//	interface another method set (through the alias names of the native package "tp":
//	          Scriggo source cannot spell an interface type with methods)
//	named vs unnamed: any node replaced by a type defined over it, a defined type by its
//	          underlying type or by another defined type over the same underlying type
//
// together with (A, A). A *cell* is (context, A, B, form): a value of type B written in one of
// several forms (variable, call result, composite / function literal, make, method value, method
// expression) meets the type A in a context decided by assignability (var x A = v, x = v, f(v),
// return v, struct{F A}{F: v}, []A{v}, ch <- v, f(v...) variadic, append), convertibility (A(v))
// or comparability (x == v). The pair is used in both directions.
//
// Oracles: (1) the property's own: scriggo.Build vs go/parser + go/types on the cell's program;
// (2) specification validation of the Lean model Model/TypeIdent.lean (driver operation `tid`):
// its identical / assignable / convertible against go/types' Identical / AssignableTo /
// ConvertibleTo on the two types, every pair; (3) go/types' API verdict against go/types' verdict
// on the program of the corresponding context (the oracle agrees with itself).

// ---- structural type syntax ----

type ity struct {
	k        string // basic named ptr slice array map chan func struct iface
	name     string // basic: predeclared name; named: declared name; iface with methods: alias name (tp.X)
	n        int    // array length
	dir      int    // 0 chan, 1 <-chan, 2 chan<-
	elem     *ity   // ptr slice array chan: element; map: value; named: underlying type
	key      *ity
	ps, rs   []*ity // func; the last parameter of a variadic function is the slice type
	variadic bool
	fields   []ifield
	methods  []imethod // sorted by name
	native   bool      // named: a defined type of the native package (may have methods)
}

type ifield struct {
	name string // "" with emb: the name is that of the type
	t    *ity
	tag  string
	emb  bool
}

type imethod struct {
	name string
	sig  *ity
}

func (t *ity) src() string {
	switch t.k {
	case "basic", "named":
		return t.name
	case "ptr":
		return "*" + t.elem.src()
	case "slice":
		return "[]" + t.elem.src()
	case "array":
		return fmt.Sprintf("[%d]%s", t.n, t.elem.src())
	case "map":
		return "map[" + t.key.src() + "]" + t.elem.src()
	case "chan":
		e := t.elem.src()
		if t.elem.k == "chan" && t.elem.dir == 1 {
			e = "(" + e + ")"
		}
		return []string{"chan ", "<-chan ", "chan<- "}[t.dir] + e
	case "func":
		var ps []string
		for i, p := range t.ps {
			if t.variadic && i == len(t.ps)-1 {
				ps = append(ps, "..."+p.elem.src())
			} else {
				ps = append(ps, p.src())
			}
		}
		s := "func(" + strings.Join(ps, ", ") + ")"
		switch len(t.rs) {
		case 0:
		case 1:
			// (a receive-only channel result is parenthesised: the parser's finding
			// function-result-receive-channel-syntax-error is the assignability matrix's)
			s += " " + idParen(t.rs[0].src())
		default:
			var rs []string
			for _, r := range t.rs {
				rs = append(rs, r.src())
			}
			s += " (" + strings.Join(rs, ", ") + ")"
		}
		return s
	case "struct":
		if len(t.fields) == 0 {
			return "struct{}"
		}
		var fs []string
		for _, f := range t.fields {
			s := f.t.src()
			if !f.emb {
				s = f.name + " " + s
			}
			if f.tag != "" {
				s += " `" + f.tag + "`"
			}
			fs = append(fs, s)
		}
		return "struct{ " + strings.Join(fs, "; ") + " }"
	case "iface":
		if t.name != "" {
			return t.name
		}
		return "interface{}"
	}
	panic("c03 identity: kind " + t.k)
}

// spellable: the type can be written in Scriggo source.
func (t *ity) spellable() bool { return !(t.k == "iface" && len(t.methods) > 0 && t.name == "") }

func (t *ity) underlying() *ity {
	for t.k == "named" {
		t = t.elem
	}
	return t
}

// comparable, as far as map keys go (no type parameters, no interfaces holding the others)
func (t *ity) comparable() bool {
	switch u := t.underlying(); u.k {
	case "slice", "map", "func":
		return false
	case "array":
		return u.elem.comparable()
	case "struct":
		for _, f := range u.fields {
			if !f.t.comparable() {
				return false
			}
		}
	}
	return true
}

// ---- declared types ----

// idDecls: the defined types of the programs, `type D<n> <underlying>`; N[T] and N2[T] in a seed
// are two distinct types defined over T.
var idDeclNames []string
var idDecls = map[string]*ity{}     // name → the named node
var idDeclByKey = map[string]*ity{} // "<ordinal>#<underlying source>" → the named node
var idNamedID = map[string]int{}    // name → number of the defined type in the model's encoding

func idDefined(ord int, under *ity) *ity {
	key := fmt.Sprintf("%d#%s", ord, under.src())
	if d := idDeclByKey[key]; d != nil {
		return d
	}
	d := &ity{k: "named", name: fmt.Sprintf("D%d", len(idDeclNames)), elem: under}
	idDeclNames = append(idDeclNames, d.name)
	idDecls[d.name] = d
	idDeclByKey[key] = d
	idNamedID[d.name] = 100 + len(idDeclNames)
	return d
}

// the native package's declarations, from its embedded source: aliases of unnamed types and
// defined types
var idNative = map[string]*ity{}

var idBasic = map[string]bool{"bool": true, "int": true, "int8": true, "int16": true, "int32": true, "int64": true,
	"uint": true, "uint8": true, "uint16": true, "uint32": true, "uint64": true, "uintptr": true,
	"float32": true, "float64": true, "complex64": true, "complex128": true, "string": true, "byte": true, "rune": true}

var idError = &ity{k: "named", name: "error", native: true, elem: &ity{k: "iface", methods: []imethod{
	{"Error", &ity{k: "func", rs: []*ity{{k: "basic", name: "string"}}}}}}}

func idLoadNative() {
	if len(idNative) > 0 {
		return
	}
	f, err := parser.ParseFile(token.NewFileSet(), "tp.go", tpSource, 0)
	if err != nil {
		panic(err)
	}
	specs := map[string]*goast.TypeSpec{}
	for _, d := range f.Decls {
		if g, ok := d.(*goast.GenDecl); ok && g.Tok == token.TYPE {
			for _, s := range g.Specs {
				ts := s.(*goast.TypeSpec)
				specs[ts.Name.Name] = ts
			}
		}
	}
	var resolve func(name string) *ity
	resolve = func(name string) *ity {
		if t := idNative[name]; t != nil {
			return t
		}
		ts := specs[name]
		if ts == nil {
			panic("c03 identity: tp." + name + " is not declared")
		}
		t := &ity{}
		idNative[name] = t // (cycles: none in tp.go)
		in := idFromExpr(ts.Type, func(n string) *ity { return resolve(n) })
		if ts.Assign.IsValid() {
			*t = *in
			if t.k == "iface" && len(t.methods) > 0 {
				t.name = "tp." + name
			}
		} else {
			*t = ity{k: "named", name: "tp." + name, elem: in, native: true}
			idNamedID["tp."+name] = 50 + len(idNamedID)
		}
		return t
	}
	for name := range specs {
		resolve(name)
	}
}

// idFromExpr reads a type expression. local resolves the identifiers of the native package's own
// file (nil in programs, where they are written tp.X). N[T], N2[T]: types defined over T.
func idFromExpr(e goast.Expr, local func(string) *ity) *ity {
	rec := func(x goast.Expr) *ity { return idFromExpr(x, local) }
	switch e := e.(type) {
	case *goast.ParenExpr:
		return rec(e.X)
	case *goast.Ident:
		switch {
		case e.Name == "any":
			return &ity{k: "iface", name: "any"}
		case e.Name == "error":
			return idError
		case idBasic[e.Name]:
			return &ity{k: "basic", name: e.Name}
		case local != nil:
			return local(e.Name)
		case idDecls[e.Name] != nil:
			return idDecls[e.Name]
		}
	case *goast.SelectorExpr:
		if x, ok := e.X.(*goast.Ident); ok && x.Name == "tp" {
			idLoadNative()
			if t := idNative[e.Sel.Name]; t != nil {
				return t
			}
		}
	case *goast.IndexExpr: // N[T], N2[T]: the marker of a type defined over T
		if f, ok := e.X.(*goast.Ident); ok && (f.Name == "N" || f.Name == "N2") {
			return idDefined(len(f.Name), rec(e.Index))
		}
	case *goast.StarExpr:
		return &ity{k: "ptr", elem: rec(e.X)}
	case *goast.ArrayType:
		if e.Len == nil {
			return &ity{k: "slice", elem: rec(e.Elt)}
		}
		n, err := strconv.Atoi(e.Len.(*goast.BasicLit).Value)
		if err != nil {
			panic(err)
		}
		return &ity{k: "array", n: n, elem: rec(e.Elt)}
	case *goast.MapType:
		return &ity{k: "map", key: rec(e.Key), elem: rec(e.Value)}
	case *goast.ChanType:
		d := 0
		switch e.Dir {
		case goast.RECV:
			d = 1
		case goast.SEND:
			d = 2
		}
		return &ity{k: "chan", dir: d, elem: rec(e.Value)}
	case *goast.FuncType:
		t := &ity{k: "func"}
		list := func(fl *goast.FieldList, params bool) []*ity {
			var out []*ity
			if fl == nil {
				return nil
			}
			for _, f := range fl.List {
				var ft *ity
				if el, ok := f.Type.(*goast.Ellipsis); ok && params {
					t.variadic = true
					ft = &ity{k: "slice", elem: rec(el.Elt)}
				} else {
					ft = rec(f.Type)
				}
				for i := 0; i < max(1, len(f.Names)); i++ {
					out = append(out, ft)
				}
			}
			return out
		}
		t.ps, t.rs = list(e.Params, true), list(e.Results, false)
		return t
	case *goast.StructType:
		t := &ity{k: "struct"}
		for _, f := range e.Fields.List {
			tag := ""
			if f.Tag != nil {
				tag, _ = strconv.Unquote(f.Tag.Value)
			}
			ft := rec(f.Type)
			if len(f.Names) == 0 {
				t.fields = append(t.fields, ifield{t: ft, tag: tag, emb: true})
			}
			for _, n := range f.Names {
				t.fields = append(t.fields, ifield{name: n.Name, t: ft, tag: tag})
			}
		}
		return t
	case *goast.InterfaceType:
		t := &ity{k: "iface"}
		for _, m := range e.Methods.List {
			if len(m.Names) == 0 { // an embedded interface: its methods
				t.methods = append(t.methods, rec(m.Type).underlying().methods...)
				continue
			}
			t.methods = append(t.methods, imethod{m.Names[0].Name, rec(m.Type)})
		}
		sort.Slice(t.methods, func(i, j int) bool { return t.methods[i].name < t.methods[j].name })
		return t
	}
	panic(fmt.Sprintf("c03 identity: type expression %T not understood", e))
}

func idParse(s string) *ity {
	e, err := parser.ParseExpr(s)
	if err != nil {
		panic("c03 identity: " + s + ": " + err.Error())
	}
	return idFromExpr(e, nil)
}

// embedded field name
func (f ifield) fname() string {
	if !f.emb {
		return f.name
	}
	t := f.t
	if t.k == "ptr" {
		t = t.elem
	}
	n := t.name
	if i := strings.LastIndex(n, "."); i >= 0 {
		n = n[i+1:]
	}
	return n
}

// ---- the Lean model's encoding (driver operation `tid`) ----

var idBasicCanon = map[string]string{"byte": "uint8", "rune": "int32"}

func (t *ity) enc() string {
	switch t.k {
	case "basic":
		n := t.name
		if c := idBasicCanon[n]; c != "" {
			n = c
		}
		return "b " + n
	case "named":
		id := idNamedID[t.name]
		if t.name == "error" {
			id = 1
		}
		if id == 0 {
			panic("c03 identity: no number for " + t.name)
		}
		return fmt.Sprintf("n %d %s", id, t.elem.enc())
	case "ptr":
		return "p " + t.elem.enc()
	case "slice":
		return "s " + t.elem.enc()
	case "array":
		return fmt.Sprintf("a %d %s", t.n, t.elem.enc())
	case "map":
		return "m " + t.key.enc() + " " + t.elem.enc()
	case "chan":
		return fmt.Sprintf("c %d %s", t.dir, t.elem.enc())
	case "func":
		s := fmt.Sprintf("f %d", len(t.ps))
		for _, p := range t.ps {
			s += " " + p.enc()
		}
		s += fmt.Sprintf(" %d", len(t.rs))
		for _, r := range t.rs {
			s += " " + r.enc()
		}
		if t.variadic {
			return s + " 1"
		}
		return s + " 0"
	case "struct":
		s := fmt.Sprintf("st %d", len(t.fields))
		for _, f := range t.fields {
			tag := "-"
			if f.tag != "" {
				tag = hexOf(f.tag)
			}
			e := 0
			if f.emb {
				e = 1
			}
			s += fmt.Sprintf(" %s %s %d %s", f.fname(), tag, e, f.t.enc())
		}
		return s
	case "iface":
		s := fmt.Sprintf("i %d", len(t.methods))
		for _, m := range t.methods {
			s += " " + m.name + " " + m.sig.enc()
		}
		return s
	}
	panic("c03 identity: kind " + t.k)
}

// hasMethods: the type has a method set the model does not know (a defined type of the native
// package with methods, a pointer to it, a struct embedding it).
func (t *ity) hasNativeMethods() bool {
	switch t.k {
	case "named":
		return t.native && t.name != "error" && t.elem.k != "iface"
	case "ptr":
		return t.elem.k == "named" && t.elem.hasNativeMethods()
	case "struct":
		for _, f := range t.fields {
			if f.emb && f.t.hasNativeMethods() {
				return true
			}
		}
	}
	return false
}

// ---- one-edit variants ----

type ivariant struct {
	label string
	t     *ity
	// chain: the pairs of subterms (original, edited) from the edited node outwards, the whole
	// types excluded: the shrinker tries them as smaller pairs
	chain [][2]*ity
}

var idIfaceFamily = []string{"interface{}", "any", "tp.IM", "tp.IN", "tp.IMN", "tp.INM", "tp.IMO", "tp.IMNO", "tp.IMi", "tp.IMr", "tp.IMv", "tp.IMs", "tp.IMe"}

func idInt() *ity { return &ity{k: "basic", name: "int"} }

// vary: the one-edit variants of t (deep: the edit may be at any nesting level when deep is set).
func vary(t *ity, deep bool) []ivariant {
	var out []ivariant
	add := func(label string, v *ity) { out = append(out, ivariant{label: label, t: v}) }
	// child: the variants of a subterm c, put back with wrap
	child := func(pos string, c *ity, wrap func(*ity) *ity, keep func(*ity) bool) {
		if !deep {
			return
		}
		for _, cv := range vary(c, deep) {
			if keep != nil && !keep(cv.t) {
				continue
			}
			out = append(out, ivariant{label: pos + "/" + cv.label, t: wrap(cv.t),
				chain: append(append([][2]*ity{}, cv.chain...), [2]*ity{c, cv.t})})
		}
	}
	cp := func() *ity { c := *t; return &c }
	// named vs unnamed
	if t.k == "named" {
		if !t.native {
			if t.elem.spellable() {
				add("unname", t.elem)
			}
			add("other-defined-type", idDefined(2, t.elem))
			if idDeclByKey["2#"+t.elem.src()] == t {
				out[len(out)-1].t = idDefined(1, t.elem)
			}
		}
		return out
	}
	add("name", idDefined(1, t))
	switch t.k {
	case "basic":
		switch t.name {
		case "int":
			add("basic:int64", &ity{k: "basic", name: "int64"})
			add("basic:string", &ity{k: "basic", name: "string"})
		case "uint8":
			add("same:byte", &ity{k: "basic", name: "byte"})
			add("basic:int8", &ity{k: "basic", name: "int8"})
		case "int32":
			add("same:rune", &ity{k: "basic", name: "rune"})
		default:
			add("basic:int", idInt())
		}
	case "ptr":
		add("pointer-depth-1", t.elem)
		add("pointer-depth+1", &ity{k: "ptr", elem: t})
		child("elem", t.elem, func(e *ity) *ity { return &ity{k: "ptr", elem: e} }, nil)
	case "slice":
		add("slice-to-array", &ity{k: "array", n: 2, elem: t.elem})
		child("elem", t.elem, func(e *ity) *ity { return &ity{k: "slice", elem: e} }, nil)
	case "array":
		add("array-length", &ity{k: "array", n: t.n + 1, elem: t.elem})
		add("array-to-slice", &ity{k: "slice", elem: t.elem})
		child("elem", t.elem, func(e *ity) *ity { return &ity{k: "array", n: t.n, elem: e} }, nil)
	case "map":
		if t.key.src() != t.elem.src() && t.elem.comparable() {
			add("map-key-elem-swapped", &ity{k: "map", key: t.elem, elem: t.key})
		}
		child("key", t.key, func(e *ity) *ity { return &ity{k: "map", key: e, elem: t.elem} }, (*ity).comparable)
		child("elem", t.elem, func(e *ity) *ity { return &ity{k: "map", key: t.key, elem: e} }, nil)
	case "chan":
		for d := 0; d < 3; d++ {
			if d != t.dir {
				add(fmt.Sprintf("chan-direction:%d->%d", t.dir, d), &ity{k: "chan", dir: d, elem: t.elem})
			}
		}
		child("elem", t.elem, func(e *ity) *ity { return &ity{k: "chan", dir: t.dir, elem: e} }, nil)
	case "func":
		np, nr := len(t.ps), len(t.rs)
		if np > 0 && t.ps[np-1].k == "slice" {
			c := cp()
			c.variadic = !t.variadic
			add(fmt.Sprintf("variadic:%v->%v", t.variadic, c.variadic), c)
		}
		if np > 0 {
			c := cp()
			c.ps = append([]*ity{}, t.ps[:np-1]...)
			c.variadic = false
			add("param-dropped", c)
		}
		{
			c := cp()
			c.ps = append([]*ity{idInt()}, t.ps...)
			add("param-added", c)
		}
		if nr > 0 {
			c := cp()
			c.rs = append([]*ity{}, t.rs[:nr-1]...)
			add("result-dropped", c)
		}
		{
			c := cp()
			c.rs = append(append([]*ity{}, t.rs...), idInt())
			add("result-added", c)
		}
		if np >= 2 && !(t.variadic && np == 2) && t.ps[0].src() != t.ps[1].src() {
			c := cp()
			c.ps = append([]*ity{t.ps[1], t.ps[0]}, t.ps[2:]...)
			add("params-swapped", c)
		}
		if nr >= 2 && t.rs[0].src() != t.rs[1].src() {
			c := cp()
			c.rs = append([]*ity{t.rs[1], t.rs[0]}, t.rs[2:]...)
			add("results-swapped", c)
		}
		if np == 1 && nr == 0 && !t.variadic {
			add("param-becomes-result", &ity{k: "func", rs: t.ps})
		}
		for i, p := range t.ps {
			i := i
			if t.variadic && i == np-1 {
				child(fmt.Sprintf("param%d...", i), p.elem, func(e *ity) *ity {
					c := cp()
					c.ps = append([]*ity{}, t.ps...)
					c.ps[i] = &ity{k: "slice", elem: e}
					return c
				}, nil)
				continue
			}
			child(fmt.Sprintf("param%d", i), p, func(e *ity) *ity {
				c := cp()
				c.ps = append([]*ity{}, t.ps...)
				c.ps[i] = e
				return c
			}, nil)
		}
		for i, r := range t.rs {
			i := i
			child(fmt.Sprintf("result%d", i), r, func(e *ity) *ity {
				c := cp()
				c.rs = append([]*ity{}, t.rs...)
				c.rs[i] = e
				return c
			}, nil)
		}
	case "struct":
		withField := func(i int, f ifield) *ity {
			c := cp()
			c.fields = append([]ifield{}, t.fields...)
			c.fields[i] = f
			return c
		}
		for i, f := range t.fields {
			i, f := i, f
			if f.emb {
				g := f
				g.emb, g.name = false, f.fname()
				add("field-embedded->named-alike", withField(i, g))
			} else {
				g := f
				g.name = f.name + "x"
				add("field-renamed", withField(i, g))
				g.name = strings.ToLower(f.name[:1]) + f.name[1:]
				if g.name == f.name {
					g.name = strings.ToUpper(f.name[:1]) + f.name[1:]
				}
				add("field-name-case", withField(i, g))
				if (f.t.k == "named" || f.t.k == "basic") && (ifield{t: f.t, emb: true}).fname() == f.name {
					g = f
					g.emb, g.name = true, ""
					add("field-named-alike->embedded", withField(i, g))
				}
			}
			g := f
			if f.tag == "" {
				g.tag = `k:"v"`
				add("tag-added", withField(i, g))
			} else {
				g.tag = ""
				add("tag-dropped", withField(i, g))
				g.tag = f.tag + " "
				add("tag-changed", withField(i, g))
			}
			child("field"+strconv.Itoa(i), f.t, func(e *ity) *ity {
				g := f
				g.t = e
				if f.emb && (ifield{t: e, emb: true}).fname() == "" {
					g.emb, g.name = false, f.fname()
				}
				return withField(i, g)
			}, func(e *ity) bool { // an embedded field stays a type name (or a pointer to one) of the same name
				return !f.emb || (ifield{t: e, emb: true}).fname() == f.fname() && (e.k != "ptr" || e.elem.underlying().k != "ptr" && e.elem.underlying().k != "iface") && (e.k == "ptr" || e.underlying().k != "ptr")
			})
		}
		if n := len(t.fields); n >= 2 {
			c := cp()
			c.fields = append([]ifield{t.fields[1], t.fields[0]}, t.fields[2:]...)
			add("fields-swapped", c)
			c = cp()
			c.fields = append([]ifield{}, t.fields[:n-1]...)
			add("field-dropped", c)
		}
		{
			c := cp()
			c.fields = append(append([]ifield{}, t.fields...), ifield{name: "Zz", t: idInt()})
			add("field-added", c)
		}
	case "iface":
		for _, s := range idIfaceFamily {
			if s != t.src() {
				label := "method-set:" + s
				if o := idParse(s); idSameMethods(o, t) {
					label = "same:" + s
				}
				add(label, idParse(s))
			}
		}
	}
	return out
}

func idSameMethods(a, b *ity) bool {
	if len(a.methods) != len(b.methods) {
		return false
	}
	for i := range a.methods {
		if a.methods[i].name != b.methods[i].name || a.methods[i].sig.src() != b.methods[i].sig.src() {
			return false
		}
	}
	return true
}

// ---- seeds ----

var idSeeds = []string{
	"int", "uint8", "int32", "string",
	"*int", "**int", "*[2]int", "*struct{ A int }", "*N[int]", "N[*int]",
	"[]int", "[][]int", "[]func(...int)", "[]N[int]", "N[[]int]", "[]uint8",
	"[2]int", "[2][]int", "N[[2]int]", "[2]N[int]",
	"map[string]int", "map[int]string", "map[string]func(...int)", "N[map[string]int]", "map[N[string]]int",
	"chan int", "<-chan int", "chan<- int", "chan []int", "chan (<-chan int)", "N[chan int]", "chan N[int]", "<-chan N[int]",
	"func()", "func(int)", "func(int) string", "func(int, string)", "func(int, string) (string, int)",
	"func(...int)", "func([]int)", "func(string, ...int)", "func(string, []int)", "func(...[]int)", "func([][]int)",
	"func(...int) []int", "func() []int", "func(func(...int))", "func(func([]int))", "func() func(...int)",
	"func(tp.MT, ...int)", "func(tp.MT, []int)", "func(...any)", "func(...N[int])", "func(N[[]int])", "func([]N[int])",
	"N[func(...int)]", "N[func([]int)]", "N[func(int) string]", "N2[func(...int)]", "func(*tp.MT, int) string", "func() (int, string)",
	"struct{}", "struct{ A int }", "struct{ A int; B string }", "struct{ A int `k:\"v\"` }", "struct{ A int `k:\"v\"`; B string `j:\"w\"` }",
	"struct{ a int }", "struct{ F func(...int) }", "struct{ F func([]int) }", "struct{ A struct{ B int } }", "struct{ A struct{ B int `k:\"v\"` } }",
	"struct{ tp.MT }", "struct{ *tp.MT }", "struct{ MT tp.MT }", "struct{ A int; tp.Dur }", "struct{ Dur tp.Dur }",
	"N[struct{ A int }]", "N[struct{ A int `k:\"v\"` }]", "N2[struct{ A int }]", "[]struct{ A int }", "*N[struct{ A int }]",
	"interface{}", "any", "tp.IM", "tp.IMN", "tp.INM", "tp.IMv", "tp.IMs", "tp.IMi", "tp.IMr", "tp.IMe", "N[tp.IMN]", "N[interface{}]", "error",
	"[]tp.IMN", "func(tp.IMv)", "func() tp.IMN", "chan tp.IM", "map[tp.IM]int", "struct{ I tp.IMN }", "*tp.IMs",
	"tp.MT", "*tp.MT", "tp.Dur",
}

// idCross: types of every kind and their near relatives; every ORDERED pair of them is judged by
// the model and go/types' API, and by Build in `var x A = v` and `A(v)`: the rules of
// assignability and convertibility that do not go through identity (numeric and string
// conversions, slices to arrays and array pointers, pointers with identical base types,
// channel directions, interfaces).
var idCross = []string{
	"int", "int64", "uint8", "float64", "complex128", "string", "bool", "uintptr", "N[int]", "N[string]", "N[uint8]", "N[float64]",
	"[]uint8", "[]int32", "[]N[uint8]", "N[[]uint8]", "[]int", "[]string", "[2]int", "[3]int", "[2]uint8", "N[[2]int]",
	"*[2]int", "*[3]int", "*N[[2]int]", "*int", "*N[int]", "N[*int]", "*struct{ A int }", "*struct{ A int `k:\"v\"` }",
	"struct{ A int }", "struct{ A int `k:\"v\"` }", "N[struct{ A int }]", "N2[struct{ A int }]",
	"chan int", "<-chan int", "chan<- int", "N[chan int]", "N[<-chan int]",
	"func(...int)", "func([]int)", "N[func(...int)]", "func(int) string", "map[string]int", "N[map[string]int]",
	"interface{}", "N[interface{}]", "tp.IM", "tp.IMN", "tp.IMv", "N[tp.IMN]", "error", "tp.MT", "*tp.MT", "tp.Dur",
}

type ipair struct {
	a, b  *ity
	label string
	chain [][2]*ity
	seed  string
}

func (p *ipair) key() string { return p.a.src() + "  ~  " + p.b.src() }

var idPairsCache []*ipair

// idPairs: every seed with itself and with each of its one-edit variants, distinct by the two
// sources.
func idPairs() []*ipair {
	if idPairsCache != nil {
		return idPairsCache
	}
	idLoadNative()
	seen := map[string]bool{}
	var out []*ipair
	for _, s := range idSeeds {
		a := idParse(s)
		ps := []*ipair{{a: a, b: a, label: "same:itself", seed: s}}
		for _, v := range vary(a, true) {
			ps = append(ps, &ipair{a: a, b: v.t, label: v.label, chain: v.chain, seed: s})
		}
		for _, p := range ps {
			if !p.b.spellable() || seen[p.key()] {
				continue
			}
			seen[p.key()] = true
			out = append(out, p)
		}
	}
	idPairsCache = out
	return out
}

// ---- random types ----

type idgen struct{ r *proto.Rand }

func (g *idgen) typ(depth int) *ity {
	leaf := func() *ity {
		return idParse(g.r.Pick([]string{"int", "string", "uint8", "bool", "float64", "N[int]", "N[string]", "tp.MT", "tp.Dur", "interface{}", "tp.IM", "tp.IMv", "error", "N[func(...int)]", "N[struct{ A int }]", "N[[]int]"}))
	}
	if depth <= 0 {
		return leaf()
	}
	sub := func() *ity { return g.typ(depth - 1 - g.r.Intn(2)) }
	switch g.r.Intn(12) {
	case 0:
		return leaf()
	case 1:
		return &ity{k: "ptr", elem: sub()}
	case 2:
		return &ity{k: "slice", elem: sub()}
	case 3:
		return &ity{k: "array", n: 1 + g.r.Intn(3), elem: sub()}
	case 4:
		k := sub()
		for i := 0; !k.comparable() || k.k == "iface" && i < 10; i++ {
			k = leaf()
		}
		if !k.comparable() {
			k = idInt()
		}
		return &ity{k: "map", key: k, elem: sub()}
	case 5:
		return &ity{k: "chan", dir: g.r.Intn(3), elem: sub()}
	case 6, 7, 8:
		t := &ity{k: "func"}
		for i, n := 0, g.r.Intn(3); i < n; i++ {
			t.ps = append(t.ps, sub())
		}
		for i, n := 0, g.r.Intn(3); i < n; i++ {
			t.rs = append(t.rs, sub())
		}
		if g.r.Intn(2) == 0 {
			t.ps = append(t.ps, &ity{k: "slice", elem: sub()})
			t.variadic = g.r.Bool()
		}
		return t
	case 9, 10:
		t := &ity{k: "struct"}
		names := map[string]bool{}
		for i, n := 0, 1+g.r.Intn(3); i < n; i++ {
			f := ifield{name: string(rune('A' + i)), t: sub()}
			if g.r.Intn(4) == 0 {
				f.tag = `k:"v"`
			}
			if g.r.Intn(4) == 0 {
				f.t = leaf()
				if e := (ifield{t: f.t, emb: true}); e.fname() != "" && (f.t.k == "named" || f.t.k == "basic") && f.t.underlying().k != "ptr" {
					f.emb, f.name = true, ""
				}
			}
			if names[f.fname()] {
				continue
			}
			names[f.fname()] = true
			t.fields = append(t.fields, f)
		}
		return t
	}
	return idDefined(1, sub())
}

// ---- cells ----

var idContexts = []string{"var-decl", "assign", "arg", "return", "conversion", "struct-field", "slice-elem", "send", "variadic-arg", "append", "compare", "map-value"}

type icell struct {
	ctx  string
	a, b *ity // a value of type b where an a is expected
	form string
	pair *ipair
}

func (c *icell) key() string { return c.ctx + " | " + c.a.src() + " | " + c.b.src() + " | " + c.form }

// idMethodForms: function values that are method values / method expressions of the native type
var idMethodForms = map[string][]string{
	"func(...int)":              {"tp.MT{}.V"},
	"func([]int)":               {"tp.MT{}.S"},
	"func(int) string":          {"tp.MT{}.P", "(&tp.MT{}).Q"},
	"func(tp.MT, ...int)":       {"tp.MT.V"},
	"func(tp.MT, []int)":        {"tp.MT.S"},
	"func(*tp.MT, int) string":  {"(*tp.MT).Q", "(*tp.MT).P"},
	"func() (int, string)":      {"tp.MT{}.R"},
	"func()":                    {"tp.MT{}.M"},
	"func(tp.MT)":               {"tp.MT.M"},
	"func(tp.MT, int) string":   {"tp.MT.P"},
	"func(tp.MT) (int, string)": {"tp.MT.R"},
}

// idForms: the ways a value of type b is written (besides the variable).
func idForms(b *ity) []string {
	out := []string{"var", "call"}
	if b.k == "named" && b.native && b.name != "tp.MT" {
		return out
	}
	switch u := b.underlying(); u.k {
	case "func":
		if b.k == "func" {
			out = append(out, "funclit")
			for i := range idMethodForms[b.src()] {
				out = append(out, "method"+strconv.Itoa(i))
			}
		} else {
			out = append(out, "conv-funclit")
		}
	case "struct", "array", "slice", "map":
		out = append(out, "complit")
	case "chan":
		out = append(out, "make")
	case "ptr":
		if e := u.elem; b.k == "ptr" && (e.underlying().k == "struct" || e.underlying().k == "array") {
			out = append(out, "addr-complit")
		} else if b.k == "ptr" {
			out = append(out, "new")
		}
	}
	return out
}

// value: the expression of the form, and the package-level declarations it needs
func (c *icell) value() (expr string, decls []string) {
	B := c.b.src()
	switch c.form {
	case "var":
		return "v", []string{"var v " + B}
	case "call":
		return "g()", []string{"func g() " + idParen(B) + " {\n\tvar z " + B + "\n\treturn z\n}"}
	case "funclit", "conv-funclit":
		u := c.b.underlying()
		var ps []string
		for i, p := range u.ps {
			if u.variadic && i == len(u.ps)-1 {
				ps = append(ps, fmt.Sprintf("p%d ...%s", i, p.elem.src()))
			} else {
				ps = append(ps, fmt.Sprintf("p%d %s", i, p.src()))
			}
		}
		sig := (&ity{k: "func", rs: u.rs}).src()
		lit := "func(" + strings.Join(ps, ", ") + ")" + strings.TrimPrefix(sig, "func()") + " { panic(\"\") }"
		if c.form == "conv-funclit" {
			return B + "(" + lit + ")", nil
		}
		return lit, nil
	case "complit":
		return B + "{}", nil
	case "make":
		return "make(" + B + ")", nil
	case "addr-complit":
		return "&" + c.b.elem.src() + "{}", nil
	case "new":
		return "new(" + c.b.elem.src() + ")", nil
	}
	if i, ok := strings.CutPrefix(c.form, "method"); ok {
		n, _ := strconv.Atoi(i)
		return idMethodForms[c.b.src()][n], nil
	}
	panic("c03 identity: form " + c.form)
}

// idParen: a function result type that is a receive-only channel is parenthesised (the finding
// function-result-receive-channel-syntax-error of the assignability matrix is not this stream's)
func idParen(s string) string {
	if strings.HasPrefix(s, "<-") {
		return "(" + s + ")"
	}
	return s
}

func (c *icell) src() string {
	A := c.a.src()
	v, decls := c.value()
	var lines []string
	switch c.ctx {
	case "var-decl":
		lines = []string{"var x " + A + " = " + v, "_ = x"}
	case "assign":
		lines = []string{"var x " + A, "x = " + v, "_ = x"}
	case "arg":
		lines = []string{"func(x " + A + ") {}(" + v + ")"}
	case "return":
		lines = []string{"_ = func() " + idParen(A) + " { return " + v + " }"}
	case "conversion":
		lines = []string{"_ = (" + A + ")(" + v + ")"}
	case "struct-field":
		lines = []string{"_ = struct{ F " + A + " }{F: " + v + "}"}
	case "slice-elem":
		lines = []string{"_ = []" + A + "{" + v + "}"}
	case "map-value":
		lines = []string{"_ = map[int]" + A + "{1: " + v + "}"}
	case "send":
		lines = []string{"ch := make(chan " + chanElem(A) + ", 1)", "ch <- " + v}
	case "variadic-arg":
		lines = []string{"func(x ..." + A + ") {}(" + v + ")"}
	case "append":
		lines = []string{"_ = append([]" + A + "{}, " + v + ")"}
	case "compare":
		lines = []string{"var x " + A, "_ = x == " + paren(v)}
	default:
		panic("c03 identity: context " + c.ctx)
	}
	body := "\t" + strings.Join(lines, "\n\t") + "\n"
	text := body + strings.Join(decls, "\n")
	// the type declarations the text mentions, transitively, in order of declaration
	need := map[string]bool{}
	var scan func(s string)
	scan = func(s string) {
		for _, id := range mIdent.FindAllString(s, -1) {
			if d := idDecls[id]; d != nil && !need[id] {
				need[id] = true
				scan(d.elem.src())
			}
		}
	}
	scan(text)
	var b strings.Builder
	b.WriteString("package main\n")
	if strings.Contains(text, "tp.") || func() bool {
		for n := range need {
			if strings.Contains(idDecls[n].elem.src(), "tp.") {
				return true
			}
		}
		return false
	}() {
		b.WriteString("import \"tp\"\n")
	}
	for _, n := range idDeclNames {
		if need[n] {
			b.WriteString("type " + n + " " + idDecls[n].elem.src() + "\n")
		}
	}
	for _, d := range decls {
		b.WriteString(d + "\n")
	}
	b.WriteString("func main() {\n" + body + "}\n")
	return b.String()
}

// ---- go/types on the pair itself ----

type iapi struct{ identical, assignable, convertible bool }

// idAPI asks go/types' Identical, AssignableTo (a value of type B to A) and ConvertibleTo for
// every pair, with one package that declares a variable of every type.
func idAPI(pairs []*ipair) (map[*ipair][2]iapi, error) {
	var b strings.Builder
	b.WriteString("package main\nimport \"tp\"\nvar _ tp.MT\n")
	for _, n := range idDeclNames {
		b.WriteString("type " + n + " " + idDecls[n].elem.src() + "\n")
	}
	for i, p := range pairs {
		fmt.Fprintf(&b, "var a%d %s\nvar b%d %s\n", i, p.a.src(), i, p.b.src())
	}
	fset := token.NewFileSet()
	f, err := parser.ParseFile(fset, "pairs.go", b.String(), parser.SkipObjectResolution)
	if err != nil {
		return nil, fmt.Errorf("identity universe: %v", err)
	}
	conf := types.Config{Importer: theImporter}
	pkg, err := conf.Check("main", fset, []*goast.File{f}, nil)
	if err != nil {
		return nil, fmt.Errorf("identity universe does not type-check: %v", err)
	}
	out := map[*ipair][2]iapi{}
	for i, p := range pairs {
		ta := pkg.Scope().Lookup(fmt.Sprintf("a%d", i)).Type()
		tb := pkg.Scope().Lookup(fmt.Sprintf("b%d", i)).Type()
		out[p] = [2]iapi{
			{types.Identical(ta, tb), types.AssignableTo(tb, ta), types.ConvertibleTo(tb, ta)}, // B → A
			{types.Identical(tb, ta), types.AssignableTo(ta, tb), types.ConvertibleTo(ta, tb)}, // A → B
		}
	}
	return out, nil
}

// ---- the stream ----

func idShrink(c *icell, cl, class string) *icell {
	failing := func(q *icell) bool {
		s := q.src()
		r := mresult{buildReal(s), checkTypes(s)}
		return mClause(r) == cl && idClassOf(q, r.orc, cl) == class
	}
	cur := c
	// the smallest pair of subterms, innermost first
	if c.pair != nil {
		for _, sub := range c.pair.chain {
			a, b := sub[0], sub[1]
			if c.a == c.pair.b { // the cell runs B → A
				a, b = b, a
			}
			for _, q := range []*icell{{ctx: "var-decl", a: a, b: b, form: "var"}, {ctx: c.ctx, a: a, b: b, form: "var"}} {
				if failing(q) {
					cur = q
					break
				}
			}
			if cur != c {
				break
			}
		}
	}
	for _, q := range []*icell{{ctx: "var-decl", a: cur.a, b: cur.b, form: "var"}, {ctx: cur.ctx, a: cur.a, b: cur.b, form: "var"}, {ctx: "var-decl", a: cur.a, b: cur.b, form: cur.form}} {
		if q.key() != cur.key() && failing(q) {
			return q
		}
	}
	return cur
}

func runIdentity(c *hx.Ctx) error {
	res := c.Res
	pairs := idPairs()
	idActivate(c)
	// random types: a few of their one-edit variants, at any depth
	g := &idgen{r: c.R}
	seen := map[string]bool{}
	for _, p := range pairs {
		seen[p.key()] = true
	}
	var randomPairs []*ipair
	for i, n := 0, c.N(150, 4000); i < n; i++ {
		a := g.typ(1 + g.r.Intn(3))
		vs := vary(a, true)
		for k, m := 0, c.N(6, 12); k < m && len(vs) > 0; k++ {
			v := vs[g.r.Intn(len(vs))]
			p := &ipair{a: a, b: v.t, label: v.label, chain: v.chain, seed: "random"}
			if v.t.spellable() && !seen[p.key()] {
				seen[p.key()] = true
				randomPairs = append(randomPairs, p)
			}
		}
	}
	all := append(append([]*ipair{}, pairs...), randomPairs...)
	var cross []*ity
	for _, s := range idCross {
		cross = append(cross, idParse(s))
	}
	for i, a := range cross {
		for _, b := range cross[i+1:] {
			if p := (&ipair{a: a, b: b, label: "cross", seed: "cross"}); !seen[p.key()] {
				seen[p.key()] = true
				all = append(all, p)
			}
		}
	}
	for _, p := range all {
		l := p.label
		if i := strings.LastIndex(l, "/"); i >= 0 {
			res.Hist("identity-edit-depth:" + strconv.Itoa(strings.Count(l, "/")))
			l = l[i+1:]
		} else {
			res.Hist("identity-edit-depth:0")
		}
		if i := strings.Index(l, ":"); i >= 0 && !strings.HasPrefix(l, "same:") {
			l = l[:i]
		}
		res.Hist("identity-edit:" + l)
	}

	// (2) the model against go/types' API, every pair, both directions
	api, err := idAPI(all)
	if err != nil {
		res.AddBreak(proto.Break{Kind: "correspondence", Name: "identity-universe", Model: err.Error()})
		return nil
	}
	model := map[*ipair][2]string{}
	if c.D != nil {
		var lines []string
		for _, p := range all {
			lines = append(lines, "C03 tid "+p.b.enc()+" "+p.a.enc(), "C03 tid "+p.a.enc()+" "+p.b.enc())
		}
		ans, err := c.D.Batch(lines)
		if err != nil {
			return err
		}
		for i, p := range all {
			model[p] = [2]string{ans[2*i], ans[2*i+1]}
			for d := 0; d < 2; d++ {
				from, to := p.b, p.a
				if d == 1 {
					from, to = p.a, p.b
				}
				if from.hasNativeMethods() && to.underlying().k == "iface" {
					res.Hist("identity-model:outside (native method set)")
					continue
				}
				a := api[p][d]
				bit := func(b bool) string {
					if b {
						return "1"
					}
					return "0"
				}
				want := "ok " + bit(a.identical) + " " + bit(a.assignable) + " " + bit(a.convertible)
				res.SpecChecks["identity-model-vs-go/types"]++
				res.Hist("identity-model:" + want)
				if ans[2*i+d] != want {
					res.AddBreak(proto.Break{Kind: "correspondence", Name: "identity-model-vs-go/types", Case: lines[2*i+d],
						Human: from.src() + "  →  " + to.src(), Impl: want + "   [go/types Identical AssignableTo ConvertibleTo]", Model: ans[2*i+d]})
				}
			}
		}
	}

	// (1) the cells
	var cells []*icell
	for pi, p := range all {
		for d := 0; d < 2; d++ {
			a, b := p.a, p.b
			if d == 1 {
				if p.a == p.b {
					continue
				}
				a, b = p.b, p.a
			}
			forms := idForms(b)
			if p.seed == "cross" {
				cells = append(cells, &icell{ctx: "var-decl", a: a, b: b, form: "var", pair: p}, &icell{ctx: "conversion", a: a, b: b, form: "var", pair: p})
				continue
			}
			for ci, ctx := range idContexts {
				for fi, form := range forms {
					if c.Quick() || p.seed == "random" {
						// the variable in every context; the other forms in two contexts moved by the seed
						// (random pairs: three contexts)
						k := (pi + fi*5 + int(c.Seed)) % len(idContexts)
						if p.seed == "random" {
							if ci != k && ci != (k+4)%len(idContexts) && ci != (k+7)%len(idContexts) || fi > 0 && fi != 1+(pi+int(c.Seed))%max(1, len(forms)-1) {
								continue
							}
						} else if form != "var" && ci != k && ci != (k+5)%len(idContexts) {
							continue
						}
					}
					cells = append(cells, &icell{ctx: ctx, a: a, b: b, form: form, pair: p})
				}
			}
		}
	}
	verbose := os.Getenv("C03_VERBOSE") != ""
	precision := map[string]*[2]int{}
	for _, k := range idClasses {
		precision[k.id] = &[2]int{}
	}
	for i, cell := range cells {
		src := cell.src()
		r := mresult{buildReal(src), checkTypes(src)}
		res.Count(src, true)
		res.Hist("kind:identity")
		res.Hist("build:" + r.real.Class)
		res.Hist("identity-context:" + cell.ctx)
		res.Hist("identity-form:" + strings.TrimRight(cell.form, "0123456789"))
		if r.orc.OK {
			res.Hist("go/types:ok")
			res.Hist("identity-go/types:accepted")
		} else {
			res.Hist("go/types:error")
			res.Hist("identity-go/types:rejected")
		}
		if i%1999 == 0 {
			res.Sample(map[string]string{"kind": "identity", "edit": cell.pair.label, "source": src, "build": r.real.Class + " " + r.real.Msg,
				"go/types": fmt.Sprintf("ok=%v %s", r.orc.OK, r.orc.Msg)})
		}
		// (3) the oracle with itself: the program of an assignability / convertibility context is
		// accepted exactly when the API says so (the variable form: literals have their own rules)
		if cell.form == "var" || cell.form == "call" {
			d := 0 // api[pair][0]: a value of type pair.b where a pair.a is expected
			if cell.a == cell.pair.b && cell.pair.a != cell.pair.b {
				d = 1
			}
			a := api[cell.pair][d]
			want, judged := a.assignable, true
			switch cell.ctx {
			case "conversion":
				want = a.convertible
			case "compare":
				judged = false
			case "send", "slice-elem", "append", "variadic-arg", "map-value", "struct-field", "var-decl", "assign", "arg", "return":
			}
			if judged {
				res.SpecChecks["identity-program-vs-go/types-API"]++
				if want != r.orc.OK {
					res.AddBreak(proto.Break{Kind: "correspondence", Name: "identity-program-vs-go/types-API", Case: "source", Human: src,
						Impl: fmt.Sprintf("go/types on the program: ok=%v %s", r.orc.OK, r.orc.Msg), Model: fmt.Sprintf("go/types API: assignable=%v convertible=%v", a.assignable, a.convertible)})
				}
				if m := model[cell.pair][d]; m != "" && strings.HasPrefix(m, "ok ") {
					f := strings.Fields(m)
					mw := f[2] == "1"
					if cell.ctx == "conversion" {
						mw = f[3] == "1"
					}
					if mw == (r.real.Class == "ok") {
						res.Hist("identity-model-vs-Build:agree")
					} else {
						res.Hist("identity-model-vs-Build:differ")
					}
				}
			}
		}
		cl := mClause(r)
		for _, k := range idClasses {
			if want := k.predict(cell, r.orc); want != "" && k.active {
				pr := precision[k.id]
				pr[0]++
				if cl == want {
					pr[1]++
				} else if verbose {
					fmt.Fprintf(os.Stderr, "#### class %s predicts %s, got %q: [%s]\n%s  build: %s %s | go/types: %v %s\n", k.id, want, cl, cell.key(), src, r.real.Class, r.real.Msg, r.orc.OK, r.orc.Msg)
				}
			}
		}
		if cl == "" {
			continue
		}
		// the original failing cell is explained first; a shrinking step keeps the explanation
		orig := idClassOf(cell, r.orc, cl)
		min := idShrink(cell, cl, orig)
		msrc := min.src()
		mr := mresult{buildReal(msrc), checkTypes(msrc)}
		b := proto.Break{Kind: "property", Name: cl, Case: "source", Human: msrc,
			Impl: mr.real.Class + " " + mr.real.Msg, Model: fmt.Sprintf("go/types ok=%v %s", mr.orc.OK, mr.orc.Msg)}
		for _, f := range c.Findings {
			if findingSrc(f.Minimal) == msrc {
				b.Finding = f.ID
			}
		}
		if fid := idClassOf(min, mr.orc, cl); fid != "" && b.Finding == "" {
			b.Finding = c.Known(fid)
			res.Hist("known-class:" + fid)
		}
		if b.Finding == "" && verbose && !seenMin[msrc] {
			seenMin[msrc] = true
			fmt.Fprintf(os.Stderr, "---- %s (identity: %s) [%s]\n%s  build: %s %s\n  go/types: ok=%v %s\n", cl, cell.pair.label, min.key(), msrc, mr.real.Class, mr.real.Msg, mr.orc.OK, mr.orc.Msg)
		}
		res.AddBreak(b)
	}
	// precision of the classes over the cells of the run (recorded; enforced at authoring time
	// with C03_STRICT=1, fixes/FINDING-CLASSES.md point 3)
	for _, k := range idClasses {
		if !k.active {
			continue
		}
		pr := precision[k.id]
		res.Histogram["class-precision/identity/"+k.id+"/cells"] = pr[0]
		res.Histogram["class-precision/identity/"+k.id+"/fail-as-predicted"] = pr[1]
		if pr[0] > 0 {
			res.Histogram["class-precision/identity/"+k.id+"/permille"] = pr[1] * 1000 / pr[0]
		}
		if os.Getenv("C03_STRICT") != "" && pr[1]*100 < pr[0]*95 {
			res.AddBreak(proto.Break{Kind: "correspondence", Name: "finding-class-too-broad: identity/" + k.id,
				Impl: fmt.Sprintf("%d of %d predicted cells fail as predicted", pr[1], pr[0])})
		}
	}
	return nil
}

// ---- classes of recorded findings (fixes/FINDING-CLASSES.md) ----

// A class is a PREDICTION from the coordinates of a cell and the reference's verdict on its
// program — never from what Build did: the clause with which the cell fails, "" when the class
// says nothing. The classes of the assignability matrix that this stream's cells also fall in are
// restated over this stream's coordinates (same finding ids, same causes); two are this stream's.

// idScriggoIface: a type defined in the program's source over an interface WITH methods.
func idScriggoIface(t *ity) bool {
	return t.k == "named" && !t.native && t.underlying().k == "iface" && len(t.underlying().methods) > 0
}

// idScriggoType: declared in, or composed from a type declared in, the program's source.
func idScriggoType(t *ity) bool {
	for _, id := range mIdent.FindAllString(t.src(), -1) {
		if idDecls[id] != nil {
			return true
		}
	}
	return false
}

// idEmbeddedMethods: the struct types (at any depth of t) with an embedded field whose type has
// methods for reflect (a defined non-interface type of the native package with methods, or a
// pointer to one): notFirst — such a field after the first; ptrFirst — a pointer one first, with
// more fields after it.
func idEmbeddedMethods(t *ity) (notFirst, ptrFirst bool) {
	var walk func(t *ity)
	walk = func(t *ity) {
		if t == nil {
			return
		}
		switch t.k {
		case "named":
			if !t.native {
				walk(t.elem)
			}
			return
		case "struct":
			for i, f := range t.fields {
				base := f.t
				if base.k == "ptr" {
					base = base.elem
				}
				if f.emb && base.k == "named" && base.native && base.elem.k != "iface" {
					if i > 0 {
						notFirst = true
					} else if f.t.k == "ptr" && len(t.fields) > 1 {
						ptrFirst = true
					}
				}
				walk(f.t)
			}
		case "func":
			for _, p := range t.ps {
				walk(p)
			}
			for _, r := range t.rs {
				walk(r)
			}
		case "iface":
			return
		}
		walk(t.elem)
		walk(t.key)
	}
	walk(t)
	return
}

type idclass struct {
	id      string
	predict func(c *icell, o typesOutcome) string
	// witness: a cell (context, A, B, form) that fails today as the class predicts; checked at
	// the start of the stream — if it no longer does (or the finding is not listed as open), the
	// class is inactive for the run and explains nothing (a cured finding is silent)
	witness [4]string
	active  bool
}

func idAssignLike(ctx string) bool { return ctx != "compare" }

var idClasses = []idclass{
	// reflect.StructOf panics on an embedded pointer type with methods in a struct of more than
	// one field; typechecker.makeStructOf recovers every panic, re-panics only for "not first
	// field" and otherwise returns a nil type, which the checker then dereferences
	{"struct-embedded-pointer-with-methods-panics", func(c *icell, o typesOutcome) string {
		_, pa := idEmbeddedMethods(c.a)
		_, pb := idEmbeddedMethods(c.b)
		na, _ := idEmbeddedMethods(c.a)
		nb, _ := idEmbeddedMethods(c.b)
		switch {
		case !(pa || pb) || na || nb:
		case !pb && c.ctx == "map-value":
			// the nil type as the element type of a map literal: a bogus "invalid map key type" error
			if o.OK {
				return mRejects
			}
		default:
			return mPanics
		}
		return ""
	}, [4]string{"var-decl", "struct{ *tp.MT }", "struct{ *tp.MT; Zz int }", "var"}, false},
	// reflect.StructOf does not implement an embedded type with methods after the first field;
	// makeStructOf turns the panic into a type-checking error
	{"struct-embedded-type-with-methods-not-first-field", func(c *icell, o typesOutcome) string {
		na, pa := idEmbeddedMethods(c.a)
		nb, pb := idEmbeddedMethods(c.b)
		if (na || nb) && !(pa || pb) && o.OK {
			return mRejects
		}
		return ""
	}, [4]string{"var-decl", "struct{ A int; tp.Dur }", "struct{ A int; tp.Dur }", "var"}, false},
	{"defined-interface-type-methods-ignored", func(c *icell, o typesOutcome) string {
		switch {
		// a value of a type defined over a method interface is not assignable to any interface with methods
		case idScriggoIface(c.b) && c.a != c.b && c.a.underlying().k == "iface" && len(c.a.underlying().methods) > 0 && o.OK && idAssignLike(c.ctx):
			return mRejects
		// every Go type "implements" a type defined over a method interface
		case idScriggoIface(c.a) && !idScriggoType(c.b) && !o.OK && len(o.Classes) == 1 && idAssignLike(c.ctx):
			return mAccepts
		// … and is comparable with a value of it
		case c.ctx == "compare" && !o.OK && len(o.Classes) == 1 && c.b.comparable() && c.a.comparable() &&
			(idScriggoIface(c.a) && !idScriggoType(c.b) || idScriggoIface(c.b) && !idScriggoType(c.a)):
			return mAccepts
		// … while two types defined over method interfaces are "mismatched"
		case c.ctx == "compare" && o.OK && c.a != c.b && idScriggoIface(c.a) && idScriggoIface(c.b):
			return mRejects
		}
		return ""
	}, [4]string{"var-decl", "tp.IM", "N[tp.IM]", "var"}, false},
	{"slice-to-array-conversion-unsupported", func(c *icell, o typesOutcome) string {
		if c.ctx == "conversion" && c.a.underlying().k == "array" && c.b.underlying().k == "slice" && o.OK {
			return mRejects
		}
		return ""
	}, [4]string{"conversion", "[2]int", "[]int", "var"}, false},
	{"composite-literal-element-pointer-type-accepts-value-literal", func(c *icell, o typesOutcome) string {
		if (c.ctx == "slice-elem" || c.ctx == "map-value") && c.form == "complit" && c.a.k == "ptr" && c.a.elem.src() == c.b.src() && !o.OK {
			return mAccepts
		}
		return ""
	}, [4]string{"slice-elem", "*[2]int", "[2]int", "complit"}, false},
	// (variadic-argument-conversion-to-function-type-panics — context variadic-arg, form
	// conv-funclit — is closed: cured by /repo 7757bd0; the form stays in the matrix, idForms)
}

// idActivate: a class explains failures only while its finding is open and its witness still
// fails as it predicts.
func idActivate(c *hx.Ctx) {
	for i := range idClasses {
		k := &idClasses[i]
		w := &icell{ctx: k.witness[0], a: idParse(k.witness[1]), b: idParse(k.witness[2]), form: k.witness[3]}
		src := w.src()
		r := mresult{buildReal(src), checkTypes(src)}
		cl := mClause(r)
		k.active = c.Known(k.id) != "" && cl != "" && k.predict(w, r.orc) == cl
		if os.Getenv("C03_PRINT_WITNESSES") != "" {
			fmt.Fprintf(os.Stderr, "WITNESS identity/%s active=%v %q\n   build: %s %s\n   go/types: %v %s\n", k.id, k.active, src, r.real.Class, r.real.Msg, r.orc.OK, r.orc.Msg)
		}
		if !k.active {
			c.Res.Hist("identity-class-inactive:" + k.id)
		}
	}
}

// idClassOf: the recorded finding whose class predicts exactly this failure of the cell.
func idClassOf(c *icell, o typesOutcome, cl string) string {
	for _, k := range idClasses {
		if k.active && k.predict(c, o) == cl {
			return k.id
		}
	}
	return ""
}
