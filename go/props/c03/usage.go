package main

import (
	"fmt"
	"strings"

	"verifharness/internal/hx"
	"verifharness/internal/proto"
)

// The declaration/use stream (outside the model's syntax): function bodies whose expressions are
// all of type int, so that what decides accept/reject is the bookkeeping of declarations and
// uses: multi-name := with partial redeclaration (a redeclared name is assigned, not used),
// multi-value calls, variables assigned but never read, uses only inside closures, shadowing in
// inner blocks, init statements of if/for/switch, the blank identifier, labels, imports.
// Judged by Build-vs-go/types on accept/reject; the class of the error is compared too and
// reported (histogram, notes) without being a failure, Build reporting one error of several.

type unode struct {
	text  string // simple statement when head == ""
	head  string // compound: head { body } or head { body } mid { body2 }
	body  []*unode
	mid   string
	body2 []*unode
}

type uprog struct {
	imp   string // import declaration or ""
	stmts []*unode
	// pre/post: text around the statements when it is not the default (helpers + func main)
	pre, post string
	line      string // protocol line for the model, if any
}

const uHelpers = "func f0() {}\nfunc f1(x int) int { return x }\nfunc f2() (int, int) { return 1, 2 }\n"

func (n *unode) write(b *strings.Builder, ind string) {
	if n.head == "" {
		b.WriteString(ind + n.text + "\n")
		return
	}
	if n.head == "{" {
		b.WriteString(ind + "{\n")
	} else {
		b.WriteString(ind + n.head + " {\n")
	}
	for _, c := range n.body {
		c.write(b, ind+"\t")
	}
	if n.mid != "" {
		b.WriteString(ind + "} " + n.mid + " {\n")
		for _, c := range n.body2 {
			c.write(b, ind+"\t")
		}
	}
	b.WriteString(ind + n.tail() + "\n")
}

func (n *unode) tail() string {
	if strings.HasPrefix(n.head, "func()") || strings.Contains(n.head, ":= func()") {
		if strings.Contains(n.head, ":= func()") {
			return "}"
		}
		return "}()"
	}
	return "}"
}

func (p *uprog) src() string {
	var b strings.Builder
	b.WriteString("package main\n")
	if p.imp != "" {
		b.WriteString(p.imp + "\n")
	}
	if p.pre != "" {
		b.WriteString(p.pre)
	} else {
		b.WriteString(uHelpers)
		b.WriteString("func main() {\n")
	}
	for _, s := range p.stmts {
		s.write(&b, "\t")
	}
	if p.post != "" {
		b.WriteString(p.post)
	} else {
		b.WriteString("}\n")
	}
	return b.String()
}

func cloneNodes(ns []*unode) []*unode {
	var out []*unode
	for _, n := range ns {
		c := *n
		c.body = cloneNodes(n.body)
		c.body2 = cloneNodes(n.body2)
		out = append(out, &c)
	}
	return out
}

func (p *uprog) clone() *uprog {
	return &uprog{imp: p.imp, stmts: cloneNodes(p.stmts), pre: p.pre, post: p.post}
}

type ugen struct {
	r      *proto.Rand
	scopes [][]string
	label  int
}

var uNames = []string{"a", "b", "c", "d", "e", "g", "h", "k"}

func (g *ugen) visible() []string {
	var out []string
	for _, s := range g.scopes {
		out = append(out, s...)
	}
	return out
}

func (g *ugen) cur() []string { return g.scopes[len(g.scopes)-1] }

func (g *ugen) inCur(x string) bool {
	for _, y := range g.cur() {
		if x == y {
			return true
		}
	}
	return false
}

func (g *ugen) declare(x string) {
	if !g.inCur(x) {
		g.scopes[len(g.scopes)-1] = append(g.scopes[len(g.scopes)-1], x)
	}
}

// fresh picks a name not declared in the current scope (it may shadow an outer one).
func (g *ugen) fresh() string {
	for try := 0; try < 20; try++ {
		x := uNames[g.r.Intn(len(uNames))]
		if !g.inCur(x) {
			return x
		}
	}
	return fmt.Sprintf("v%d", g.r.Intn(1000))
}

func (g *ugen) someVisible() string {
	v := g.visible()
	if len(v) == 0 {
		return "1"
	}
	return v[g.r.Intn(len(v))]
}

func (g *ugen) expr() string {
	switch g.r.Intn(6) {
	case 0:
		return fmt.Sprint(g.r.Intn(9))
	case 1:
		return g.someVisible()
	case 2:
		return g.someVisible() + " + " + fmt.Sprint(g.r.Intn(9))
	case 3:
		return "f1(" + g.someVisible() + ")"
	case 4:
		return g.someVisible() + " * " + g.someVisible()
	}
	return fmt.Sprint(g.r.Intn(9))
}

func (g *ugen) block(depth int) []*unode {
	g.scopes = append(g.scopes, nil)
	out := g.stmts(depth, 1+g.r.Intn(3))
	g.scopes = g.scopes[:len(g.scopes)-1]
	return out
}

// stmts generates n statements in the current scope, then (mostly) a use of each name declared
// in it.
func (g *ugen) stmts(depth, n int) []*unode {
	var out []*unode
	simple := func(format string, a ...any) { out = append(out, &unode{text: fmt.Sprintf(format, a...)}) }
	for i := 0; i < n; i++ {
		k := g.r.Intn(26)
		if depth <= 0 && k >= 14 && k <= 21 {
			k = g.r.Intn(14)
		}
		switch k {
		case 0, 1:
			e := g.expr()
			x := g.fresh()
			g.declare(x)
			simple("%s := %s", x, e)
		case 2, 3, 4: // multi-name := with partial redeclaration
			e1, e2 := g.expr(), g.expr()
			rhs := e1 + ", " + e2
			if g.r.Bool() {
				rhs = "f2()"
			}
			var x string
			if c := g.cur(); len(c) > 0 && g.r.Intn(5) != 0 {
				x = c[g.r.Intn(len(c))]
			} else {
				x = g.fresh()
			}
			y := g.fresh()
			if y == x {
				y = g.fresh()
			}
			if g.r.Intn(12) == 0 { // no new variable at all
				if c := g.cur(); len(c) > 0 {
					y = c[g.r.Intn(len(c))]
				}
			}
			g.declare(x)
			g.declare(y)
			if g.r.Bool() {
				x, y = y, x
			}
			simple("%s, %s := %s", x, y, rhs)
		case 5:
			e := g.expr()
			x := g.fresh()
			g.declare(x)
			switch g.r.Intn(3) {
			case 0:
				simple("var %s int = %s", x, e)
			case 1:
				simple("var %s = %s", x, e)
			default:
				simple("var %s int", x)
			}
		case 6: // assignment: not a use of the left-hand side
			if v := g.visible(); len(v) > 0 {
				x := v[g.r.Intn(len(v))]
				switch g.r.Intn(4) {
				case 0:
					simple("%s = %s", x, g.expr())
				case 1:
					simple("%s = %d", x, g.r.Intn(9))
				case 2:
					simple("%s += %s", x, g.expr())
				default:
					simple("%s++", x)
				}
			}
		case 7:
			if v := g.visible(); len(v) > 1 {
				simple("%s, %s = %s, %s", v[0], v[1], v[1], v[0])
			} else {
				simple("_ = %s", g.expr())
			}
		case 8:
			simple("_ = %s", g.expr())
		case 9: // blank identifier in multi-value forms
			switch g.r.Intn(4) {
			case 0:
				if v := g.visible(); len(v) > 0 {
					simple("_, %s = f2()", v[g.r.Intn(len(v))])
				}
			case 1:
				x := g.fresh()
				g.declare(x)
				simple("%s, _ := f2()", x)
			case 2:
				simple("_, _ = %s, %s", g.expr(), g.expr())
			default:
				x := g.fresh()
				g.declare(x)
				simple("var %s, _ = f2()", x)
			}
		case 10:
			simple("f1(%s)", g.expr())
		case 11:
			e1, e2 := g.expr(), g.expr()
			x, y := g.fresh(), g.fresh()
			if x != y {
				g.declare(x)
				g.declare(y)
				simple("var %s, %s = %s, %s", x, y, e1, e2)
			}
		case 12, 13: // labels
			g.label++
			l := fmt.Sprintf("L%d", g.label)
			switch g.r.Intn(3) {
			case 0:
				out = append(out, &unode{head: l + ": for", body: []*unode{{text: "break " + l}}})
			case 1:
				out = append(out, &unode{head: l + ": for", body: []*unode{{text: "break"}}})
			default:
				// (`continue L` makes Build panic "internal error: not implemented": recorded
				// finding continue-label-not-implemented, replayed at every run, not generated)
				out = append(out, &unode{head: l + ": for i := 0; i < 1; i++", body: []*unode{
					{head: "for", body: []*unode{{text: "break " + l}}}}})
			}
		case 14:
			out = append(out, &unode{head: "{", body: g.block(depth - 1)}) // a bare block: shadowing
		case 15, 16: // if with init statement
			g.scopes = append(g.scopes, nil)
			e := g.expr()
			x := g.fresh()
			g.declare(x)
			cond := x + " > 0"
			if g.r.Intn(3) == 0 {
				cond = "true" // the variable of the init statement is not used by the condition
			}
			head := fmt.Sprintf("if %s := %s; %s", x, e, cond)
			if g.r.Intn(3) == 0 {
				y := g.fresh()
				g.declare(y)
				head = fmt.Sprintf("if %s, %s := f2(); %s", x, y, cond)
			}
			n := &unode{head: head, body: g.block(depth - 1)}
			if g.r.Bool() {
				n.mid, n.body2 = "else", g.block(depth-1)
			}
			g.scopes = g.scopes[:len(g.scopes)-1]
			out = append(out, n)
		case 17, 18: // for
			g.scopes = append(g.scopes, nil)
			var head string
			switch g.r.Intn(4) {
			case 0:
				g.declare("i")
				head = "for i := 0; i < 2; i++"
			case 1:
				g.declare("i")
				head = `for i := range "ab"`
			case 2:
				head = `for _, r := range "ab"`
				g.scopes = append(g.scopes, nil)
				body := g.stmts(depth-1, g.r.Intn(2))
				g.scopes = g.scopes[:len(g.scopes)-1]
				if g.r.Intn(4) != 0 {
					body = append(body, &unode{text: "_ = r"})
				}
				g.scopes = g.scopes[:len(g.scopes)-1]
				out = append(out, &unode{head: head, body: body})
				continue
			default:
				x := g.fresh()
				g.declare(x)
				head = fmt.Sprintf("for %s := %s; %s < 2; %s++", x, g.expr(), x, x)
			}
			n := &unode{head: head, body: g.block(depth - 1)}
			g.scopes = g.scopes[:len(g.scopes)-1]
			out = append(out, n)
		case 19: // switch with init statement
			g.scopes = append(g.scopes, nil)
			e := g.expr()
			x := g.fresh()
			g.declare(x)
			var n *unode
			if g.r.Bool() {
				n = &unode{head: fmt.Sprintf("switch %s := %s; %s", x, e, x), body: []*unode{{text: "case 1:"}, {text: "default:"}}}
			} else {
				tag := "true"
				if g.r.Bool() {
					tag = x + " > 0"
				}
				n = &unode{head: fmt.Sprintf("switch %s := %s;", x, e), body: append([]*unode{{text: "case " + tag + ":"}}, g.block(depth-1)...)}
			}
			g.scopes = g.scopes[:len(g.scopes)-1]
			out = append(out, n)
		case 20: // closure called at once: uses inside count
			out = append(out, &unode{head: "func()", body: g.block(depth - 1)})
		case 21: // closure value
			x := g.fresh()
			e := g.expr()
			g.declare(x)
			out = append(out, &unode{head: x + " := func() int", body: []*unode{{text: "return " + e}}})
		case 22:
			simple("f0()")
		default:
			simple("_ = %s", g.someVisible())
		}
	}
	for _, x := range g.cur() {
		if g.r.Intn(5) != 0 {
			if strings.HasPrefix(x, "v") || len(x) == 1 {
				out = append(out, &unode{text: "_ = " + x})
			}
		}
	}
	return out
}

func usageProgram(c *hx.Ctx) *uprog {
	g := &ugen{r: c.R, scopes: [][]string{nil}}
	p := &uprog{}
	p.stmts = g.stmts(2, 2+c.R.Intn(5))
	switch c.R.Intn(10) {
	case 0, 1:
		p.imp = `import "strings"`
		if c.R.Intn(4) != 0 {
			use := &unode{text: `_ = strings.ToUpper("a")`}
			if c.R.Bool() {
				use = &unode{head: "func()", body: []*unode{use}}
			}
			p.stmts = append(p.stmts, use)
		}
	case 2:
		p.imp = `import s "strings"`
		if c.R.Bool() {
			p.stmts = append(p.stmts, &unode{text: `_ = s.Repeat("a", 2)`})
		}
	case 3:
		p.imp = `import _ "strings"`
	}
	return p
}

// shrinkU deletes statements (at any depth), unwraps compound statements and drops the import
// as long as the same clause keeps failing.
func shrinkU(p *uprog, cl string) *uprog {
	failing := func(q *uprog) bool {
		r, o := evalSrc(q.src())
		return clause(r, o) == cl
	}
	cur := p.clone()
	for changed := true; changed; {
		changed = false
		// enumerate slots: (list pointer, index)
		type slot struct {
			list *[]*unode
			i    int
		}
		var slots []slot
		var rec func(list *[]*unode)
		rec = func(list *[]*unode) {
			for i := range *list {
				slots = append(slots, slot{list, i})
				rec(&(*list)[i].body)
				rec(&(*list)[i].body2)
			}
		}
		rec(&cur.stmts)
		for k := len(slots) - 1; k >= 0 && !changed; k-- {
			// work on a clone and address the k-th slot of the clone
			q := cur.clone()
			var qs []slot
			var rec2 func(list *[]*unode)
			rec2 = func(list *[]*unode) {
				for i := range *list {
					qs = append(qs, slot{list, i})
					rec2(&(*list)[i].body)
					rec2(&(*list)[i].body2)
				}
			}
			rec2(&q.stmts)
			s := qs[k]
			node := (*s.list)[s.i]
			// delete
			del := append(append([]*unode{}, (*s.list)[:s.i]...), (*s.list)[s.i+1:]...)
			saved := *s.list
			*s.list = del
			if failing(q) {
				cur, changed = q, true
				break
			}
			*s.list = saved
			// unwrap
			if node.head != "" && !strings.HasPrefix(node.head, "switch") {
				un := append(append(append([]*unode{}, saved[:s.i]...), node.body...), saved[s.i+1:]...)
				*s.list = un
				if failing(q) {
					cur, changed = q, true
					break
				}
				*s.list = saved
			}
		}
		if !changed && cur.imp != "" {
			q := cur.clone()
			q.imp = ""
			if failing(q) {
				cur, changed = q, true
			}
		}
	}
	return cur
}

// errClass is the class of a type-checking error message, of Build or of go/types.
func errClass(msg string) string {
	switch {
	case strings.Contains(msg, "declared and not used") && strings.Contains(msg, "label"),
		strings.Contains(msg, "defined and not used"):
		return "unused-label"
	case strings.Contains(msg, "declared and not used"), strings.Contains(msg, "declared but not used"):
		return "unused-variable"
	case strings.Contains(msg, "imported") && strings.Contains(msg, "not used"):
		return "unused-import"
	case strings.Contains(msg, "no new variables"):
		return "no-new-variables"
	case strings.Contains(msg, "undefined"), strings.Contains(msg, "undeclared"):
		return "undefined"
	}
	return "other"
}
