// Package tp is the native package "tp" of the C03 assignability matrix: interfaces with methods
// and named types with methods, which Scriggo source cannot declare. The harness hands the real
// reflect types to scriggo.Build and type-checks THIS FILE (embedded) with go/types for the
// oracle, so both sides see the same declarations. It must import nothing.
package tp

// Stringer is an interface with one method; Dur, *Buf and ES implement it.
type Stringer interface{ String() string }

// Nobody is implemented by no type of any generated program.
type Nobody interface{ NobodyImplementsThis() }

// Both embeds the method of error and of Stringer; only ES implements it.
type Both interface {
	Error() string
	String() string
}

// Dur is a named integer type with a value-receiver method.
type Dur int64

func (d Dur) String() string { return "" }

// Buf implements Stringer through a pointer receiver only.
type Buf struct{ N int }

func (b *Buf) String() string { return "" }

// Err implements error with a value receiver.
type Err struct{ Msg string }

func (e Err) Error() string { return e.Msg }

// PErr implements error with a pointer receiver.
type PErr struct{ Msg string }

func (e *PErr) Error() string { return e.Msg }

// ES implements error, Stringer and Both.
type ES struct{}

func (ES) Error() string  { return "" }
func (ES) String() string { return "" }

// NewErr returns an error value.
func NewErr(s string) error { return Err{s} }

// Pair returns two values.
func Pair() (int, string) { return 1, "a" }

// ---- the type-identity matrix (go/props/c03/identity.go) ----

// Unnamed interface types WITH methods, which Scriggo source cannot spell: each alias is declared
// to Build as a type name bound to the unnamed reflect type; go/types sees the alias declaration.
// They differ from IMN in one feature of the method set each (INM: order only — identical).
type (
	IM  = interface{ M() }
	IN  = interface{ N() }
	IMN = interface {
		M()
		N()
	}
	INM = interface {
		N()
		M()
	}
	IMO = interface {
		M()
		O()
	}
	IMNO = interface {
		M()
		N()
		O()
	}
	IMi = interface{ M(int) }
	IMr = interface{ M() int }
	IMv = interface{ M(...int) }
	IMs = interface{ M([]int) }
	IMe = interface{ IM }
)

// MT has methods whose method values and method expressions are function values of the types
// func(...int), func([]int), func(int) string, func(MT, ...int), …
type MT struct{}

func (MT) V(a ...int)       {}
func (MT) S(a []int)        {}
func (MT) P(x int) string   { return "" }
func (*MT) Q(x int) string  { return "" }
func (MT) R() (int, string) { return 0, "" }
func (MT) M()               {}
func (MT) N()               {}
