package main

import (
	"fmt"
	"strings"

	"verifharness/internal/hx"
	"verifharness/internal/proto"
)

// The terminating-statement stream: small functions with a result whose body ends in each of the
// statement forms the specification lists under "Terminating statements" (return, goto, panic,
// block, if/else, for, expression switch, type switch, select, labeled statements), with
// break / continue / labeled break at every depth (targeting the statement itself, an inner or an
// outer one) and fallthrough in last and non-last clauses. go/types reports "missing return"
// exactly when the body does not end in a terminating statement; Build must agree. The skeleton
// of every function is also sent to the Lean model of the specification's definition
// (Model/Terminating.lean).

type tn struct {
	k       string // simple ret panic goto brk cont fall block ifonly ifelse for sw
	target  *tn    // brk/cont with a label: the statement referred to (nil = unlabeled)
	id      int    // own label number, printed when `used`
	used    bool
	cond    bool   // for: has a condition
	rng     bool   // for: range clause
	kind    string // sw: expr type select
	dflt    int    // sw: index of the default clause, -1 if none
	body    []*tn
	els     *tn
	clauses [][]*tn
}

type tgen struct {
	r        *proto.Rand
	next     int
	hasGoto  bool
	injected int
}

func (g *tgen) breakable(k string) *tn {
	g.next++
	return &tn{k: k, id: g.next, dflt: -1}
}

// stmt generates one statement; ctx = the enclosing for/switch/select statements, innermost last.
func (g *tgen) stmt(depth int, ctx []*tn) *tn {
	inFor := false
	for _, c := range ctx {
		inFor = inFor || c.k == "for"
	}
	k := g.r.Intn(30)
	if depth <= 0 && k >= 16 {
		k = g.r.Intn(16)
	}
	switch {
	case k < 5:
		return &tn{k: "ret"}
	case k < 7:
		return &tn{k: "panic"}
	case k < 8:
		return &tn{k: "goto"}
	case k < 10:
		return &tn{k: "simple"}
	case k < 14:
		if len(ctx) == 0 {
			return &tn{k: "ret"}
		}
		if g.r.Bool() {
			return &tn{k: "brk"} // refers to the innermost
		}
		t := ctx[g.r.Intn(len(ctx))]
		if t.rng && t == ctx[len(ctx)-1] {
			// `L: for range … { break L }` makes Build panic "internal error: not implemented":
			// recorded finding break-label-in-range-not-implemented, not generated
			return &tn{k: "brk"}
		}
		return &tn{k: "brk", target: t}
	case k < 16:
		if !inFor {
			return &tn{k: "simple"}
		}
		return &tn{k: "cont"} // (labeled continue makes Build panic: recorded finding)
	case k < 17:
		return &tn{k: "block", body: g.list(depth-1, ctx)}
	case k < 18:
		return &tn{k: "ifonly", body: g.list(depth-1, ctx)}
	case k < 21:
		n := &tn{k: "ifelse", body: g.list(depth-1, ctx)}
		if g.r.Intn(3) == 0 {
			n.els = &tn{k: "ifelse", body: g.list(depth-1, ctx), els: &tn{k: "block", body: g.list(depth-1, ctx)}}
			if g.r.Intn(3) == 0 {
				n.els = &tn{k: "ifonly", body: g.list(depth-1, ctx)}
			}
		} else {
			n.els = &tn{k: "block", body: g.list(depth-1, ctx)}
		}
		return n
	case k < 24:
		n := g.breakable("for")
		switch g.r.Intn(5) {
		case 0:
			n.cond = true
		case 1:
			n.rng = true
		}
		n.body = g.list(depth-1, append(append([]*tn{}, ctx...), n))
		return n
	default:
		n := g.breakable("sw")
		n.kind = []string{"expr", "expr", "type", "select"}[g.r.Intn(4)]
		nc := g.r.Intn(4)
		if n.kind == "select" && nc == 0 && g.r.Bool() {
			nc = 1
		}
		inner := append(append([]*tn{}, ctx...), n)
		for i := 0; i < nc; i++ {
			n.clauses = append(n.clauses, g.list(depth-1, inner))
		}
		if nc > 0 && g.r.Intn(4) != 0 {
			n.dflt = g.r.Intn(nc)
		}
		if n.kind == "expr" {
			for i := 0; i+1 < nc; i++ { // fallthrough: only in a non-last clause of an expression switch
				if g.r.Intn(4) == 0 {
					c := n.clauses[i]
					c[len(c)-1] = &tn{k: "fall"}
				}
			}
		}
		return n
	}
}

// list: up to two leading statements, then one more (the one that decides).
func (g *tgen) list(depth int, ctx []*tn) []*tn {
	var out []*tn
	for i, n := 0, g.r.Intn(3); i < n; i++ {
		if g.r.Intn(3) == 0 {
			out = append(out, g.stmt(depth, ctx))
		} else {
			out = append(out, &tn{k: "simple"})
		}
	}
	return append(out, g.stmt(depth, ctx))
}

func (n *tn) labelPrefix() string {
	if n.used {
		return fmt.Sprintf("L%d: ", n.id)
	}
	return ""
}

func toNodes(list []*tn) []*unode {
	var out []*unode
	for _, n := range list {
		out = append(out, n.node())
	}
	return out
}

func (n *tn) node() *unode {
	switch n.k {
	case "simple":
		return &unode{text: "x++"}
	case "ret":
		return &unode{text: "return x"}
	case "panic":
		return &unode{text: `panic("p")`}
	case "goto":
		return &unode{text: "goto L0"}
	case "brk":
		if n.target != nil {
			return &unode{text: fmt.Sprintf("break L%d", n.target.id)}
		}
		return &unode{text: "break"}
	case "cont":
		return &unode{text: "continue"}
	case "fall":
		return &unode{text: "fallthrough"}
	case "block":
		return &unode{head: "{", body: toNodes(n.body)}
	case "ifonly":
		return &unode{head: "if x > 0", body: toNodes(n.body)}
	case "ifelse":
		u := &unode{head: "if x > 0", body: toNodes(n.body)}
		e := n.els.node()
		if n.els.k == "block" {
			u.mid, u.body2 = "else", e.body
		} else { // else if …: flatten one level; deeper chains are nested in the else block
			u.mid, u.body2 = "else", []*unode{e}
			if e.mid == "" {
				u.mid, u.body2 = "else "+e.head, e.body
			}
		}
		return u
	case "for":
		head := "for"
		if n.cond {
			head = "for x < 3"
		} else if n.rng {
			head = `for range "ab"`
		}
		return &unode{head: n.labelPrefix() + head, body: toNodes(n.body)}
	case "sw":
		var head string
		var heads []string
		switch n.kind {
		case "expr":
			head = "switch x"
			for i := range n.clauses {
				heads = append(heads, fmt.Sprintf("case %d:", i))
			}
		case "type":
			head = "switch v.(type)"
			ts := []string{"int", "string", "bool", "float64"}
			for i := range n.clauses {
				heads = append(heads, "case "+ts[i%len(ts)]+":")
			}
		default:
			head = "select"
			cs := []string{"case <-ch:", "case ch <- 1:", "case y := <-ch: _ = y;", "case <-ch:"}
			for i := range n.clauses {
				heads = append(heads, cs[i%len(cs)])
			}
		}
		u := &unode{head: n.labelPrefix() + head}
		for i, c := range n.clauses {
			h := heads[i]
			if i == n.dflt {
				h = "default:"
			}
			u.body = append(u.body, &unode{text: h})
			u.body = append(u.body, toNodes(c)...)
		}
		return u
	}
	panic("bad tn kind " + n.k)
}

func (n *tn) prefix(b *strings.Builder) {
	if n.used {
		fmt.Fprintf(b, " lab %d", n.id)
	}
	switch n.k {
	case "simple", "ret", "panic", "goto", "fall":
		b.WriteString(" " + n.k)
	case "brk", "cont":
		if n.target != nil {
			fmt.Fprintf(b, " %s %d", n.k, n.target.id)
		} else {
			b.WriteString(" " + n.k + " -")
		}
	case "block", "ifonly":
		fmt.Fprintf(b, " %s %d", n.k, len(n.body))
		prefixList(b, n.body)
	case "ifelse":
		fmt.Fprintf(b, " ifelse %d", len(n.body))
		prefixList(b, n.body)
		n.els.prefix(b)
	case "for":
		fmt.Fprintf(b, " for %d %d %d", b2i(n.cond), b2i(n.rng), len(n.body))
		prefixList(b, n.body)
	case "sw":
		fmt.Fprintf(b, " sw %s %d %d", n.kind, b2i(n.dflt >= 0), len(n.clauses))
		for _, c := range n.clauses {
			fmt.Fprintf(b, " %d", len(c))
			prefixList(b, c)
		}
	}
}

func prefixList(b *strings.Builder, l []*tn) {
	for _, n := range l {
		n.prefix(b)
	}
}

func b2i(b bool) int {
	if b {
		return 1
	}
	return 0
}

// ---- terminating by construction, then a break (or continue) injected somewhere ----

// term generates a statement that is terminating by construction.
func (g *tgen) term(depth int, ctx []*tn) *tn {
	k := g.r.Intn(12)
	if depth <= 0 {
		k = g.r.Intn(3)
	}
	switch {
	case k == 0:
		return &tn{k: "ret"}
	case k == 1:
		return &tn{k: "panic"}
	case k == 2:
		if g.r.Bool() {
			return &tn{k: "goto"}
		}
		return &tn{k: "ret"}
	case k == 3:
		return &tn{k: "block", body: g.termList(depth-1, ctx)}
	case k <= 5:
		n := &tn{k: "ifelse", body: g.termList(depth-1, ctx)}
		if g.r.Intn(3) == 0 {
			n.els = &tn{k: "ifelse", body: g.termList(depth-1, ctx), els: &tn{k: "block", body: g.termList(depth-1, ctx)}}
		} else {
			n.els = &tn{k: "block", body: g.termList(depth-1, ctx)}
		}
		return n
	case k <= 7:
		n := g.breakable("for")
		inner := append(append([]*tn{}, ctx...), n)
		if g.r.Bool() {
			n.body = g.termList(depth-1, inner)
		} else {
			n.body = []*tn{{k: "simple"}}
			n.body = append(g.inject(depth-1, inner), n.body...)
		}
		return n
	default:
		n := g.breakable("sw")
		n.kind = []string{"expr", "type", "type", "select"}[g.r.Intn(4)]
		nc := 1 + g.r.Intn(3)
		inner := append(append([]*tn{}, ctx...), n)
		for i := 0; i < nc; i++ {
			n.clauses = append(n.clauses, g.termList(depth-1, inner))
		}
		n.dflt = g.r.Intn(nc)
		if n.kind == "select" && g.r.Bool() {
			n.dflt = -1
		}
		if n.kind == "expr" {
			for i := 0; i+1 < nc; i++ {
				if g.r.Intn(3) == 0 {
					c := n.clauses[i]
					c[len(c)-1] = &tn{k: "fall"}
				}
			}
		}
		return n
	}
}

// inject returns zero or one statement that may contain a break or continue: referring to the
// innermost enclosing statement, to an outer one by label, or to a statement of its own.
func (g *tgen) inject(depth int, ctx []*tn) []*tn {
	if g.injected >= 2 || len(ctx) == 0 || g.r.Intn(3) != 0 {
		return nil
	}
	g.injected++
	brk := func() *tn {
		if g.r.Bool() {
			return &tn{k: "brk"}
		}
		t := ctx[g.r.Intn(len(ctx))]
		if t.rng && t == ctx[len(ctx)-1] {
			return &tn{k: "brk"}
		}
		return &tn{k: "brk", target: t}
	}
	outer := func() *tn { // a labeled break out of a statement of its own: refers to an enclosing one
		t := ctx[g.r.Intn(len(ctx))]
		return &tn{k: "brk", target: t}
	}
	inFor := false
	for _, c := range ctx {
		inFor = inFor || c.k == "for"
	}
	switch g.r.Intn(8) {
	case 0:
		return []*tn{brk()}
	case 1, 2:
		return []*tn{{k: "ifonly", body: []*tn{brk()}}}
	case 3: // its own loop with an unlabeled break: refers to that loop only
		n := g.breakable("for")
		n.body = []*tn{{k: "brk"}}
		return []*tn{n}
	case 4: // a labeled break from inside a statement of its own
		n := g.breakable("for")
		n.body = []*tn{{k: "ifonly", body: []*tn{outer()}}, {k: "brk"}}
		return []*tn{n}
	case 5:
		n := g.breakable("sw")
		n.kind = []string{"expr", "type", "select"}[g.r.Intn(3)]
		n.clauses = [][]*tn{{outer()}}
		n.dflt = 0
		if n.kind == "select" {
			n.dflt = -1
		}
		return []*tn{n}
	case 6:
		if inFor {
			return []*tn{{k: "ifonly", body: []*tn{{k: "cont"}}}}
		}
		return []*tn{{k: "ifonly", body: []*tn{brk()}}}
	default:
		return []*tn{{k: "block", body: []*tn{{k: "ifelse", body: []*tn{brk()}, els: &tn{k: "block", body: []*tn{{k: "simple"}}}}}}}
	}
}

func (g *tgen) termList(depth int, ctx []*tn) []*tn {
	var out []*tn
	for i, n := 0, g.r.Intn(2); i < n; i++ {
		out = append(out, &tn{k: "simple"})
	}
	out = append(out, g.inject(depth, ctx)...)
	return append(out, g.term(depth, ctx))
}

// mark sets the `used` flag of every statement that a labeled break of the final tree refers to
// and reports whether the tree has a goto.
func mark(list []*tn) (hasGoto bool) {
	for _, n := range list {
		switch n.k {
		case "goto":
			hasGoto = true
		case "brk", "cont":
			if n.target != nil {
				n.target.used = true
			}
		}
		if mark(n.body) {
			hasGoto = true
		}
		if n.els != nil && mark([]*tn{n.els}) {
			hasGoto = true
		}
		for _, c := range n.clauses {
			if mark(c) {
				hasGoto = true
			}
		}
	}
	return hasGoto
}

// terminatingProgram builds one function with a result around a generated statement list.
func terminatingProgram(c *hx.Ctx) *uprog {
	g := &tgen{r: c.R}
	var body []*tn
	if c.R.Bool() {
		body = g.list(1+c.R.Intn(3), nil)
	} else {
		body = g.termList(1+c.R.Intn(3), nil)
	}
	g.hasGoto = mark(body)
	p := &uprog{pre: "func f(x int, v interface{}, ch chan int) int {\n", post: "}\nfunc main() { _ = f }\n"}
	if g.hasGoto {
		p.stmts = append(p.stmts, &unode{text: "L0: x++"})
	}
	p.stmts = append(p.stmts, toNodes(body)...)
	var b strings.Builder
	n := len(body)
	if g.hasGoto {
		n++
	}
	fmt.Fprintf(&b, "C03 term %d", n)
	if g.hasGoto {
		b.WriteString(" lab 0 simple")
	}
	prefixList(&b, body)
	p.line = b.String()
	return p
}
