package main

import (
	"math/big"

	"verifharness/internal/proto"
)

// Type-directed generator of mostly well-typed programs of the fragment. It does not track
// constant values: go/types decides which of the generated programs are well typed, and the
// boundary-rich literals make a fair share of them fail for representability alone.

type gvar struct {
	id int
	t  string
}

type gconst struct {
	id    int
	t     string // "" = untyped
	ukind string // kind when untyped: int rune float bool string
}

type gen struct {
	r      *proto.Rand
	vars   []gvar
	consts []gconst
	next   int
}

func (g *gen) pick(ss []string) string { return ss[g.r.Intn(len(ss))] }
func (g *gen) chance(n int) bool       { return g.r.Intn(n) == 0 }

func defaultOf(ukind string) string {
	switch ukind {
	case "int":
		return "int"
	case "rune":
		return "int32"
	case "float":
		return "float64"
	case "bool":
		return "bool"
	case "string":
		return "string"
	}
	return ""
}

func maxKind(a, b string) string {
	rank := map[string]int{"int": 1, "rune": 2, "float": 3}
	if rank[a] == 0 || rank[b] == 0 {
		return a
	}
	if rank[a] >= rank[b] {
		return a
	}
	return b
}

func bitsOf(t string) (bits uint, signed bool) {
	switch t {
	case "int8":
		return 8, true
	case "int16":
		return 16, true
	case "int32":
		return 32, true
	case "int", "int64":
		return 64, true
	case "uint8":
		return 8, false
	case "uint16":
		return 16, false
	case "uint32":
		return 32, false
	}
	return 64, false
}

func minMax(t string) (*big.Int, *big.Int) {
	bits, signed := bitsOf(t)
	one := big.NewInt(1)
	if signed {
		max := new(big.Int).Sub(new(big.Int).Lsh(one, bits-1), one)
		min := new(big.Int).Neg(new(big.Int).Lsh(one, bits-1))
		return min, max
	}
	return big.NewInt(0), new(big.Int).Sub(new(big.Int).Lsh(one, bits), one)
}

// signedLit builds the expression for a possibly negative integer (Go has no negative literals).
func signedLit(n *big.Int) *E {
	if n.Sign() < 0 {
		return un("-", blit(new(big.Int).Neg(n)))
	}
	return blit(n)
}

// intValueFor picks an integer constant for a context of integer type t: small, at a boundary
// of t, or (rarely) just outside t.
func (g *gen) intValueFor(t string) *big.Int {
	min, max := minMax(t)
	if !g.chance(3) {
		return big.NewInt(int64(g.r.Intn(10)))
	}
	switch g.r.Intn(12) {
	case 0:
		return new(big.Int).Set(max)
	case 1:
		return new(big.Int).Sub(max, big.NewInt(int64(g.r.Intn(3))))
	case 2:
		return new(big.Int).Set(min)
	case 3:
		return new(big.Int).Add(min, big.NewInt(int64(g.r.Intn(3))))
	case 4:
		if g.chance(3) {
			return new(big.Int).Add(max, big.NewInt(1)) // out of range
		}
		return new(big.Int).Rsh(max, 1)
	case 5:
		if g.chance(3) {
			return new(big.Int).Sub(min, big.NewInt(1)) // out of range
		}
		return big.NewInt(int64(g.r.Intn(128)))
	default:
		return big.NewInt(int64(g.r.Intn(10)))
	}
}

var dyadic = [][2]int{{0, 0}, {5, -1}, {1, 0}, {15, -1}, {2, 0}, {25, -2}, {3, 0}, {125, -3}, {25, -1}, {1, 3}, {75, -2}, {4, 0}, {8, 0}, {100, 0}}

func (g *gen) floatLit() *E {
	switch g.r.Intn(40) {
	case 0:
		return flit(1, -1) // 0.1: not exactly a float64
	case 1:
		return flit(1, 30)
	case 2:
		return flit(1, 400) // overflows float64
	}
	d := dyadic[g.r.Intn(len(dyadic))]
	return flit(int64(d[0]), d[1])
}

var strLits = []string{"", "a", "ab", "b", "é", "x\n", "0"}
var runeLits = []int64{'a', 'z', '0', ' ', 0xe9, 0x4e16, 0x1f600, 0, 127, 128}

var arithOps = []string{"+", "-", "*", "/", "%", "&", "|", "^", "&^"}
var floatOps = []string{"+", "-", "*", "/"}
var cmpOps = []string{"==", "!=", "<", "<=", ">", ">="}

func (g *gen) varsOf(t string) []gvar {
	var out []gvar
	for _, v := range g.vars {
		if v.t == t {
			out = append(out, v)
		}
	}
	return out
}

func (g *gen) constsOf(t string) []gconst {
	var out []gconst
	for _, c := range g.consts {
		if c.t == t && t != "" {
			out = append(out, c)
		}
	}
	return out
}

func (g *gen) untypedConsts(kinds ...string) []gconst {
	var out []gconst
	for _, c := range g.consts {
		if c.t != "" {
			continue
		}
		for _, k := range kinds {
			if c.ukind == k {
				out = append(out, c)
			}
		}
	}
	return out
}

// expr returns an expression meant to be usable where type t is expected and the kind of
// untyped constant it is ("" when it is typed).
func (g *gen) expr(t string, d int, constOnly bool) (*E, string) {
	if d <= 0 || g.chance(4) {
		return g.leaf(t, constOnly)
	}
	switch {
	case isIntType(t):
		switch g.r.Intn(10) {
		case 0, 1, 2, 3:
			op := g.pick(arithOps)
			a, ka := g.expr(t, d-1, constOnly)
			var b *E
			var kb string
			if (op == "/" || op == "%") && g.chance(2) {
				b, kb = blit(big.NewInt(int64(1+g.r.Intn(9)))), "int"
			} else {
				b, kb = g.expr(t, d-1, constOnly)
			}
			k := ""
			if ka != "" && kb != "" {
				k = maxKind(ka, kb)
			}
			return bin(op, a, b), k
		case 4, 5:
			a, ka := g.expr(t, d-1, constOnly)
			c := g.count(constOnly || ka != "")
			k := ka
			if k == "float" || k == "rune" {
				if k == "float" {
					k = "int"
				}
			}
			return bin(g.pick([]string{"<<", ">>"}), a, c), k
		case 6:
			ops := []string{"+", "-", "^"}
			if _, signed := bitsOf(t); !signed {
				ops = []string{"+", "^", "^", "-"}
			}
			a, ka := g.expr(t, d-1, constOnly)
			return un(g.pick(ops), a), ka
		case 7, 8:
			src := g.pick(append(append([]string{}, intTypes...), "float64", "float64"))
			a, _ := g.expr(src, d-1, constOnly)
			return conv(t, a), ""
		default:
			return g.leaf(t, constOnly)
		}
	case t == "float64":
		switch g.r.Intn(8) {
		case 0, 1, 2, 3:
			a, ka := g.expr(t, d-1, constOnly)
			b, kb := g.expr(t, d-1, constOnly)
			k := ""
			if ka != "" && kb != "" {
				k = maxKind(ka, kb)
			}
			return bin(g.pick(floatOps), a, b), k
		case 4:
			a, ka := g.expr(t, d-1, constOnly)
			return un(g.pick([]string{"+", "-"}), a), ka
		case 5, 6:
			a, _ := g.expr(g.pick(intTypes), d-1, constOnly)
			return conv(t, a), ""
		default:
			return g.leaf(t, constOnly)
		}
	case t == "string":
		switch g.r.Intn(6) {
		case 0, 1, 2:
			a, ka := g.expr(t, d-1, constOnly)
			b, kb := g.expr(t, d-1, constOnly)
			k := ""
			if ka != "" && kb != "" {
				k = "string"
			}
			return bin("+", a, b), k
		case 3:
			a, _ := g.expr(g.pick([]string{"string", "int32", "uint8", "int"}), d-1, constOnly)
			return conv(t, a), ""
		default:
			return g.leaf(t, constOnly)
		}
	default: // bool
		switch g.r.Intn(8) {
		case 0, 1, 2, 3:
			t2 := g.pick(basicTypes)
			ops := cmpOps
			if t2 == "bool" {
				ops = cmpOps[:2]
			}
			a, ka := g.expr(t2, d-1, constOnly)
			b, kb := g.expr(t2, d-1, constOnly)
			_ = ka
			_ = kb
			return bin(g.pick(ops), a, b), "bool"
		case 4, 5:
			a, ka := g.expr(t, d-1, constOnly)
			b, kb := g.expr(t, d-1, constOnly)
			k := ""
			if ka != "" && kb != "" {
				k = "bool"
			}
			return bin(g.pick([]string{"&&", "||"}), a, b), k
		case 6:
			a, ka := g.expr(t, d-1, constOnly)
			return un("!", a), ka
		default:
			return g.leaf(t, constOnly)
		}
	}
}

func (g *gen) leaf(t string, constOnly bool) (*E, string) {
	if !constOnly {
		if vs := g.varsOf(t); len(vs) > 0 && !g.chance(3) {
			return ident(vs[g.r.Intn(len(vs))].id), ""
		}
	}
	if cs := g.constsOf(t); len(cs) > 0 && g.chance(3) {
		return ident(cs[g.r.Intn(len(cs))].id), ""
	}
	switch {
	case isIntType(t):
		if cs := g.untypedConsts("int", "rune"); len(cs) > 0 && g.chance(5) {
			c := cs[g.r.Intn(len(cs))]
			return ident(c.id), c.ukind
		}
		switch g.r.Intn(12) {
		case 0:
			return &E{K: 'r', N: big.NewInt(runeLits[g.r.Intn(len(runeLits))])}, "rune"
		case 1:
			return flit(int64(g.r.Intn(9)), 0), "float" // 3.0: representable as an integer
		case 2, 3:
			return conv(t, signedLit(g.intValueFor(t))), ""
		default:
			return signedLit(g.intValueFor(t)), "int"
		}
	case t == "float64":
		if cs := g.untypedConsts("int", "rune", "float"); len(cs) > 0 && g.chance(5) {
			c := cs[g.r.Intn(len(cs))]
			return ident(c.id), c.ukind
		}
		switch g.r.Intn(8) {
		case 0, 1:
			return ilit(int64(g.r.Intn(100))), "int"
		case 2:
			return conv(t, g.floatLit()), ""
		default:
			return g.floatLit(), "float"
		}
	case t == "string":
		if cs := g.untypedConsts("string"); len(cs) > 0 && g.chance(4) {
			return ident(cs[g.r.Intn(len(cs))].id), "string"
		}
		return &E{K: 's', S: g.pick(strLits)}, "string"
	default:
		if cs := g.untypedConsts("bool"); len(cs) > 0 && g.chance(4) {
			return ident(cs[g.r.Intn(len(cs))].id), "bool"
		}
		return &E{K: 't', B: g.r.Bool()}, "bool"
	}
}

// count builds a shift count.
func (g *gen) count(constOnly bool) *E {
	if !constOnly && g.chance(2) {
		var cands []gvar
		for _, v := range g.vars {
			if isIntType(v.t) {
				cands = append(cands, v)
			}
		}
		if len(cands) > 0 {
			v := cands[g.r.Intn(len(cands))]
			if g.chance(3) {
				return conv("uint", ident(v.id))
			}
			return ident(v.id)
		}
	}
	switch g.r.Intn(14) {
	case 0:
		return ilit(int64(60 + g.r.Intn(10)))
	case 1:
		return flit(int64(g.r.Intn(5)), 0) // 2.0
	case 2:
		return conv(g.pick(intTypes), ilit(int64(g.r.Intn(9))))
	case 3:
		return &E{K: 'r', N: big.NewInt(int64(g.r.Intn(9)))}
	default:
		return ilit(int64(g.r.Intn(9)))
	}
}

// program builds a base program: declarations, then assignments, then one use of every variable.
func (g *gen) program() *Prog {
	p := &Prog{}
	nd := 2 + g.r.Intn(4)
	for i := 0; i < nd; i++ {
		p.Stmts = append(p.Stmts, g.declaration())
	}
	na := g.r.Intn(4)
	for i := 0; i < na; i++ {
		if s := g.assignment(); s != nil {
			p.Stmts = append(p.Stmts, s)
		}
		if g.chance(4) {
			p.Stmts = append(p.Stmts, g.declaration())
		}
	}
	for _, v := range g.vars {
		p.Stmts = append(p.Stmts, &S{K: "blank", A: ident(v.id)})
	}
	return p
}

func (g *gen) fresh() int {
	g.next++
	return g.next - 1
}

func (g *gen) typeForDecl() string {
	// prefer a type that already has variables so that binary operations find operands
	if len(g.vars) > 0 && g.chance(2) {
		return g.vars[g.r.Intn(len(g.vars))].t
	}
	if g.chance(3) {
		return g.pick([]string{"int", "float64", "string", "bool"})
	}
	return g.pick(basicTypes)
}

// typedInit builds an initialiser whose inferred type is t.
func (g *gen) typedInit(t string, d int) *E {
	e, k := g.expr(t, d, false)
	if k != "" && defaultOf(k) != t {
		e = conv(t, e)
	}
	return e
}

// short2 builds `x, y := e1, e2`: two new names, or (mostly) one new name and one variable
// already declared, which is thereby assigned — not used.
func (g *gen) short2() *S {
	d := 1 + g.r.Intn(2)
	t2 := g.typeForDecl()
	if len(g.vars) > 0 && !g.chance(4) {
		v := g.vars[g.r.Intn(len(g.vars))]
		e1, _ := g.expr(v.t, d, false)
		e2 := g.typedInit(t2, d)
		id := g.fresh()
		g.vars = append(g.vars, gvar{id, t2})
		if g.r.Bool() {
			return &S{K: "short2", ID: v.id, ID2: id, A: e1, B: e2}
		}
		return &S{K: "short2", ID: id, ID2: v.id, A: e2, B: e1}
	}
	t1 := g.typeForDecl()
	e1, e2 := g.typedInit(t1, d), g.typedInit(t2, d)
	a, b := g.fresh(), g.fresh()
	g.vars = append(g.vars, gvar{a, t1}, gvar{b, t2})
	return &S{K: "short2", ID: a, ID2: b, A: e1, B: e2}
}

func (g *gen) declaration() *S {
	if g.chance(6) {
		return g.short2()
	}
	t := g.typeForDecl()
	d := 1 + g.r.Intn(3)
	switch g.r.Intn(10) {
	case 0: // zero value
		id := g.fresh()
		g.vars = append(g.vars, gvar{id, t})
		return &S{K: "var", ID: id, T: t}
	case 1, 2, 3: // var x T = e
		e, _ := g.expr(t, d, false)
		id := g.fresh()
		g.vars = append(g.vars, gvar{id, t})
		return &S{K: "var", ID: id, T: t, A: e}
	case 4, 5, 6: // x := e, var x = e
		e, k := g.expr(t, d, false)
		if k != "" && defaultOf(k) != t {
			e = conv(t, e)
		}
		id := g.fresh()
		g.vars = append(g.vars, gvar{id, t})
		if g.chance(3) {
			return &S{K: "var", ID: id, A: e}
		}
		return &S{K: "short", ID: id, A: e}
	case 7: // const c T = e
		e, _ := g.expr(t, d, true)
		id := g.fresh()
		g.consts = append(g.consts, gconst{id: id, t: t})
		return &S{K: "const", ID: id, T: t, A: e}
	default: // const c = e
		e, k := g.expr(t, d, true)
		id := g.fresh()
		if k == "" {
			g.consts = append(g.consts, gconst{id: id, t: t})
		} else {
			g.consts = append(g.consts, gconst{id: id, ukind: k})
		}
		return &S{K: "const", ID: id, A: e}
	}
}

func (g *gen) assignment() *S {
	if len(g.vars) == 0 {
		return nil
	}
	v := g.vars[g.r.Intn(len(g.vars))]
	d := 1 + g.r.Intn(2)
	switch g.r.Intn(8) {
	case 0, 1, 2:
		e, _ := g.expr(v.t, d, false)
		return &S{K: "asg", ID: v.id, A: e}
	case 3, 4, 5:
		switch {
		case isIntType(v.t):
			if g.chance(4) {
				return &S{K: "op", ID: v.id, Op: g.pick([]string{"<<", ">>"}), A: g.count(false)}
			}
			e, _ := g.expr(v.t, d, false)
			return &S{K: "op", ID: v.id, Op: g.pick(arithOps), A: e}
		case v.t == "float64":
			e, _ := g.expr(v.t, d, false)
			return &S{K: "op", ID: v.id, Op: g.pick(floatOps), A: e}
		case v.t == "string":
			e, _ := g.expr(v.t, d, false)
			return &S{K: "op", ID: v.id, Op: "+", A: e}
		default:
			e, _ := g.expr(v.t, d, false)
			return &S{K: "asg", ID: v.id, A: e}
		}
	case 6:
		if v.t == "bool" || v.t == "string" {
			e, _ := g.expr(v.t, d, false)
			return &S{K: "asg", ID: v.id, A: e}
		}
		return &S{K: g.pick([]string{"inc", "dec"}), ID: v.id}
	default:
		t := g.pick(basicTypes)
		e, _ := g.expr(t, d, false)
		return &S{K: "blank", A: e}
	}
}

// ---- single-point mutations ----

var allBinOps = []string{"+", "-", "*", "/", "%", "&", "|", "^", "&^", "<<", ">>", "==", "!=", "<", "<=", ">", ">=", "&&", "||"}
var allUnOps = []string{"+", "-", "^", "!"}

// mutate applies one mutation to a copy of p and returns it with the mutation's name.
func (g *gen) mutate(p *Prog) (*Prog, string) {
	q := p.clone()
	type node struct {
		e   *E
		set func(*E)
	}
	var nodes []node
	q.walk(func(e *E, set func(*E)) { nodes = append(nodes, node{e, set}) })
	pickNode := func(ok func(*E) bool) *node {
		var c []int
		for i, n := range nodes {
			if ok(n.e) {
				c = append(c, i)
			}
		}
		if len(c) == 0 {
			return nil
		}
		return &nodes[c[g.r.Intn(len(c))]]
	}
	any := func(*E) bool { return true }
	for try := 0; try < 20; try++ {
		switch g.r.Intn(24) {
		case 0: // change an operand's type: another variable
			if n := pickNode(func(e *E) bool { return e.K == 'v' }); n != nil && g.next > 1 {
				id := g.r.Intn(g.next)
				if id != n.e.ID {
					n.set(ident(id))
					return q, "other-identifier"
				}
			}
		case 1: // change an operand's type: wrap in a conversion
			if n := pickNode(any); n != nil {
				n.set(conv(g.pick(basicTypes), n.e))
				return q, "wrap-conversion"
			}
		case 2: // swap operator
			if n := pickNode(func(e *E) bool { return e.K == 'b' }); n != nil {
				op := g.pick(allBinOps)
				if op != n.e.Op {
					n.e.Op = op
					return q, "swap-binary-operator"
				}
			}
		case 3:
			if n := pickNode(func(e *E) bool { return e.K == 'u' }); n != nil {
				op := g.pick(allUnOps)
				if op != n.e.Op {
					n.e.Op = op
					return q, "swap-unary-operator"
				}
			}
		case 4: // constant out of range / at a boundary
			if n := pickNode(func(e *E) bool { return e.K == 'i' }); n != nil {
				t := g.pick(intTypes)
				min, max := minMax(t)
				var v *big.Int
				switch g.r.Intn(5) {
				case 0:
					v = new(big.Int).Add(max, big.NewInt(1))
				case 1:
					v = max
				case 2:
					v = new(big.Int).Neg(min)
				case 3:
					v = new(big.Int).Lsh(big.NewInt(1), uint(60+g.r.Intn(10)))
				default:
					v = new(big.Int).Add(new(big.Int).Neg(min), big.NewInt(1))
				}
				n.set(blit(v))
				return q, "constant-boundary"
			}
		case 5: // typed/untyped mix: give a literal a type
			if n := pickNode(func(e *E) bool { return e.K == 'i' || e.K == 'f' || e.K == 'r' || e.K == 's' || e.K == 't' }); n != nil {
				n.set(conv(g.pick(basicTypes), n.e))
				return q, "type-a-literal"
			}
		case 6: // missing conversion
			if n := pickNode(func(e *E) bool { return e.K == 'c' }); n != nil {
				n.set(n.e.A)
				return q, "drop-conversion"
			}
		case 7: // shift count kinds
			if n := pickNode(func(e *E) bool { return e.K == 'b' && (e.Op == "<<" || e.Op == ">>") }); n != nil {
				switch g.r.Intn(8) {
				case 0:
					n.e.C = flit(15, -1)
				case 1:
					n.e.C = &E{K: 's', S: "1"}
				case 2:
					n.e.C = un("-", ilit(1))
				case 3:
					n.e.C = &E{K: 't', B: true}
				case 4:
					n.e.C = ilit(int64(500 + g.r.Intn(700)))
				case 5:
					n.e.C = blit(new(big.Int).Lsh(big.NewInt(1), 64))
				case 6:
					n.e.C = flit(2, 0)
				default:
					n.e.C = conv("int", un("-", ilit(1)))
				}
				return q, "shift-count-kind"
			}
		case 8: // use nil
			if n := pickNode(any); n != nil {
				n.set(&E{K: 'n'})
				return q, "use-nil"
			}
		case 9: // replace a subexpression by an expression of a random type
			if n := pickNode(any); n != nil {
				e, _ := g.expr(g.pick(basicTypes), 1, false)
				n.set(e)
				return q, "random-subexpression"
			}
		case 10: // undefined name
			if n := pickNode(func(e *E) bool { return e.K == 'v' }); n != nil {
				n.set(ident(g.next + 3))
				return q, "undefined-name"
			}
		case 11: // unused variable: delete a statement (a use, or a declaration still referred to)
			if len(q.Stmts) > 1 {
				i := g.r.Intn(len(q.Stmts))
				q.Stmts = append(q.Stmts[:i:i], q.Stmts[i+1:]...)
				return q, "delete-statement"
			}
		case 12: // duplicate declaration
			i := g.r.Intn(len(q.Stmts))
			j := i + g.r.Intn(len(q.Stmts)-i)
			dup := q.Stmts[i].clone()
			rest := append([]*S{dup}, q.Stmts[j+1:]...)
			q.Stmts = append(q.Stmts[:j+1:j+1], rest...)
			return q, "duplicate-statement"
		case 13: // assign to the wrong type: change a declared type
			var c []*S
			for _, s := range q.Stmts {
				if (s.K == "var" || s.K == "const") && s.T != "" {
					c = append(c, s)
				}
			}
			if len(c) > 0 {
				s := c[g.r.Intn(len(c))]
				t := g.pick(basicTypes)
				if t != s.T {
					s.T = t
					return q, "change-declared-type"
				}
			}
		case 14: // swap two statements (use before declaration)
			if len(q.Stmts) > 1 {
				i := g.r.Intn(len(q.Stmts) - 1)
				q.Stmts[i], q.Stmts[i+1] = q.Stmts[i+1], q.Stmts[i]
				return q, "swap-statements"
			}
		case 15: // change the kind of a statement
			s := q.Stmts[g.r.Intn(len(q.Stmts))]
			switch s.K {
			case "short":
				s.K = "asg"
				return q, "short-to-assignment"
			case "asg":
				s.K = "short"
				return q, "assignment-to-short"
			case "var":
				if s.A != nil {
					s.K = "const"
					return q, "var-to-const"
				}
			case "const":
				s.K = "var"
				return q, "const-to-var"
			case "op":
				s.Op = g.pick(allBinOps[:11])
				return q, "swap-assignment-operator"
			}
		case 16: // assign to a constant / to another variable
			var c []*S
			for _, s := range q.Stmts {
				if s.K == "asg" || s.K == "op" || s.K == "inc" || s.K == "dec" {
					c = append(c, s)
				}
			}
			if len(c) > 0 && g.next > 1 {
				s := c[g.r.Intn(len(c))]
				id := g.r.Intn(g.next)
				if id != s.ID {
					s.ID = id
					return q, "assign-to-other-name"
				}
			}
		case 17: // compare incomparable / order unordered: force an ordering or equality operator
			if n := pickNode(func(e *E) bool { return e.K == 'b' }); n != nil {
				n.e.Op = g.pick(cmpOps)
				return q, "force-comparison"
			}
		case 18: // drop a unary operator or one operand of a binary operator
			if n := pickNode(func(e *E) bool { return e.K == 'u' || e.K == 'b' }); n != nil {
				if n.e.K == 'b' && g.r.Bool() {
					n.set(n.e.C)
				} else {
					n.set(n.e.A)
				}
				return q, "drop-operator"
			}
		case 19: // a use becomes an assignment: the variable is written, never read
			var c []*S
			for _, s := range q.Stmts {
				if s.K == "blank" && s.A.K == 'v' {
					c = append(c, s)
				}
			}
			if len(c) > 0 {
				s := c[g.r.Intn(len(c))]
				t := "int"
				for _, v := range g.vars {
					if v.id == s.A.ID {
						t = v.t
					}
				}
				s.K, s.ID, s.A = "asg", s.A.ID, zeroLit(t)
				return q, "use-to-assignment"
			}
		case 20: // a use becomes a redeclaration by a multi-name :=
			var c []int
			for i, s := range q.Stmts {
				if s.K == "blank" && s.A.K == 'v' {
					c = append(c, i)
				}
			}
			if len(c) > 0 {
				i := c[g.r.Intn(len(c))]
				s := q.Stmts[i]
				t := "int"
				for _, v := range g.vars {
					if v.id == s.A.ID {
						t = v.t
					}
				}
				nid := g.next + 2
				old := s.A.ID
				*s = S{K: "short2", ID: old, ID2: nid, A: zeroLit(t), B: ilit(1)}
				if g.r.Bool() {
					*s = S{K: "short2", ID: nid, ID2: old, A: ilit(1), B: zeroLit(t)}
				}
				rest := append([]*S{{K: "blank", A: ident(nid)}}, q.Stmts[i+1:]...)
				q.Stmts = append(q.Stmts[:i+1:i+1], rest...)
				return q, "use-to-redeclaration"
			}
		case 21: // drop every plain use of one variable
			if len(g.vars) > 0 {
				v := g.vars[g.r.Intn(len(g.vars))]
				var kept []*S
				for _, s := range q.Stmts {
					if s.K == "blank" && s.A.K == 'v' && s.A.ID == v.id {
						continue
					}
					kept = append(kept, s)
				}
				if len(kept) < len(q.Stmts) && len(kept) > 0 {
					q.Stmts = kept
					return q, "drop-uses"
				}
			}
		case 22: // a single := becomes a multi-name := (second name new or existing)
			var c []*S
			for _, s := range q.Stmts {
				if s.K == "short" {
					c = append(c, s)
				}
			}
			if len(c) > 0 {
				s := c[g.r.Intn(len(c))]
				s.K, s.B = "short2", ilit(int64(g.r.Intn(5)))
				s.ID2 = g.next + 2
				if g.next > 0 && g.r.Bool() {
					s.ID2 = g.r.Intn(g.next)
				}
				if g.r.Bool() {
					s.ID, s.ID2, s.A, s.B = s.ID2, s.ID, s.B, s.A
				}
				return q, "short-to-multi-short"
			}
		default: // an extra unused declaration
			t := g.pick(basicTypes)
			e, _ := g.expr(t, 1, false)
			q.Stmts = append(q.Stmts, &S{K: "var", ID: g.next + 1, T: t, A: e})
			return q, "unused-variable"
		}
	}
	return q, "none"
}
