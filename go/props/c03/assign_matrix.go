package main

import (
	"fmt"
	"os"
	"regexp"
	"sort"
	"strings"

	"verifharness/internal/hx"
	"verifharness/internal/proto"
)

// The assignability / convertibility matrix (outside the model's syntax; judged by
// Build-vs-go/types on accept/reject).
//
// A *cell* is (context, target type T, value v): one tiny program in which the value v meets the
// type T in one of the contexts of the specification's sections "Assignability", "Conversions",
// "Comparison operators", "Type assertions" (var x T = v, x = v, f(v), return v, composite literal
// elements / fields / keys, ch <- v, m[v], T(v), x == v, case v:, for x = range …, v.(T), …).
// The type pool has the basic types, defined types over them, empty interfaces, interfaces WITH
// methods (error and those of the native package "tp", go/props/c03/tp/tp.go, together with named
// types that implement them through value and pointer receivers: Scriggo source cannot declare
// methods), pointers, functions, channels of the three directions, slices, arrays, maps, structs
// and defined types over those. Values: untyped constants of every kind and nil, typed constants,
// variables of every pool type, NON-CONSTANT UNTYPED values (comparison results, shifts of untyped
// constants by a variable count), call results, composite literals, address-of, conversions,
// index / selector / receive / type-assertion expressions, function literals.
//
// Systematic part: deterministic; thorough = every (value, type) pair in every context; quick =
// every untyped value × every quick type × every context, and for the typed values every pair in
// contexts chosen by rotation (the seed moves the rotation). Random part: programs of 1–3 cells
// whose values are nested combinations (conversions of conversions, literals indexed, closures
// called, comparisons of those…).
//
// A failing program is shrunk (cells deleted; a nested value replaced by its inner cells or by a
// variable of its type) and attributed to a recorded finding only through a *class*: a predicate
// over the coordinates (context, type, value) of the single remaining cell — input only, never
// the outcome of the run. The precision of every class (cells predicted to fail that do fail,
// with the predicted clause) is measured over the systematic cells of the run and must be ≥ 95 %
// (fixes/FINDING-CLASSES.md), else the class is reported as too broad.

// ---- the type pool ----

type mtype struct {
	src   string // type expression as written in programs
	cls   string // basic, named-basic, iface-empty, iface-method, native-struct, ptr, func, chan, slice, array, map, struct
	quick bool
	idx   int
}

// package-level declarations, by name: the prelude of a program is the set of those its text
// mentions (transitively)
var mDeclNames []string
var mDecls = map[string]string{}

func mDeclare(name, line string) {
	if _, ok := mDecls[name]; ok {
		panic("c03 matrix: duplicate declaration " + name)
	}
	mDeclNames = append(mDeclNames, name)
	mDecls[name] = line
}

var mTypes []*mtype
var mTypeBySrc = map[string]*mtype{}

func mT(src string) *mtype {
	t := mTypeBySrc[src]
	if t == nil {
		panic("c03 matrix: no pool type " + src)
	}
	return t
}

type mvalue struct {
	src string
	// cat: uconst-bool uconst-int uconst-rune uconst-float uconst-complex uconst-string nil
	//      tconst var ubool ushift call lit addr conv misc funclit nested rangeelem
	cat string
	typ *mtype // nil when untyped (or not a pool type)
	// nested values (random part): the cells the value is made of, and a plain value of the same
	// type to put in its place
	subs   []*mcell
	simple *mvalue
	// parts / build: the operands of a nested value and the function that rebuilds the value
	// from (simpler) operands: the shrinker simplifies inside a value with them
	parts []*mvalue
	build func(parts []*mvalue) *mvalue
	op    string // nested-binary / nested-unary: the operator
	wrap  string // nested: the kind of wrapper (conversion, slice-lit, arg, return, …)
}

// alts are simpler values to try in the place of v: a plain variable of its type, each operand
// alone, and v rebuilt over a simpler operand.
func (v *mvalue) alts() []*mvalue {
	var out []*mvalue
	if v.simple != nil {
		out = append(out, v.simple)
	}
	for i, p := range v.parts {
		out = append(out, p)
		if v.build == nil {
			continue
		}
		for _, a := range p.alts() {
			q := append([]*mvalue{}, v.parts...)
			q[i] = a
			out = append(out, v.build(q))
		}
	}
	return out
}

var mValues []*mvalue

func (v *mvalue) untyped() bool {
	return strings.HasPrefix(v.cat, "uconst") || v.cat == "nil" || v.cat == "ubool" || v.cat == "ushift"
}

func init() {
	addT := func(src, cls string, quick bool) {
		t := &mtype{src: src, cls: cls, quick: quick, idx: len(mTypes)}
		mTypes = append(mTypes, t)
		mTypeBySrc[src] = t
	}
	for _, d := range [][2]string{
		{"MyInt", "type MyInt int"}, {"MyStr", "type MyStr string"}, {"MyBool", "type MyBool bool"},
		{"MyFloat", "type MyFloat float64"}, {"Empty", "type Empty interface{}"}, {"MyErr", "type MyErr error"},
		{"PInt", "type PInt *int"}, {"Fn", "type Fn func(int) string"}, {"Ch", "type Ch chan int"},
		{"Sl", "type Sl []int"}, {"MyBytes", "type MyBytes []byte"}, {"Arr", "type Arr [2]int"},
		{"Mp", "type Mp map[string]int"}, {"St", "type St struct {\n\tA int\n\tB string\n}"},
		{"St2", "type St2 struct {\n\tA int\n\tB string\n}"},
	} {
		mDeclare(d[0], d[1])
	}
	for _, b := range []struct {
		s string
		q bool
	}{{"bool", true}, {"int", true}, {"int8", true}, {"int16", false}, {"int32", true}, {"int64", true},
		{"uint", true}, {"uint8", true}, {"uint16", false}, {"uint32", false}, {"uint64", false}, {"uintptr", false},
		{"float32", true}, {"float64", true}, {"complex64", false}, {"complex128", true}, {"string", true}} {
		addT(b.s, "basic", b.q)
	}
	for _, s := range []string{"MyInt", "MyStr", "MyBool", "MyFloat", "tp.Dur"} {
		addT(s, "named-basic", true)
	}
	addT("any", "iface-empty", true)
	addT("interface{}", "iface-empty", true)
	addT("Empty", "iface-empty", true)
	for _, s := range []string{"error", "MyErr", "tp.Stringer", "tp.Nobody", "tp.Both"} {
		addT(s, "iface-method", true)
	}
	for _, s := range []string{"tp.Buf", "tp.Err", "tp.PErr", "tp.ES"} {
		addT(s, "native-struct", s != "tp.PErr")
	}
	for _, s := range []string{"*tp.Buf", "*tp.Err", "*tp.PErr", "*int", "*MyInt", "PInt", "*St", "*[2]int"} {
		addT(s, "ptr", s != "*tp.Err" && s != "*St")
	}
	for _, s := range []string{"func()", "func(int) string", "Fn", "func(MyInt) string"} {
		addT(s, "func", s != "func()")
	}
	for _, s := range []string{"chan int", "<-chan int", "chan<- int", "Ch", "chan MyInt"} {
		addT(s, "chan", s != "chan MyInt")
	}
	for _, s := range []string{"[]int", "[]byte", "[]rune", "Sl", "[]MyInt", "[]any", "MyBytes", "[]string"} {
		addT(s, "slice", s != "[]any" && s != "[]string")
	}
	for _, s := range []string{"[2]int", "[3]int", "Arr", "[2]MyInt"} {
		addT(s, "array", s != "[2]MyInt")
	}
	for _, s := range []string{"map[string]int", "Mp", "map[MyStr]int"} {
		addT(s, "map", s != "map[MyStr]int")
	}
	for _, s := range []string{"struct {\n\tA int\n\tB string\n}", "St", "St2", "struct{}", "struct {\n\tA MyInt\n\tB string\n}"} {
		addT(s, "struct", !strings.Contains(s, "MyInt") && s != "struct{}")
	}
	for _, t := range mTypes {
		mDeclare(fmt.Sprintf("v%d", t.idx), fmt.Sprintf("var v%d %s", t.idx, t.src))
		mDeclare(fmt.Sprintf("take%d", t.idx), fmt.Sprintf("func take%d(x %s) {}", t.idx, t.src))
		mDeclare(fmt.Sprintf("give%d", t.idx), fmt.Sprintf("func give%d() %s {\n\tvar x %s\n\treturn x\n}", t.idx, t.src, t.src))
	}
	for _, d := range [][2]string{
		{"ga", "var ga int"}, {"gb", "var gb int"}, {"gs1", "var gs1 string"}, {"gs2", "var gs2 string"},
		{"gsh", "var gsh uint"}, {"gshi", "var gshi int"}, {"gmi", "var gmi MyInt"}, {"gf", "var gf float64"},
		{"cB", "const cB = true"}, {"cI", "const cI = 1"}, {"cF", "const cF = 1.5"}, {"cS", `const cS = "s"`},
		{"cR", "const cR = 'a'"}, {"kI", "const kI int = 1"}, {"kM", "const kM MyInt = 1"},
		{"kS", `const kS string = "s"`}, {"kB", "const kB MyBool = true"}, {"kD", "const kD tp.Dur = 1"},
	} {
		mDeclare(d[0], d[1])
	}

	addV := func(cat, typ string, srcs ...string) {
		var t *mtype
		if typ != "" {
			t = mT(typ)
		}
		for _, s := range srcs {
			mValues = append(mValues, &mvalue{src: s, cat: cat, typ: t})
		}
	}
	addV("uconst-bool", "", "true", "cB")
	addV("uconst-int", "", "0", "1", "-1", "255", "256", "1 << 40", "1 << 70", "cI")
	addV("uconst-rune", "", "'a'", "cR")
	addV("uconst-float", "", "1.0", "1.5", "1e100", "cF")
	addV("uconst-complex", "", "1i", "0i")
	addV("uconst-string", "", `"s"`, `""`, "cS")
	addV("nil", "", "nil")
	addV("ubool", "", "ga < gb", "gs1 == gs2", "v"+fmt.Sprint(mT("any").idx)+" != nil", "!(ga < gb)", "ga < gb && gf > 1", "gmi <= 1", "ga < 1 == true")
	addV("ushift", "", "1 << gsh", "1.0 << gsh", "'a' << gsh", "1 << gshi", "cI << gsh")
	addV("tconst", "int", "int(1)", "kI", `len("abc")`)
	addV("tconst", "int8", "int8(1)")
	addV("tconst", "uint8", "uint8(200)")
	addV("tconst", "float64", "float64(1.5)", "float64(1)")
	addV("tconst", "string", `string("s")`, "kS")
	addV("tconst", "bool", "bool(true)")
	addV("tconst", "complex128", "complex128(1)")
	addV("tconst", "int32", "rune('a')")
	addV("tconst", "MyInt", "MyInt(1)", "kM")
	addV("tconst", "MyStr", `MyStr("s")`)
	addV("tconst", "MyBool", "MyBool(true)", "kB")
	addV("tconst", "MyFloat", "MyFloat(1.5)")
	addV("tconst", "tp.Dur", "tp.Dur(1)", "kD")
	for _, t := range mTypes {
		mValues = append(mValues, &mvalue{src: fmt.Sprintf("v%d", t.idx), cat: "var", typ: t})
	}
	for _, s := range []string{"int", "string", "MyInt", "any", "error", "tp.Stringer", "tp.Dur", "*tp.Buf", "Fn", "chan int", "Sl", "[2]int", "Mp", "St", "tp.Err", "*int"} {
		mValues = append(mValues, &mvalue{src: fmt.Sprintf("give%d()", mT(s).idx), cat: "call", typ: mT(s)})
	}
	addV("call", "error", `tp.NewErr("e")`)
	addV("lit", "[]int", "[]int{1}")
	addV("lit", "Sl", "Sl{1}")
	addV("lit", "[2]int", "[2]int{1, 2}", "[...]int{1, 2}")
	addV("lit", "Arr", "Arr{}")
	addV("lit", "map[string]int", "map[string]int{}")
	addV("lit", "Mp", `Mp{"a": 1}`)
	addV("lit", "struct {\n\tA int\n\tB string\n}", "struct {\n\tA int\n\tB string\n}{}")
	addV("lit", "St", "St{}")
	addV("lit", "St2", `St2{1, "a"}`)
	addV("lit", "tp.Err", "tp.Err{}")
	addV("lit", "tp.ES", "tp.ES{}")
	addV("lit", "[]MyInt", "[]MyInt{}")
	addV("lit", "[]byte", "[]byte{1}")
	vs := func(s string) string { return fmt.Sprintf("v%d", mT(s).idx) }
	addV("addr", "*int", "&"+vs("int"))
	addV("addr", "*MyInt", "&"+vs("MyInt"))
	addV("addr", "*St", "&St{}")
	addV("addr", "*tp.Buf", "&tp.Buf{}", "&"+vs("tp.Buf"))
	addV("addr", "*tp.PErr", "&tp.PErr{}")
	addV("addr", "*tp.Err", "&tp.Err{}")
	addV("addr", "*[2]int", "&"+vs("[2]int"), "&[2]int{}")
	addV("conv", "MyInt", "MyInt("+vs("int")+")")
	addV("conv", "int", "int("+vs("MyInt")+")")
	addV("conv", "string", "string("+vs("[]byte")+")")
	addV("conv", "[]byte", "[]byte("+vs("string")+")")
	addV("conv", "float64", "float64("+vs("int")+")")
	addV("conv", "any", "any("+vs("int")+")")
	addV("conv", "error", "error("+vs("tp.Err")+")")
	addV("conv", "tp.Stringer", "tp.Stringer("+vs("tp.Dur")+")")
	addV("conv", "func()", "(func())("+vs("func()")+")")
	addV("conv", "Fn", "Fn("+vs("func(int) string")+")")
	addV("conv", "func(int) string", "(func(int) string)("+vs("Fn")+")")
	addV("conv", "chan<- int", "(chan<- int)("+vs("chan int")+")")
	addV("conv", "*int", "(*int)("+vs("PInt")+")")
	addV("funclit", "func(int) string", `func(int) string { return "" }`)
	addV("funclit", "func()", "func() {}")
	addV("misc", "*int", "new(int)")
	addV("misc", "[]int", "make([]int, 1)")
	addV("misc", "chan int", "make(chan int)")
	addV("misc", "int", "len("+vs("string")+")", vs("[]int")+"[0]", vs("map[string]int")+`["a"]`, vs("St")+".A",
		"*"+vs("*int"), "<-"+vs("chan int"), "<-"+vs("<-chan int"), vs("any")+".(int)", "cap("+vs("[]int")+")")
	addV("misc", "error", vs("any")+".(error)")
	addV("misc", "float64", "real("+vs("complex128")+")")
	addV("misc", "uint8", vs("string")+"[0]")
	addV("misc", "string", vs("string")+"[0:1]")
	addV("misc", "[]int", vs("[]int")+"[:]", vs("[2]int")+"[:]")
	addV("misc", "Sl", vs("Sl")+"[:1]")
	addV("misc", "MyInt", vs("[]MyInt")+"[0]", vs("MyInt")+" + 1")
	addV("misc", "MyStr", vs("MyStr")+` + "a"`)
	addV("misc", "bool", vs("bool")+" && true")
}

// ---- cells and programs ----

// the contexts; "range-*" take a *type* V as their value (mvalue.cat == "rangeelem")
var mContexts = []string{
	"var-decl", "assign", "arg", "return", "slice-lit", "array-lit-index", "struct-lit", "struct-lit-key",
	"map-lit-key", "map-lit-value", "send", "map-index", "map-assign", "conversion", "compare", "compare-rev",
	"switch-case", "append", "variadic", "tuple-assign", "field-assign", "deref-assign", "elem-assign",
	"select-send", "const-decl", "type-assert", "type-switch",
	// operands: x OP v with x a variable of type T (== and != are "compare")
	"binop:+", "binop:-", "binop:*", "binop:/", "binop:%", "binop:&", "binop:|", "binop:^", "binop:&^",
	"binop:<<", "binop:>>", "binop:&&", "binop:||", "binop:<", "binop:<=", "binop:>", "binop:>=",
	// the type T plays no role (generated for one T only)
	"expr", "unary:-", "unary:+", "unary:!", "unary:^", "unary:<-", "unary:*",
	"range-slice", "range-map-key", "range-chan", "range-array-ptr",
}

const mRangeContexts = 4

// mIgnoresT: the contexts in which only the value matters.
func mIgnoresT(ctx string) bool { return ctx == "expr" || strings.HasPrefix(ctx, "unary:") }

type mcell struct {
	ctx string
	t   *mtype
	v   *mvalue
}

func (c *mcell) lines() []string {
	T, v := c.t.src, c.v.src
	i := c.t.idx
	switch c.ctx {
	case "var-decl":
		return []string{"var x " + T + " = " + v, "_ = x"}
	case "assign":
		return []string{"var x " + T, "x = " + v, "_ = x"}
	case "arg":
		return []string{fmt.Sprintf("take%d(%s)", i, v)}
	case "return":
		return []string{"_ = func() " + T + " { return " + v + " }"}
	case "slice-lit":
		return []string{"_ = []" + T + "{" + v + "}"}
	case "array-lit-index":
		return []string{"_ = [2]" + T + "{1: " + v + "}"}
	case "struct-lit":
		return []string{"_ = struct{ F " + T + " }{" + v + "}"}
	case "struct-lit-key":
		return []string{"_ = struct{ F " + T + " }{F: " + v + "}"}
	case "map-lit-key":
		return []string{"_ = map[" + T + "]int{" + v + ": 1}"}
	case "map-lit-value":
		return []string{"_ = map[int]" + T + "{1: " + v + "}"}
	case "send":
		return []string{"ch := make(chan " + chanElem(T) + ", 1)", "ch <- " + v}
	case "map-index":
		return []string{"var m map[" + T + "]int", "_ = m[" + v + "]"}
	case "map-assign":
		return []string{"m := map[int]" + T + "{}", "m[1] = " + v}
	case "conversion":
		if strings.ContainsAny(T, "*<( ") && !strings.HasPrefix(T, "struct") && !strings.HasPrefix(T, "interface") || strings.HasPrefix(T, "func") {
			T = "(" + T + ")"
		}
		return []string{"_ = " + T + "(" + v + ")"}
	case "compare":
		return []string{"var x " + T, "_ = x == " + paren(v)}
	case "compare-rev":
		return []string{"var x " + T, "_ = " + paren(v) + " != x"}
	case "switch-case":
		return []string{"var x " + T, "switch x {", "case " + v + ":", "}"}
	case "append":
		return []string{"_ = append([]" + T + "{}, " + v + ")"}
	case "variadic":
		return []string{"func(a ..." + T + ") {}(" + v + ")"}
	case "tuple-assign":
		return []string{"var x " + T, "var y int", "x, y = " + v + ", 1", "_, _ = x, y"}
	case "field-assign":
		return []string{"var s struct{ F " + T + " }", "s.F = " + v, "_ = s"}
	case "deref-assign":
		return []string{"p := new(" + T + ")", "*p = " + v}
	case "elem-assign":
		return []string{"s := make([]" + T + ", 1)", "s[0] = " + v}
	case "select-send":
		return []string{"ch := make(chan " + chanElem(T) + ", 1)", "select {", "case ch <- " + v + ":", "default:", "}"}
	case "const-decl":
		return []string{"const k " + T + " = " + v, "_ = k"}
	case "type-assert":
		return []string{"_ = " + paren(v) + ".(" + T + ")"}
	case "type-switch":
		return []string{"switch " + paren(v) + ".(type) {", "case " + T + ":", "}"}
	case "expr":
		return []string{"_ = " + v}
	// the value is a type V: the iteration values of a range clause are assigned to x
	case "range-slice":
		return []string{"var x " + T, "for _, x = range []" + v + "{} {", "}", "_ = x"}
	case "range-map-key":
		return []string{"var x " + T, "for x = range map[" + v + "]int{} {", "}", "_ = x"}
	case "range-chan":
		return []string{"var x " + T, "for x = range make(chan " + chanElem(v) + ") {", "}", "_ = x"}
	case "range-array-ptr":
		return []string{"var x " + T, "for _, x = range &[2]" + v + "{} {", "}", "_ = x"}
	}
	if op, ok := strings.CutPrefix(c.ctx, "binop:"); ok {
		return []string{"var x " + T, "_ = x " + op + " " + paren(v)}
	}
	if op, ok := strings.CutPrefix(c.ctx, "unary:"); ok {
		return []string{"_ = " + op + paren(v)}
	}
	panic("c03 matrix: context " + c.ctx)
}

// chanElem: `chan <-chan int` would be a send-only channel of `chan int`.
func chanElem(t string) string {
	if strings.HasPrefix(t, "<-") {
		return "(" + t + ")"
	}
	return t
}

func paren(v string) string {
	for _, r := range v {
		if !(r == '_' || r == '.' || r >= '0' && r <= '9' || r >= 'a' && r <= 'z' || r >= 'A' && r <= 'Z') {
			return "(" + v + ")"
		}
	}
	return v
}

func (c *mcell) key() string { return c.ctx + " | " + c.t.src + " | " + c.v.src }

type mprog struct {
	cells []*mcell
	kind  string
}

var mIdent = regexp.MustCompile(`[A-Za-z_][A-Za-z0-9_]*`)

func (p *mprog) src() string {
	var body strings.Builder
	for _, c := range p.cells {
		body.WriteString("\t{\n")
		for _, l := range c.lines() {
			body.WriteString("\t\t" + strings.ReplaceAll(l, "\n", "\n\t\t") + "\n")
		}
		body.WriteString("\t}\n")
	}
	// prelude: the declarations the text mentions, transitively
	need := map[string]bool{}
	var scan func(text string)
	scan = func(text string) {
		for _, id := range mIdent.FindAllString(text, -1) {
			if d, ok := mDecls[id]; ok && !need[id] {
				need[id] = true
				scan(d)
			}
		}
	}
	scan(body.String())
	var b strings.Builder
	b.WriteString("package main\n")
	var decls strings.Builder
	for _, n := range mDeclNames {
		if need[n] {
			decls.WriteString(mDecls[n] + "\n")
		}
	}
	if strings.Contains(decls.String(), "tp.") || strings.Contains(body.String(), "tp.") {
		b.WriteString("import \"tp\"\n")
	}
	b.WriteString(decls.String())
	b.WriteString("func main() {\n")
	b.WriteString(body.String())
	b.WriteString("}\n")
	return b.String()
}

// ---- the systematic part ----

func mRangeValues() []*mvalue {
	var out []*mvalue
	for _, t := range mTypes {
		out = append(out, &mvalue{src: t.src, cat: "rangeelem", typ: t})
	}
	return out
}

// mNear: some class names the cell as one around its cause (the large neighbourhood of
// defined-interface-type-methods-ignored is sampled one in three).
func mNear(c *mcell, k int) bool {
	// the neighbourhoods of CLOSED classes stay in the quick tier (no prediction goes with them:
	// whatever fails there is a failing input), so that a cured defect that returns is seen at once.
	// variadic-argument-conversion-to-function-type-panics (cured by /repo 7757bd0):
	if (c.ctx == "variadic" || c.ctx == "arg") && c.v.cat == "conv" {
		return true
	}
	for i, cl := range mClasses {
		if cl.near(c) && (i != 0 || k%3 == 0) {
			return true
		}
	}
	return false
}

func systematicCells(c *hx.Ctx) []*mcell {
	var out []*mcell
	rangeVals := mRangeValues()
	for ti, t := range mTypes {
		if c.Quick() && !t.quick {
			continue
		}
		for ci, ctx := range mContexts {
			if mIgnoresT(ctx) && ti != 0 {
				continue
			}
			vals := mValues
			isRange := strings.HasPrefix(ctx, "range-")
			if isRange {
				vals = rangeVals
			}
			for vi, v := range vals {
				if c.Quick() {
					if isRange && !v.typ.quick {
						continue
					}
					// typed values: two contexts per (value, type) pair, moved by the seed;
					// untyped values (the delicate rules) in every context
					if !v.untyped() && !mIgnoresT(ctx) && !mNear(&mcell{ctx: ctx, t: t, v: v}, vi+ci+int(c.Seed)) {
						n := len(mContexts) - mRangeContexts
						if isRange {
							if (vi+ti+int(c.Seed))%4 != ci-n {
								continue
							}
						} else {
							k := (vi*5 + ti*3 + int(c.Seed)) % n
							if ci != k && ci != (k+11)%n && ci != (k+29)%n {
								continue
							}
						}
					}
				}
				out = append(out, &mcell{ctx: ctx, t: t, v: v})
			}
		}
	}
	return out
}

// ---- the random part: nested values ----

type mgen struct{ r *proto.Rand }

func (g *mgen) typ() *mtype { return mTypes[g.r.Intn(len(mTypes))] }

func mVarOf(t *mtype) *mvalue {
	return &mvalue{src: fmt.Sprintf("v%d", t.idx), cat: "var", typ: t}
}

// mWrap builds the value `wrapper(in)` of type t: kind is the context of the cell (kind, t, in)
// that the wrapper contains.
func mWrap(kind string, t *mtype, in *mvalue) *mvalue {
	T := t.src
	var src string
	switch kind {
	case "conversion":
		src = strings.TrimPrefix((&mcell{ctx: "conversion", t: t, v: in}).lines()[0], "_ = ")
	case "slice-lit":
		src = "[]" + T + "{" + in.src + "}[0]"
	case "arg":
		src = "func(x " + T + ") " + T + " { return x }(" + in.src + ")"
	case "return":
		src = "func() " + T + " { return " + in.src + " }()"
	case "struct-lit":
		src = "struct{ F " + T + " }{" + in.src + "}.F"
	case "map-lit-value":
		src = "map[int]" + T + "{1: " + in.src + "}[1]"
	}
	return &mvalue{src: src, cat: "nested", typ: t, simple: mVarOf(t), wrap: kind,
		subs:  append(append([]*mcell{}, in.subs...), &mcell{ctx: kind, t: t, v: in}),
		parts: []*mvalue{in}, build: func(p []*mvalue) *mvalue { return mWrap(kind, t, p[0]) }}
}

// mBinary builds `(a op b)`; mUnary `op(a)`. Their type is the type of the left operand, untyped
// bool for comparisons.
func mBinary(op string, a, b *mvalue) *mvalue {
	v := &mvalue{src: "(" + a.src + " " + op + " " + b.src + ")", cat: "nested-binary", typ: a.typ, op: op,
		subs:  append(append([]*mcell{}, a.subs...), b.subs...),
		parts: []*mvalue{a, b}, build: func(p []*mvalue) *mvalue { return mBinary(op, p[0], p[1]) }}
	switch op {
	case "==", "!=", "<", ">=":
		v.typ = nil
	}
	return v
}

func mUnary(op string, a *mvalue) *mvalue {
	return &mvalue{src: op + "(" + a.src + ")", cat: "nested-unary", typ: a.typ, op: op, subs: a.subs,
		parts: []*mvalue{a}, build: func(p []*mvalue) *mvalue { return mUnary(op, p[0]) }}
}

var mWrapKinds = []string{"conversion", "conversion", "slice-lit", "arg", "return", "struct-lit", "map-lit-value"}

func (g *mgen) value(depth int) *mvalue {
	if depth <= 0 {
		return mValues[g.r.Intn(len(mValues))]
	}
	in := g.value(depth - 1)
	// a wrapper that is likely to type-check: prefer the type of the inner value
	t := g.typ()
	if in.typ != nil && g.r.Intn(3) != 0 {
		t = in.typ
	}
	switch k := g.r.Intn(12); {
	case k < len(mWrapKinds):
		return mWrap(mWrapKinds[k], t, in)
	case k == 7:
		return mUnary("", in) // parentheses
	case k == 8:
		return mBinary(g.r.Pick([]string{"==", "!=", "<", ">="}), in, g.value(depth-1))
	case k == 9:
		return mUnary(g.r.Pick([]string{"!", "-", "^"}), in)
	case k == 10:
		return mBinary(g.r.Pick([]string{"+", "-", "&&", "|", "*"}), in, g.value(depth-1))
	}
	return mBinary("<<", in, &mvalue{src: "gsh", cat: "var", typ: mT("uint")})
}

func (g *mgen) program() *mprog {
	p := &mprog{kind: "matrix:random-nested"}
	n := len(mContexts) - mRangeContexts
	for i, k := 0, 1+g.r.Intn(3); i < k; i++ {
		v := g.value(1 + g.r.Intn(2))
		t := g.typ()
		if v.typ != nil && g.r.Intn(3) == 0 {
			t = v.typ
		}
		p.cells = append(p.cells, &mcell{ctx: mContexts[g.r.Intn(n)], t: t, v: v})
	}
	return p
}

// ---- evaluation, shrinking, classes ----

type mresult struct {
	real buildOutcome
	orc  typesOutcome
}

func mClause(r mresult) string {
	cl := clause(r.real, r.orc)
	if k := r.orc.known(); k != "" && (cl == "rejects-what-go/types-accepts" || cl == "accepts-what-go/types-rejects") {
		return ""
	}
	return cl
}

// evalAll evaluates the sources on Build and go/types, one after the other: concurrent calls of
// scriggo.Build race on the type infos of the universe block (go test -race), so the evaluation
// is not spread over goroutines (≈ 80 µs per program).
func evalAll(srcs []string) []mresult {
	out := make([]mresult, len(srcs))
	for i, s := range srcs {
		out[i] = mresult{buildReal(s), checkTypes(s)}
	}
	return out
}

func mEval(p *mprog) mresult {
	s := p.src()
	return mresult{buildReal(s), checkTypes(s)}
}

// mShrink: delete cells; replace a cell with a nested value by one of the cells the value is made
// of, by the bare expression statement `_ = v`, or by the same cell over a simpler value (a
// variable of the value's type, an operand, the value over simpler operands).
func mShrink(p *mprog, cl string) *mprog {
	failing := func(q *mprog) bool { return len(q.cells) > 0 && mClause(mEval(q)) == cl }
	cur := &mprog{cells: append([]*mcell{}, p.cells...), kind: p.kind}
	for changed := true; changed; {
		changed = false
		for i := 0; i < len(cur.cells) && len(cur.cells) > 1; i++ {
			q := &mprog{kind: cur.kind}
			q.cells = append(append(q.cells, cur.cells[:i]...), cur.cells[i+1:]...)
			if failing(q) {
				cur, changed = q, true
				i--
			}
		}
		for i, c := range cur.cells {
			var cands []*mcell
			cands = append(cands, c.v.subs...)
			if c.ctx != "expr" && !strings.HasPrefix(c.ctx, "range-") {
				cands = append(cands, &mcell{ctx: "expr", t: mTypes[0], v: c.v})
			}
			for _, a := range c.v.alts() {
				cands = append(cands, &mcell{ctx: c.ctx, t: c.t, v: a})
			}
			for _, cand := range cands {
				q := &mprog{kind: cur.kind, cells: append([]*mcell{}, cur.cells...)}
				q.cells[i] = cand
				if failing(q) {
					cur, changed = q, true
					break
				}
			}
			if changed {
				break
			}
		}
	}
	return cur
}

// ---- classes of recorded findings ----

// mclass: a recorded finding as a PREDICTION: from the coordinates of a cell and the reference's
// verdict on its program (never from what Build did), the clause with which the cell fails, ""
// when the class predicts nothing for the cell.
type mclass struct {
	id      string
	predict func(c *mcell, o typesOutcome) string
	// witness: the cell whose program is the finding's recorded minimal input
	// (known_findings.json); it must still fail and fall into this class
	witness [3]string
	// near: the cells around the cause (coordinates only, no oracle; the near misses are among
	// them): the quick tier, which samples the typed values, always runs these, so that the
	// precision of the class is measured on every run
	near func(c *mcell) bool
}

func mValueBySrc(src string) *mvalue {
	for _, v := range mValues {
		if v.src == src {
			return v
		}
	}
	if t := mTypeBySrc[src]; t != nil {
		return &mvalue{src: src, cat: "rangeelem", typ: t}
	}
	panic("c03 matrix: no value " + src)
}

func (k mclass) witnessCell() *mcell {
	return &mcell{ctx: k.witness[0], t: mT(k.witness[1]), v: mValueBySrc(k.witness[2])}
}

const (
	mAccepts = "accepts-what-go/types-rejects"
	mRejects = "rejects-what-go/types-accepts"
	mPanics  = "build-panics"
)

func hasAny(s string, subs ...string) bool {
	for _, x := range subs {
		if strings.Contains(s, x) {
			return true
		}
	}
	return false
}

var mRecvResult = regexp.MustCompile(`\) <-chan`)

func mIsLitCtx(ctx string) bool {
	return ctx == "slice-lit" || ctx == "array-lit-index" || ctx == "map-lit-key" || ctx == "map-lit-value"
}

func mIsStruct(t *mtype) bool { return t != nil && (t.cls == "struct" || t.cls == "native-struct") }

// mStructArith: the cell is `x OP y` with OP an arithmetic operator and both operands of the same
// struct type (the "binop:" contexts, or the bare expression a random program shrinks to).
func mStructArith(c *mcell) bool {
	arith := func(op string) bool {
		switch op {
		case "+", "-", "*", "/", "%", "&", "|", "^", "&^":
			return true
		}
		return false
	}
	if op, ok := strings.CutPrefix(c.ctx, "binop:"); ok {
		return arith(op) && mIsStruct(c.t) && c.v.typ == c.t
	}
	if c.v.cat == "nested-binary" && len(c.v.parts) == 2 && arith(c.v.op) {
		a, b := c.v.parts[0], c.v.parts[1]
		return len(a.parts) == 0 && len(b.parts) == 0 && mIsStruct(a.typ) && a.typ == b.typ
	}
	return false
}

// mScriggoType: the type is declared (or composed from a type declared) in the program's own
// source, as opposed to predeclared types, literals over them and the native package's types.
func mScriggoType(t *mtype) bool {
	for _, id := range mIdent.FindAllString(t.src, -1) {
		if d, ok := mDecls[id]; ok && strings.HasPrefix(d, "type ") {
			return true
		}
	}
	return false
}

// mAssignLike: the contexts decided by assignability, convertibility or comparability of v and T.
func mAssignLike(ctx string) bool {
	return !(strings.HasPrefix(ctx, "binop:") || mIgnoresT(ctx) || ctx == "const-decl" || ctx == "type-assert" || ctx == "type-switch")
}

// predictDefinedInterface: `type MyErr error` — a type defined in Scriggo source over an interface
// WITH methods. types.Implements says "a Scriggo type has no methods" and "every type implements
// an interface declared in Scriggo source": (1) a value of a Go (non-Scriggo) type is assignable,
// convertible and comparable to MyErr whatever its methods; (2) a MyErr value is assignable only
// to empty interfaces, not to error; (3) x.(T), a type switch on, and a comparison with a MyErr
// value accept every Go type T.
func predictDefinedInterface(c *mcell, o typesOutcome) string {
	valueIsMyErr := c.v.typ != nil && c.v.typ.src == "MyErr"
	isCmp := c.ctx == "compare" || c.ctx == "compare-rev" || c.ctx == "switch-case"
	comparable := func(t *mtype) bool { return t.cls != "func" && t.cls != "slice" && t.cls != "map" }
	switch {
	case c.t.src == "MyErr" && c.v.typ != nil && !valueIsMyErr && !mScriggoType(c.v.typ) && !o.OK && len(o.Classes) == 1 && mAssignLike(c.ctx):
		if c.ctx == "conversion" && c.v.cat == "tconst" || isCmp && !comparable(c.v.typ) {
			return "" // constants are converted by another branch; operands that cannot be compared at all
		}
		return mAccepts
	case valueIsMyErr && c.t.src != "MyErr" && c.t.cls == "iface-method" && o.OK && mAssignLike(c.ctx) && !isCmp:
		return mRejects
	case valueIsMyErr && !o.OK && !mScriggoType(c.t) && (isCmp && comparable(c.t) || c.ctx == "type-assert" || c.ctx == "type-switch"):
		return mAccepts
	}
	return ""
}

// The classes. Each states its cause as the code has it; see known_findings.json for the texts.
var mClasses []mclass

func init() {
	mClasses = []mclass{
		{"defined-interface-type-methods-ignored", predictDefinedInterface, [3]string{"var-decl", "MyErr", mVarOf(mT("int")).src},
			func(c *mcell) bool { return c.t.src == "MyErr" || c.v.typ != nil && c.v.typ.src == "MyErr" }},
		// append(s, nil): the checker calls setValue on the predeclared nil while converting the
		// argument to the element type (every nil-able element type)
		{"append-nil-argument-panics", func(c *mcell, o typesOutcome) string {
			if c.ctx == "append" && c.v.cat == "nil" && o.OK {
				return mPanics
			}
			return ""
		}, [3]string{"append", "any", "nil"},
			func(c *mcell) bool { return c.ctx == "append" && (c.v.cat == "nil" || c.v.cat == "uconst-int") }},
		// a type switch does not check that the type of a case can implement the interface of the
		// switched value (the type assertion x.(T) does)
		{"type-switch-impossible-case-accepted", func(c *mcell, o typesOutcome) string {
			if c.ctx == "type-switch" && !o.OK && len(o.Classes) == 1 && strings.Contains(o.Msg, "impossible type switch case") {
				return mAccepts
			}
			return ""
		}, [3]string{"type-switch", "int", mVarOf(mT("error")).src},
			func(c *mcell) bool {
				return c.ctx == "type-switch" && c.v.typ != nil && strings.HasPrefix(c.v.typ.cls, "iface")
			}},
		// the parser does not take `<-chan T` as an unparenthesised function result
		{"function-result-receive-channel-syntax-error", func(c *mcell, o typesOutcome) string {
			if o.OK && mRecvResult.MatchString(strings.Join(c.lines(), "\n")) {
				return mRejects
			}
			return ""
		}, [3]string{"return", "<-chan int", "nil"},
			func(c *mcell) bool { return c.ctx == "return" && c.t.cls == "chan" }},
		// T(c) with c a typed constant and T an interface with methods: the conversion of a constant
		// goes through convert's constant branch, which only knows empty interfaces
		{"typed-constant-to-method-interface-conversion-rejected", func(c *mcell, o typesOutcome) string {
			if c.ctx == "conversion" && c.v.cat == "tconst" && c.t.cls == "iface-method" && c.t.src != "MyErr" && o.OK {
				return mRejects
			}
			return ""
		}, [3]string{"conversion", "tp.Stringer", "tp.Dur(1)"},
			func(c *mcell) bool {
				return c.ctx == "conversion" && c.v.cat == "tconst" && strings.HasPrefix(c.t.cls, "iface")
			}},
		// the conversion of a slice to an array type (Go 1.20) is not implemented
		{"slice-to-array-conversion-unsupported", func(c *mcell, o typesOutcome) string {
			if c.ctx == "conversion" && c.t.cls == "array" && c.v.typ != nil && c.v.typ.cls == "slice" && o.OK {
				return mRejects
			}
			return ""
		}, [3]string{"conversion", "[2]int", mVarOf(mT("[]int")).src},
			func(c *mcell) bool { return c.ctx == "conversion" && (c.t.cls == "array" || c.t.src == "*[2]int") }},
		// an element or key `T{…}` (literal type spelled out) of a composite literal whose element or
		// key type is *T is taken as if the & had been elided
		{"composite-literal-element-pointer-type-accepts-value-literal", func(c *mcell, o typesOutcome) string {
			if mIsLitCtx(c.ctx) && c.t.cls == "ptr" && c.v.cat == "lit" && c.v.typ != nil && c.t.src == "*"+c.v.typ.src && !o.OK {
				return mAccepts
			}
			return ""
		}, [3]string{"slice-lit", "*St", "St{}"},
			func(c *mcell) bool {
				return mIsLitCtx(c.ctx) && c.t.cls == "ptr" && (c.v.cat == "lit" || c.v.cat == "addr")
			}},
		// x OP y with both operands of the same struct type: the operator table is indexed by
		// reflect.Kind and ends before reflect.Struct
		// (the class variadic-argument-conversion-to-function-type-panics — f(T(x)) with f variadic,
		// T(x) its only variadic argument and T a function type — is closed: cured by /repo 7757bd0;
		// the cells it covered are ordinary cells again, a panic there is a failing input)
		{"arithmetic-on-struct-operands-panics", func(c *mcell, o typesOutcome) string {
			if mStructArith(c) {
				return mPanics
			}
			return ""
		}, [3]string{"binop:+", "struct{}", mVarOf(mT("struct{}")).src},
			func(c *mcell) bool {
				return strings.HasPrefix(c.ctx, "binop:") && (mIsStruct(c.t) || c.t.cls == "array") && c.v.typ != nil && c.v.typ.cls == c.t.cls
			}},
	}
}

func mClassOf(c *mcell, o typesOutcome, cl string) string {
	for _, k := range mClasses {
		if k.predict(c, o) == cl {
			return k.id
		}
	}
	return ""
}

func runMatrix(c *hx.Ctx) {
	res := c.Res
	var progs []*mprog
	for _, cell := range systematicCells(c) {
		progs = append(progs, &mprog{cells: []*mcell{cell}, kind: "matrix:systematic"})
	}
	g := &mgen{r: c.R}
	for i, n := 0, c.N(2500, 60000); i < n; i++ {
		progs = append(progs, g.program())
	}
	srcs := make([]string, len(progs))
	for i, p := range progs {
		srcs[i] = p.src()
	}
	results := evalAll(srcs)

	// the recorded witness of every class must still fail and fall into its own class
	// (otherwise the entry suppresses nothing)
	for _, k := range mClasses {
		w := &mprog{cells: []*mcell{k.witnessCell()}, kind: "matrix:witness"}
		r := mEval(w)
		if os.Getenv("C03_PRINT_WITNESSES") != "" {
			fmt.Fprintf(os.Stderr, "WITNESS %s %q\n   build: %s %s\n   go/types: %v %s\n", k.id, w.src(), r.real.Class, r.real.Msg, r.orc.OK, r.orc.Msg)
		}
		recorded := false
		for _, f := range c.Findings {
			recorded = recorded || (f.ID == k.id && findingSrc(f.Minimal) == w.src())
		}
		if cl := mClause(r); cl == "" || k.predict(w.cells[0], r.orc) != cl || !recorded {
			res.AddBreak(proto.Break{Kind: "correspondence", Name: "finding-class-witness: " + k.id, Case: "source", Human: w.src(),
				Impl: r.real.Class + " " + r.real.Msg, Model: fmt.Sprintf("go/types ok=%v %s; recorded in known_findings.json=%v", r.orc.OK, r.orc.Msg, recorded)})
		}
	}

	type prec struct {
		predicted, cameTrue int
		firstPass           string
	}
	precision := map[string]*prec{}
	for _, k := range mClasses {
		precision[k.id] = &prec{}
	}
	verbose := os.Getenv("C03_VERBOSE") != ""
	for i, p := range progs {
		r := results[i]
		res.Count(srcs[i], true)
		res.Hist("kind:" + p.kind)
		res.Hist("build:" + r.real.Class)
		if r.orc.OK {
			res.Hist("go/types:ok")
		} else {
			res.Hist("go/types:error")
		}
		for _, cell := range p.cells {
			res.Hist("matrix-context:" + cell.ctx)
			res.Hist("matrix-value:" + cell.v.cat)
			res.Hist("matrix-target:" + cell.t.cls)
		}
		if p.kind == "matrix:systematic" {
			acc := "rejected"
			if r.orc.OK {
				acc = "accepted"
			}
			res.Hist("matrix-systematic-go/types:" + acc)
			if p.cells[0].v.untyped() {
				res.Hist("matrix-untyped-value:" + p.cells[0].t.cls + ":" + acc)
			}
		}
		if i%4999 == 0 {
			res.Sample(map[string]string{"kind": p.kind, "source": srcs[i], "build": r.real.Class + " " + r.real.Msg,
				"go/types": fmt.Sprintf("ok=%v %s", r.orc.OK, r.orc.Msg)})
		}
		cl := clause(r.real, r.orc)
		if k := r.orc.known(); k != "" && (cl == "rejects-what-go/types-accepts" || cl == "accepts-what-go/types-rejects") {
			res.Hist("known-shape:" + k)
			cl = ""
		}
		// precision of the classes: over the systematic cells
		if p.kind == "matrix:systematic" {
			for _, k := range mClasses {
				if want := k.predict(p.cells[0], r.orc); want != "" {
					pr := precision[k.id]
					pr.predicted++
					if cl == want {
						pr.cameTrue++
					} else {
						if pr.firstPass == "" {
							pr.firstPass = srcs[i]
						}
						if verbose {
							fmt.Fprintf(os.Stderr, "#### class %s predicts %s, got %q: [%s] build: %s %s | go/types: %v %s\n", k.id, want, cl, p.cells[0].key(),
								r.real.Class, r.real.Msg, r.orc.OK, r.orc.Msg)
						}
					}
				}
			}
		}
		if cl == "" {
			continue
		}
		min, mr := p, r
		if len(p.cells) > 1 || len(p.cells[0].v.parts) > 0 {
			min = mShrink(p, cl)
			mr = mEval(min)
		}
		msrc := min.src()
		b := proto.Break{Kind: "property", Name: cl, Case: "source", Human: msrc,
			Impl: mr.real.Class + " " + mr.real.Msg, Model: fmt.Sprintf("go/types ok=%v %s", mr.orc.OK, mr.orc.Msg)}
		for _, f := range c.Findings {
			if findingSrc(f.Minimal) == msrc {
				b.Finding = f.ID
			}
		}
		fid := ""
		if len(min.cells) == 1 {
			if fid = mClassOf(min.cells[0], mr.orc, cl); fid != "" {
				b.Finding = c.Known(fid)
				res.Hist("known-class:" + fid)
			}
		}
		if b.Finding == "" && verbose && !seenMin[msrc] {
			seenMin[msrc] = true
			cellKey := "class=" + fid + " "
			for _, mc := range min.cells {
				cellKey += "[" + mc.key() + "] "
			}
			fmt.Fprintf(os.Stderr, "---- %s (%s) %s\n%s  build: %s %s\n  go/types: ok=%v %s\n", cl, p.kind, cellKey, msrc, mr.real.Class, mr.real.Msg, mr.orc.OK, mr.orc.Msg)
		}
		res.AddBreak(b)
	}
	// precision self-test of the classes (fixes/FINDING-CLASSES.md, point 3)
	ids := make([]string, 0, len(precision))
	for id := range precision {
		ids = append(ids, id)
	}
	sort.Strings(ids)
	for _, id := range ids {
		pr := precision[id]
		res.Histogram["class-precision/"+id+"/cells"] = pr.predicted
		res.Histogram["class-precision/"+id+"/fail-as-predicted"] = pr.cameTrue
		if pr.predicted == 0 {
			res.AddBreak(proto.Break{Kind: "correspondence", Name: "finding-class-precision-unmeasured: " + id})
			continue
		}
		res.Histogram["class-precision/"+id+"/permille"] = pr.cameTrue * 1000 / pr.predicted
		if pr.cameTrue*100 < pr.predicted*95 || (pr.predicted < 20 && pr.cameTrue != pr.predicted) {
			res.AddBreak(proto.Break{Kind: "correspondence", Name: "finding-class-too-broad: " + id, Case: "source", Human: pr.firstPass,
				Impl: fmt.Sprintf("%d of %d predicted cells fail as predicted", pr.cameTrue, pr.predicted)})
		}
	}
}

// ---- the Lean model of assignability (Model/Assignable.lean) vs go/types ----

// mEnc is the type in the prefix notation of the driver's `asg` operation, "" when the type is
// outside the model's universe (channels: direction rule).
func mEnc(t *mtype) string {
	named := func(id int, under, vms, pms string) string {
		cnt := func(ms string) string {
			if ms == "" {
				return "0"
			}
			return fmt.Sprintf("%d %s", len(strings.Fields(ms)), ms)
		}
		return fmt.Sprintf("nm %d %s %s %s", id, under, cnt(vms), cnt(pms))
	}
	basic := func(src string) string {
		switch src {
		case "bool":
			return "b"
		case "int":
			return "i"
		case "string":
			return "s"
		case "byte":
			src = "uint8"
		case "rune":
			src = "int32"
		}
		b := mTypeBySrc[src]
		if b == nil || b.cls != "basic" {
			return ""
		}
		return named(100+b.idx, fmt.Sprintf("l %d", 100+b.idx), "", "")
	}
	var enc func(src string) string
	enc = func(src string) string {
		if e := basic(src); e != "" {
			return e
		}
		switch src {
		case "MyInt":
			return named(1, "i", "", "")
		case "MyStr":
			return named(2, "s", "", "")
		case "MyBool":
			return named(3, "b", "", "")
		case "MyFloat":
			return named(4, basic("float64"), "", "")
		case "tp.Dur":
			return named(5, basic("int64"), "String", "")
		case "any", "interface{}":
			return "if 0"
		case "Empty":
			return named(6, "if 0", "", "")
		case "error":
			return named(7, "if 1 Error", "", "")
		case "MyErr":
			return named(8, enc("error"), "", "")
		case "tp.Stringer":
			return named(9, "if 1 String", "", "")
		case "tp.Nobody":
			return named(10, "if 1 NobodyImplementsThis", "", "")
		case "tp.Both":
			return named(11, "if 2 Error String", "", "")
		case "tp.Buf":
			return named(12, "l 12", "", "String")
		case "tp.Err":
			return named(13, "l 13", "Error", "")
		case "tp.PErr":
			return named(14, "l 13", "", "Error") // struct{ Msg string }, as tp.Err
		case "tp.ES":
			return named(15, "l 51", "Error String", "") // struct{}
		case "PInt":
			return named(16, "p i", "", "")
		case "func()":
			return "l 20"
		case "func(int) string":
			return "l 21"
		case "Fn":
			return named(17, "l 21", "", "")
		case "func(MyInt) string":
			return "l 22"
		case "Sl":
			return named(18, "sl i", "", "")
		case "MyBytes":
			return named(19, "sl "+basic("uint8"), "", "")
		case "[2]int":
			return "l 30"
		case "[3]int":
			return "l 31"
		case "Arr":
			return named(20, "l 30", "", "")
		case "[2]MyInt":
			return "l 32"
		case "map[string]int":
			return "l 40"
		case "Mp":
			return named(21, "l 40", "", "")
		case "map[MyStr]int":
			return "l 41"
		case "struct {\n\tA int\n\tB string\n}":
			return "l 50"
		case "St":
			return named(22, "l 50", "", "")
		case "St2":
			return named(23, "l 50", "", "")
		case "struct{}":
			return "l 51"
		case "struct {\n\tA MyInt\n\tB string\n}":
			return "l 52"
		}
		if e, ok := strings.CutPrefix(src, "*"); ok {
			if in := enc(e); in != "" {
				return "p " + in
			}
		}
		if e, ok := strings.CutPrefix(src, "[]"); ok {
			if in := enc(e); in != "" {
				return "sl " + in
			}
		}
		return ""
	}
	return enc(t.src)
}

// validateAssignableModel: `var x T = v` for every pool type T and v a variable of every pool
// type, a comparison result, nil — the model's AVal.assignableTo against go/types' verdict
// (specification validation; Build is not involved).
func validateAssignableModel(c *hx.Ctx) error {
	if c.D == nil {
		return nil
	}
	type probe struct {
		line string
		cell *mcell
	}
	var probes []probe
	for _, t := range mTypes {
		te := mEnc(t)
		if te == "" {
			c.Res.Hist("assignability-model:type-outside")
			continue
		}
		for _, v := range mValues {
			var ve string
			switch {
			case v.cat == "var":
				if e := mEnc(v.typ); e != "" {
					ve = "t " + e
				}
			case v.cat == "ubool":
				ve = "ub"
			case v.cat == "nil" && t.cls != "func" && t.cls != "map":
				ve = "nil"
			}
			if ve != "" {
				probes = append(probes, probe{"C03 asg " + ve + " " + te, &mcell{ctx: "var-decl", t: t, v: v}})
			}
		}
	}
	lines := make([]string, len(probes))
	for i, p := range probes {
		lines[i] = p.line
	}
	ans, err := c.D.Batch(lines)
	if err != nil {
		return err
	}
	for i, p := range probes {
		src := (&mprog{cells: []*mcell{p.cell}}).src()
		o := checkTypes(src)
		c.Res.SpecChecks["assignability-model-vs-go/types"]++
		want := fmt.Sprintf("ok %v", o.OK)
		c.Res.Hist("assignability-model:" + p.cell.v.cat + ":" + want)
		if ans[i] != want {
			c.Res.AddBreak(proto.Break{Kind: "correspondence", Name: "assignability-model-vs-go/types", Case: p.line, Human: src,
				Impl: want + "   [" + o.Msg + "]", Model: ans[i]})
		}
	}
	return nil
}
