package main

import (
	"fmt"
	"math/big"
	"strings"
)

// The fragment of Go the C03 model (lean/ScriggoV/Model/TypeCheck.lean) types: a function body
// made of declarations and assignments over the fifteen basic types below. One tree has two
// printers: Go source (for scriggo.Build and go/types) and the driver's prefix notation.

var intTypes = []string{"int", "int8", "int16", "int32", "int64", "uint", "uint8", "uint16", "uint32", "uint64", "uintptr"}
var basicTypes = append(append([]string{}, intTypes...), "float64", "string", "bool")

func isIntType(t string) bool {
	for _, k := range intTypes {
		if k == t {
			return true
		}
	}
	return false
}

// E is an expression.
//
//	K = 'i' integer literal N          'f' float literal N × 10^Exp      'r' rune literal N
//	    's' string literal S           't' true/false (B)               'n' nil
//	    'v' identifier ID              'u' unary Op A                   'b' binary Op A C
//	    'c' conversion T(A)            'p' parenthesised A (printing only; the model never sees it)
//	    'x' raw Go text S, outside the model (complex/interface stream)
type E struct {
	K   byte
	N   *big.Int
	Exp int
	S   string
	B   bool
	ID  int
	Op  string
	T   string
	A   *E
	C   *E
}

// S is a statement.
//
//	K = "var"    var x T = A    (T == "" → inferred; A == nil → zero value)
//	    "short"  x := A
//	    "short2" x, y := A, B    (ID, ID2; a name already declared in the scope is assigned)
//	    "const"  const x T = A  (T == "" → untyped/inferred)
//	    "asg"    x = A
//	    "blank"  _ = A
//	    "op"     x Op= A
//	    "inc"/"dec"  x++ / x--
//	    "raw"    raw Go text Raw, outside the model
type S struct {
	K   string
	ID  int
	ID2 int
	T   string
	Op  string
	A   *E
	B   *E
	Raw string
}

type Prog struct {
	Stmts []*S
	// Pre is package-level text put before func main (outside the model when non-empty).
	Pre string
}

func name(id int) string { return fmt.Sprintf("x%d", id) }

func ilit(n int64) *E          { return &E{K: 'i', N: big.NewInt(n)} }
func blit(n *big.Int) *E       { return &E{K: 'i', N: new(big.Int).Set(n)} }
func flit(m int64, exp int) *E { return &E{K: 'f', N: big.NewInt(m), Exp: exp} }
func ident(id int) *E          { return &E{K: 'v', ID: id} }
func un(op string, a *E) *E    { return &E{K: 'u', Op: op, A: a} }
func bin(op string, a, c *E) *E {
	return &E{K: 'b', Op: op, A: a, C: c}
}
func conv(t string, a *E) *E { return &E{K: 'c', T: t, A: a} }

func (e *E) clone() *E {
	if e == nil {
		return nil
	}
	c := *e
	if e.N != nil {
		c.N = new(big.Int).Set(e.N)
	}
	c.A = e.A.clone()
	c.C = e.C.clone()
	return &c
}

func (s *S) clone() *S {
	c := *s
	c.A = s.A.clone()
	c.B = s.B.clone()
	return &c
}

func (p *Prog) clone() *Prog {
	c := &Prog{Pre: p.Pre}
	for _, s := range p.Stmts {
		c.Stmts = append(c.Stmts, s.clone())
	}
	return c
}

// inModel reports whether the program is inside the syntax of the model.
func (p *Prog) inModel() bool {
	if p.Pre != "" {
		return false
	}
	for _, s := range p.Stmts {
		if s.K == "raw" || (s.A != nil && !s.A.inModel()) || (s.B != nil && !s.B.inModel()) {
			return false
		}
	}
	return true
}

func (e *E) inModel() bool {
	if e == nil {
		return true
	}
	if e.K == 'x' {
		return false
	}
	return e.A.inModel() && e.C.inModel()
}

// ---- Go source ----

func (e *E) src() string {
	switch e.K {
	case 'i':
		return e.N.String()
	case 'f':
		return floatSrc(e.N, e.Exp)
	case 'r':
		return runeSrc(e.N.Int64())
	case 's':
		return fmt.Sprintf("%q", e.S)
	case 't':
		if e.B {
			return "true"
		}
		return "false"
	case 'n':
		return "nil"
	case 'v':
		return name(e.ID)
	case 'u':
		// a space avoids "--x" and "- -1" being lexed differently
		return "(" + e.Op + " " + e.A.src() + ")"
	case 'b':
		return "(" + e.A.src() + " " + e.Op + " " + e.C.src() + ")"
	case 'c':
		return e.T + "(" + e.A.src() + ")"
	case 'p':
		return "(" + e.A.src() + ")"
	case 'x':
		return e.S
	}
	panic("bad expression kind")
}

// floatSrc prints m × 10^exp as a decimal Go floating-point literal.
func floatSrc(m *big.Int, exp int) string {
	neg := m.Sign() < 0
	digits := new(big.Int).Abs(m).String()
	var s string
	if exp >= 0 {
		s = digits + strings.Repeat("0", exp) + ".0"
	} else {
		k := -exp
		for len(digits) <= k {
			digits = "0" + digits
		}
		s = digits[:len(digits)-k] + "." + digits[len(digits)-k:]
	}
	if neg {
		// literals are never negative in Go source; the generator only builds m ≥ 0
		s = "-" + s
	}
	return s
}

func runeSrc(n int64) string {
	switch {
	case n == '\'' || n == '\\':
		return `'\` + string(rune(n)) + `'`
	case n >= 0x20 && n < 0x7f:
		return "'" + string(rune(n)) + "'"
	case n < 0x10000:
		return fmt.Sprintf(`'\u%04x'`, n)
	default:
		return fmt.Sprintf(`'\U%08x'`, n)
	}
}

func (s *S) src() string {
	switch s.K {
	case "var":
		out := "var " + name(s.ID)
		if s.T != "" {
			out += " " + s.T
		}
		if s.A != nil {
			out += " = " + s.A.src()
		}
		return out
	case "short":
		return name(s.ID) + " := " + s.A.src()
	case "short2":
		return name(s.ID) + ", " + name(s.ID2) + " := " + s.A.src() + ", " + s.B.src()
	case "const":
		out := "const " + name(s.ID)
		if s.T != "" {
			out += " " + s.T
		}
		return out + " = " + s.A.src()
	case "asg":
		return name(s.ID) + " = " + s.A.src()
	case "blank":
		return "_ = " + s.A.src()
	case "op":
		return name(s.ID) + " " + s.Op + "= " + s.A.src()
	case "inc":
		return name(s.ID) + "++"
	case "dec":
		return name(s.ID) + "--"
	case "raw":
		return s.Raw
	}
	panic("bad statement kind")
}

func (p *Prog) src() string {
	var b strings.Builder
	b.WriteString("package main\n")
	if p.Pre != "" {
		b.WriteString(p.Pre)
		b.WriteString("\n")
	}
	b.WriteString("func main() {\n")
	for _, s := range p.Stmts {
		b.WriteString("\t")
		b.WriteString(s.src())
		b.WriteString("\n")
	}
	b.WriteString("}\n")
	return b.String()
}

// ---- prefix notation for the Lean driver ----

var opTok = map[string]string{
	"+": "add", "-": "sub", "*": "mul", "/": "quo", "%": "rem",
	"&": "and", "|": "or", "^": "xor", "&^": "andnot", "<<": "shl", ">>": "shr",
	"==": "eq", "!=": "ne", "<": "lt", "<=": "le", ">": "gt", ">=": "ge",
	"&&": "land", "||": "lor", "!": "not",
}

func hexOf(s string) string {
	if s == "" {
		return "-"
	}
	return fmt.Sprintf("%x", s)
}

func (e *E) prefix(b *strings.Builder) {
	switch e.K {
	case 'i':
		b.WriteString(" i " + e.N.String())
	case 'f':
		num := new(big.Int).Set(e.N)
		den := big.NewInt(1)
		ten := big.NewInt(10)
		if e.Exp >= 0 {
			num.Mul(num, new(big.Int).Exp(ten, big.NewInt(int64(e.Exp)), nil))
		} else {
			den.Exp(ten, big.NewInt(int64(-e.Exp)), nil)
		}
		b.WriteString(" f " + num.String() + " " + den.String())
	case 'r':
		b.WriteString(" r " + e.N.String())
	case 's':
		b.WriteString(" s " + hexOf(e.S))
	case 't':
		if e.B {
			b.WriteString(" true")
		} else {
			b.WriteString(" false")
		}
	case 'n':
		b.WriteString(" nil")
	case 'v':
		fmt.Fprintf(b, " v %d", e.ID)
	case 'u':
		b.WriteString(" u " + opTok[e.Op])
		e.A.prefix(b)
	case 'b':
		b.WriteString(" b " + opTok[e.Op])
		e.A.prefix(b)
		e.C.prefix(b)
	case 'c':
		b.WriteString(" c " + e.T)
		e.A.prefix(b)
	case 'p':
		e.A.prefix(b)
	default:
		panic("expression outside the model")
	}
}

func (s *S) prefix(b *strings.Builder) {
	switch s.K {
	case "var":
		switch {
		case s.A == nil:
			fmt.Fprintf(b, " var0 %d %s", s.ID, s.T)
		case s.T == "":
			fmt.Fprintf(b, " vari %d", s.ID)
			s.A.prefix(b)
		default:
			fmt.Fprintf(b, " var %d %s", s.ID, s.T)
			s.A.prefix(b)
		}
	case "short":
		fmt.Fprintf(b, " short %d", s.ID)
		s.A.prefix(b)
	case "short2":
		fmt.Fprintf(b, " short2 %d %d", s.ID, s.ID2)
		s.A.prefix(b)
		s.B.prefix(b)
	case "const":
		if s.T == "" {
			fmt.Fprintf(b, " consti %d", s.ID)
		} else {
			fmt.Fprintf(b, " const %d %s", s.ID, s.T)
		}
		s.A.prefix(b)
	case "asg":
		fmt.Fprintf(b, " asg %d", s.ID)
		s.A.prefix(b)
	case "blank":
		b.WriteString(" blank")
		s.A.prefix(b)
	case "op":
		fmt.Fprintf(b, " opasg %s %d", opTok[s.Op], s.ID)
		s.A.prefix(b)
	case "inc":
		fmt.Fprintf(b, " inc %d", s.ID)
	case "dec":
		fmt.Fprintf(b, " dec %d", s.ID)
	default:
		panic("statement outside the model")
	}
}

// line is the protocol request for the whole program.
func (p *Prog) line() string {
	var b strings.Builder
	fmt.Fprintf(&b, "C03 prog %d", len(p.Stmts))
	for _, s := range p.Stmts {
		s.prefix(&b)
	}
	return b.String()
}

// walk calls f on every expression node of the program (pre-order), with a setter that
// replaces the node in place.
func (p *Prog) walk(f func(e *E, set func(*E))) {
	var rec func(e *E, set func(*E))
	rec = func(e *E, set func(*E)) {
		if e == nil {
			return
		}
		f(e, set)
		if e.A != nil {
			rec(e.A, func(n *E) { e.A = n })
		}
		if e.C != nil {
			rec(e.C, func(n *E) { e.C = n })
		}
	}
	for _, s := range p.Stmts {
		s := s
		if s.A != nil {
			rec(s.A, func(n *E) { s.A = n })
		}
		if s.B != nil {
			rec(s.B, func(n *E) { s.B = n })
		}
	}
}
