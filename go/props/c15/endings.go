// C15, stream "statement-only lines after lines with context-specific endings".
//
// The model and the oracle of C15 decide lines from the source bytes (a line ends after each LF
// of the text). The engine decides them from the line numbers the *lexer* attaches to tokens
// (the hidden `lin` field), and the lexer walks the bytes with special handling per context:
// Markdown back-slash escapes and code blocks, tags, attribute values, script and style content,
// strings with escapes, comments, CDATA sections. Wherever such a walk steps over a LF without
// counting it (or counts one that is not there) two physical lines become one for the 'only
// token in its line' rule, and a content-free statement line is kept or a line with content is
// cut.
//
// The stream is a matrix
//
//	context (format + what surrounds the lines) x how line A ends (LF, CR LF, back-slash LF,
//	back-slash CR LF, escaped back-slash LF, lone CR, LF CR, a multi-line comment / show /
//	statement / block / raw block, vertical tab, form feed, NEL, U+2028 as decoys)
//	x what line A holds before its ending (nothing, a show, a comment, a statement, text)
//	x line B: indentation + one statement / comment / raw opener / show + trailing blanks +
//	LF or CR LF
//
// followed by text, the closing statement where one is needed, and the context's closer. Every
// cell is judged by the oracle of main.go (`allowed`, `rule`: written from the rule on the bytes)
// and compared with the Lean model.
package main

import (
	"fmt"
	"strings"

	"verifharness/internal/hx"
	"verifharness/internal/proto"
)

type endCtx struct {
	name, format, open, close string
}

var endContexts = []endCtx{
	{"text", "text", "", ""},
	{"text-para", "text", "Name: ", ""},
	{"html", "html", "<p>a ", "</p>"},
	{"html-tag", "html", "<div a=b ", ">"},
	{"html-attr-dq", "html", "<div title=\"a ", "\">"},
	{"html-attr-sq", "html", "<div title='a ", "'>"},
	{"html-attr-unquoted", "html", "<div title=a", ">"},
	{"html-url-attr", "html", "<a href=\"u", "\">l</a>"},
	{"html-script", "html", "<script>var a = 1; ", "</script>"},
	{"html-script-dq", "html", "<script>var s = \"a", "\";</script>"},
	{"html-script-sq", "html", "<script>var s = 'a", "';</script>"},
	{"html-script-tmpl", "html", "<script>var s = `a", "`;</script>"},
	{"html-script-line-comment", "html", "<script>// c", "\n</script>"},
	{"html-script-block-comment", "html", "<script>/* c", "*/</script>"},
	{"html-jsonld", "html", "<script type=\"application/ld+json\">[1, ", "]</script>"},
	{"html-style", "html", "<style>p { color: red } ", "</style>"},
	{"html-style-dq", "html", "<style>p { content: \"a", "\" }</style>"},
	{"html-comment", "html", "<!-- a", "-->"},
	{"html-cdata-before", "html", "<![CDATA[ a\n{# b #}\n ]]>", ""},
	{"html-cdata-inside", "html", "<![CDATA[ a", " ]]>"},
	{"css", "css", "p { color: red } ", ""},
	{"css-dq", "css", "p { content: \"a", "\" }"},
	{"css-sq", "css", "p { content: 'a", "' }"},
	{"css-comment", "css", "/* c", "*/"},
	{"js", "js", "var a = 1; ", ""},
	{"js-dq", "js", "var s = \"a", "\";"},
	{"js-sq", "js", "var s = 'a", "';"},
	{"js-tmpl", "js", "var s = `a", "`;"},
	{"js-line-comment", "js", "// c", "\n"},
	{"js-block-comment", "js", "/* c", "*/"},
	{"json", "json", "[1, ", "]"},
	{"json-string", "json", "{\"k\": \"a", "\"}"},
	{"markdown", "markdown", "", ""},
	{"markdown-para", "markdown", "Name: ", ""},
	{"markdown-escapes", "markdown", "\\* a \\_ ", ""},
	{"markdown-code-tab", "markdown", "\tcode ", ""},
	{"markdown-code-spaces", "markdown", "    code ", ""},
	{"markdown-after-code", "markdown", "\tcode\npara ", ""},
	{"markdown-quote", "markdown", "> q ", ""},
	{"markdown-tag", "markdown", "<div title=\"a ", "\">"},
}

// how line A ends; `lines` says whether a new physical line starts after it
var endEndings = []struct{ name, s string }{
	{"lf", "\n"},
	{"crlf", "\r\n"},
	{"backslash-lf", "\\\n"},
	{"backslash-crlf", "\\\r\n"},
	{"backslash-backslash-lf", "\\\\\n"},
	{"three-backslashes-lf", "\\\\\\\n"},
	{"backslash-letter-lf", "\\n\n"},
	{"backslash-h-lf", "\\h\n"},
	{"backslash-space-lf", "\\ \n"},
	{"two-spaces-lf", "  \n"},
	{"lone-cr", "\r"},
	{"backslash-cr", "\\\r"},
	{"lf-cr", "\n\r"},
	{"lf-lf", "\n\n"},
	{"vt-lf", "\v\n"},
	{"ff-lf", "\f\n"},
	{"nel-lf", "\u0085\n"},
	{"ls-lf", "\u2028\n"},
	{"comment-multiline-lf", "{# a\n b #}\n"},
	{"show-multiline-lf", "{{ 5 +\n 2 }}\n"},
	{"stmt-multiline-lf", "{% if\n true %}{% end\n %}\n"},
	{"block-multiline-lf", "{%%\n _ = 1\n%%}\n"},
	{"raw-multiline-lf", "{% raw %}r\ns{% end %}\n"},
	{"no-ending", ""},
}

// what line A holds before its ending
var endPres = []struct{ name, s string }{
	{"none", ""},
	{"show", "{{ 5 }}"},
	{"text-show-text", "x {{ 5 }} y"},
	{"comment", "{# n #}"},
	{"stmt-text", "{% _ = 1 %}a"},
	{"if-end", "{% if true %}{% end %}"},
}

// line B's token and the statement that must follow the text
var endToks = []struct{ name, s, closer string }{
	{"if", "{% if true %}", "{% end %}\n"},
	{"comment", "{# c #}", ""},
	{"assign", "{% _ = 1 %}", ""},
	{"block", "{%% _ = 1 %%}", ""},
	{"raw", "{% raw %}", "{% end %}\n"},
	{"var", "{% var _ = 1 %}", ""},
	{"comment-multiline", "{# c\n d #}", ""},
	{"show", "{{ 5 }}", ""},
}

var endIndents = []string{"", "  ", "\t"}
var endTrails = []string{"", "  ", "\r", " \t"}
var endTerms = []string{"\n", "\r\n"}

// endingsStream runs the matrix: every (context, ending, pre) cell `picks` times with the other
// dimensions drawn. check is run()'s: judge + shrink + AddBreak; it says whether the case failed.
func endingsStream(c *hx.Ctx, r *proto.Rand, picks int, check func(caseT, string) bool) {
	res := c.Res
	var batch []caseT
	flush := func() {
		if c.D != nil && len(batch) > 0 {
			correspond(c, batch)
		}
		batch = batch[:0]
	}
	reported := 0
	cell := 0
	for _, cx := range endContexts {
		for _, en := range endEndings {
			for _, pre := range endPres {
				cell++
				for k := 0; k < picks; k++ {
					// the token of line B rotates with the cell so that every token meets every
					// (context, ending) pair whatever the seed; the rest is drawn
					tk := endToks[(cell+k*3+r.Intn(2))%len(endToks)]
					var b strings.Builder
					b.WriteString(cx.open)
					b.WriteString(pre.s)
					b.WriteString(en.s)
					b.WriteString(endIndents[r.Intn(len(endIndents))])
					b.WriteString(tk.s)
					b.WriteString(endTrails[r.Intn(len(endTrails))])
					b.WriteString(endTerms[r.Intn(len(endTerms))])
					b.WriteString("yes\n")
					b.WriteString(tk.closer)
					b.WriteString("z")
					b.WriteString(cx.close)
					cs := caseT{cx.format, []byte(b.String())}
					res.Hist("endings-cases")
					real := runReal(cs.format, cs.src)
					v, _, usable := judge(cs, real)
					if !usable {
						switch {
						case real.buildErr != nil:
							res.Hist("endings-build-error")
						case real.runErr != nil:
							res.Hist("endings-run-error")
						default:
							res.Hist("endings-outside-oracle-class")
						}
						continue
					}
					res.Hist("endings-judged")
					res.Hist("endings-ctx-" + cx.name)
					res.Count("endings|"+cs.format+"|"+string(cs.src), true)
					if v.clause != "" {
						res.Hist("endings-failing")
						if reported < 4 {
							note := fmt.Sprintf(" (endings stream: context %s, line A = %s + %s, line B = %s)", cx.name, pre.name, en.name, tk.name)
							if check(cs, note) {
								reported++
							}
						}
						continue
					}
					batch = append(batch, cs)
					if len(batch) >= 500 {
						flush()
					}
				}
			}
		}
	}
	flush()
	if n := res.Histogram["endings-failing"]; n > reported {
		res.Notes = append(res.Notes, fmt.Sprintf("endings stream: %d failing cells, the first %d shrunk and reported", n, reported))
	}
}
