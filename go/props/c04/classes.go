package main

import (
	"regexp"
	"strings"

	"verifharness/props/c04/lexh"
)

// Finding classes. The token-level shrinker is greedy: the same defect reached from another starting point (another
// file role, another enclosing statement) ends in another minimum — `package main;func a(){b:for{{continue b}}};func
// main(){}` for `package main;func main(){a:for{continue a}}`. A recorded finding therefore stands for a class of
// inputs, defined so that it covers only what already fails on the unchanged tree:
//
//   - the finding's exact minimal input is replayed on the tree under check and fails there with signature S (clause,
//     message without numbers, innermost scriggo function);
//   - the failing case (shrunk) fails with the same S;
//   - it contains the finding's syntactic trigger — and nothing that would make the trigger a different thing (a `return`
//     counts as "outside a macro" only if the case has no macro and no func at all);
//   - counterfactual: the same case with the trigger neutralised in a way that keeps the rest of the program as it is
//     (the label dropped from `continue L`; `switch a;` written `switch _ = a;`; the second `else` removed) does not
//     fail with S any more — so the trigger is what makes it fail, and on the unchanged tree every input with that
//     trigger that gets as far as the failing stage fails (see `what` of each finding in known_findings.json).
//
// Anything else with the same signature (no trigger, or still failing without it) is reported as a VIOLATION. The
// histogram keys build-class-match-<id> count the attributions of a run.
type findingClass struct {
	id      string
	neutral func(src []byte) ([]byte, bool) // the source without the trigger; false: no trigger in it
	// neutralCase, if set, is used instead of neutral: the whole case without the trigger
	neutralCase func(b lexh.BuildCase) (lexh.BuildCase, bool)
}

var (
	contLabelRe        = regexp.MustCompile(`\bcontinue[ \t]+[A-Za-z_][A-Za-z0-9_]*`)
	rangeLabelRe       = regexp.MustCompile(`\b([A-Za-z_][A-Za-z0-9_]*)[ \t]*:[ \t\n]*for\b[^{}%]*\brange\b`)
	forInLabelRe       = regexp.MustCompile(`\b[A-Za-z_][A-Za-z0-9_]*[ \t]*:[ \t\n]*(for[ \t]+[A-Za-z_][A-Za-z0-9_]*[ \t]+in\b)`)
	macroOrFuncRe      = regexp.MustCompile(`\b(macro|func)\b`)
	returnStmtRe       = regexp.MustCompile(`\{%[ \t\n]*return\b[^%]*%\}|\breturn\b[^;\n%}]*`)
	switchInitRe       = regexp.MustCompile(`\bswitch([ \t]+)([^;{}%=]+);([ \t\n]*(?:\{|%\}))`)
	mapNoKeyRe         = regexp.MustCompile(`\bmap[ \t]*\[[ \t]*\]`)
	containsRe         = regexp.MustCompile(`\b(not[ \t]+)?contains\b`)
	couldBeContainerRe = regexp.MustCompile("[\\[\"`']|\\b(map|string|macro|render|itea|html|css|js|json|markdown|func|chan|interface|struct|import)\\b")
	juxtaposedRe       = regexp.MustCompile(`\}[ \t\n]*\{`)
	literalKeyRe       = regexp.MustCompile(`\{[^{}]*\}([ \t\n]*:)`)
	extendsStmtRe      = regexp.MustCompile(`\{%[ \t\n]*extends\b[^%]*%\}`)
	defaultCalleeRe    = regexp.MustCompile(`\([^()]*\)[ \t]*default\b`)
	plainCalleeRe      = regexp.MustCompile(`^(?:[A-Za-z_][A-Za-z0-9_]*|\([ \t]*[A-Za-z_][A-Za-z0-9_]*[ \t]*\)|render[ \t].*)?$`)
	defaultTailRe      = regexp.MustCompile(`[ \t]*\bdefault\b[^}%]*`)
	rangeAssignRe      = regexp.MustCompile(`\bfor\b([ \t\n]*)([^;%={}]*[^;%={}:!<>+\-*/&|^ \t\n])([ \t\n]*=[ \t\n]*range\b)`)
	identOperandRe     = regexp.MustCompile(`^[( \t\n]*[A-Za-z_][A-Za-z0-9_]*[) \t\n]*$`)
	paramListRe        = regexp.MustCompile(`\b((?:func|macro)\b(?:[ \t]*[A-Za-z_][A-Za-z0-9_]*)?[ \t]*\()([^()]*)\)`)
	unnamedParamRe     = regexp.MustCompile(`^(?:\.\.\.)?[\[\]*.A-Za-z_0-9]+$`)
	elseRe             = regexp.MustCompile(`\{%[ \t\n]*else[ \t\n]*%\}|\belse\b`)
)

var findingClasses = []findingClass{
	{id: "labelled-continue-panics", neutral: func(src []byte) ([]byte, bool) {
		if !contLabelRe.Match(src) {
			return nil, false
		}
		return contLabelRe.ReplaceAll(src, []byte("continue")), true
	}},
	{id: "labelled-break-in-range-panics", neutral: func(src []byte) ([]byte, bool) {
		// `break L` where L labels a for-range loop
		out, changed := src, false
		for _, m := range rangeLabelRe.FindAllSubmatch(src, -1) {
			re := regexp.MustCompile(`\bbreak[ \t]+` + regexp.QuoteMeta(string(m[1])) + `\b`)
			if re.Match(out) {
				out = re.ReplaceAll(out, []byte("break"))
				changed = true
			}
		}
		return out, changed
	}},
	{id: "labelled-for-in-panics", neutral: func(src []byte) ([]byte, bool) {
		if !forInLabelRe.Match(src) {
			return nil, false
		}
		return forInLabelRe.ReplaceAll(src, []byte("$1")), true
	}},
	{id: "return-outside-macro-panics", neutral: neutralReturn},
	{id: "return-in-statements-block-panics", neutral: neutralReturn},
	{id: "switch-init-without-tag-panics", neutral: func(src []byte) ([]byte, bool) {
		if !switchInitRe.Match(src) {
			return nil, false
		}
		return switchInitRe.ReplaceAll(src, []byte("switch${1}_ = $2;$3")), true
	}},
	{id: "map-type-without-key-panics", neutral: func(src []byte) ([]byte, bool) {
		if !mapNoKeyRe.Match(src) {
			return nil, false
		}
		return mapNoKeyRe.ReplaceAll(src, []byte("map[int]")), true
	}},
	{id: "contains-on-non-container-panics", neutral: func(src []byte) ([]byte, bool) {
		// `contains` in a source with nothing that could make a string, slice, array or map value
		if !containsRe.Match(src) || couldBeContainerRe.Match(extendsStmtRe.ReplaceAll(src, nil)) {
			return nil, false
		}
		return containsRe.ReplaceAll(src, []byte("==")), true
	}},
	{id: "composite-literal-without-type-panics", neutral: func(src []byte) ([]byte, bool) {
		// a composite literal without type where no type is implied: `{…} {…}` (a missing comma: the first literal is
		// taken as the type of the second) or `{…}: v` as the index of a slice or array element; neutralised by the
		// comma / by the index 0
		if !juxtaposedRe.Match(src) && !literalKeyRe.Match(src) {
			return nil, false
		}
		return literalKeyRe.ReplaceAll(juxtaposedRe.ReplaceAll(src, []byte("},{")), []byte("0$1")), true
	}},
	{id: "default-non-identifier-call-panics", neutral: func(src []byte) ([]byte, bool) {
		// `f(…) default e` where the callee f is not an identifier: anything but an identifier or a parenthesised identifier
		// (which the parser unwraps); neutralised by dropping `default e`
		predicted := false
		for _, loc := range defaultCalleeRe.FindAllIndex(src, -1) {
			start := loc[0]
			for start > 0 && !strings.ContainsRune("{=,;%\n", rune(src[start-1])) {
				start--
			}
			if callee := strings.TrimSpace(string(src[start:loc[0]])); !plainCalleeRe.MatchString(callee) {
				predicted = true
			}
		}
		if !predicted {
			return nil, false
		}
		return defaultTailRe.ReplaceAll(src, nil), true
	}},
	{id: "for-range-assign-non-identifier-panics", neutral: func(src []byte) ([]byte, bool) {
		// `for x, y = range e` (assignment form) where an operand on the left is not an identifier (a parenthesised
		// identifier is unwrapped by the parser); neutralised by writing `_` for every such operand
		changed := false
		out := rangeAssignRe.ReplaceAllFunc(src, func(m []byte) []byte {
			g := rangeAssignRe.FindSubmatch(m)
			ops := splitTopLevel(string(g[2]))
			for i, op := range ops {
				if !identOperandRe.MatchString(op) {
					ops[i] = "_"
					changed = true
				}
			}
			return []byte("for" + string(g[1]) + strings.Join(ops, ", ") + string(g[3]))
		})
		return out, changed
	}},
	{id: "for-range-assign-non-local-variable-panics", neutral: func(src []byte) ([]byte, bool) {
		// `for x, y = range e` (assignment form) with an identifier operand: the emitter finds only a local variable held in
		// a register; neutralised by writing `_` for every identifier operand
		changed := false
		out := rangeAssignRe.ReplaceAllFunc(src, func(m []byte) []byte {
			g := rangeAssignRe.FindSubmatch(m)
			ops := splitTopLevel(string(g[2]))
			for i, op := range ops {
				if identOperandRe.MatchString(op) && strings.Trim(op, "() \t\n") != "_" {
					ops[i] = "_"
					changed = true
				}
			}
			return []byte("for" + string(g[1]) + strings.Join(ops, ", ") + string(g[3]))
		})
		return out, changed
	}},
	{id: "unnamed-parameter-after-native-variable-panics", neutral: func(src []byte) ([]byte, bool) {
		// prediction: a function literal, function or macro declaration whose parameters are all unnamed (`func(int)`,
		// `macro A(int, string)`); neutralised by naming every such parameter `_` (which the emitter handles). The other
		// half of the trigger (a native variable of the Globals used inside some function body of the same template) is
		// left as it is: the counterfactual run shows that the unnamed parameter is what makes the case fail
		changed := false
		out := paramListRe.ReplaceAllFunc(src, func(m []byte) []byte {
			g := paramListRe.FindSubmatch(m)
			if len(strings.TrimSpace(string(g[2]))) == 0 {
				return m
			}
			ps := strings.Split(string(g[2]), ",")
			for _, p := range ps {
				if !unnamedParamRe.MatchString(strings.TrimSpace(p)) {
					return m
				}
			}
			for i, p := range ps {
				ps[i] = "_ " + strings.TrimSpace(p)
			}
			changed = true
			return []byte(string(g[1]) + strings.Join(ps, ", ") + ")")
		})
		return out, changed
	}},
	{id: "duplicate-else-panics", neutral: func(src []byte) ([]byte, bool) {
		locs := elseRe.FindAllIndex(src, -1)
		if len(locs) < 2 {
			return nil, false
		}
		l := locs[len(locs)-1]
		return append(append([]byte(nil), src[:l[0]]...), src[l[1]:]...), true
	}},
}

// splitTopLevel splits s at the commas that are not inside brackets or parentheses.
func splitTopLevel(s string) []string {
	var out []string
	depth, start := 0, 0
	for i, c := range s {
		switch c {
		case '(', '[':
			depth++
		case ')', ']':
			depth--
		case ',':
			if depth == 0 {
				out = append(out, strings.TrimSpace(s[start:i]))
				start = i + 1
			}
		}
	}
	return append(out, strings.TrimSpace(s[start:]))
}

// a return statement in a template source that has no macro and no function at all
func neutralReturn(src []byte) ([]byte, bool) {
	if macroOrFuncRe.Match(src) || !returnStmtRe.Match(src) || !strings.Contains(string(src), "{%") {
		return nil, false
	}
	return returnStmtRe.ReplaceAll(src, nil), true
}

// classKnown is the recorded finding whose class the failing case b (signature sig on this tree) belongs to, "" if none.
func classKnown(b lexh.BuildCase, sig string, knownSig map[string]string, hasFinding func(string) bool,
	sigOf func(lexh.BuildCase) string) string {
	for _, fc := range findingClasses {
		if knownSig[fc.id] != sig || !hasFinding(fc.id) {
			continue
		}
		if fc.neutralCase != nil {
			if nb, ok := fc.neutralCase(b); ok && sigOf(nb) != sig {
				return fc.id
			}
			continue
		}
		nb := lexh.BuildCase{Kind: b.Kind, Entry: b.Entry, Files: map[string][]byte{}}
		changed := false
		for n, d := range b.Files {
			if nd, ok := fc.neutral(d); ok {
				nb.Files[n] = nd
				changed = true
			} else {
				nb.Files[n] = d
			}
		}
		if changed && sigOf(nb) != sig {
			return fc.id
		}
	}
	return ""
}
