package lexh

import (
	"bufio"
	"bytes"
	"fmt"
	"io"
	"os"
	"os/exec"
	"runtime/metrics"
	"strings"
	"sync/atomic"
	"time"
)

// Child-process protocol: the harness re-executes itself as `<exe> -child <mode>`; the child
// reads one request per line on stdin and answers one line per request, flushed at once.
// Because answers come in order, the request that killed the child is the one after the last
// answer; the parent re-runs that request alone in a fresh child to confirm it.

// ChildMain is the entry point of the child: handle maps a request line to an answer line.
func ChildMain(handle func(string) string) {
	const limit = 512 << 20
	sample := []metrics.Sample{{Name: "/memory/classes/heap/objects:bytes"}, {Name: "/memory/classes/heap/unused:bytes"}}
	heap := func() uint64 {
		metrics.Read(sample)
		return sample[0].Value.Uint64() + sample[1].Value.Uint64()
	}
	// inFlight is the sequence number of the request being handled (0: none, -1: claimed by
	// the watchdog, which then ends the process: that request gets no answer and the parent
	// attributes the death to it).
	var inFlight atomic.Int64
	go func() {
		for {
			time.Sleep(10 * time.Millisecond)
			t := inFlight.Load()
			if t <= 0 || heap() <= limit {
				continue
			}
			if inFlight.CompareAndSwap(t, -1) {
				fmt.Fprintln(os.Stderr, "child: OOM heap above 512 MiB while handling a request")
				os.Exit(97)
			}
		}
	}()
	in := bufio.NewReaderSize(os.Stdin, 1<<20)
	out := bufio.NewWriter(os.Stdout)
	var seq int64
	for {
		line, err := in.ReadString('\n')
		if line != "" {
			seq++
			inFlight.Store(seq)
			ans := handle(strings.TrimRight(line, "\r\n"))
			if !inFlight.CompareAndSwap(seq, 0) {
				select {} // the watchdog is ending the process because of this request
			}
			if strings.ContainsAny(ans, "\n\r") {
				ans = strings.NewReplacer("\n", "\\n", "\r", "\\r").Replace(ans)
			}
			oom := heap() > limit
			if oom {
				ans = "OOM heap above 512 MiB after this request"
			}
			out.WriteString(ans)
			out.WriteByte('\n')
			out.Flush()
			if oom {
				os.Exit(0) // the parent restarts the child for the remaining requests
			}
		}
		if err != nil {
			return
		}
	}
}

// Runner runs batches of requests in child processes.
type Runner struct {
	Mode    string        // argument after -child
	Timeout time.Duration // per request
	Crashes int
	Hangs   int
	MaxDown int    // Run gives up (answers "SKIPPED") after this many crashes and hangs; 0 = 5
	keep    *child // long-lived child of Ask
	keepW   *bufio.Writer
}

// Ask answers one request with a long-lived child (restarted after a crash or a hang): the
// cheap way to probe many candidates while shrinking.
func (r *Runner) Ask(req string) string {
	if r.keep == nil {
		c, err := r.start()
		if err != nil {
			return "runner-error " + err.Error()
		}
		r.keep = c
		r.keepW = bufio.NewWriter(c.in)
	}
	c := r.keep
	r.keepW.WriteString(req)
	r.keepW.WriteByte('\n')
	if err := r.keepW.Flush(); err != nil {
		c.kill()
		r.keep = nil
		return "CRASH write: " + err.Error()
	}
	select {
	case s, ok := <-c.lines:
		if !ok {
			c.cmd.Wait()
			r.keep = nil
			return "CRASH " + firstLines(c.stderr.String(), 6)
		}
		if strings.HasPrefix(s, "OOM") {
			c.kill()
			r.keep = nil
		}
		return s
	case <-time.After(r.Timeout):
		c.kill()
		r.keep = nil
		return "HANG no answer within " + r.Timeout.String()
	}
}

// Close ends the long-lived child.
func (r *Runner) Close() {
	if r.keep != nil {
		r.keep.kill()
		r.keep = nil
	}
}

type child struct {
	cmd    *exec.Cmd
	in     io.WriteCloser
	lines  chan string
	stderr *bytes.Buffer
}

func (r *Runner) start() (*child, error) {
	cmd := exec.Command(os.Args[0], "-child", r.Mode)
	cmd.Env = append(os.Environ(), "GOMEMLIMIT=1GiB", "GOTRACEBACK=single")
	in, err := cmd.StdinPipe()
	if err != nil {
		return nil, err
	}
	out, err := cmd.StdoutPipe()
	if err != nil {
		return nil, err
	}
	c := &child{cmd: cmd, in: in, lines: make(chan string, 1024), stderr: &bytes.Buffer{}}
	cmd.Stderr = c.stderr
	if err := cmd.Start(); err != nil {
		return nil, err
	}
	go func() {
		rd := bufio.NewReaderSize(out, 1<<20)
		for {
			s, err := rd.ReadString('\n')
			if strings.HasSuffix(s, "\n") {
				c.lines <- strings.TrimRight(s, "\r\n")
			}
			if err != nil {
				close(c.lines)
				return
			}
		}
	}()
	return c, nil
}

func (c *child) kill() {
	c.in.Close()
	c.cmd.Process.Kill()
	c.cmd.Wait()
}

// runSome feeds reqs to one child and returns the answers it gave before it died, hung or
// finished; status is "", "CRASH" or "HANG".
func (r *Runner) runSome(reqs []string) (answers []string, status string, detail string, err error) {
	c, err := r.start()
	if err != nil {
		return nil, "", "", err
	}
	go func() {
		w := bufio.NewWriterSize(c.in, 1<<20)
		for _, q := range reqs {
			w.WriteString(q)
			w.WriteByte('\n')
		}
		w.Flush()
		c.in.Close()
	}()
	timer := time.NewTimer(r.Timeout)
	defer timer.Stop()
	for len(answers) < len(reqs) {
		if !timer.Stop() {
			select {
			case <-timer.C:
			default:
			}
		}
		timer.Reset(r.Timeout)
		select {
		case s, ok := <-c.lines:
			if !ok {
				c.cmd.Wait()
				tail := c.stderr.String()
				if len(tail) > 600 {
					tail = tail[:600]
				}
				return answers, "CRASH", firstLines(tail, 6), nil
			}
			answers = append(answers, s)
			if strings.HasPrefix(s, "OOM") { // the child exits after this answer
				c.kill()
				return answers, "", "", nil
			}
		case <-timer.C:
			c.kill()
			return answers, "HANG", fmt.Sprintf("no answer within %v", r.Timeout), nil
		}
	}
	c.in.Close()
	done := make(chan struct{})
	go func() { c.cmd.Wait(); close(done) }()
	select {
	case <-done:
	case <-time.After(5 * time.Second):
		c.cmd.Process.Kill()
	}
	return answers, "", "", nil
}

func firstLines(s string, n int) string {
	l := strings.Split(s, "\n")
	if len(l) > n {
		l = l[:n]
	}
	return strings.Join(l, " | ")
}

// Run answers every request; a request that kills the child gets "CRASH <detail>" (confirmed
// alone in a fresh child; "CRASH-STATEFUL <detail>" if it does not crash alone), one that
// makes it hang gets "HANG <detail>".
func (r *Runner) Run(reqs []string) ([]string, error) {
	out := make([]string, 0, len(reqs))
	maxDown := r.MaxDown
	if maxDown == 0 {
		maxDown = 5
	}
	down := 0
	for len(out) < len(reqs) {
		if down >= maxDown { // the code under test is badly broken: the first failures are enough
			for len(out) < len(reqs) {
				out = append(out, "SKIPPED")
			}
			break
		}
		ans, status, detail, err := r.runSome(reqs[len(out):])
		if err != nil {
			return nil, err
		}
		out = append(out, ans...)
		if status == "" {
			continue
		}
		if len(out) == len(reqs) { // died after the last answer
			break
		}
		bad := reqs[len(out)]
		down++
		if status == "CRASH" {
			r.Crashes++
			_, st2, d2, err := r.runSome([]string{bad})
			if err != nil {
				return nil, err
			}
			if st2 == "CRASH" {
				out = append(out, "CRASH "+d2)
			} else {
				out = append(out, "CRASH-STATEFUL "+detail)
			}
		} else {
			r.Hangs++
			out = append(out, "HANG "+detail)
		}
	}
	return out, nil
}

// IsChild reports whether this process was started as a child and with which mode.
func IsChild() (string, bool) {
	if len(os.Args) >= 3 && os.Args[1] == "-child" {
		return os.Args[2], true
	}
	return "", false
}
