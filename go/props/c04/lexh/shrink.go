package lexh

import (
	"bytes"
	"regexp"
	"unicode/utf8"
)

// Shrink reduces src while failing(src) stays true, within a budget of maxProbes calls
// (a count, not a time, so that the result is deterministic): halves; removal of runs of
// approximate lexical tokens (every offset, runs of 16 down to 1 tokens); removal of two
// separated short runs at once (a label and its use, an opening and a closing delimiter);
// removal of single bytes; then canonicalisation (Canonical).
func Shrink(src []byte, failing func([]byte) bool, maxProbes int) []byte {
	probes := 0
	ok := func(b []byte) bool {
		if probes >= maxProbes {
			return false
		}
		probes++
		return failing(b)
	}
	cur := append([]byte(nil), src...)
	for len(cur) > 32 {
		h := len(cur) / 2
		if ok(cur[:h]) {
			cur = append([]byte(nil), cur[:h]...)
		} else if ok(cur[h:]) {
			cur = append([]byte(nil), cur[h:]...)
		} else {
			break
		}
	}
	for pass := 0; pass < 8; pass++ {
		progressed := false
		toks := Tokens(cur)
		for run := min(16, len(toks)); run >= 1; run-- {
			for i := 0; i+run <= len(toks); {
				cand := bytesJoin(append(append([][]byte{}, toks[:i]...), toks[i+run:]...))
				if ok(cand) {
					toks = append(toks[:i:i], toks[i+run:]...)
					cur = cand
					progressed = true
				} else {
					i++
				}
			}
		}
		// two separated runs of 1..3 tokens
		if len(toks) <= 40 {
		pairs:
			for r1 := 1; r1 <= 3; r1++ {
				for r2 := 1; r2 <= 4; r2++ {
					for i := 0; i+r1 <= len(toks); i++ {
						for j := i + r1 + 1; j+r2 <= len(toks); j++ {
							var t [][]byte
							t = append(t, toks[:i]...)
							t = append(t, toks[i+r1:j]...)
							t = append(t, toks[j+r2:]...)
							cand := bytesJoin(t)
							if ok(cand) {
								toks = t
								cur = cand
								progressed = true
								break pairs
							}
						}
					}
				}
			}
		}
		for i := 0; i < len(cur); {
			cand := append(append([]byte(nil), cur[:i]...), cur[i+1:]...)
			if ok(cand) {
				cur = cand
				progressed = true
			} else {
				i++
			}
		}
		if !progressed {
			break
		}
	}
	return Canonical(cur, ok)
}

var identRe = regexp.MustCompile(`[A-Za-z_][A-Za-z0-9_]*`)
var digitsRe = regexp.MustCompile(`[0-9]{4,}`)

// Canonical renames identifiers (a, b, c… in order of first appearance), replaces long digit
// runs by 9s of the same length, blanks by a space and odd bytes by 'a', each only when ok
// stays true.
func Canonical(cur []byte, ok func([]byte) bool) []byte {
	next := byte('a')
	seen := map[string]bool{}
	for _, id := range identRe.FindAll(cur, -1) {
		s := string(id)
		if seen[s] || next > 'z' {
			continue
		}
		seen[s] = true
		if len(s) == 1 && s[0] == next {
			next++
			continue
		}
		re := regexp.MustCompile(`\b` + regexp.QuoteMeta(s) + `\b`)
		cand := re.ReplaceAll(cur, []byte{next})
		if !bytes.Equal(cand, cur) && !seen[string(next)] && ok(cand) {
			cur = cand
			seen[string(next)] = true
			next++
		}
	}
	// an identifier that occurs again only by accident gets a letter of its own
	for k := 0; k < 8; k++ {
		locs := identRe.FindAllIndex(cur, -1)
		used := map[string]bool{}
		for _, l := range locs {
			used[string(cur[l[0]:l[1]])] = true
		}
		changed := false
		first := map[string]bool{}
		for _, l := range locs {
			name := string(cur[l[0]:l[1]])
			if !first[name] {
				first[name] = true
				continue
			}
			fresh := byte(0)
			for c := byte('a'); c <= 'z'; c++ {
				if !used[string(c)] {
					fresh = c
					break
				}
			}
			if fresh == 0 {
				break
			}
			cand := append(append(append([]byte(nil), cur[:l[0]]...), fresh), cur[l[1]:]...)
			if ok(cand) {
				cur = cand
				changed = true
				break
			}
		}
		if !changed {
			break
		}
	}
	cand := digitsRe.ReplaceAllFunc(cur, func(d []byte) []byte { return bytes.Repeat([]byte{'9'}, len(d)) })
	if !bytes.Equal(cand, cur) && ok(cand) {
		cur = cand
	}
	for i := range cur {
		if cur[i] == '\t' || cur[i] == '\r' || cur[i] == '\n' {
			old := cur[i]
			cur[i] = ' '
			if !ok(cur) {
				cur[i] = old
				if old == '\n' { // a newline that stands for a semicolon
					cur[i] = ';'
					if !ok(cur) {
						cur[i] = old
					}
				}
			}
		}
	}
	// blanks that became removable
	for i := 0; i < len(cur); {
		if cur[i] == ' ' {
			cand := append(append([]byte(nil), cur[:i]...), cur[i+1:]...)
			if ok(cand) {
				cur = cand
				continue
			}
		}
		i++
	}
	// multi-byte characters → 'é', '世' or '😀' (the first that keeps failing; same width last)
	isCanon := func(r rune) bool { return r == 'é' || r == '世' || r == '😀' }
	for i := 0; i < len(cur); {
		r, size := utf8.DecodeRune(cur[i:])
		if r != utf8.RuneError && size > 1 && !isCanon(r) {
			for _, rep := range []string{"é", "世", "😀"} {
				if len(rep) > size {
					break
				}
				cand := append(append(append([]byte(nil), cur[:i]...), rep...), cur[i+size:]...)
				if ok(cand) {
					cur = cand
					size = len(rep)
					break
				}
			}
		}
		i += size
	}
	// control bytes and invalid bytes → 'a'
	for i := 0; i < len(cur); {
		r, size := utf8.DecodeRune(cur[i:])
		c := cur[i]
		if (r == utf8.RuneError && size == 1) || c < 0x20 && c != '\n' {
			cur[i] = 'a'
			if !ok(cur) {
				cur[i] = c
			}
		}
		i += size
	}
	// punctuation and digits that do not matter → 'a'
	for i := range cur {
		c := cur[i]
		if c < 0x80 && c > 0x20 && !(c >= 'a' && c <= 'z') && !(c >= 'A' && c <= 'Z') {
			cur[i] = 'a'
			if !ok(cur) {
				cur[i] = c
			}
		}
	}
	return cur
}
