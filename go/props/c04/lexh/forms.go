package lexh

import (
	"bytes"
	"crypto/sha1"
	"fmt"
	"regexp"
	"sort"
	"strings"

	"verifharness/internal/proto"
)

// Forms × modifiers × roles: a grammar-based stream for the end-to-end build oracle.
//
// The byte/token mutators and the structural stream insert items at block positions; they do not combine every
// DECLARATION/STATEMENT FORM with every MODIFIER in every FILE ROLE. This stream does, systematically:
//
//	forms      every statement and declaration of the template dialect (pieces: header, clauses, end — the text
//	           between two pieces is a body slot), their Go-syntax counterparts (for `{%% %%}` and for programs) and the
//	           package-level declarations of programs;
//	modifiers  `; using …` on every piece, trailing tokens, empty bodies, missing end / missing header, duplicated and
//	           swapped clauses, the wrong delimiters (statement inside `{%% %%}`, `{{ }}`, Go syntax inside `{% %}`), every
//	           token prefix (the form as the LAST thing of the file), every form inside every slot of every other form;
//	roles      main file; file with `{% extends %}` (bare and inside a macro); layout of an extending file; imported file
//	           (plain, named, `for`, through an intermediate file, from an extending file); rendered partial (same and
//	           other format); macro body with an explicit format; script/style/attribute contexts; Markdown/JS/CSS/
//	           JSON/Text files; program: body of main/init/function literal/function with result/method, package
//	           level, the same in an imported package of a module (go.mod + sub-directory).
//
// Identifiers used by the forms are declared by a prelude (declarations only, so that it is valid in a file that is
// converted to a package), which lets the type checker and the emitter go on past the form.

// FormCase is one case of the stream with its coverage labels.
type FormCase struct {
	BuildCase
	Form, Mod, Role string
}

type form struct {
	name   string
	cat    string   // category for the histogram
	pieces []string // header, clauses, end; one piece: a leaf
	syn    byte     // 't': template source; 'g': Go-syntax statement; 'd': Go package-level declaration
}

func tf(cat, name string, pieces ...string) form { return form{name, cat, pieces, 't'} }
func gf(cat, name string, pieces ...string) form { return form{name, cat, pieces, 'g'} }
func df(cat, name string, pieces ...string) form { return form{name, cat, pieces, 'd'} }

const tPrelude = `{% var a, b = true, false %}{% var s = []int{1, 2} %}{% var x interface{} = 1 %}{% var n = 3 %}` +
	`{% var ch = make(chan int, 1) %}{% var str = "s" %}{% macro M %}m{% end macro %}{% macro P(i int) %}{{ i }}{% end macro %}`

const gPrelude = "var a, b = true, false\nvar s = []int{1, 2}\nvar x interface{} = 1\nvar n = 3\n" +
	"var ch = make(chan int, 1)\nvar str = \"s\"\nfunc M() {}\nfunc P(i int) int { return i }\n"

var assignOps = []string{"=", "+=", "-=", "*=", "/=", "%=", "&=", "|=", "^=", "&^=", "<<=", ">>="}

func templateForms() []form {
	f := []form{
		// declarations
		tf("var", "var", "{% var v = 1 %}"),
		tf("var", "var-multi", "{% var v, w = 1, 2 %}"),
		tf("var", "var-typed", "{% var v int = 1 %}"),
		tf("var", "var-typed-noinit", "{% var v int %}"),
		tf("var", "var-multi-typed", "{% var v, w string %}"),
		tf("var", "var-func", "{% var f = func() int { return 1 } %}"),
		tf("var", "var-call", "{% var v = P(1) %}"),
		tf("var", "var-multi-call", "{% var v, ok = x.(int) %}"),
		tf("var", "var-blank", "{% var _ = n %}"),
		tf("const", "const", "{% const c = 5 %}"),
		tf("const", "const-multi", "{% const c, d = 5, 6 %}"),
		tf("const", "const-typed", "{% const c int = 5 %}"),
		tf("const", "const-iota", "{% const c = iota %}"),
		tf("const", "const-string", "{% const c = \"k\" + \"l\" %}"),
		tf("group", "var-group", "{%% var ( v = 1; w = 2 ) %%}"),
		tf("group", "var-group-typed", "{%% var (\n v int\n w, z string = \"a\", \"b\"\n) %%}"),
		tf("group", "const-group", "{%% const ( c = iota; d; e ) %%}"),
		tf("group", "const-group-typed", "{%% const (\n c int = 1 << iota\n d\n) %%}"),
		tf("group", "var-group-empty", "{%% var () %%}"),
		tf("group", "var-in-statements", "{%% var v = 1 %%}"),
		tf("group", "const-in-statements", "{%% const c = 5 %%}"),
		tf("group", "var-group-in-statement", "{% var ( v = 1 ) %}"),
		tf("group", "const-group-in-statement", "{% const ( c = 1 ) %}"),
		tf("type", "type", "{% type T int %}"),
		tf("type", "type-alias", "{% type T = int %}"),
		tf("type", "type-struct", "{% type T struct { A int; B []T } %}"),
		tf("type", "type-group", "{%% type ( T int; U = string ) %%}"),
		tf("type", "type-interface", "{% type T interface { F() } %}"),
		// short declarations and assignments
		tf("short", "short", "{% v := 1 %}"),
		tf("short", "short-multi", "{% v, w := 1, 2 %}"),
		tf("short", "short-assert", "{% v, ok := x.(int) %}"),
		tf("short", "short-recv", "{% v, ok := <-ch %}"),
		tf("short", "short-index", "{% v := s[0] %}"),
		tf("short", "short-redecl", "{% n, v := 1, 2 %}"),
		tf("short", "short-macro", "{% v := M %}"),
		tf("assign", "incr", "{% n++ %}"),
		tf("assign", "decr", "{% n-- %}"),
		tf("assign", "assign-index", "{% s[0] = 1 %}"),
		tf("assign", "assign-blank", "{% _ = n %}"),
		tf("assign", "assign-multi", "{% n, str = 1, \"a\" %}"),
		tf("assign", "assign-deref", "{% *(&n) = 1 %}"),
		tf("assign", "assign-swap", "{% s[0], s[1] = s[1], s[0] %}"),
		tf("send", "send", "{% ch <- 1 %}"),
		tf("send", "recv", "{% <-ch %}"),
		tf("expr", "call-macro", "{% M() %}"),
		tf("expr", "call-macro-arg", "{% P(1) %}"),
		tf("expr", "call-builtin", "{% len(s) %}"),
		tf("expr", "expr-unused", "{% n + 1 %}"),
		// macros
		tf("macro", "macro", "{% macro A %}", "{% end macro %}"),
		tf("macro", "macro-end", "{% macro A %}", "{% end %}"),
		tf("macro", "macro-parens", "{% macro A() %}", "{% end macro %}"),
		tf("macro", "macro-param", "{% macro A(i int) %}", "{% end macro %}"),
		tf("macro", "macro-params", "{% macro A(i, j int, k ...string) %}", "{% end macro %}"),
		tf("macro", "macro-format", "{% macro A js %}", "{% end macro %}"),
		tf("macro", "macro-parens-format", "{% macro A() html %}", "{% end macro %}"),
		tf("macro", "macro-param-format", "{% macro A(i int) string %}", "{% end macro %}"),
		tf("macro", "macro-markdown", "{% macro A(i int) markdown %}", "{% end macro %}"),
		tf("macro", "macro-css", "{% macro A css %}", "{% end macro %}"),
		tf("macro", "macro-json", "{% macro A json %}", "{% end macro %}"),
		tf("macro", "macro-result-int", "{% macro A() int %}", "{% end macro %}"),
		tf("macro", "macro-body", "{% macro Body %}", "{% end macro %}"),
		tf("macro", "macro-redeclared", "{% macro M %}", "{% end macro %}"),
		tf("macro", "macro-lowercase", "{% macro q %}", "{% end macro %}"),
		tf("macro", "macro-unnamed-param", "{% macro A(int) %}", "{% end macro %}"),
		// if
		tf("if", "if", "{% if a %}", "{% end %}"),
		tf("if", "if-end-if", "{% if a %}", "{% end if %}"),
		tf("if", "if-else", "{% if a %}", "{% else %}", "{% end %}"),
		tf("if", "if-else-if", "{% if a %}", "{% else if b %}", "{% end %}"),
		tf("if", "if-else-if-else", "{% if a %}", "{% else if b %}", "{% else if a and b %}", "{% else %}", "{% end if %}"),
		tf("if", "if-init", "{% if v := n; v > 1 %}", "{% else if w := v; w > 2 %}", "{% end %}"),
		tf("if", "if-not-and-or", "{% if not a and b or a %}", "{% end %}"),
		tf("if", "if-non-bool", "{% if n %}", "{% end %}"),
		tf("if", "if-contains", "{% if s contains 1 %}", "{% else if s not contains 2 %}", "{% end %}"),
		tf("if", "if-assert", "{% if v, ok := x.(int); ok %}", "{% end %}"),
		// for
		tf("for", "for", "{% for %}", "{% break %}{% end %}"),
		tf("for", "for-cond", "{% for a %}", "{% break %}{% end for %}"),
		tf("for", "for-clause", "{% for i := 0; i < 2; i++ %}", "{% end %}"),
		tf("for", "for-clause-empty", "{% for ; ; %}", "{% break %}{% end %}"),
		tf("for", "for-range", "{% for i, v := range s %}", "{% end for %}"),
		tf("for", "for-range-key", "{% for i := range s %}", "{% end %}"),
		tf("for", "for-range-none", "{% for range s %}", "{% end %}"),
		tf("for", "for-range-int", "{% for i := range 3 %}", "{% end %}"),
		tf("for", "for-range-assign", "{% for n, str = range str %}", "{% end %}"),
		// the assignment form with every kind of assignable (or not) left operand
		tf("for", "for-range-assign-index", "{% for s[0] = range s %}", "{% end %}"),
		tf("for", "for-range-assign-blank-index", "{% for _, s[1] = range s %}", "{% end %}"),
		tf("for", "for-range-assign-deref", "{% for *(&n) = range s %}", "{% end %}"),
		tf("for", "for-range-assign-parens", "{% for (n) = range s %}", "{% end %}"),
		tf("for", "for-range-assign-map-index", "{% for map[int]int{}[0] = range s %}", "{% end %}"),
		tf("for", "for-range-assign-field", "{% for n, struct{ F int }{}.F = range s %}", "{% end %}"),
		tf("for", "for-range-assign-call", "{% for len(s) = range s %}", "{% end %}"),
		tf("for", "for-range-assign-literal", "{% for 1 = range s %}", "{% end %}"),
		tf("for", "for-range-blank", "{% for _, v := range s %}", "{% end %}"),
		tf("for", "for-range-chan", "{% for v := range ch %}", "{% break %}{% end %}"),
		tf("for", "for-range-func", "{% for v := range func(yield func(int) bool) {} %}", "{% end %}"),
		tf("for", "for-in", "{% for v in s %}", "{% end %}"),
		tf("for", "for-in-else", "{% for v in s %}", "{% else %}", "{% end for %}"),
		tf("for", "for-range-else", "{% for i, v := range s %}", "{% else %}", "{% end %}"),
		tf("for", "for-in-string", "{% for c in str %}", "{% end %}"),
		tf("for", "for-break-continue", "{% for v in s %}", "{% if a %}{% break %}{% else %}{% continue %}{% end %}", "{% end %}"),
		// switch, type switch, select
		tf("switch", "switch", "{% switch %}", "{% case a %}", "{% default %}", "{% end switch %}"),
		tf("switch", "switch-tag", "{% switch n %}", "{% case 1 %}", "{% case 2, 3 %}", "{% default %}", "{% end %}"),
		tf("switch", "switch-init", "{% switch y := n; y %}", "{% case 1 %}", "{% end %}"),
		tf("switch", "switch-init-only", "{% switch y := n; %}", "{% case y > 1 %}", "{% end %}"),
		tf("switch", "switch-empty", "{% switch n %}", "{% end %}"),
		tf("switch", "switch-default-first", "{% switch n %}", "{% default %}", "{% case 1 %}", "{% end %}"),
		tf("switch", "switch-fallthrough", "{% switch n %}", "{% case 1 %}", "{% fallthrough %}{% case 2 %}", "{% end %}"),
		tf("switch", "switch-break", "{% switch n %}", "{% case 1 %}", "{% break %}{% end %}"),
		tf("switch", "switch-dup-case", "{% switch n %}", "{% case 1 %}", "{% case 1 %}", "{% end %}"),
		tf("typeswitch", "typeswitch", "{% switch x.(type) %}", "{% case int %}", "{% default %}", "{% end %}"),
		tf("typeswitch", "typeswitch-bind", "{% switch v := x.(type) %}", "{% case int, string %}", "{% case nil %}", "{% default %}", "{% end switch %}"),
		tf("typeswitch", "typeswitch-init", "{% switch y := x; v := y.(type) %}", "{% case []int %}", "{% end %}"),
		tf("typeswitch", "typeswitch-fallthrough", "{% switch x.(type) %}", "{% case int %}", "{% fallthrough %}{% default %}", "{% end %}"),
		tf("select", "select", "{% select %}", "{% case <-ch %}", "{% case v := <-ch %}", "{% default %}", "{% end select %}"),
		tf("select", "select-send", "{% select %}", "{% case ch <- 1 %}", "{% case v, ok := <-ch %}", "{% end %}"),
		tf("select", "select-empty", "{% select %}", "{% end %}"),
		tf("select", "select-assign", "{% select %}", "{% case n = <-ch %}", "{% default %}", "{% end %}"),
		tf("select", "select-break", "{% select %}", "{% default %}", "{% break %}{% end %}"),
		// show and render
		tf("show", "show", "{% show n %}"),
		tf("show", "show-multi", "{% show n, str, a %}"),
		tf("show", "show-macro", "{% show M() %}"),
		tf("show", "show-short", "{{ n }}"),
		tf("show", "show-short-multi", "{{ n, str }}"),
		tf("show", "show-short-macro", "{{ P(1) }}"),
		tf("show", "show-default", "{{ Undef() default M() }}"),
		tf("show", "show-default-str", "{{ M() default \"d\" }}"),
		tf("show", "show-default-selector", "{{ q.MM() default \"d\" }}"),
		tf("show", "show-default-undefined-selector", "{{ und.F() default \"d\" }}"),
		tf("show", "show-default-paren", "{{ (M)() default \"d\" }}"),
		tf("show", "show-default-call-call", "{{ M()() default \"d\" }}"),
		tf("show", "show-default-index", "{{ s[0]() default \"d\" }}"),
		tf("show", "show-default-funclit", "{{ func() int { return 1 }() default 2 }}"),
		tf("show", "show-default-conversion", "{{ int(n) default 2 }}"),
		tf("show", "show-default-builtin", "{{ len(s) default 2 }}"),
		tf("show", "show-default-method", "{{ x.(error).Error() default \"d\" }}"),
		tf("show", "show-default-chain", "{{ Undef() default Undef2() default M() }}"),
		tf("show", "show-default-var", "{% var v = Undef() default M() %}"),
		tf("show", "show-default-render-selector", "{{ render \"nofile.html\" default q.MM() }}"),
		tf("show", "show-func", "{{ func() int { return 1 }() }}"),
		tf("show", "show-nil", "{{ nil }}"),
		tf("show", "show-attr", "<a href=\"{{ str }}\" title={{ str }} class='{{ n }}'>"),
		tf("show", "show-script", "<script>var q = {{ s }}; var r = \"{{ str }}\";</script>"),
		tf("show", "show-style", "<style>a { b: {{ n }}; c: \"{{ str }}\" }</style>"),
		tf("show", "show-jsonld", "<script type=\"application/ld+json\">{\"k\": {{ s }}}</script>"),
		tf("show", "show-srcset", "<img srcset=\"{{ str }} 2x, a{{ n }}\">"),
		tf("render", "render", "{{ render \"p.html\" }}"),
		tf("render", "render-show", "{% show render \"p.html\" %}"),
		tf("render", "render-expr-short", "{% v := render \"p.html\" %}"),
		tf("render", "render-expr-var", "{% var v = render \"p.html\" %}"),
		tf("render", "render-expr-const", "{% const c = render \"p.html\" %}"),
		tf("render", "render-default", "{{ render \"nofile.html\" default \"d\" }}"),
		tf("render", "render-default-render", "{{ render \"nofile.html\" default render \"p.html\" }}"),
		tf("render", "render-paren", "{{ (render \"p.html\") }}"),
		tf("render", "render-arg", "{{ len(render \"p.html\") }}"),
		tf("render", "render-concat", "{{ render \"p.html\" + render \"p.html\" }}"),
		tf("render", "render-md", "{{ render \"p.md\" }}"),
		tf("render", "render-js", "<script>{{ render \"p.js\" }}</script>"),
		tf("render", "render-txt", "{{ render \"p.txt\" }}"),
		tf("render", "render-self", "{{ render \"index.html\" }}"),
		tf("render", "render-abs", "{{ render \"/p.html\" }}"),
		tf("render", "render-dotdot", "{{ render \"../p.html\" }}"),
		tf("render", "render-missing", "{{ render \"nofile.html\" }}"),
		tf("render", "render-extending", "{{ render \"ext.html\" }}"),
		tf("render", "render-in-statements", "{%% show render \"p.html\" %%}"),
		// import and extends
		tf("import", "import", "{% import \"m.html\" %}"),
		tf("import", "import-named", "{% import m \"m.html\" %}"),
		tf("import", "import-dot", "{% import . \"m.html\" %}"),
		tf("import", "import-blank", "{% import _ \"m.html\" %}"),
		tf("import", "import-for", "{% import \"m.html\" for MM %}"),
		tf("import", "import-for-list", "{% import \"m.html\" for MM, MV %}"),
		tf("import", "import-for-empty", "{% import \"m.html\" for %}"),
		tf("import", "import-for-undefined", "{% import \"m.html\" for Nope %}"),
		tf("import", "import-named-for", "{% import m \"m.html\" for MM %}"),
		tf("import", "import-native", "{% import \"fmt\" %}"),
		tf("import", "import-missing", "{% import \"nofile.html\" %}"),
		tf("import", "import-self", "{% import \"index.html\" %}"),
		tf("import", "import-other-format", "{% import \"p.md\" %}"),
		tf("import", "import-extending", "{% import \"ext.html\" %}"),
		tf("import", "import-group", "{%% import ( \"m.html\"; k \"n.html\" ) %%}"),
		tf("import", "import-in-statements", "{%% import \"m.html\" %%}"),
		tf("import", "import-twice", "{% import \"m.html\" %}{% import \"m.html\" %}"),
		tf("extends", "extends", "{% extends \"layout.html\" %}"),
		tf("extends", "extends-abs", "{% extends \"/layout.html\" %}"),
		tf("extends", "extends-dotdot", "{% extends \"../layout.html\" %}"),
		tf("extends", "extends-self", "{% extends \"index.html\" %}"),
		tf("extends", "extends-missing", "{% extends \"nofile.html\" %}"),
		tf("extends", "extends-extending", "{% extends \"ext.html\" %}"),
		tf("extends", "extends-other-format", "{% extends \"p.md\" %}"),
		tf("extends", "extends-in-statements", "{%% extends \"layout.html\" %%}"),
		tf("extends", "extends-raw-string", "{% extends `layout.html` %}"),
		// raw, blocks
		tf("raw", "raw", "{% raw %}", "{% end raw %}"),
		tf("raw", "raw-end", "{% raw %}", "{% end %}"),
		tf("raw", "raw-marker", "{% raw code %}", "{% end raw code %}"),
		tf("raw", "raw-content", "{% raw %}{{ n }}{% if %}{# #}", "{% end raw %}"),
		tf("block", "block", "{% { %}", "{% } %}"),
		tf("block", "statements", "{%% n = 1 %%}"),
		tf("block", "statements-empty", "{%% %%}"),
		tf("block", "statements-block", "{%% { v := 1; _ = v } %%}"),
		tf("block", "statements-multi", "{%%\n v := 1\n if v > 0 {\n  show v\n }\n%%}"),
		// return, break, continue, fallthrough, goto, labels
		tf("return", "return", "{% return %}"),
		tf("return", "return-value", "{% return 1 %}"),
		tf("return", "return-macro", "{% return M() %}"),
		tf("branch", "break", "{% break %}"),
		tf("branch", "continue", "{% continue %}"),
		tf("branch", "fallthrough", "{% fallthrough %}"),
		tf("branch", "goto", "{% goto L %}"),
		tf("branch", "break-label", "{% break L %}"),
		tf("branch", "continue-label", "{% continue L %}"),
		tf("label", "label-for", "{% L: for v in s %}", "{% break L %}{% end %}"),
		tf("label", "label-for-range", "{% L: for i, v := range s %}", "{% break L %}{% end %}"),
		tf("label", "label-for-clause", "{% L: for i := 0; i < 2; i++ %}", "{% if a %}{% break L %}{% end %}{% end %}"),
		tf("label", "label-for-cond", "{% L: for a %}", "{% for b %}{% break L %}{% end %}{% end %}"),
		tf("label", "label-for-range-else", "{% L: for i, v := range s %}", "{% else %}", "{% end %}"),
		tf("label", "label-unused", "{% L: for %}", "{% break %}{% end %}"),
		tf("label", "label-twice", "{% L: for %}{% break %}{% end %}{% L: for %}", "{% break %}{% end %}"),
		tf("label", "label-for-continue", "{% L: for v in s %}", "{% if a %}{% continue %}{% end %}{% end %}"),
		tf("label", "label-switch", "{% L: switch n %}", "{% case 1 %}", "{% break L %}{% end %}"),
		tf("label", "label-select", "{% L: select %}", "{% default %}", "{% break L %}{% end %}"),
		tf("label", "label-if", "{% L: if a %}", "{% end %}"),
		tf("label", "label-alone", "{% L: %}"),
		tf("label", "label-goto", "{% L: %}{% if a %}{% goto L %}{% end %}"),
		tf("label", "label-show", "{% L: show n %}"),
		tf("label", "label-label", "{% L: K: for %}", "{% break K %}{% end %}"),
		// defer, go, function literals
		tf("defer", "defer-macro", "{% defer M() %}"),
		tf("defer", "defer-func", "{% defer func() { n = 1 }() %}"),
		tf("defer", "defer-recover", "{% defer recover() %}"),
		tf("defer", "defer-builtin", "{% defer len(s) %}"),
		tf("defer", "defer-non-call", "{% defer n %}"),
		tf("go", "go-macro", "{% go M() %}"),
		tf("go", "go-func", "{% go func() { ch <- 1 }() %}"),
		tf("go", "go-non-call", "{% go n %}"),
		tf("funclit", "funclit-short", "{% f := func(i int) int { return i } %}"),
		tf("funclit", "funclit-call", "{% func() { n = 1 }() %}"),
		tf("funclit", "funclit-closure", "{% f := func() func() int { return func() int { return n } } %}"),
		tf("funclit", "funclit-variadic", "{% f := func(i ...int) (r int, err error) { return } %}"),
		tf("funclit", "funclit-statements", "{%% f := func() {\n for i := range s {\n  show i\n }\n}\nf() %%}"),
		tf("funclit", "funclit-show-inside", "{% f := func() { show n } %}"),
		tf("funclit", "funclit-macro-value", "{% var f macro() html = M %}"),
		tf("funclit", "func-decl-in-statements", "{%% func F() {} %%}"),
		// using
		tf("using", "using-show", "{% show itea; using %}", "{% end using %}"),
		tf("using", "using-show-end", "{% show itea; using %}", "{% end %}"),
		tf("using", "using-var", "{% var v = itea; using %}", "{% end using %}"),
		tf("using", "using-var-format", "{% var v = itea; using js %}", "{% end using %}"),
		tf("using", "using-var-multi", "{% var v, w = itea, itea; using %}", "{% end using %}"),
		tf("using", "using-short", "{% v := itea; using %}", "{% end using %}"),
		tf("using", "using-assign", "{% str = string(itea); using string %}", "{% end using %}"),
		tf("using", "using-call", "{% P(len(itea)); using %}", "{% end using %}"),
		tf("using", "using-macro", "{% show itea(); using macro %}", "{% end using %}"),
		tf("using", "using-macro-params", "{% show itea(1); using macro(i int) %}", "{% end using %}"),
		tf("using", "using-macro-format", "{% show itea(); using macro() markdown %}", "{% end using %}"),
		tf("using", "using-short-show", "{{ itea; using }}", "{% end using %}"),
		tf("using", "using-short-show-macro", "{{ itea(); using macro }}", "{% end using %}"),
		tf("using", "using-defer", "{% defer itea(); using macro %}", "{% end using %}"),
		tf("using", "using-send", "{% ch <- len(itea); using %}", "{% end using %}"),
		tf("using", "using-return", "{% return itea; using %}", "{% end using %}"),
		tf("using", "using-no-itea", "{% show n; using %}", "{% end using %}"),
		tf("using", "using-itea-outside", "{{ itea }}"),
		tf("using", "using-nested", "{% show itea; using %}", "{% show itea; using %}", "{% end using %}{% end using %}"),
		tf("using", "using-in-statements", "{%% show itea; using %%}", "{% end using %}"),
		// comments and odd fragments
		tf("comment", "comment", "{# c #}"),
		tf("comment", "comment-code", "{# {% if %} {{ #}"),
		tf("comment", "comment-nested", "{# a {# b #} c #}"),
		tf("comment", "comment-go-line", "{% n = 1 // c %}"),
		tf("comment", "comment-go-block", "{% /* c */ n = 1 /* d */ %}"),
		tf("comment", "comment-go-in-statements", "{%% // c\n n = 1 /* d\n */ %%}"),
		tf("comment", "comment-only-statement", "{% /* c */ %}"),
		tf("misc", "package", "{% package main %}"),
		tf("misc", "empty-statement", "{% %}"),
		tf("misc", "empty-show", "{{ }}"),
		tf("misc", "semicolon", "{% ; %}"),
		tf("misc", "end-alone", "{% end %}"),
		tf("misc", "else-alone", "{% else %}"),
		tf("misc", "case-alone", "{% case 1 %}"),
		tf("misc", "default-alone", "{% default %}"),
		tf("misc", "end-using-alone", "{% end using %}"),
		tf("misc", "end-macro-alone", "{% end macro %}"),
		tf("misc", "text", "t"),
	}
	for _, op := range assignOps {
		f = append(f, tf("assign", "assign"+op, "{% n "+op+" 2 %}"))
	}
	for _, t := range typeExprs {
		f = append(f, tf("typeexpr", "var "+t, "{% var v "+t+" %}"), tf("typeexpr", "literal "+t, "{% v := "+t+"{} %}"), tf("typeexpr", "convert "+t, "{{ ("+t+")(n) }}"),
			tf("typeexpr", "assert "+t, "{% v, ok := x.("+t+") %}"), tf("typeexpr", "new "+t, "{% v := new("+t+") %}"), tf("typeexpr", "make "+t, "{% v := make("+t+", 1) %}"),
			tf("typeexpr", "param "+t, "{% macro A(p "+t+") %}{% end macro %}"), tf("typeexpr", "func-param "+t, "{% f := func(p "+t+") ("+t+") { return p } %}"),
			tf("typeexpr", "type "+t, "{% type U "+t+" %}"), tf("typeexpr", "case "+t, "{% switch x.(type) %}{% case "+t+" %}{% end %}"))
	}
	f = append(f, calleeForms('t')...)
	f = append(f, positionForms()...)
	_, scaleT := scaleForms()
	f = append(f, scaleT...)
	for _, e := range exprs {
		f = append(f, tf("exprs", "show "+e, "{{ "+e+" }}"), tf("exprs", "short "+e, "{% v := "+e+" %}"), tf("exprs", "if "+e, "{% if "+e+" %}{% end %}"),
			tf("exprs", "arg "+e, "{{ P("+e+") }}"), tf("exprs", "index "+e, "{{ s["+e+"] }}"), tf("exprs", "stmt "+e, "{% "+e+" %}"),
			tf("exprs", "var "+e, "{% var v = "+e+" %}"), tf("exprs", "const "+e, "{% const c = "+e+" %}"), tf("exprs", "case "+e, "{% switch n %}{% case "+e+" %}{% end %}"),
			tf("exprs", "range "+e, "{% for v in "+e+" %}{% end %}"), tf("exprs", "using "+e, "{% var v = "+e+"; using %}{% end using %}"))
	}
	return f
}

// type expressions, well-formed and not, put into every position that takes a type
var typeExprs = []string{
	"int", "[]int", "[3]int", "[n]int", "[-1]int", "[1.5]int", "[\"a\"]int", "[...]int", "[]", "[3]", "[", "map[string]int", "map[]int", "map[int]",
	"map[]", "map", "map[[]int]int", "map[func()]int", "map[string]map[string][]*int", "chan int", "<-chan int", "chan<- int", "chan", "<-chan",
	"chan chan<- int", "*int", "*", "**int", "*(int)", "(int)", "[](int)", "[]()", "func()", "func(int) string", "func(a, b int, c ...string) (int, error)",
	"func", "func(", "func()()", "func(...)", "func(...int)", "func(a ...int, b int)", "func(int, b string)", "func() (a, b)", "func(a int) (a int)",
	"struct{}", "struct{ A int }", "struct{ A, B int; C string }", "struct", "struct{ A }", "struct{ A, B }", "struct{ A int; A string }",
	"struct{ int; int }", "struct{ *T }", "struct{ A int `t` }", "struct{ A int \"t\" }", "struct{ A int 1 }", "interface{}", "interface{ F() }",
	"interface{ int }", "interface{ F(); F() }", "interface", "any", "error", "html", "T", "T.U", "p.T", "str.T", "n", "M", "nil", "true", "iota",
	"int{}", "[]T", "[2][2]int", "[len(s)]int", "[len(\"ab\")]int", "[2]struct{ a [2]int }", "func() func() func()", "macro()", "macro(a int) html",
}

// expressions, well-formed and not
var exprs = []string{
	"n", "-n", "+n", "!a", "^n", "&n", "*&n", "<-ch", "&", "*", "<-", "!", "n +", "n + str", "n / 0", "1 / 0", "1 % 0", "1.5 % 2", "n << -1", "1 << n", "\"a\" << 1",
	"s[0]", "s[", "s[]", "s[:]", "s[1:]", "s[:1]", "s[1:2:3]", "s[::]", "s[:1:]", "s[1::2]", "s[-1]", "s[5]", "str[0]", "str[1:2:3]", "s[\"a\"]", "s[1.0]", "s[a]",
	"x.(int)", "x.(", "x.()", "x.(type)", "n.(int)", "x.(T)", "x.f", "x.", "n.f", "str.len", "p.F", "M.x", "s.len()",
	"[]int{1, 2}", "[]int{1, 2,}", "[]int{", "[]int{0: 1, 0: 2}", "[]int{-1: 1}", "[]int{n: 1}", "[...]int{1, 2}", "[2]int{1, 2, 3}", "map[string]int{\"a\": 1}",
	"map[string]int{\"a\": 1, \"a\": 2}", "map[string]int{1}", "struct{ A int }{1}", "struct{ A int }{A: 1}", "struct{ A int }{B: 1}", "struct{ A int }{A: 1, 2}",
	"struct{ A int }{1, 2}", "[]struct{ A int }{{1}, {A: 2}}", "[][]int{{1}, {2, 3}}", "map[string][]int{\"a\": {1}}", "[]*int{{}}", "T{}", "int{}", "&[]int{1}", "&struct{}{}",
	"[][]int{{1} {2, 3}}", "[]int{1 2}", "[][]int{{}{}}", "[]int{{}{}}", "map[string]int{\"a\": 1 \"b\": 2}", "map[string][]int{\"a\": {1} {2}}", "struct{ A int }{1 2}",
	"[]struct{ A int }{{1} {2}}", "[]int{1,, 2}", "[]int{,}", "[]int{1: }", "[]int{: 1}", "[]int{1: 2: 3}", "[][]int{{1}: {2}}", "[]int{}{}", "[]int{}{}{}", "T{}{}", "P(1 2)", "P(1,, 2)", "P(,)",
	"func() {}", "func() int { return 1 }()", "func(a ...int) {}(s...)", "func(a ...int) {}(1, s...)", "func() {", "func(", "func() int {}", "func() { return 1 }",
	"len(s)", "len()", "len(s, s)", "len(n)", "cap(ch)", "append(s, 1)", "append(s, s...)", "append()", "append(n)", "copy(s, s)", "copy(s)", "delete(s, 1)", "make([]int, 1)",
	"make([]int)", "make(int)", "make([]int, -1)", "make([]int, 2, 1)", "make(chan int, n)", "make(map[string]int, 1)", "make()", "new(int)", "new()", "new(n)", "new(T)",
	"panic(1)", "panic()", "recover()", "print(n)", "println()", "close(ch)", "close(n)", "min(1, 2)", "max(n)", "clear(s)", "complex(1, 2)", "real(1i)", "imag(n)",
	"int(n)", "int(str)", "string(n)", "[]byte(str)", "[]int(s)", "int()", "int(1, 2)", "float64(1) / 0", "uint8(256)", "int8(-129)", "string(s)", "(int)(n)", "(*int)(nil)",
	"func()(nil)", "interface{}(n)", "html(str)", "html(n)", "js(\"a\")", "css(str) + css(str)", "markdown(html(str))",
	"M", "M()", "M(1)", "P()", "P(1, 2)", "P(str)", "P(s...)", "M()()", "P(1)(2)", "P(P(1))", "Undef()", "undef", "_", "nil", "nil == nil", "iota", "true && n", "a == n",
	"s == s", "x == x", "x == 1", "x == s", "ch == nil", "M == nil", "M == M", "str + \"a\"", "str + 1", "str * 2", "\"a\" + 'b'", "'a' + 1", "1 + 1.5", "1i * 1i", "0x", "1e", "1_", "08",
	"'ab'", "''", "\"\\q\"", "`a", "\"a", "1..2", "a ? n : n", "n++", "n = 1", "n := 1", "a, b", "(a, b)", "()", "(", ")", "(((n)))", "-(-(-n))", "!!a", "a and b", "a or not b", "not",
	"and a", "a and", "s contains 1", "str contains \"a\"", "s contains", "contains s", "s not contains 1", "not s contains 1", "n contains 1", "s contains str",
	"render \"p.html\"", "render", "render n", "render \"p.html\" default", "M() default", "default 1", "a default b default n", "itea", "itea()", "$n", "n.(type)", "...", "s...",
	"<-ch + 1", "ch <- 1", "<-<-ch", "&M", "&M()", "&1", "&nil", "*n", "*nil", "-str", "!n", "^a", "<-n", "<-s", "n.n.n", "s[0][0]", "s[0].f", "s[0]()", "n()", "str()", "1()", "nil()",
}

// import sets of a package of a module: every ordered choice of one to three of these paths (packages that exist, with
// and without imports of their own; packages that do not exist; a native package), each with the alias styles in turn
var importPaths = []string{"m/a", "m/b", "m/x", "m/y", "nat"}

func importSets() []form {
	styles := []string{"_ ", "", "k ", ". "}
	var out []form
	n := 0
	var rec func(chosen []int)
	rec = func(chosen []int) {
		if len(chosen) > 0 {
			for variant := 0; variant < 2; variant++ {
				var lines, names []string
				for i, c := range chosen {
					st := "_ "
					if variant == 1 {
						st = styles[(n+i)%len(styles)]
						if st == "k " {
							st = fmt.Sprintf("k%d ", i)
						}
					}
					lines = append(lines, "import "+st+"\""+importPaths[c]+"\"")
					names = append(names, strings.TrimSpace(st)+importPaths[c])
				}
				out = append(out, df("imports", strings.Join(names, ","), strings.Join(lines, "\n")))
				if len(chosen) > 1 {
					out = append(out, df("imports", "group:"+strings.Join(names, ","), "import (\n"+strings.ReplaceAll(strings.Join(lines, "\n"), "import ", "\t")+"\n)"))
				}
				n++
			}
		}
		if len(chosen) == 3 {
			return
		}
		for c := range importPaths {
			dup := false
			for _, x := range chosen {
				dup = dup || x == c
			}
			if !dup {
				rec(append(append([]int(nil), chosen...), c))
			}
		}
	}
	rec(nil)
	return out
}

// callees: every form of the operand of a call statement, `defer` and `go`: functions and macros, literals, values of
// function type in variables, slices, maps, struct fields and interfaces, builtins and conversions, native functions,
// methods of native struct, pointer and INTERFACE values, method values and expressions, functions of an imported
// Scriggo package and macros of a file imported under a name. {setup statement, call}; the native and package names
// are those of the rich roles (go flavour: nat.X, p.F; template flavour: X, q.MM).
var calleesCommon = [][2]string{
	{"", "M()"}, {"", "P(1)"}, {"", "func() {}()"}, {"", "func(i int) int { return i }(1)"}, {"", "(M)()"}, {"f := func() {}", "f()"}, {"f := M", "f()"},
	{"fs := []func(){func() {}}", "fs[0]()"}, {"fm := map[string]func(){}", "fm[\"k\"]()"}, {"st := struct{ F func() }{func() {}}", "st.F()"},
	{"var fi interface{} = func() {}", "fi.(func())()"}, {"var fn func()", "fn()"}, {"", "len(s)"}, {"", "recover()"}, {"", "panic(1)"}, {"", "print(1)"},
	{"", "println()"}, {"", "close(ch)"}, {"", "copy(s, s)"}, {"", "append(s, 1)"}, {"", "delete(map[string]int{}, \"a\")"}, {"", "new(int)"},
	{"", "make([]int, 1)"}, {"", "int(n)"}, {"", "(func())(nil)()"}, {"", "M"}, {"", "n"}, {"", "func() {}"}, {"", "M()()"}, {"", "<-ch"},
}
var calleesNative = [][2]string{ // `@` stands for `nat.` in programs and for nothing in templates (Globals)
	{"", "@F()"}, {"", "@FInt(1)"}, {"", "@FV(1, 2)"}, {"", "@FV()"}, {"", "@FV([]interface{}{1}...)"}, {"", "@FVF(func() {})"}, {"", "@FVF()"},
	{"", "@Iv.M()"}, {"", "@Iv.N(1)"}, {"", "@NilI.M()"}, {"", "@Sv.M()"}, {"", "@Sv.N(1)"}, {"", "@Sv.V()"}, {"", "@Sv.V(func() {})"}, {"", "@Pv.PM()"}, {"", "@Pv.M()"},
	{"", "@FI().M()"}, {"", "@Fv()"}, {"", "@Err.Error()"}, {"", "@Iv.M"}, {"mv := @Iv.M", "mv()"}, {"mv := @Sv.M", "mv()"}, {"", "@S.M(@Sv)"}, {"", "@I.M(@Iv)"},
	{"", "(*@S).PM(@Pv)"}, {"i := @FI()", "i.M()"}, {"var i @I = @Sv", "i.N(2)"}, {"var i interface{ M() } = @Iv", "i.M()"}, {"e := @Any", "e.(@I).M()"},
	{"", "@S{}.M()"}, {"", "(&@S{}).PM()"}, {"", "@Iv.Undefined()"}, {"", "@C()"},
}
var calleesGoPkg = [][2]string{{"", "p.F()"}, {"", "(p.F)()"}, {"pf := p.F", "pf()"}, {"", "p.Undefined()"}, {"", "p.F"}}
var calleesNamedImport = [][2]string{{"", "q.MM()"}, {"", "(q.MM)()"}, {"qm := q.MM", "qm()"}, {"", "q.Undefined()"}, {"", "q.MM"}, {"", "q.MV()"}}

func calleeForms(syn byte) []form {
	var cs [][2]string
	cs = append(cs, calleesCommon...)
	for _, c := range calleesNative {
		cs = append(cs, [2]string{strings.ReplaceAll(c[0], "@", ""), strings.ReplaceAll(c[1], "@", "")})
		if syn == 'g' {
			cs = append(cs, [2]string{strings.ReplaceAll(c[0], "@", "nat."), strings.ReplaceAll(c[1], "@", "nat.")})
		}
	}
	cs = append(cs, calleesNamedImport...)
	if syn == 'g' {
		cs = append(cs, calleesGoPkg...)
	}
	var out []form
	for _, c := range cs {
		setup, call := c[0], c[1]
		if syn == 't' {
			pre := ""
			if setup != "" {
				pre = "{% " + setup + " %}"
			}
			out = append(out, tf("callee", "defer "+call, pre+"{% defer "+call+" %}"), tf("callee", "go "+call, pre+"{% go "+call+" %}"),
				tf("callee", "call "+call, pre+"{% "+call+" %}"), tf("callee", "show "+call, pre+"{{ "+call+" }}"),
				tf("callee", "defer-in-macro "+call, pre+"{% macro A %}{% defer "+call+" %}{% end macro %}{{ A() }}"),
				tf("callee", "defer-in-for "+call, pre+"{% for i := 0; i < 2; i++ %}{% defer "+call+" %}{% end %}"),
				tf("callee", "call-in-macro-unnamed-param "+call, pre+"{% macro A(int) %}{% "+call+" %}{% end macro %}{{ A(1) }}"))
			continue
		}
		pre := ""
		if setup != "" {
			pre = setup + "\n"
		}
		out = append(out, gf("callee", "defer "+call, pre+"defer "+call), gf("callee", "go "+call, pre+"go "+call), gf("callee", "call "+call, pre+call),
			gf("callee", "assign "+call, pre+"_ = "+call), gf("callee", "defer-in-funclit "+call, pre+"func() { defer "+call+" }()"),
			gf("callee", "defer-in-for "+call, pre+"for i := 0; i < 2; i++ { defer "+call+" }"), gf("callee", "go-in-funclit "+call, pre+"func() { go "+call+" }()"),
			gf("callee", "call-in-funclit-unnamed-param "+call, pre+"func(int) { "+call+" }(1)"))
	}
	return out
}

// typed nil conversions of every type form, as argument of every kind of call
func nilConvForms() []form {
	var out []form
	for _, t := range typeExprs {
		c := "(" + t + ")(nil)"
		out = append(out, gf("nilconv", "param "+t, "func(a "+t+") {}("+c+")"), gf("nilconv", "variadic "+t, "func(a ..."+t+") {}("+c+")"),
			gf("nilconv", "variadic2 "+t, "func(a ..."+t+") {}("+c+", "+c+")"), gf("nilconv", "variadic-any "+t, "func(a ...interface{}) {}("+c+")"),
			gf("nilconv", "variadic-after "+t, "func(i int, a ..."+t+") {}(1, "+c+")"), gf("nilconv", "append "+t, "_ = append([]"+t+"{}, "+c+")"),
			gf("nilconv", "println "+t, "println("+c+")"), gf("nilconv", "assign "+t, "_ = "+c), gf("nilconv", "var "+t, "var v "+t+" = "+c+"; _ = v"),
			gf("nilconv", "compare "+t, "_ = "+c+" == nil"), gf("nilconv", "defer "+t, "defer func(a ..."+t+") {}("+c+")"),
			gf("nilconv", "return "+t, "_ = func() "+t+" { return "+c+" }()"), gf("nilconv", "native-variadic "+t, "nat.FV("+c+")"),
			gf("nilconv", "global-variadic "+t, "FV("+c+")"), gf("nilconv", "spread "+t, "func(a ..."+t+") {}([]"+t+"{"+c+"}...)"))
	}
	return out
}

// Position-constrained statements: statements that must be the first of the file, unique, at the top level or after an
// opener — each preceded and followed by every kind of insignificant or nearly insignificant node. They go to the roles
// in which the subject is the beginning of a file (and the files they refer to exist and parse, so that the build gets as
// far as the type checker and the emitter).
var insignificant = []string{
	"{%% %%}", "{%%%%}", "{%% \n %%}", "{%% // c\n %%}", "{%% /* c */ %%}", "{%% ; %%}", "{%% ;;\n; %%}", "{%% {} %%}", "{%% var _ = 0 %%}",
	"{# #}", "{##}", "{# {% extends \"layout.html\" %} #}", " ", "\n", "\t\r\n ", "\ufeff", "{% raw %}{% end raw %}", "{% raw %}{% end %}", "{% raw %} {% end raw %}",
	"{{ }}", "{% %}", "{% /* c */ %}", "{% // c\n %}", "{% ; %}", "{{ \"\" }}", "{% show \"\" %}", "<!-- c -->", "x", "{% if false %}{% end %}", "{% _ = 0 %}",
	"{%% %%}{%% %%}", "{%% %%}{# #}", "{# #}{%% %%}", " {%% %%} ", "\n{%%\n%%}\n",
}

// {name, the constrained statement, what follows it}
var constrained = [][3]string{
	{"extends", "{% extends \"layout.html\" %}", "{% macro M %}x{% end %}"},
	{"extends-in-statements", "{%% extends \"layout.html\" %%}", "{% macro M %}x{% end %}"},
	{"extends-then-statements", "{% extends \"layout.html\" %}", "{%% var V = 1 %%}{% macro M %}{{ V }}{% end %}"},
	{"extends-alone", "{% extends \"layout.html\" %}", ""},
	{"extends-twice", "{% extends \"layout.html\" %}", "{% extends \"layout.html\" %}{% macro M %}x{% end %}"},
	{"extends-import", "{% extends \"layout.html\" %}", "{% import \"m.html\" %}{% macro M %}{{ MM() }}{% end %}"},
	{"import", "{% import \"m.html\" %}", "{{ MM() }}"},
	{"import-in-statements", "{%% import \"m.html\" %%}", "{{ MM() }}"},
	{"import-twice", "{% import \"m.html\" %}", "{% import n \"n.html\" %}{{ MM() }}{{ n.NN() }}"},
	{"import-for", "{% import \"m.html\" for MM %}", "{{ MM() }}"},
	{"macro", "{% macro A %}a{% end macro %}", "{{ A() }}"},
	{"var", "{% var V = 1 %}", "{{ V }}"},
	{"end", "{% end %}", ""},
	{"else", "{% else %}", "{% end %}"},
	{"case", "{% switch 1 %}", "{% case 1 %}x{% end %}"},
	{"using", "{% show itea; using %}", "u{% end using %}"},
	{"raw", "{% raw %}", "r{% end raw %}"},
}

func positionForms() []form {
	var out []form
	for _, c := range constrained {
		out = append(out, tf("position", c[0], c[1]+c[2]))
		for _, i := range insignificant {
			out = append(out,
				tf("position", c[0]+" after "+i, i+c[1]+c[2]),
				tf("position", c[0]+" before "+i, c[1]+i+c[2]),
				tf("position", c[0]+" between "+i, i+c[1]+i+c[2]),
				tf("position", c[0]+" after twice "+i, i+i+c[1]+c[2]),
				tf("position", c[0]+" at end "+i, c[1]+c[2]+i))
		}
	}
	return out
}

// Scale: whole programs and templates with n distinct things of a kind, n around the 127/128 and 255/256 boundaries of
// the 8-bit operands of the instruction set.
var scaleSizes = []int{126, 127, 128, 129, 130, 200, 254, 255, 256, 257}

func rep(n int, f func(i int) string) string {
	var sb strings.Builder
	for i := 0; i < n; i++ {
		sb.WriteString(f(i))
	}
	return sb.String()
}

func scaleForms() (decl, tmpl []form) {
	for _, n := range scaleSizes {
		id := func(p string) func(int) string { return func(i int) string { return fmt.Sprintf(p, i) } }
		prog := func(name, decls, body string) {
			decl = append(decl, df("scale", fmt.Sprintf("%s-%d", name, n), "package main\n"+decls+"func main() {\n"+body+"}\n"))
		}
		prog("functions", rep(n, id("func f%d() {}\n")), rep(n, id("f%d()\n")))
		prog("functions-with-results", rep(n, id("func f%d() int { return 1 }\n")), "s := 0\n"+rep(n, id("s += f%d()\n"))+"_ = s\n")
		prog("function-values", rep(n, id("func f%d() {}\n")), rep(n, id("g%[1]d := f%[1]d; g%[1]d()\n")))
		prog("deferred-functions", rep(n, id("func f%d() {}\n")), rep(n, id("defer f%d()\n")))
		prog("function-literals", "", rep(n, id("func() { _ = %d }()\n")))
		prog("global-variables", rep(n, id("var v%d = 1\n")), rep(n, id("v%d++\n")))
		prog("global-strings", rep(n, id("var v%[1]d = \"s%[1]d\"\n")), rep(n, id("_ = v%d\n")))
		prog("string-constants", "", "s := \"\"\n"+rep(n, id("s += \"c%d\"\n"))+"_ = s\n")
		prog("int-constants", "", "s := 0\n"+rep(n, id("s += 1000%d\n"))+"_ = s\n")
		prog("float-constants", "", "s := 0.0\n"+rep(n, id("s += 1.5%d\n"))+"_ = s\n")
		prog("int-locals", "", rep(n, id("a%[1]d := %[1]d\n"))+"println("+rep(n, id("a%d, "))+")\n")
		prog("string-locals", "", rep(n, id("a%[1]d := \"%[1]d\"\n"))+"println("+rep(n, id("a%d, "))+")\n")
		prog("interface-locals", "", rep(n, id("var a%[1]d interface{} = %[1]d\n"))+"println("+rep(n, id("a%d, "))+")\n")
		prog("float-locals", "", rep(n, id("a%[1]d := %[1]d.5\n"))+"println("+rep(n, id("a%d, "))+")\n")
		prog("parameters", "func f("+rep(n, id("a%d int, "))+") int { return a0 }\n", "_ = f("+rep(n, id("%d, "))+")\n")
		prog("results", "func f() ("+rep(n, id("a%d int, "))+") { return }\n", rep(n-1, id("a%d, "))+"b := f()\n_ = b\n"+rep(n-1, id("_ = a%d\n")))
		prog("variadic-arguments", "func f(a ...int) int { return len(a) }\n", "_ = f("+rep(n, id("%d, "))+")\n")
		prog("struct-fields", "type T struct {\n"+rep(n, id("F%d int\n"))+"}\n", "var t T\n"+rep(n, id("t.F%[1]d = %[1]d\n"))+"_ = t\n")
		prog("types", rep(n, id("type T%d int\n")), rep(n, id("_ = T%[1]d(%[1]d)\n")))
		prog("switch-cases", "", "switch x := 5; x {\n"+rep(n, id("case %d:\n"))+"}\n")
		prog("if-chain", "", "x := 5\nif x == -1 {\n"+rep(n, id("} else if x == %d {\n"))+"}\n")
		prog("nested-blocks", "", rep(n, id("{ // %d\n"))+"println()\n"+rep(n, id("} // %d\n")))
		prog("nested-parentheses", "", "_ = "+rep(n, id("( /*%d*/"))+"1"+rep(n, id(") /*%d*/"))+"\n")
		prog("nested-calls", "func f(i int) int { return i }\n", "_ = "+rep(n, id("f( /*%d*/"))+"1"+rep(n, id(") /*%d*/"))+"\n")
		prog("binary-chain", "", "x := 1\n_ = x"+rep(n, id(" + x /*%d*/"))+"\n")
		prog("composite-elements", "", "_ = []int{"+rep(n, id("%d, "))+"}\n_ = map[int]string{"+rep(n, id("%[1]d: \"%[1]d\", "))+"}\n")
		prog("labels", "", rep(n, id("L%d:\nfor {\nbreak\n}\n")))
		prog("closures", "", rep(n, id("a%[1]d := %[1]d\n"))+"f := func() int { return 0"+rep(n, id(" + a%d"))+" }\n_ = f()\n")
		prog("select-cases", "", "ch := make(chan int, 1)\nselect {\n"+rep(n, id("case <-ch: // %d\n"))+"default:\n}\n")
		tm := func(name, src string) { tmpl = append(tmpl, tf("scale", fmt.Sprintf("%s-%d", name, n), src)) }
		tm("macros", rep(n, id("{%% macro A%[1]d %%}%[1]d{%% end %%}"))+rep(n, id("{{ A%d() }}")))
		tm("macros-with-parameters", rep(n, id("{%% macro A%[1]d(i int) %%}{{ i }}{%% end %%}"))+rep(n, id("{{ A%[1]d(%[1]d) }}")))
		tm("variables", rep(n, id("{%% var v%[1]d = %[1]d %%}"))+rep(n, id("{{ v%d }}")))
		tm("texts", rep(n, id("t%d{{ 1 }}")))
		tm("shows", "{% var s = \"a\" %}"+rep(n, id("{{ s }}<a href=\"{{ s }}%d\">")))
		tm("renders", rep(n, id("{{ render \"p.html\" }}<!-- %d -->")))
		tm("if-chain", "{% var x = 5 %}{% if x == -1 %}"+rep(n, id("{%% else if x == %[1]d %%}%[1]d"))+"{% end %}")
		tm("nested-ifs", rep(n, id("{%% if true %%}<!-- %d -->"))+"x"+rep(n, id("{%% end %%}<!-- %d -->")))
		tm("usings", rep(n, id("{%% var u%[1]d = itea; using %%}%[1]d{%% end using %%}"))+rep(n, id("{{ u%d }}")))
		tm("extending-macros", "{% extends \"layout.html\" %}{% macro M %}"+rep(n, id("{{ A%d() }}"))+"{% end %}"+rep(n, id("{%% macro A%[1]d %%}%[1]d{%% end %%}")))
		tm("imported-macros", "{% import \"m.html\" %}"+rep(n, id("{{ MM() }}<!-- %d -->")))
	}
	return decl, tmpl
}

func goForms() []form {
	f := []form{
		gf("var", "var", "var v = 1; _ = v"),
		gf("var", "var-multi", "var v, w = 1, 2; _, _ = v, w"),
		gf("var", "var-typed", "var v int = 1; _ = v"),
		gf("var", "var-typed-noinit", "var v int; _ = v"),
		gf("var", "var-unused", "var v int"),
		gf("var", "var-func", "var f = func() int { return 1 }; _ = f"),
		gf("const", "const", "const c = 5"),
		gf("const", "const-multi", "const c, d = 5, 6"),
		gf("const", "const-typed", "const c int = 5"),
		gf("const", "const-iota", "const c = iota"),
		gf("group", "var-group", "var ( v = 1; w = 2 ); _, _ = v, w"),
		gf("group", "const-group", "const ( c = iota; d; e )"),
		gf("group", "var-group-empty", "var ()"),
		gf("type", "type", "type T int"),
		gf("type", "type-alias", "type T = int"),
		gf("type", "type-struct", "type T struct { A int; B []T }"),
		gf("type", "type-group", "type ( T int; U = string )"),
		gf("type", "type-interface", "type T interface { F() }"),
		gf("type", "type-generic", "type T[K any] []K"),
		gf("type", "type-recursive", "type T T"),
		gf("short", "short", "v := 1; _ = v"),
		gf("short", "short-unused", "v := 1"),
		gf("short", "short-multi", "v, w := 1, 2; _, _ = v, w"),
		gf("short", "short-assert", "v, ok := x.(int); _, _ = v, ok"),
		gf("short", "short-recv", "v, ok := <-ch; _, _ = v, ok"),
		gf("short", "short-redecl", "n, v := 1, 2; _ = v"),
		gf("assign", "incr", "n++"),
		gf("assign", "decr", "n--"),
		gf("assign", "assign-index", "s[0] = 1"),
		gf("assign", "assign-blank", "_ = n"),
		gf("assign", "assign-multi", "n, str = 1, \"a\""),
		gf("assign", "assign-deref", "*(&n) = 1"),
		gf("send", "send", "ch <- 1"),
		gf("send", "recv", "<-ch"),
		gf("expr", "call", "M()"),
		gf("expr", "call-arg", "P(1)"),
		gf("expr", "call-builtin", "len(s)"),
		gf("expr", "expr-unused", "n + 1"),
		gf("expr", "println", "println(n, str)"),
		gf("if", "if", "if a {", "}"),
		gf("if", "if-else", "if a {", "} else {", "}"),
		gf("if", "if-else-if-else", "if a {", "} else if b {", "} else if a && b {", "} else {", "}"),
		gf("if", "if-init", "if v := n; v > 1 {", "} else if w := v; w > 2 {", "}"),
		gf("if", "if-non-bool", "if n {", "}"),
		gf("if", "if-composite", "if (T{}) == (T{}) {", "}"),
		gf("for", "for", "for {", "break }"),
		gf("for", "for-cond", "for a {", "break }"),
		gf("for", "for-clause", "for i := 0; i < 2; i++ {", "}"),
		gf("for", "for-clause-empty", "for ;; {", "break }"),
		gf("for", "for-range", "for i, v := range s { _, _ = i, v", "}"),
		gf("for", "for-range-key", "for i := range s { _ = i", "}"),
		gf("for", "for-range-none", "for range s {", "}"),
		gf("for", "for-range-int", "for i := range 3 { _ = i", "}"),
		gf("for", "for-range-assign", "for n, str = range str {", "}"),
		gf("for", "for-range-assign-index", "for s[0] = range s {", "}"),
		gf("for", "for-range-assign-blank-index", "for _, s[1] = range s {", "}"),
		gf("for", "for-range-assign-deref", "for *(&n) = range s {", "}"),
		gf("for", "for-range-assign-parens", "for (n) = range s {", "}"),
		gf("for", "for-range-assign-map-index", "for map[int]int{}[0] = range s {", "}"),
		gf("for", "for-range-assign-field", "for n, struct{ F int }{}.F = range s {", "}"),
		gf("for", "for-range-assign-call", "for len(s) = range s {", "}"),
		gf("for", "for-range-assign-literal", "for 1 = range s {", "}"),
		gf("for", "for-range-chan", "for v := range ch { _ = v", "break }"),
		gf("for", "for-range-func", "for v := range func(yield func(int) bool) {} { _ = v", "}"),
		gf("for", "for-in", "for v in s { _ = v", "}"),
		gf("for", "for-break-continue", "for _, v := range s { if v > 1 { break } else { continue }", "}"),
		gf("switch", "switch", "switch {", "case a:", "default:", "}"),
		gf("switch", "switch-tag", "switch n {", "case 1:", "case 2, 3:", "default:", "}"),
		gf("switch", "switch-init", "switch y := n; y {", "case 1:", "}"),
		gf("switch", "switch-init-only", "switch y := n; {", "case y > 1:", "}"),
		gf("switch", "switch-empty", "switch n {", "}"),
		gf("switch", "switch-default-first", "switch n {", "default:", "case 1:", "}"),
		gf("switch", "switch-fallthrough", "switch n {", "case 1:", "fallthrough\ncase 2:", "}"),
		gf("switch", "switch-dup-case", "switch n {", "case 1:", "case 1:", "}"),
		gf("typeswitch", "typeswitch", "switch x.(type) {", "case int:", "default:", "}"),
		gf("typeswitch", "typeswitch-bind", "switch v := x.(type) {", "case int, string: _ = v", "case nil:", "default:", "}"),
		gf("typeswitch", "typeswitch-init", "switch y := x; v := y.(type) {", "case []int: _ = v", "}"),
		gf("typeswitch", "typeswitch-unused", "switch v := x.(type) {", "case int:", "}"),
		gf("select", "select", "select {", "case <-ch:", "case v := <-ch: _ = v", "default:", "}"),
		gf("select", "select-send", "select {", "case ch <- 1:", "case v, ok := <-ch: _, _ = v, ok", "}"),
		gf("select", "select-empty", "select {", "}"),
		gf("select", "select-assign", "select {", "case n = <-ch:", "default:", "}"),
		gf("block", "block", "{", "}"),
		gf("block", "block-decl", "{ v := 1; _ = v", "}"),
		gf("return", "return", "return"),
		gf("return", "return-value", "return 1"),
		gf("return", "return-multi", "return 1, nil"),
		gf("branch", "break", "break"),
		gf("branch", "continue", "continue"),
		gf("branch", "fallthrough", "fallthrough"),
		gf("branch", "goto", "goto L"),
		gf("branch", "break-label", "break L"),
		gf("branch", "continue-label", "continue L"),
		gf("label", "label-for", "L: for range s {", "break L }"),
		gf("label", "label-for-clause", "L: for i := 0; i < 2; i++ {", "break L }"),
		gf("label", "label-for-cond", "L: for a {", "for b { break L } }"),
		gf("label", "label-for-continue", "L: for i := 0; i < 2; i++ {", "for b { continue L } }"),
		gf("label", "label-for-in", "L: for v in s { _ = v", "break L }"),
		gf("label", "label-twice", "L: for { break }; L: for {", "break }"),
		gf("label", "label-switch", "L: switch n {", "case 1:", "break L }"),
		gf("label", "label-select", "L: select {", "default:", "break L }"),
		gf("label", "label-block", "L: {", "}"),
		gf("label", "label-alone", "L:"),
		gf("label", "label-goto", "L: n++; if n < 9 { goto L }"),
		gf("label", "label-unused", "L: n++"),
		gf("defer", "defer-call", "defer M()"),
		gf("defer", "defer-func", "defer func() { n = 1 }()"),
		gf("defer", "defer-recover", "defer recover()"),
		gf("defer", "defer-recover-func", "defer func() { _ = recover() }()"),
		gf("defer", "defer-builtin", "defer len(s)"),
		gf("defer", "defer-non-call", "defer n"),
		gf("go", "go-call", "go M()"),
		gf("go", "go-func", "go func() { ch <- 1 }()"),
		gf("go", "go-non-call", "go n"),
		gf("funclit", "funclit", "f := func(i int) int { return i }; _ = f"),
		gf("funclit", "funclit-call", "func() { n = 1 }()"),
		gf("funclit", "funclit-body", "f := func() {", "}; f()"),
		gf("funclit", "funclit-closure", "f := func() func() int { return func() int { return n } }; _ = f()()"),
		gf("funclit", "funclit-variadic", "f := func(i ...int) (r int, err error) { return }; _ = f"),
		gf("funclit", "func-decl", "func F() {", "}"),
		gf("funclit", "method-decl", "func (t T) F() {", "}"),
		gf("using", "using-show", "show itea; using"),
		gf("using", "using-short", "v := itea; using"),
		gf("template", "show", "show n"),
		gf("template", "show-multi", "show n, str"),
		gf("template", "show-render", "show render \"p.html\""),
		gf("template", "render-expr", "v := render \"p.html\"; _ = v"),
		gf("template", "macro", "macro A {", "}"),
		gf("template", "macro-end", "macro A", "end macro"),
		gf("template", "extends", "extends \"layout.html\""),
		gf("template", "import-for", "import \"m.html\" for MM"),
		gf("template", "import", "import \"m.html\""),
		gf("template", "import-group", "import ( \"m.html\"; k \"n.html\" )"),
		gf("template", "raw", "raw", "end raw"),
		gf("template", "end", "end"),
		gf("template", "else", "else"),
		gf("template", "default-expr", "_ = Undef() default 1"),
		gf("template", "contains", "_ = s contains 1 and not a or b"),
		gf("comment", "comment-line", "n = 1 // c"),
		gf("comment", "comment-block", "/* c */ n = 1 /* d\n */"),
		gf("misc", "package", "package main"),
		gf("misc", "empty", ""),
		gf("misc", "semicolon", ";"),
		gf("misc", "case-alone", "case 1:"),
		gf("misc", "default-alone", "default:"),
		gf("misc", "else-alone", "else {", "}"),
		gf("misc", "right-brace", "}"),
		gf("misc", "template-delims", "{% if a %}", "{% end %}"),
		gf("misc", "show-delims", "{{ n }}"),
	}
	for _, op := range assignOps {
		f = append(f, gf("assign", "assign"+op, "n "+op+" 2"))
	}
	for _, t := range typeExprs {
		f = append(f, gf("typeexpr", "var "+t, "var v "+t+"; _ = v"), gf("typeexpr", "literal "+t, "_ = "+t+"{}"), gf("typeexpr", "convert "+t, "_ = ("+t+")(n)"),
			gf("typeexpr", "assert "+t, "_, _ = x.("+t+")"), gf("typeexpr", "new "+t, "_ = new("+t+")"), gf("typeexpr", "make "+t, "_ = make("+t+", 1)"),
			gf("typeexpr", "func-param "+t, "_ = func(p "+t+") ("+t+") { return p }"), gf("typeexpr", "type "+t, "type U "+t),
			gf("typeexpr", "case "+t, "switch x.(type) {\ncase "+t+":\n}"))
	}
	f = append(f, calleeForms('g')...)
	f = append(f, nilConvForms()...)
	for _, e := range exprs {
		f = append(f, gf("exprs", "assign "+e, "_ = "+e), gf("exprs", "short "+e, "v := "+e+"; _ = v"), gf("exprs", "if "+e, "if "+e+" {\n}"),
			gf("exprs", "arg "+e, "_ = P("+e+")"), gf("exprs", "index "+e, "_ = s["+e+"]"), gf("exprs", "stmt "+e, e), gf("exprs", "const "+e, "const c = "+e),
			gf("exprs", "case "+e, "switch n {\ncase "+e+":\n}"), gf("exprs", "range "+e, "for range "+e+" {\n}"), gf("exprs", "return "+e, "return "+e),
			gf("exprs", "defer "+e, "defer "+e), gf("exprs", "send "+e, "ch <- "+e))
	}
	return f
}

func declForms() []form {
	f := declFormsBase()
	for _, t := range typeExprs {
		f = append(f, df("typeexpr", "var "+t, "var v "+t), df("typeexpr", "type "+t, "type U "+t), df("typeexpr", "alias "+t, "type U = "+t),
			df("typeexpr", "param "+t, "func g(p "+t+") ("+t+") { return p }"), df("typeexpr", "receiver "+t, "func (r "+t+") g() {}"),
			df("typeexpr", "field "+t, "type U struct { f "+t+" }"), df("typeexpr", "var-literal "+t, "var v = "+t+"{}"))
	}
	f = append(f, importSets()...)
	scaleD, _ := scaleForms()
	f = append(f, scaleD...)
	for _, t := range typeExprs {
		f = append(f, df("nilconv", "var-variadic "+t, "var v = func(a ..."+t+") int { return 0 }(("+t+")(nil))"))
	}
	for _, e := range exprs {
		f = append(f, df("exprs", "var "+e, "var v = "+e), df("exprs", "const "+e, "const c = "+e), df("exprs", "typed-var "+e, "var v int = "+e),
			df("exprs", "array-len "+e, "var v ["+e+"]int"))
	}
	return f
}

func declFormsBase() []form {
	return []form{
		df("var", "var", "var v = 1"),
		df("var", "var-multi", "var v, w = 1, 2"),
		df("var", "var-typed", "var v int = 1"),
		df("var", "var-typed-noinit", "var v, w string"),
		df("var", "var-func", "var f = func() int { return n }"),
		df("var", "var-call", "var v = P(1)"),
		df("var", "var-blank", "var _ = n"),
		df("var", "var-cycle", "var v = w\nvar w = v"),
		df("var", "var-forward", "var v = w\nvar w = 1"),
		df("var", "var-func-cycle", "var v = g()\nfunc g() int { return v }"),
		df("const", "const", "const c = 5"),
		df("const", "const-multi", "const c, d = 5, 6"),
		df("const", "const-typed", "const c int = 5"),
		df("const", "const-iota", "const c = iota"),
		df("const", "const-cycle", "const c = d\nconst d = c"),
		df("group", "var-group", "var (\n v = 1\n w, z = 2, 3\n)"),
		df("group", "var-group-typed", "var (\n v int\n w, z string = \"a\", \"b\"\n)"),
		df("group", "var-group-empty", "var ()"),
		df("group", "const-group", "const (\n c = iota\n d\n e\n)"),
		df("group", "const-group-typed", "const (\n c int = 1 << iota\n d\n)"),
		df("group", "const-group-empty", "const ()"),
		df("group", "const-group-first-implicit", "const (\n c\n)"),
		df("group", "type-group", "type (\n T int\n U = string\n)"),
		df("group", "type-group-empty", "type ()"),
		df("group", "import-group", "import (\n \"fmt\"\n k \"m/p\"\n)"),
		df("group", "import-group-empty", "import ()"),
		df("type", "type", "type T int"),
		df("type", "type-alias", "type T = int"),
		df("type", "type-struct", "type T struct { A int; B []T; c *T }"),
		df("type", "type-struct-embedded", "type T struct { U; *V }\ntype U struct{}\ntype V int"),
		df("type", "type-struct-tag", "type T struct { A int `json:\"a\"` }"),
		df("type", "type-interface", "type T interface { F(); G(int) string }"),
		df("type", "type-interface-embedded", "type T interface { error; U }\ntype U interface{ F() }"),
		df("type", "type-func", "type T func(int, ...string) (int, error)"),
		df("type", "type-map-chan", "type T map[string]chan<- []*int"),
		df("type", "type-array", "type T [3]int"),
		df("type", "type-array-dots", "type T [...]int"),
		df("type", "type-generic", "type T[K any] []K"),
		df("type", "type-recursive", "type T T"),
		df("type", "type-recursive-struct", "type T struct { t T }"),
		df("type", "type-mutual", "type T []U\ntype U []T"),
		df("type", "type-alias-cycle", "type T = U\ntype U = T"),
		df("type", "type-redeclared", "type T int\ntype T string"),
		df("func", "func", "func F() {", "}"),
		df("func", "func-params", "func F(i, j int, k ...string) (r int, err error) {", "return }"),
		df("func", "func-result", "func F() int {", "return 1 }"),
		df("func", "func-no-body", "func F()"),
		df("func", "func-generic", "func F[K any](k K) {", "}"),
		df("func", "func-unnamed-params", "func F(int, string) {", "}"),
		df("func", "func-blank", "func _() {", "}"),
		df("func", "func-redeclared", "func M() {", "}"),
		df("func", "func-recursive", "func F(i int) int { if i == 0 { return 0 }", "return F(i - 1) }"),
		df("func", "func-missing-return", "func F() int {", "}"),
		df("method", "method", "type T int\nfunc (t T) F() {", "}"),
		df("method", "method-pointer", "type T struct{}\nfunc (t *T) F() {", "}"),
		df("method", "method-no-type", "func (t U) F() {", "}"),
		df("method", "method-builtin", "func (i int) F() {", "}"),
		df("method", "method-no-receiver-name", "type T int\nfunc (T) F() {", "}"),
		df("method", "method-two-receivers", "type T int\nfunc (t, u T) F() {", "}"),
		df("method", "method-empty-receiver", "func () F() {", "}"),
		df("init", "init", "func init() {", "}"),
		df("init", "init-twice", "func init() {", "}\nfunc init() {", "}"),
		df("init", "init-params", "func init(i int) {", "}"),
		df("init", "init-result", "func init() int {", "return 1 }"),
		df("init", "init-called", "func init() {", "}\nfunc g() { init() }"),
		df("init", "init-var", "var init = 1"),
		df("init", "main-twice", "func main() {", "}"),
		df("init", "main-params", "func main(i int) {", "}"),
		df("init", "main-var", "var main = 1"),
		df("import", "import", "import \"fmt\""),
		df("import", "import-named", "import k \"m/p\""),
		df("import", "import-dot", "import . \"m/p\""),
		df("import", "import-blank", "import _ \"m/p\""),
		df("import", "import-missing", "import \"m/nopkg\""),
		df("import", "import-self", "import \"m\""),
		df("import", "import-main", "import \"main\""),
		df("import", "import-twice", "import \"m/p\"\nimport \"m/p\""),
		df("import", "import-for", "import \"m/p\" for F"),
		df("import", "import-late", "var late = 1\nimport \"m/p\""),
		df("import", "import-empty-path", "import \"\""),
		df("import", "import-cycle", "import \"m/cyc\""),
		df("misc", "package-twice", "package main"),
		df("misc", "statement", "n = 1"),
		df("misc", "short", "v := 1"),
		df("misc", "if", "if a {", "}"),
		df("misc", "for", "for {", "}"),
		df("misc", "block", "{", "}"),
		df("misc", "label", "L:"),
		df("misc", "return", "return"),
		df("misc", "show", "show n"),
		df("misc", "macro", "macro A", "end macro"),
		df("misc", "extends", "extends \"layout.html\""),
		df("misc", "using", "var v = itea; using"),
		df("misc", "template-delims", "{% var v = 1 %}"),
		df("misc", "comment", "// c\n/* d */"),
		df("misc", "semicolon", ";"),
		df("misc", "empty", ""),
	}
}

// ---- rendering of a form with bodies ----

// switchHead matches the header of a switch, type switch or select: nothing but blanks may stand between it and the
// first clause, so the body slot after it stays empty (the modifier body-before-first-clause fills it).
var switchHead = regexp.MustCompile(`^(\{%%?\s*)?(\w+:\s*)*(switch|select)\b`)

func joinPieces(pieces []string, body string, syn byte) string {
	var sb strings.Builder
	for i, p := range pieces {
		sb.WriteString(p)
		if i+1 == len(pieces) {
			break
		}
		b := body
		if i == 0 && switchHead.MatchString(p) {
			b = ""
		}
		if syn == 't' {
			sb.WriteString(b)
		} else {
			sb.WriteString("\n" + b + "\n")
		}
	}
	return sb.String()
}

// joinAll is joinPieces without the exception for switch headers.
func joinAll(pieces []string, body string, syn byte) string {
	if syn == 't' {
		return strings.Join(pieces, body)
	}
	return strings.Join(pieces, "\n"+body+"\n")
}

func fillerOf(syn byte) string {
	if syn == 't' {
		return "x"
	}
	return "n = 1"
}

// closing delimiter of a template piece (`%}`, `}}` or `%%}`), if it ends with one
func closeOf(p string) string {
	for _, d := range []string{"%%}", "%}", "}}"} {
		if strings.HasSuffix(p, d) {
			return d
		}
	}
	return ""
}

// insertAtEnd puts ins at the end of the code of a piece: before the closing delimiter of a template piece; before the
// `{` or `:` that ends a Go piece, or at its end.
func insertAtEnd(p, ins string, syn byte) (string, bool) {
	if syn == 't' {
		d := closeOf(p)
		if d == "" {
			return p, false
		}
		body := strings.TrimRight(p[:len(p)-len(d)], " ")
		return body + ins + " " + d, true
	}
	t := strings.TrimRight(p, " ")
	if strings.HasSuffix(t, "{") || strings.HasSuffix(t, ":") {
		return t[:len(t)-1] + ins + " " + t[len(t)-1:], true
	}
	return p + ins, true
}

var usingVariants = []string{
	"; using", "; using html", "; using macro", "; using macro(i int)", "; using macro() string", "; using macro(i) js",
	";using;", "; using using", "; using macro(", "; using markdown", "; using int", "; using;using", ";", "; usin", "using",
}

var trailingTokens = []string{
	" x", " ;", " }", " {", " )", " (", ",", " :=", " =", " %", " using", " else", " end", ";;", " :", " ...", " .", " []", " *",
	" <-", " 1", " \"q\"", " //", " /*", " `", " in s", " range", " macro", " default 1", " case", " \n", " if", " for", " func",
}

// subject is a source with its labels, before a role makes a build case of it.
type subject struct {
	src       string
	form, mod string
	cat       string
	level     int // 0: every role; 1: the core roles and one more role in turn; 2: one role in turn; 3: one role in turn (thorough: the core roles and one more)
}

// modify gives the form with each modifier. all (thorough tier) adds the variants that the quick tier leaves out.
func modify(f form, all bool) []subject {
	var out []subject
	add := func(mod string, level int, src string) {
		out = append(out, subject{src: src, form: f.name, mod: mod, cat: f.cat, level: level})
	}
	fill := fillerOf(f.syn)
	join := func(p []string) string { return joinPieces(p, fill, f.syn) }
	with := func(i int, p string) []string {
		q := append([]string(nil), f.pieces...)
		q[i] = p
		return q
	}
	endUsing := "{% end using %}"
	if f.syn != 't' {
		endUsing = "end using"
	}
	if f.cat == "imports" || f.cat == "callee" || f.cat == "position" || f.cat == "scale" { // in the roles made for them (see place)
		add("plain", 4, join(f.pieces))
		return out
	}
	if f.cat == "typeexpr" || f.cat == "exprs" || f.cat == "nilconv" { // many forms: unmodified in the core roles, cut short in one role in turn
		add("plain", 3, join(f.pieces))
		toks := Tokens([]byte(f.pieces[0]))
		depth := 0 // quick: the lists hold cut-off type expressions and expressions of their own
		if all {
			depth = 6
		}
		for k := len(toks) - 1; k >= 1 && k >= len(toks)-depth; k-- {
			if t := toks[k-1]; len(t) > 0 && t[0] != ' ' && t[0] != '\n' {
				add("truncated", 2, string(bytesJoin(toks[:k])))
			}
		}
		return out
	}
	add("plain", 0, join(f.pieces))
	// `; using` at the end of every piece
	for i := range f.pieces {
		for k, u := range usingVariants {
			if i > 0 && k >= 3 && !all {
				break
			}
			p, ok := insertAtEnd(f.pieces[i], u, f.syn)
			if !ok {
				continue
			}
			level := 2
			if i == 0 && (k == 0 || k == 2) {
				level = 1
			}
			q := with(i, p)
			mod := "using"
			if i > 0 {
				mod = "using-on-clause"
			}
			// the using body and its end directly after the piece, then the rest of the form
			r := append(append(append([]string(nil), q[:i+1]...), endUsing), q[i+1:]...)
			add(mod, level, join(r))
			if k < 3 || all {
				if k > 0 {
					level = 2
				}
				add(mod+"-unclosed", level, join(q))                        // the end of the form closes the using body (or nothing does)
				add(mod+"-at-eof", level, joinPieces(q[:i+1], fill, f.syn)) // … as the last thing of the file
			}
		}
	}
	// trailing tokens
	for i := range f.pieces {
		for k, t := range trailingTokens {
			if !all && (i == 0 && k >= 12 || i > 0 && k >= 4) {
				break
			}
			if p, ok := insertAtEnd(f.pieces[i], t, f.syn); ok {
				add("trailing-token", 2, join(with(i, p)))
			}
		}
	}
	if len(f.pieces) > 1 {
		add("empty-body", 1, joinPieces(f.pieces, "", f.syn))
		if switchHead.MatchString(f.pieces[0]) {
			add("body-before-first-clause", 1, joinAll(f.pieces, fill, f.syn))
			if f.syn == 't' {
				add("body-before-first-clause", 1, joinAll(f.pieces, " \n", f.syn))
				add("body-before-first-clause", 1, joinAll(f.pieces, "{# c #}", f.syn))
				add("body-before-first-clause", 1, joinAll(f.pieces, "{{ n }}", f.syn))
			} else {
				add("body-before-first-clause", 1, joinAll(f.pieces, "// c", f.syn))
			}
		}
		add("missing-end", 1, join(f.pieces[:len(f.pieces)-1]))
		add("missing-header", 1, join(f.pieces[1:]))
		add("end-twice", 1, join(append(append([]string(nil), f.pieces...), f.pieces[len(f.pieces)-1])))
		add("header-twice", 1, join(append([]string{f.pieces[0]}, f.pieces...)))
		if f.syn == 't' {
			for _, e := range []string{"{% end %}", "{% end if %}", "{% end for %}", "{% end switch %}", "{% end select %}", "{% end macro %}",
				"{% end raw %}", "{% end using %}", "{% end x %}", "{% end macro A %}", "{% end 1 %}", "{% } %}", "{% endif %}"} {
				add("wrong-end", 2, join(with(len(f.pieces)-1, e)))
			}
		}
	}
	for i := 1; i+1 < len(f.pieces); i++ {
		q := append(append(append([]string(nil), f.pieces[:i+1]...), f.pieces[i]), f.pieces[i+1:]...)
		add("duplicated-clause", 1, join(q))
		q = append(append([]string(nil), f.pieces[:i]...), f.pieces[i+1:]...)
		add("missing-clause", 2, join(q))
		if i+2 < len(f.pieces) {
			q = append([]string(nil), f.pieces...)
			q[i], q[i+1] = q[i+1], q[i]
			add("swapped-clauses", 1, join(q))
		}
		// a clause after the end
		add("clause-after-end", 2, join(append(append([]string(nil), f.pieces...), f.pieces[i])))
	}
	// wrong delimiters
	if f.syn == 't' {
		var code []string
		okAll := true
		for _, p := range f.pieces {
			d := closeOf(p)
			if d == "" || !strings.HasPrefix(p, "{") {
				okAll = false
				break
			}
			open := map[string]string{"%}": "{%", "}}": "{{", "%%}": "{%%"}[d]
			if !strings.HasPrefix(p, open) || strings.Count(p, d) != 1 {
				okAll = false
				break
			}
			code = append(code, strings.TrimSpace(p[len(open):len(p)-len(d)]))
		}
		if okAll {
			add("inside-statements", 1, "{%% "+strings.Join(code, "\n"+"n = 1"+"\n")+" %%}")
			add("inside-statements-one-line", 2, "{%% "+strings.Join(code, "; ")+" %%}")
			add("inside-show", 2, "{{ "+strings.Join(code, " }}x{{ ")+" }}")
			add("inside-statement", 2, "{% "+strings.Join(code, " %}x{% ")+" %}")
			add("unclosed-delimiter", 2, "{% "+strings.Join(code, " %}x{% "))
			add("inside-comment", 2, "{# "+join(f.pieces)+" #}")
			add("inside-raw", 2, "{% raw %}"+join(f.pieces)+"{% end raw %}")
		}
	} else {
		var ps []string
		for _, p := range f.pieces {
			ps = append(ps, "{% "+strings.ReplaceAll(p, "\n", " ")+" %}")
		}
		add("go-syntax-in-statement", 2, strings.Join(ps, "x"))
	}
	// every token prefix: the form as the last thing of the file
	full := join(f.pieces)
	toks := Tokens([]byte(full))
	head := len(Tokens([]byte(f.pieces[0])))
	for k := 1; k < len(toks); k++ {
		if t := toks[k-1]; len(t) > 0 && (t[0] == ' ' || t[0] == '\n' || t[0] == '\t') {
			continue
		}
		level := 2
		if k == head-1 || k == head-2 { // the header without its closing delimiter / last token
			level = 1
		}
		add("truncated", level, string(bytesJoin(toks[:k])))
	}
	return out
}

// nest puts inner into every body slot of outer (one slot at a time).
func nest(outer, inner form) []subject {
	var out []subject
	if len(outer.pieces) < 2 {
		return nil
	}
	fill := fillerOf(outer.syn)
	in := joinPieces(inner.pieces, fillerOf(inner.syn), inner.syn)
	for slot := 0; slot+1 < len(outer.pieces); slot++ {
		var sb strings.Builder
		for i, p := range outer.pieces {
			sb.WriteString(p)
			if i+1 < len(outer.pieces) {
				b := fill
				if i == slot {
					b = in
				}
				if outer.syn == 't' {
					sb.WriteString(b)
				} else {
					sb.WriteString("\n" + b + "\n")
				}
			}
		}
		out = append(out, subject{src: sb.String(), form: outer.name + "<" + inner.name, mod: "nested", cat: outer.cat, level: 2})
	}
	return out
}

// ---- roles ----

type role struct {
	name  string
	syn   byte // which subjects it takes: 't', 'g' or 'd'
	build func(s string) BuildCase
}

func tcase(entry string, files ...string) BuildCase {
	b := BuildCase{Kind: 't', Entry: entry, Files: map[string][]byte{}}
	for i := 0; i+1 < len(files); i += 2 {
		b.Files[files[i]] = []byte(files[i+1])
	}
	// the files the forms refer to (a file is added when its name occurs in a source; ext.html needs layout.html)
	for pass := 0; pass < 2; pass++ {
		for n, d := range formSupport {
			if _, ok := b.Files[n]; ok {
				continue
			}
			for _, src := range b.Files {
				if bytes.Contains(src, []byte(n)) {
					b.Files[n] = []byte(d)
					break
				}
			}
		}
	}
	return b
}

var formSupport = map[string]string{
	"layout.html": `<html>{{ M() }}</html>`,
	"m.html":      `{% macro MM %}m{% end %}{% var MV = 1 %}`,
	"n.html":      `{% macro NN %}n{% end %}`,
	"p.html":      `<i>p</i>`,
	"p.md":        `# p`,
	"p.js":        `var p = 1;`,
	"p.txt":       `p`,
	"ext.html":    `{% extends "layout.html" %}{% macro M %}e{% end %}`,
}

func pcase(files ...string) BuildCase {
	b := BuildCase{Kind: 'p', Entry: "main.go", Files: map[string][]byte{}}
	for i := 0; i+1 < len(files); i += 2 {
		b.Files[files[i]] = []byte(files[i+1])
	}
	return b
}

const modFiles = "module m\n"
const pkgP = "package p\n\nfunc F() int { return 1 }\n"
const pkgCyc = "package cyc\n\nimport \"m/cyc\"\n"

func mcase(main, p string) BuildCase {
	return pcase("go.mod", modFiles, "main.go", main, "p/p.go", p, "cyc/cyc.go", pkgCyc, "a/a.go", "package a\n", "b/b.go", "package b\n\nimport _ \"m/a\"\n")
}

func roles() []role {
	ext := `{% extends "layout.html" %}`
	r := []role{
		{"t:main", 't', func(s string) BuildCase { return tcase("index.html", "index.html", tPrelude+s) }},
		{"t:main-no-prelude", 't', func(s string) BuildCase { return tcase("index.html", "index.html", s) }},
		{"t:main-before-prelude", 't', func(s string) BuildCase { return tcase("index.html", "index.html", s+tPrelude) }},
		{"t:extending", 't', func(s string) BuildCase { return tcase("index.html", "index.html", ext+tPrelude+s) }},
		{"t:extending-first", 't', func(s string) BuildCase { return tcase("index.html", "index.html", ext+s+tPrelude) }},
		{"t:extending-in-macro", 't', func(s string) BuildCase {
			return tcase("index.html", "index.html", ext+tPrelude+"{% macro Body %}"+s+"{% end macro %}", "layout.html", "<html>{{ Body() }}</html>")
		}},
		{"t:layout", 't', func(s string) BuildCase {
			return tcase("index.html", "index.html", ext+"{% macro Body %}b{% end macro %}{% var V = 1 %}", "layout.html", tPrelude+s+"{{ Body() }}{{ V }}")
		}},
		{"t:layout-first", 't', func(s string) BuildCase {
			return tcase("index.html", "index.html", ext+"{% macro Body %}b{% end macro %}", "layout.html", s+"{{ Body() }}")
		}},
		{"t:imported", 't', func(s string) BuildCase {
			return tcase("index.html", "index.html", `{% import "imp.html" %}{{ M() }}`, "imp.html", tPrelude+s)
		}},
		{"t:imported-first", 't', func(s string) BuildCase {
			return tcase("index.html", "index.html", `{% import "imp.html" %}{{ M() }}`, "imp.html", s+tPrelude)
		}},
		{"t:imported-named", 't', func(s string) BuildCase {
			return tcase("index.html", "index.html", `{% import q "imp.html" %}{{ q.M() }}`, "imp.html", tPrelude+s)
		}},
		{"t:imported-for", 't', func(s string) BuildCase {
			return tcase("index.html", "index.html", `{% import "imp.html" for M, P %}{{ M() }}{{ P(1) }}`, "imp.html", tPrelude+s)
		}},
		{"t:imported-in-macro", 't', func(s string) BuildCase {
			return tcase("index.html", "index.html", `{% import "imp.html" %}{{ W() }}`, "imp.html", tPrelude+"{% macro W %}"+s+"{% end macro %}")
		}},
		{"t:imported-through", 't', func(s string) BuildCase {
			return tcase("index.html", "index.html", `{% import "mid.html" %}{{ Q() }}`, "mid.html", `{% import "imp.html" %}{% macro Q %}{{ M() }}{% end %}`, "imp.html", tPrelude+s)
		}},
		{"t:imported-by-extending", 't', func(s string) BuildCase {
			return tcase("index.html", "index.html", ext+`{% import "imp.html" %}{% macro Body %}{{ M() }}{% end %}`, "imp.html", tPrelude+s,
				"layout.html", "<html>{{ Body() }}</html>")
		}},
		{"t:imported-by-layout", 't', func(s string) BuildCase {
			return tcase("index.html", "index.html", ext+`{% macro Body %}b{% end %}`, "imp.html", tPrelude+s,
				"layout.html", `{% import "imp.html" %}<html>{{ Body() }}{{ M() }}</html>`)
		}},
		{"t:partial", 't', func(s string) BuildCase {
			return tcase("index.html", "index.html", `a{{ render "part.html" }}b`, "part.html", tPrelude+s)
		}},
		{"t:partial-no-prelude", 't', func(s string) BuildCase {
			return tcase("index.html", "index.html", `a{{ render "part.html" }}b`, "part.html", s)
		}},
		{"t:partial-of-extending", 't', func(s string) BuildCase {
			return tcase("index.html", "index.html", ext+`{% macro M %}{{ render "part.html" }}{% end %}`, "part.html", tPrelude+s)
		}},
		{"t:partial-markdown", 't', func(s string) BuildCase {
			return tcase("index.html", "index.html", `a{{ render "part.md" }}b`, "part.md", tPrelude+s)
		}},
		{"t:partial-js", 't', func(s string) BuildCase {
			return tcase("index.html", "index.html", `<script>{{ render "part.js" }}</script>`, "part.js", tPrelude+s)
		}},
		{"t:partial-text-in-js", 't', func(s string) BuildCase {
			return tcase("index.js", "index.js", `var a = {{ render "part.txt" }};`, "part.txt", tPrelude+s)
		}},
		{"t:in-script", 't', func(s string) BuildCase { return tcase("index.html", "index.html", tPrelude+"<script>"+s+"</script>") }},
		{"t:in-style", 't', func(s string) BuildCase { return tcase("index.html", "index.html", tPrelude+"<style>"+s+"</style>") }},
		{"t:in-attribute", 't', func(s string) BuildCase {
			return tcase("index.html", "index.html", tPrelude+`<a href="`+s+`" class=`+s+`>`)
		}},
		{"t:in-js-string", 't', func(s string) BuildCase {
			return tcase("index.html", "index.html", tPrelude+`<script>var q = "`+s+`";</script>`)
		}},
		{"t:in-markdown-code", 't', func(s string) BuildCase {
			return tcase("index.md", "index.md", tPrelude+"\n```\n"+s+"\n```\n\n    "+s+"\n")
		}},
	}
	for _, mf := range []string{"html", "js", "css", "json", "markdown", "string"} {
		mf := mf
		r = append(r, role{"t:macro-body-" + mf, 't', func(s string) BuildCase {
			return tcase("index.html", "index.html", tPrelude+"{% macro W(i int) "+mf+" %}"+s+"{% end macro %}{% var r = W(1) %}")
		}})
	}
	for _, e := range []string{".md", ".js", ".css", ".json", ".txt"} {
		e := e
		r = append(r, role{"t:file" + e, 't', func(s string) BuildCase { return tcase("index"+e, "index"+e, tPrelude+s) }})
	}
	// Go-syntax statements
	stmts := func(s string) string { return "{%%\n" + s + "\n%%}" }
	r = append(r,
		role{"g:main-body", 'g', func(s string) BuildCase {
			return pcase("main.go", "package main\n\n"+gPrelude+"func main() {\n"+s+"\n}\n")
		}},
		role{"g:main-body-no-prelude", 'g', func(s string) BuildCase { return pcase("main.go", "package main\nfunc main() {\n"+s+"\n}") }},
		role{"g:init-body", 'g', func(s string) BuildCase {
			return pcase("main.go", "package main\n\n"+gPrelude+"func init() {\n"+s+"\n}\nfunc main() {}\n")
		}},
		role{"g:funclit-body", 'g', func(s string) BuildCase {
			return pcase("main.go", "package main\n\n"+gPrelude+"func main() {\nf := func() {\n"+s+"\n}\nf()\n}\n")
		}},
		role{"g:package-var-funclit-body", 'g', func(s string) BuildCase {
			return pcase("main.go", "package main\n\n"+gPrelude+"var f = func() int {\n"+s+"\nreturn 1\n}\nfunc main() { f() }\n")
		}},
		role{"g:result-func-body", 'g', func(s string) BuildCase {
			return pcase("main.go", "package main\n\n"+gPrelude+"func g() (r int, err error) {\n"+s+"\nreturn\n}\nfunc main() { g() }\n")
		}},
		role{"g:method-body", 'g', func(s string) BuildCase {
			return pcase("main.go", "package main\n\n"+gPrelude+"type T int\nfunc (t T) g() {\n"+s+"\n}\nfunc main() {}\n")
		}},
		role{"g:package-level", 'g', func(s string) BuildCase { return pcase("main.go", "package main\n\n"+gPrelude+s+"\nfunc main() {}\n") }},
		role{"g:last-in-file", 'g', func(s string) BuildCase { return pcase("main.go", "package main\n\n"+gPrelude+"func main() {\n"+s) }},
		role{"g:imported-package-body", 'g', func(s string) BuildCase {
			return mcase("package main\n\nimport \"m/p\"\n\nfunc main() { p.F() }\n", "package p\n\n"+gPrelude+"func F() {\n"+s+"\n}\n")
		}},
		role{"g:template-statements", 'g', func(s string) BuildCase { return tcase("index.html", "index.html", tPrelude+stmts(s)) }},
		role{"g:template-statements-no-prelude", 'g', func(s string) BuildCase { return tcase("index.html", "index.html", stmts(s)) }},
		role{"g:template-statements-in-macro", 'g', func(s string) BuildCase {
			return tcase("index.html", "index.html", tPrelude+"{% macro W %}"+stmts(s)+"{% end macro %}{{ W() }}")
		}},
		role{"g:template-statements-in-funclit", 'g', func(s string) BuildCase {
			return tcase("index.html", "index.html", tPrelude+stmts("f := func() {\n"+s+"\n}\nf()"))
		}},
		role{"g:template-statements-extending", 'g', func(s string) BuildCase { return tcase("index.html", "index.html", ext+tPrelude+stmts(s)) }},
		role{"g:template-statements-imported", 'g', func(s string) BuildCase {
			return tcase("index.html", "index.html", `{% import "imp.html" %}{{ M() }}`, "imp.html", tPrelude+stmts(s))
		}},
		role{"g:template-statements-js", 'g', func(s string) BuildCase { return tcase("index.js", "index.js", tPrelude+stmts(s)) }},
		role{"g:template-statements-last", 'g', func(s string) BuildCase { return tcase("index.html", "index.html", tPrelude+"{%%\n"+s) }},
	)
	// rich roles: the native package "nat" (programs: imported; templates: also as globals), an imported Scriggo package
	// p and a template file imported under the name q
	withKind := func(k byte, b BuildCase) BuildCase { b.Kind = k; return b }
	richT := `{% import q "m.html" %}` + tPrelude
	r = append(r,
		role{"t:rich-main", 't', func(s string) BuildCase { return withKind('u', tcase("index.html", "index.html", richT+s)) }},
		role{"t:rich-extending-in-macro", 't', func(s string) BuildCase {
			return withKind('u', tcase("index.html", "index.html", ext+richT+"{% macro Body %}"+s+"{% end macro %}", "layout.html", "<html>{{ Body() }}</html>"))
		}},
		role{"g:rich-main-body", 'g', func(s string) BuildCase {
			return withKind('q', mcase("package main\n\nimport \"nat\"\nimport \"m/p\"\n\n"+gPrelude+"var _ = nat.C\nvar _ = p.F\n\nfunc main() {\n"+s+"\n}\n", pkgP))
		}},
		role{"g:rich-imported-package-body", 'g', func(s string) BuildCase {
			return withKind('q', mcase("package main\n\nimport \"m/p\"\n\nfunc main() { p.G() }\n",
				"package p\n\nimport \"nat\"\n\n"+gPrelude+"var _ = nat.C\nfunc F() int { return 1 }\nfunc G() {\n"+s+"\n}\n"))
		}},
		role{"g:rich-template-statements", 'g', func(s string) BuildCase { return withKind('u', tcase("index.html", "index.html", richT+stmts(s))) }},
		role{"d:rich-module-main-package", 'd', func(s string) BuildCase {
			return withKind('q', mcase("package main\n\n"+s+"\n\n"+gPrelude+"func main() {}\n", pkgP))
		}},
	)
	// the subject is a whole file
	r = append(r,
		role{"t:whole-file", 't', func(s string) BuildCase { return tcase("index.html", "index.html", s) }},
		role{"t:whole-markdown-file", 't', func(s string) BuildCase {
			return tcase("index.md", "index.md", strings.ReplaceAll(s, ".html\"", ".md\""), "layout.md", "# {{ M() }}", "m.md", formSupport["m.html"], "n.md", formSupport["n.html"])
		}},
		role{"t:whole-imported-file", 't', func(s string) BuildCase {
			return tcase("index.html", "index.html", `{% import "imp.html" %}x`, "imp.html", s)
		}},
		role{"t:whole-partial", 't', func(s string) BuildCase {
			return tcase("index.html", "index.html", `a{{ render "part.html" }}b`, "part.html", s)
		}},
		role{"t:whole-layout", 't', func(s string) BuildCase {
			return tcase("index.html", "index.html", ext+"{% macro M %}m{% end %}", "layout.html", strings.ReplaceAll(s, "\"layout.html\"", "\"base.html\""), "base.html", "<html>{{ M() }}</html>")
		}},
		role{"d:whole-program", 'd', func(s string) BuildCase { return pcase("main.go", s) }},
		role{"d:whole-imported-package", 'd', func(s string) BuildCase {
			return mcase("package main\n\nimport \"m/p\"\n\nfunc main() { p.Main() }\n", strings.Replace(strings.Replace(s, "package main", "package p", 1), "func main()", "func Main()", 1))
		}},
	)
	// package-level declarations
	r = append(r,
		role{"d:main-package", 'd', func(s string) BuildCase {
			return pcase("main.go", "package main\n\n"+s+"\n\n"+gPrelude+"func main() {}\n")
		}},
		role{"d:main-package-after", 'd', func(s string) BuildCase {
			return pcase("main.go", "package main\n\n"+gPrelude+"func main() {}\n\n"+s+"\n")
		}},
		role{"d:main-package-no-prelude", 'd', func(s string) BuildCase { return pcase("main.go", "package main\n"+s) }},
		role{"d:module-main-package", 'd', func(s string) BuildCase { return mcase("package main\n\n"+s+"\n\n"+gPrelude+"func main() {}\n", pkgP) }},
		role{"d:imported-package", 'd', func(s string) BuildCase {
			return mcase("package main\n\nimport \"m/p\"\n\nfunc main() { p.F() }\n", "package p\n\n"+s+"\n\n"+gPrelude+"func F() {}\n")
		}},
		role{"d:imported-package-no-prelude", 'd', func(s string) BuildCase {
			return mcase("package main\n\nimport \"m/p\"\n\nfunc main() {}\n", "package p\n"+s)
		}},
		role{"d:imported-package-dot", 'd', func(s string) BuildCase {
			return mcase("package main\n\nimport . \"m/p\"\n\nfunc main() { F() }\n", "package p\n\n"+s+"\n\n"+gPrelude+"func F() {}\n")
		}},
		role{"d:function-body", 'd', func(s string) BuildCase {
			return pcase("main.go", "package main\n\n"+gPrelude+"func main() {\n"+s+"\n}\n")
		}},
		role{"d:template-statements", 'd', func(s string) BuildCase { return tcase("index.html", "index.html", tPrelude+stmts(s)) }},
		role{"d:template-statements-extending", 'd', func(s string) BuildCase { return tcase("index.html", "index.html", ext+tPrelude+stmts(s)) }},
		role{"d:template-statements-imported", 'd', func(s string) BuildCase {
			return tcase("index.html", "index.html", `{% import "imp.html" %}{{ M() }}`, "imp.html", tPrelude+stmts(s))
		}},
	)
	return r
}

func beginsFile(role string) bool {
	return strings.Contains(role, "no-prelude") || strings.Contains(role, "-first") || strings.Contains(role, "before-prelude") || strings.Contains(role, "whole")
}

var goStmt = regexp.MustCompile(`\bgo\s`)

var coreRoles = map[string]bool{
	"t:main": true, "t:extending": true, "t:extending-in-macro": true, "t:layout": true, "t:imported": true, "t:imported-for": true,
	"t:imported-in-macro": true, "t:partial": true, "t:partial-markdown": true, "t:macro-body-js": true, "t:in-script": true, "t:file.md": true,
	"g:main-body": true, "g:funclit-body": true, "g:package-level": true, "g:imported-package-body": true, "g:template-statements": true,
	"g:template-statements-in-macro": true, "g:template-statements-extending": true, "g:template-statements-imported": true,
	"d:main-package": true, "d:imported-package": true, "d:function-body": true, "d:template-statements": true,
	"d:template-statements-extending": true, "d:template-statements-imported": true,
}

// Forms enumerates the stream. Every form goes unmodified to every role of its syntax; the main modifiers (level 1) go to
// the core roles and to one more role taken in turn; the others (level 2) and the nestings go to one role taken in turn
// (thorough tier: level 1 to every role too, level 2 to two roles in turn; every form nested in every other, in one
// role in turn). In the quick tier the inner forms of the nestings are one form of each category, chosen by the seed.
// nRandom seeded-random cases follow: random nestings (depth up to 3) with random modifiers, token deletions and
// duplications, in random roles.
func Forms(r *proto.Rand, quick bool, nRandom int) []FormCase {
	all := !quick
	bySyn := map[byte][]form{'t': templateForms(), 'g': goForms(), 'd': declForms()}
	rolesBySyn := map[byte][]role{}
	for _, ro := range roles() {
		rolesBySyn[ro.syn] = append(rolesBySyn[ro.syn], ro)
	}
	var out []FormCase
	seen := map[[20]byte]bool{}
	emit := func(s subject, ro role) {
		b := ro.build(s.src)
		k := sha1.Sum([]byte(b.Line()))
		if seen[k] {
			return
		}
		seen[k] = true
		out = append(out, FormCase{BuildCase: b, Form: s.cat + ":" + s.form, Mod: s.mod, Role: ro.name})
		if goStmt.MatchString(s.src) { // a go statement: also with BuildOptions.AllowGoStmt
			b.Kind -= 'a' - 'A'
			out = append(out, FormCase{BuildCase: b, Form: s.cat + ":" + s.form, Mod: s.mod + "+AllowGoStmt", Role: ro.name})
		}
	}
	turn := r.Intn(1 << 16) // which role a form in turn goes to depends on the seed
	place := func(s subject, syn byte) {
		rs := rolesBySyn[syn]
		level := s.level
		if all && level == 1 {
			level = 0
		}
		turn++
		if level == 4 { // import sets: the roles with a module; callees: the rich roles (natives, named imports)
			for _, ro := range rs {
				if s.cat == "imports" && (strings.Contains(ro.name, "module") || strings.Contains(ro.name, "imported-package")) ||
					s.cat == "callee" && strings.Contains(ro.name, "rich") ||
					s.cat == "scale" && strings.Contains(ro.name, "whole") {
					emit(s, ro)
				}
				// position: where the subject is the beginning of a file; in the quick tier the main file always, the
				// others one in two (by the seed) — except the plain "after" placements, which go everywhere
				if s.cat == "position" && beginsFile(ro.name) {
					if all || ro.name == "t:main-no-prelude" || !strings.Contains(s.form, " ") || strings.Contains(s.form, " after ") && r.Intn(2) == 0 || r.Intn(8) == 0 {
						emit(s, ro)
					}
				}
			}
			return
		}
		if level == 3 { // the bulk forms (type expressions, expressions, nil conversions)
			level = 2
			if all {
				level = 1
			} else if s.cat != "nilconv" && r.Intn(2) == 0 { // quick: half of them, chosen by the seed
				return
			}
		}
		if !all && s.level == 2 && s.mod == "using" && r.Intn(2) == 0 { // quick: half of the rarer spellings of using
			return
		}
		if all && level == 2 && s.mod != "nested" { // thorough: two roles in turn
			emit(s, rs[(turn+len(rs)/2)%len(rs)])
		}
		switch level {
		case 0:
			for _, ro := range rs {
				emit(s, ro)
			}
		case 1:
			var rest []role
			for _, ro := range rs {
				if coreRoles[ro.name] {
					emit(s, ro)
				} else {
					rest = append(rest, ro)
				}
			}
			emit(s, rest[turn%len(rest)])
		default:
			emit(s, rs[turn%len(rs)])
		}
	}
	for _, syn := range []byte{'t', 'g', 'd'} {
		forms := bySyn[syn]
		for _, f := range forms {
			for _, s := range modify(f, all) {
				place(s, syn)
			}
		}
		// every form inside every slot of every other form
		inner := forms
		if syn == 'd' {
			inner = append(append([]form(nil), forms...), bySyn['g']...) // declarations and statements inside function bodies
		}
		if !quick { // the bulk forms: one in eight, chosen by the seed
			var in2 []form
			for _, f := range inner {
				if (f.cat != "typeexpr" && f.cat != "exprs" && f.cat != "nilconv" && f.cat != "callee" && f.cat != "imports" && f.cat != "position" && f.cat != "scale") || r.Intn(8) == 0 {
					in2 = append(in2, f)
				}
			}
			inner = in2
		}
		if quick { // one form of each category, chosen by the seed
			byCat := map[string][]form{}
			var cats []string
			for _, f := range inner {
				if byCat[f.cat] == nil {
					cats = append(cats, f.cat)
				}
				byCat[f.cat] = append(byCat[f.cat], f)
			}
			inner = nil
			for _, c := range cats {
				inner = append(inner, byCat[c][r.Intn(len(byCat[c]))])
				if c == "misc" || c == "using" || c == "template" { // the misplaced clauses and the using forms: all
					inner = append(inner[:len(inner)-1], byCat[c]...)
				}
			}
		}
		for _, o := range forms {
			for _, in := range inner {
				for _, s := range nest(o, in) {
					if quick && r.Intn(2) == 0 { // quick: half of the nestings, chosen by the seed
						continue
					}
					place(s, syn)
				}
			}
		}
	}
	// seeded random part
	for i := 0; i < nRandom; i++ {
		syn := []byte{'t', 't', 't', 'g', 'g', 'd'}[r.Intn(6)]
		forms := bySyn[syn]
		var gen func(depth int) string
		gen = func(depth int) string {
			f := forms[r.Intn(len(forms))]
			if syn == 'd' && depth > 0 {
				f = bySyn['g'][r.Intn(len(bySyn['g']))]
			}
			pieces := append([]string(nil), f.pieces...)
			// a modifier on a random piece
			if r.Intn(3) == 0 {
				k := r.Intn(len(pieces))
				var ins string
				if r.Intn(2) == 0 {
					ins = usingVariants[r.Intn(len(usingVariants))]
				} else {
					ins = trailingTokens[r.Intn(len(trailingTokens))]
				}
				if p, ok := insertAtEnd(pieces[k], ins, f.syn); ok {
					pieces[k] = p
				}
			}
			if len(pieces) > 1 {
				switch r.Intn(10) {
				case 0:
					pieces = pieces[:len(pieces)-1]
				case 1:
					k := r.Intn(len(pieces))
					pieces = append(append(append([]string(nil), pieces[:k+1]...), pieces[k]), pieces[k+1:]...)
				case 2:
					pieces = pieces[1:]
				}
			}
			var sb strings.Builder
			for k, p := range pieces {
				sb.WriteString(p)
				if k+1 < len(pieces) {
					body := fillerOf(f.syn)
					switch {
					case depth < 3 && r.Intn(2) == 0:
						body = gen(depth + 1)
						if r.Intn(4) == 0 {
							body += gen(depth + 1)
						}
					case r.Intn(6) == 0:
						body = ""
					}
					if f.syn == 't' {
						sb.WriteString(body)
					} else {
						sb.WriteString("\n" + body + "\n")
					}
				}
			}
			return sb.String()
		}
		src := gen(0)
		for k := r.Intn(3); k > 0; k-- {
			src += map[byte]string{'t': "", 'g': "\n", 'd': "\n"}[syn] + gen(0)
		}
		mod := "random"
		if r.Intn(3) == 0 { // a token deleted, duplicated or the rest cut off
			toks := Tokens([]byte(src))
			if len(toks) > 1 {
				k := r.Intn(len(toks))
				switch r.Intn(3) {
				case 0:
					toks = append(toks[:k:k], toks[k+1:]...)
				case 1:
					toks = append(append(append([][]byte(nil), toks[:k+1]...), toks[k]), toks[k+1:]...)
				case 2:
					toks = toks[:k+1]
				}
				src = string(bytesJoin(toks))
				mod = "random+token"
			}
		}
		rs := rolesBySyn[syn]
		emit(subject{src: src, form: "random", mod: mod, cat: "random"}, rs[r.Intn(len(rs))])
	}
	return out
}

// FormsCoverage summarises a stream for the evidence: cases per role, per modifier and per form category.
func FormsCoverage(cs []FormCase) map[string]int {
	h := map[string]int{}
	forms := map[string]bool{}
	for _, c := range cs {
		h["forms-role-"+c.Role]++
		h["forms-mod-"+c.Mod]++
		cat := c.Form
		if i := strings.IndexByte(cat, ':'); i > 0 {
			cat = cat[:i]
		}
		h["forms-category-"+cat]++
		forms[c.Form] = true
	}
	h["forms-cases"] = len(cs)
	h["forms-distinct-forms-and-nestings"] = len(forms)
	return h
}

// FormsSummary is a one-line description of the stream's size.
func FormsSummary() string {
	t, g, d := len(templateForms()), len(goForms()), len(declForms())
	rs := roles()
	n := map[byte]int{}
	for _, r := range rs {
		n[r.syn]++
	}
	keys := []string{}
	for k, v := range n {
		keys = append(keys, fmt.Sprintf("%c:%d", k, v))
	}
	sort.Strings(keys)
	return fmt.Sprintf("forms: %d template, %d Go-statement, %d package-level; roles %s", t, g, d, strings.Join(keys, " "))
}
