package lexh

import (
	"errors"
	"fmt"
	"io/fs"
	"reflect"
	"runtime"
	"runtime/debug"
	"sort"
	"strconv"
	"strings"
	"sync"
	"testing/fstest"
	"time"

	"github.com/open2b/scriggo"
	"github.com/open2b/scriggo/native"

	"verifharness/internal/proto"
)

// BuildCase is one end-to-end input: files of a template tree (Entry is built with
// BuildTemplate) or one program file (Kind 'p', built with Build).
type BuildCase struct {
	Kind byte // 't' or 'p'; 'T' and 'P': the same with BuildOptions.AllowGoStmt; 'u'/'q': template/program with the native
	// package "nat" (Packages) and, for templates, its declarations as Globals; 'U'/'Q': natives and AllowGoStmt
	Entry string
	Files map[string][]byte
}

// Program reports whether the case is built with Build (otherwise: BuildTemplate).
func (b BuildCase) Program() bool {
	return b.Kind == 'p' || b.Kind == 'P' || b.Kind == 'q' || b.Kind == 'Q'
}

// GoStmt reports whether the case is built with AllowGoStmt, Natives whether with the native package "nat".
func (b BuildCase) GoStmt() bool {
	return b.Kind == 'P' || b.Kind == 'T' || b.Kind == 'Q' || b.Kind == 'U'
}
func (b BuildCase) Natives() bool {
	return b.Kind == 'q' || b.Kind == 'Q' || b.Kind == 'u' || b.Kind == 'U'
}

// WithKind gives the kind letter for (program, natives, goStmt).
func KindOf(program, natives, goStmt bool) byte {
	k := byte('t')
	switch {
	case program && natives:
		k = 'q'
	case program:
		k = 'p'
	case natives:
		k = 'u'
	}
	if goStmt {
		k -= 'a' - 'A'
	}
	return k
}

func (b BuildCase) names() []string {
	n := make([]string, 0, len(b.Files))
	for k := range b.Files {
		n = append(n, k)
	}
	sort.Strings(n)
	return n
}

// Line serialises the case for the build child.
func (b BuildCase) Line() string {
	var sb strings.Builder
	fmt.Fprintf(&sb, "%c %s %d", b.Kind, proto.Hex([]byte(b.Entry)), len(b.Files))
	for _, n := range b.names() {
		fmt.Fprintf(&sb, " %s %s", proto.Hex([]byte(n)), proto.Hex(b.Files[n]))
	}
	return sb.String()
}

func (b BuildCase) Key() string { return b.Line() }

func ParseBuildLine(l string) (BuildCase, error) {
	f := strings.Fields(l)
	if len(f) < 3 || len(f[0]) != 1 {
		return BuildCase{}, fmt.Errorf("bad build line")
	}
	b := BuildCase{Kind: f[0][0], Files: map[string][]byte{}}
	e, err := proto.UnHex(f[1])
	if err != nil {
		return b, err
	}
	b.Entry = string(e)
	n, _ := strconv.Atoi(f[2])
	if len(f) != 3+2*n {
		return b, fmt.Errorf("bad build line: %d fields for %d files", len(f), n)
	}
	for i := 0; i < n; i++ {
		name, err := proto.UnHex(f[3+2*i])
		if err != nil {
			return b, err
		}
		data, err := proto.UnHex(f[4+2*i])
		if err != nil {
			return b, err
		}
		b.Files[string(name)] = data
	}
	return b, nil
}

// recFS records the names that were opened successfully.
type recFS struct {
	fs.FS
	mu     sync.Mutex
	served map[string]bool
}

func (r *recFS) Open(name string) (fs.File, error) {
	f, err := r.FS.Open(name)
	if err == nil {
		r.mu.Lock()
		r.served[name] = true
		r.mu.Unlock()
	}
	return f, err
}

// BuildResult is the outcome of one build in the child.
type BuildResult struct {
	Status string // ok | builderror | notexist | othererror | panic | disasm-panic | HANG | CRASH…
	Path   string
	Start  int
	End    int
	Line   int
	Col    int
	Msg    string
	Served bool   // Path is a file the FS served
	Leak   int    // goroutines above the baseline after the build returned
	Site   string // for a panic: the innermost scriggo function on the stack
	Syntax bool   // the build error is a syntax error (lexer or parser)
	Detail string
}

func (r BuildResult) String() string {
	return fmt.Sprintf("%s %s %d %d %d %d %s %v %d %s %v", r.Status, proto.Hex([]byte(r.Path)), r.Start, r.End, r.Line, r.Col,
		proto.Hex([]byte(r.Msg)), r.Served, r.Leak, proto.Hex([]byte(r.Site)), r.Syntax)
}

func ParseBuildResult(s string) BuildResult {
	f := strings.Fields(s)
	if len(f) != 11 {
		st := s
		if i := strings.IndexByte(s, ' '); i > 0 {
			st = s[:i]
		}
		return BuildResult{Status: st, Detail: s}
	}
	r := BuildResult{Status: f[0]}
	p, _ := proto.UnHex(f[1])
	r.Path = string(p)
	r.Start, _ = strconv.Atoi(f[2])
	r.End, _ = strconv.Atoi(f[3])
	r.Line, _ = strconv.Atoi(f[4])
	r.Col, _ = strconv.Atoi(f[5])
	m, _ := proto.UnHex(f[6])
	r.Msg = string(m)
	r.Served = f[7] == "true"
	r.Leak, _ = strconv.Atoi(f[8])
	st, _ := proto.UnHex(f[9])
	r.Site = string(st)
	r.Syntax = f[10] == "true"
	return r
}

var leaksSeen int // builds of this process that left a goroutine behind

// BuildInChild builds the case with the public API under recover and a goroutine count
// before/after, and disassembles what was built. It has no timeout of its own: the parent
// kills a child that does not answer in time (Runner.Timeout) and records HANG.
func BuildInChild(b BuildCase) (res BuildResult) {
	mfs := fstest.MapFS{}
	for n, d := range b.Files {
		mfs[n] = &fstest.MapFile{Data: d}
	}
	rec := &recFS{FS: mfs, served: map[string]bool{}}
	base := runtime.NumGoroutine()
	func() {
		stage := "build"
		defer func() {
			if r := recover(); r != nil {
				res.Status = "panic"
				if stage == "disasm" {
					res.Status = "disasm-panic"
				}
				res.Msg = fmt.Sprint(r)
				res.Site = panicSite(string(debug.Stack()))
			}
		}()
		var err error
		var opts *scriggo.BuildOptions
		if b.GoStmt() || b.Natives() {
			opts = &scriggo.BuildOptions{AllowGoStmt: b.GoStmt()}
			if b.Natives() {
				opts.Packages = native.Packages{"nat": natPackage}
				if !b.Program() {
					opts.Globals = natPackage.Declarations
				}
			}
		}
		if b.Program() {
			var p *scriggo.Program
			p, err = scriggo.Build(rec, opts)
			if err == nil {
				stage = "disasm"
				p.Disassemble("main")
			}
		} else {
			var t *scriggo.Template
			t, err = scriggo.BuildTemplate(rec, b.Entry, opts)
			if err == nil {
				stage = "disasm"
				for _, n := range []int{-1, 0, 1, 2, 3, 5, 8, 10, 13} { // the limit is in runes: texts are cut
					t.Disassemble(n)
				}
			}
		}
		switch e := err.(type) {
		case nil:
			res.Status = "ok"
		case *scriggo.BuildError:
			res.Status = "builderror"
			pos := e.Position()
			res.Path, res.Start, res.End, res.Line, res.Col, res.Msg = e.Path(), pos.Start, pos.End, pos.Line, pos.Column, e.Message()
			res.Syntax = strings.Contains(e.Error(), ": syntax error: ")
		default:
			if errors.Is(err, fs.ErrNotExist) {
				res.Status = "notexist"
			} else {
				res.Status = "othererror"
			}
			res.Msg = fmt.Sprintf("%T: %v", err, err)
		}
	}()
	rec.mu.Lock()
	res.Served = rec.served[res.Path] || rec.served[strings.TrimPrefix(res.Path, "/")]
	rec.mu.Unlock()
	// the lexer goroutine ends right after closing its channel: give it a moment (after a few leaks in this process —
	// code that is broken in this respect leaks on thousands of inputs — a shorter moment: a goroutine that is blocked
	// for good does not end however long one waits)
	wait := 2 * time.Second
	if leaksSeen >= 3 {
		wait = 5 * time.Millisecond
	}
	deadline := time.Now().Add(wait)
	for runtime.NumGoroutine() > base && time.Now().Before(deadline) {
		time.Sleep(50 * time.Microsecond)
	}
	if n := runtime.NumGoroutine(); n > base {
		res.Leak = n - base
		leaksSeen++
	}
	return res
}

// BuildChildHandle is the child's request handler for build cases.
func BuildChildHandle(line string) string {
	b, err := ParseBuildLine(line)
	if err != nil {
		return "badrequest " + err.Error()
	}
	return BuildInChild(b).String()
}

// LexChildHandle is the child's request handler for lexer cases.
func LexChildHandle(line string) string {
	c, err := ParseLexLine(line)
	if err != nil {
		return "badrequest " + err.Error()
	}
	return LexReal(c)
}

// panicSite is the first scriggo function below the panic call in a stack trace.
func panicSite(stack string) string {
	lines := strings.Split(stack, "\n")
	last := -1
	for i, l := range lines {
		if strings.HasPrefix(l, "panic(") {
			last = i // the innermost panic is the original one (outer ones are re-panics of deferred functions)
		}
	}
	for i, l := range lines {
		if i > last && last >= 0 && strings.HasPrefix(l, "github.com/open2b/scriggo") {
			if i := strings.LastIndexByte(l, '('); i > 0 {
				l = l[:i]
			}
			return strings.TrimPrefix(l, "github.com/open2b/scriggo/")
		}
	}
	return ""
}

// The native declarations of the kinds 'q', 'Q', 'u', 'U': an interface type with a value, a struct type with value
// and pointer methods, values of function, channel, map, slice and pointer types, a variadic function, a constant.
type NatI interface {
	M()
	N(int) int
}
type NatS struct{ A int }

func (NatS) M()            {}
func (NatS) N(i int) int   { return i }
func (*NatS) PM()          {}
func (NatS) V(a ...func()) {}

var (
	natIv   NatI = NatS{}
	natNilI NatI
	natSv   = NatS{}
	natPv   = &NatS{}
	natFv   = func() {}
	natCh   = make(chan int, 1)
	natMap  = map[string]int{}
	natErr  error
	natAny  interface{} = 1
)

var natPackage = native.Package{Name: "nat", Declarations: native.Declarations{
	"I": reflect.TypeOf((*NatI)(nil)).Elem(), "S": reflect.TypeOf(NatS{}),
	"Iv": &natIv, "NilI": &natNilI, "Sv": &natSv, "Pv": &natPv, "Fv": &natFv, "Ch": &natCh, "Map": &natMap, "Err": &natErr, "Any": &natAny,
	"F":    func() {},
	"FI":   func() NatI { return NatS{} },
	"FV":   func(a ...interface{}) {},
	"FVF":  func(a ...func()) {},
	"FInt": func(i int) int { return i },
	"C":    native.UntypedNumericConst("42"),
}}
