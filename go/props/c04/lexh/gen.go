package lexh

import (
	"go/ast"
	"go/parser"
	"go/token"
	"os"
	"path/filepath"
	"regexp"
	"sort"
	"strconv"
	"strings"

	"verifharness/internal/proto"
)

// Repo is the repository the corpus is read from (VERIF_REPO, default /repo).
func Repo() string {
	if r := os.Getenv("VERIF_REPO"); r != "" {
		return r
	}
	return "/repo"
}

// Source is one valid (or at least test-suite) source text.
type Source struct {
	Name   string
	Format int // 0 text, 1 html, 2 css, 3 js, 4 json, 5 markdown; -1 program
	Data   []byte
}

// Corpus is what the mutators start from.
type Corpus struct {
	Templates []Source
	Programs  []Source
	Trees     []BuildCase // multi-file template trees
}

func formatOf(name string) int {
	switch strings.ToLower(filepath.Ext(name)) {
	case ".html":
		return 1
	case ".css":
		return 2
	case ".js":
		return 3
	case ".json":
		return 4
	case ".md", ".mdx", ".mkd", ".mkdn", ".mdown", ".markdown":
		return 5
	}
	return 0
}

// ExtOf gives a file extension BuildTemplate maps to format.
func ExtOf(format int) string {
	return [...]string{".txt", ".html", ".css", ".js", ".json", ".md"}[format]
}

// seeds are small hand-written sources that reach every branch of the template lexer.
var seeds = []struct {
	format int
	src    string
}{
	{1, `<a href="{{ u }}" class="c">{{ t }}</a>`},
	{1, `<img src={{ u }} alt=x><input formaction='{{ a }}'>`},
	{1, `<img srcset="{{ a }} 2x, {{ b }}" data-src="{{ c }}" xmlns:x="{{ d }}">`},
	{1, `<script>var a = "x{{ s }}"; // c {{ a }}` + "\n" + `/* b {{ b }} */ var r = '\'';</script>{{ h }}`},
	{1, `<script type="application/ld+json">{"a": "{{ s }}\"", "b": {{ v }}}</script>`},
	{1, `<script type=module>{{ a }}</script><script type=" text/JavaScript ">{{ b }}</script><script type="x">{{ c }}</script>`},
	{1, `<style>a { b: "{{ s }}\""; c: {{ v }} }</style><style type="text/x">{{ a }}</style>`},
	{1, `<STYLE>p{}</STYLE ><SCRIPT>1</SCRIPT` + "\n" + `>`},
	{1, `<![CDATA[ {{ not }} ` + "\n" + ` é ]]> {{ a }}`},
	{1, `{# comment {# nested #} ` + "\n" + ` é #}x{{ a }}`},
	{1, `{% raw %} {{ a }} {% end %}{% raw code %}{% end %}{% end raw code %}{{ b }}`},
	{1, `{% macro M %}<b>{{ a }}</b>{% end %}{% macro N js %}var a = {{ a }};{% end macro %}`},
	{1, `{% macro Css(s string) css %}a{b:{{ s }}}{% end %}{{ render "x.html" }}`},
	{1, `{% show M; using %}<i>x</i>{% end %}{% var a = show 1; using markdown %}# t{% end %}`},
	// base context of a macro or using body with a result type: after a raw block, a tag, script, style, nested blocks
	{1, `{% macro M(v string) js %}{% raw %} {% end %}f({{ v }}){% end %}{{ w }}<a b="{{ x }}">`},
	{1, `{% macro M(v string) markdown %}<b>t</b> {{ v }} <script>{{ j }}</script>{{ w }}<style>{{ c }}</style>{{ z }}{% end %}<i>{{ y }}</i>`},
	{5, `{% macro M html %}{% if a %}<p>{{ a }}</p>{% raw %}x{% end raw %}{% end if %}{{ b }}{% macro %}{% end %}<a>{{ c }}</a>` + "\n    {{ d }}"},
	{3, `{% show f; using html %}<script>var a = {{ a }};</script>{{ b }}{% for %}<b c={{ c }}>{% end %}{{ d }}{% end %}</script>{{ e }}`},
	{1, `{% macro A css %}{% macro B json %}<x>{{ a }}{% end %}<y>{{ b }}{% end %}<z>{{ c }}{% end %}{% end %}<w>{{ d }}`},
	// escaped backslash before the closing quote; U+2028 / U+2029 end a JS line comment
	{1, `<script>var p = "C:\\"; var x = {{ s }}; var q = '\\\'{{ t }}';</script><style>a{b:"\\";c:{{ u }}}</style>`},
	{1, `<script type="application/ld+json">{"a":"\\","b":{{ v }},"c":"\\\"{{ w }}"}</script>`},
	{3, "// a\u2028 var s = \"{{ s }}\"; // b\u2029'{{ t }}' // c\xe2\x80 \"{{ u }}\"\xe2\x80"},
	{1, `{% if a %}<a {% if b %}href="{{ c }}"{% end %}>{% else %}x{% end if %}`},
	{1, `{% for i, v := range s %}{{ i }}{% break %}{% continue %}{% end for %}`},
	{1, `{%% a := 5` + "\n" + `b := a % 2 %%}{{ a %% b }}`},
	{1, `<a b = "c" d='e' f=g h>{{ x }}</a/>`},
	{1, "<p\n a\n =\n \"v\"\n>{{ x }}</p>"},
	{1, `{{ "a\tb\x41\101\u00e9\U0001F600" }}{{ 'a' }}{{ '\'' }}{{ '\x41' }}{{ '\u00e9' }}`},
	{1, "{{ `raw\nstring` }}{{ 0x1F }}{{ 0b101 }}{{ 0o17 }}{{ 017 }}{{ 1_000 }}{{ 1.5e+3 }}{{ 0x1p-2 }}{{ 3i }}{{ .5 }}"},
	{1, `{{ a /* c */ + b }}{{ a // c` + "\n" + `}}{{ map[string]int{"a": 1}["a"] }}{{ T{} }}`},
	{1, `{{ a <- b }}{{ a &^ b }}{{ a &^= b }}{{ a <<= 1 }}{{ a >>= 1 }}{{ a... }}{{ a && b || !c }}`},
	{1, `{{ a and b or not c }}{{ a contains b }}{{ x in y }}`},
	{1, `{% extends "layout.html" %}{% import "m.html" %}{% import m "m.html" %}`},
	{1, "#! shebang\n<b>{{ a }}</b>"},
	{1, `a #} b`},
	{1, `{{ é }}{{ _a1 }}{{ 世界 }}`},
	{1, "a\r\nb\n\rc{{ x }}"},
	{1, "\xef\xbb\xbf{{ a }}"},
	{1, "日bcdefghijkl{{ a }}abcdefghi日本語klmnopq"},
	{0, "αβγδεζηθικλμνξοπρστυφχψω{{ a }}"},
	{0, `plain {{ a }} <a href="{{ b }}"> {# c #} {% if x %}y{% end %}`},
	{2, `a { b: "{{ s }}"; c: '{{ t }}\''; d: {{ v }} } </style> {{ x }}`},
	{3, `var a = "{{ s }}\""; // {{ c }}` + "\n" + `/* {{ d }} */ var b = '{{ t }}'; </script> {{ x }}`},
	{4, `{"a": "{{ s }}\"", "b": {{ v }}, "c": '{{ t }}'} </script>`},
	{5, "# T\n\nhttp://a.b/c?d={{ e }}. x https://{{ h }}/p, y\n\n    code {{ a }}\n\tcode {{ b }}\n\ntext {{ c }}\n"},
	{5, "a \\{{ b }} \\h \\\n <a href=\"{{ u }}\">x</a> <script>{{ j }}</script> xhttp://no http://yes?"},
	{5, "    indented {{ a }}\n    more\nback {{ b }}\n \n    block {{ c }}"},
	{5, "\tt{{ a }}\n\n\tt2\nhttps://e.x/{{ p }}"},
}

var programSeeds = []string{
	"package main\n\nimport \"fmt\"\n\nfunc main() {\n\tfmt.Println(\"a\", 1, 'c', 2.5, `r`)\n}\n",
	"package main\n\n/* block\n comment */\n// line\nvar a, b = 1, 2\n\nfunc f(x int) (int, error) { return x << 2 &^ 1, nil }\n\nfunc main() {\n\tfor i := 0; i < 3; i++ {\n\t\tif a %2 == 0 { a++ } else { b-- }\n\t}\n\tswitch { case a > b: ; default: }\n\tdefer func() { recover() }()\n\tgo f(1)\n\tch := make(chan int, 1); ch <- 1; <-ch\n\tvar m = map[string][]int{\"a\": {1, 2}}\n\t_ = m\n}\n",
	"package main\n\ntype T struct { A int; B string }\n\ntype I interface { M() }\n\nfunc (t T) M() {}\n\nconst c = 0x1F + 0b11 + 0o7 + 1_0 + 'a'\n\nfunc main() { var i I = T{A: 1}; i.M(); goto L; L: ; select {} }\n",
	"\xef\xbb\xbfpackage main\nfunc main() { x := 1.5e3 + .5 + 0x1p-2 + 3i; _ = x }\n",
}

// treeSeeds are multi-file template trees (extends / import / render).
var treeSeeds = []map[string]string{
	{"index.html": `{% extends "layout.html" %}{% macro Body %}<b>{{ t }}</b>{% end %}{% var t = "x" %}`,
		"layout.html": `<html>{{ Body() }}{{ render "p.html" }}</html>`, "p.html": `<i>p</i>`},
	{"index.html": `{% import "m.html" %}{% import n "n.html" %}{{ M(1) }}{{ n.N() }}`,
		"m.html": `{% macro M(a int) %}{{ a }}{% end %}`, "n.html": `{% macro N %}n{% end %}`},
	{"index.html": `{{ render "a.md" }}{{ render "b.js" }}<script>{{ render "b.js" }}</script><style>{{ render "c.css" }}</style>`,
		"a.md": "# t\nhttp://x.y\n", "b.js": `var a = 1;`, "c.css": `a{}`},
	{"index.md": "{% extends \"l.md\" %}{% macro T %}# t{% end %}", "l.md": "{{ T() }}\n    code\n"},
	{"index.html": `{% extends "a.html" %}`, "a.html": `{% extends "b.html" %}`, "b.html": `x`},
	{"index.html": `{% import "index.html" %}`},
	{"index.html": `{{ render "index.html" }}`},
	{"index.html": `{{ render "../x.html" }}{{ render "/abs.html" }}{{ render "missing.html" }}`},
}

// Dict are the lexer-relevant fragments the grammar-aware mutators insert.
var Dict = []string{
	"{{", "}}", "{%", "%}", "{%%", "%%}", "{#", "#}", "{##", "{{ a }}", "{% end %}", "{% raw %}", "{% end raw %}",
	"{% raw m %}", "{% end raw m %}", "{% end m %}", " raw ", " end ", "{% macro M %}", "{% macro M css %}", "{% macro M(a int) js %}",
	" html ", " js ", " css ", " json ", " markdown ", " string ", " using ", "; using html %}", "{% show a; using %}",
	"{% if x %}", "{% for %}", "{% switch %}", "{% select %}", "{% else %}", "{% extends \"l.html\" %}", "{% import \"m.html\" %}",
	"{{ render \"p.html\" }}", "<script>", "</script>", "</SCRIPT >", "<script type=\"", "application/ld+json", "text/javascript",
	"module", "text/css", "<style>", "</style>", "</style\n", "<style type='", "<![CDATA[", "]]>", "<a href=\"", "<a href=", "<img src=",
	" srcset='", " data-src=", " xmlns:x=\"", " data-x=", "<form action=\"", "http://", "https://", "http://a.b", "\"", "'", "`",
	"\\", "\\\\", "\\\"", "\\'", "\n", "\r", "\r\n", "\n\r", "\t", "    ", " ", "/*", "*/", "//", "#!", "\xef\xbb\xbf", "\x00", "é", "世",
	"\u00a0", "\u2028", "\u2029", "\xe2\x80", "\u0085", "ſ", "\u212a", "\ufffe", "\U0001ffff", "\xff", "\xc3", "\xe2\x82", "\xed\xa0\x80", "\xf4\x90\x80\x80", "\x80", "0x", "0b1",
	"0o8", "1e", "1_", "0_x", ".5", "1.e+", "0x1.p", "0x.p1", "08", "09i", "'\\x", "\"\\u12", "'\\U0010FFFF'", "'\\400'", "\"\\q\"", "''", "'ab'",
	"<", ">", "/", "=", "/>", "<a", "<a ", "</", "!", "?", ".", ",", ";", ":", "(", ")", "[", "]", "{", "}", "}}}", "%", "%%", "#", "&^=", "<<=", "...", "<-",
	"++", "--", ":=", "==", "!=", "&&", "||", "a", "_", "x1", "break", "return", "fallthrough", "continue", "func", "package main\n",
}

var litFiles = []string{
	"internal/compiler/lexer_test.go", "internal/compiler/parser_test.go", "templates_test.go",
	"test/misc/templates_test.go", "test/misc/multi_file_template_test.go", "test/misc/escape_test.go",
	"internal/compiler/checker_test.go",
}

// LoadCorpus reads the template and program corpus from the repository.
func LoadCorpus(maxTemplate, maxProgram int) *Corpus {
	repo := Repo()
	c := &Corpus{}
	seen := map[string]bool{}
	add := func(name string, format int, data []byte) {
		k := strconv.Itoa(format) + ":" + string(data)
		if len(data) < 2 || seen[k] {
			return
		}
		seen[k] = true
		s := Source{Name: name, Format: format, Data: data}
		if format < 0 {
			if len(data) <= maxProgram {
				c.Programs = append(c.Programs, s)
			}
		} else if len(data) <= maxTemplate {
			c.Templates = append(c.Templates, s)
		}
	}
	for i, s := range seeds {
		add("seed"+strconv.Itoa(i), s.format, []byte(s.src))
	}
	for i, s := range programSeeds {
		add("pseed"+strconv.Itoa(i), -1, []byte(s))
	}
	for _, t := range treeSeeds {
		b := BuildCase{Kind: 't', Files: map[string][]byte{}}
		for n, d := range t {
			b.Files[n] = []byte(d)
			if strings.HasPrefix(n, "index.") {
				b.Entry = n
			}
		}
		c.Trees = append(c.Trees, b)
	}
	// files of the test suites
	var files []string
	filepath.WalkDir(filepath.Join(repo, "test/compare/testdata"), func(p string, d os.DirEntry, err error) error {
		if err == nil && !d.IsDir() {
			files = append(files, p)
		}
		return nil
	})
	sort.Strings(files)
	for _, p := range files {
		ext := strings.ToLower(filepath.Ext(p))
		data, err := os.ReadFile(p)
		if err != nil {
			continue
		}
		rel, _ := filepath.Rel(repo, p)
		switch ext {
		case ".go":
			add(rel, -1, data)
		case ".html", ".md", ".css", ".js", ".json", ".txt":
			add(rel, formatOf(p), data)
		}
	}
	// directories holding a template tree
	for _, p := range files {
		dir := filepath.Dir(p)
		if !strings.HasSuffix(dir, ".dir") || filepath.Base(p) != "index.html" {
			continue
		}
		b := BuildCase{Kind: 't', Entry: "index.html", Files: map[string][]byte{}}
		filepath.WalkDir(dir, func(q string, d os.DirEntry, err error) error {
			if err == nil && !d.IsDir() {
				if data, err := os.ReadFile(q); err == nil {
					rel, _ := filepath.Rel(dir, q)
					b.Files[filepath.ToSlash(rel)] = data
				}
			}
			return nil
		})
		c.Trees = append(c.Trees, b)
	}
	// string literals of the test files: template and program snippets
	fset := token.NewFileSet()
	for _, f := range litFiles {
		file, err := parser.ParseFile(fset, filepath.Join(repo, f), nil, parser.SkipObjectResolution)
		if err != nil {
			continue
		}
		n := 0
		ast.Inspect(file, func(node ast.Node) bool {
			lit, ok := node.(*ast.BasicLit)
			if !ok || lit.Kind != token.STRING {
				return true
			}
			s, err := strconv.Unquote(lit.Value)
			if err != nil || len(s) < 3 {
				return true
			}
			n++
			name := f + "#" + strconv.Itoa(n)
			if strings.HasPrefix(s, "package ") {
				add(name, -1, []byte(s))
			} else {
				format := 1
				switch {
				case strings.Contains(f, "lexer_test") && n%7 == 0:
					format = 5
				case n%11 == 3:
					format = n % 6
				}
				add(name, format, []byte(s))
			}
			return true
		})
	}
	return c
}

var alphabet = []byte("{}%#<>/\"'=\\\n\r \t![]-.:?&;`_()*+,|^0189abcdefhilnoprstuwxyEX")

// RandomBytes is a string of n bytes over an alphabet biased to what the lexer looks at.
func RandomBytes(r *proto.Rand, n int) []byte {
	b := make([]byte, 0, n+8)
	for len(b) < n {
		switch r.Intn(12) {
		case 0:
			b = append(b, byte(r.U64()))
		case 1, 2:
			b = append(b, Dict[r.Intn(len(Dict))]...)
		default:
			b = append(b, alphabet[r.Intn(len(alphabet))])
		}
	}
	return b
}

var tokRe = regexp.MustCompile("(?s)[A-Za-z_][A-Za-z0-9_]*|[0-9][0-9a-zA-Z_.]*|\"(?:\\\\.|[^\"\\\\\n])*\"|`[^`]*`|'(?:\\\\.|[^'\\\\\n])*'|" +
	`\{\{|\}\}|\{%%?|%%?\}|\{#|#\}|</?[a-zA-Z]+|[ \t]+|\r?\n|<<=|>>=|&\^=|&\^|\.\.\.|[-+*/%&|^<>=!:]=|&&|\|\||<-|\+\+|--|<<|>>|.`)

// Tokens splits src into approximate lexical tokens (for token-level mutants).
func Tokens(src []byte) [][]byte {
	return tokRe.FindAll(src, -1)
}

// Mutate applies one to three byte-level or grammar-aware mutations.
func Mutate(r *proto.Rand, src []byte, others func() []byte) []byte {
	out := append([]byte(nil), src...)
	for k := 1 + r.Intn(3); k > 0; k-- {
		out = mutate1(r, out, others)
	}
	return out
}

func cut(b []byte, i, j int) []byte { return append(append([]byte(nil), b[:i]...), b[j:]...) }
func ins(b []byte, i int, x []byte) []byte {
	return append(append(append([]byte(nil), b[:i]...), x...), b[i:]...)
}

func mutate1(r *proto.Rand, b []byte, others func() []byte) []byte {
	n := len(b)
	pos := func() int { return r.Intn(n + 1) }
	switch r.Intn(14) {
	case 0: // insert a dictionary fragment
		return ins(b, pos(), []byte(Dict[r.Intn(len(Dict))]))
	case 1: // delete a short range
		if n == 0 {
			return b
		}
		i := r.Intn(n)
		j := min(n, i+1+r.Intn(6))
		return cut(b, i, j)
	case 2: // replace a range by a fragment
		if n == 0 {
			return b
		}
		i := r.Intn(n)
		j := min(n, i+1+r.Intn(4))
		return ins(cut(b, i, j), i, []byte(Dict[r.Intn(len(Dict))]))
	case 3: // duplicate a range
		if n == 0 {
			return b
		}
		i := r.Intn(n)
		j := min(n, i+1+r.Intn(12))
		return ins(b, pos(), b[i:j])
	case 4: // flip a byte
		if n == 0 {
			return b
		}
		c := append([]byte(nil), b...)
		c[r.Intn(n)] ^= 1 << r.Intn(8)
		return c
	case 5: // random byte
		return ins(b, pos(), []byte{byte(r.U64())})
	case 6: // truncate
		return append([]byte(nil), b[:pos()]...)
	case 7: // splice with another source
		o := others()
		if len(o) == 0 {
			return b
		}
		return append(append([]byte(nil), b[:pos()]...), o[r.Intn(len(o)+1):]...)
	case 8, 9, 10: // token level: delete, duplicate, swap, replace
		t := Tokens(b)
		if len(t) < 2 {
			return b
		}
		i, j := r.Intn(len(t)), r.Intn(len(t))
		switch r.Intn(4) {
		case 0:
			t = append(t[:i:i], t[i+1:]...)
		case 1:
			t = append(t[:i:i], append([][]byte{t[j]}, t[i:]...)...)
		case 2:
			t[i], t[j] = t[j], t[i]
		default:
			t[i] = []byte(Dict[r.Intn(len(Dict))])
		}
		return bytesJoin(t)
	case 11: // drop the tail from a delimiter on
		d := []string{"}}", "%}", "#}", "%%}", "\"", "'", ">", "`", "*/"}[r.Intn(9)]
		if i := strings.LastIndex(string(b), d); i >= 0 {
			return append([]byte(nil), b[:i+r.Intn(len(d)+1)]...)
		}
		return b
	case 12: // swap line endings
		s := string(b)
		switch r.Intn(3) {
		case 0:
			s = strings.ReplaceAll(s, "\n", "\r\n")
		case 1:
			s = strings.ReplaceAll(s, "\n", "\n\r")
		default:
			s = strings.ReplaceAll(s, " ", "\n")
		}
		return []byte(s)
	default: // wrap in a context
		w := [][2]string{{"<script>", "</script>"}, {"<style>", "</style>"}, {"<a href=\"", "\">"}, {"{% raw %}", "{% end %}"},
			{"{# ", " #}"}, {"<![CDATA[", "]]>"}, {"{% macro M js %}", "{% end %}"}, {"<script type=\"", "\">"}, {"    ", "\n"}}[r.Intn(9)]
		return append(append([]byte(w[0]), b...), w[1]...)
	}
}

func bytesJoin(t [][]byte) []byte {
	var out []byte
	for _, x := range t {
		out = append(out, x...)
	}
	return out
}
