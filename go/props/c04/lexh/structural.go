package lexh

// Structural stream: for every block construct of the template dialect, every kind of item
// inserted at every structural position (after the header, between the clauses, before the end,
// after the end). Deterministic enumeration; the caller assigns formats.

// a construct is a sequence of pieces: header, clauses, end; bodies are the text between them
type construct struct {
	name   string
	pieces []string
}

var constructs = []construct{
	{"if", []string{"{% if a %}", "{% else if b %}", "{% else %}", "{% end %}"}},
	{"if-named-end", []string{"{% if a %}", "{% end if %}"}},
	{"for-range", []string{"{% for i, v := range s %}", "{% else %}", "{% end for %}"}},
	{"for-in", []string{"{% for v in s %}", "{% end %}"}},
	{"for-cond", []string{"{% for i := 0; i < 2; i++ %}", "{% end %}"}},
	{"switch", []string{"{% switch x %}", "{% case 1 %}", "{% case 2, 3 %}", "{% default %}", "{% end switch %}"}},
	{"switch-init", []string{"{% switch y := x; y %}", "{% case 1 %}", "{% end %}"}},
	{"type-switch", []string{"{% switch v := x.(type) %}", "{% case int %}", "{% default %}", "{% end %}"}},
	{"select", []string{"{% select %}", "{% case <-ch %}", "{% case v := <-ch %}", "{% default %}", "{% end select %}"}},
	{"macro", []string{"{% macro M %}", "{% end macro %}"}},
	{"macro-typed", []string{"{% macro M(a int) js %}", "{% end %}"}},
	{"raw", []string{"{% raw %}", "{% end raw %}"}},
	{"raw-marker", []string{"{% raw code %}", "{% end raw code %}"}},
	{"using", []string{"{% show M(); using %}", "{% end using %}"}},
	{"using-typed", []string{"{% var a = itea; using html %}", "{% end %}"}},
	{"statements", []string{"{%% if a {", "} else {", "} %%}"}},
	{"url-attr", []string{"<a href=\"", "\">"}},
	{"script", []string{"<script>", "</script>"}},
	{"extends", []string{"{% extends \"layout.html\" %}", "{% macro Body %}", "{% end %}"}},
	{"import", []string{"{% import \"m.html\" %}", "{% import n \"n.html\" %}"}},
}

// items are what is inserted
var items = []string{
	"{# c #}", "{# a\nb #}", "t", " \n ", "{{ a }}", "{{ render \"p.html\" }}", "{% x := 1 %}", "{%% y := 2 %%}",
	"{% raw %}r{% end %}", "{% raw m %}r{% end raw m %}", "{% if a %}", "{% for v in s %}", "{% switch x %}", "{% select %}",
	"{% macro N %}", "{% show M(); using %}", "{% case 1 %}", "{% case int %}", "{% default %}", "{% else %}",
	"{% else if b %}", "{% end %}", "{% end if %}", "{% end for %}", "{% end switch %}", "{% end raw %}", "{% endcode %}",
	"{% end raw code %}", "{% break %}", "{% continue %}", "{% fallthrough %}", "{% return %}", "{% extends \"l.html\" %}",
	"{% import \"m.html\" %}", "{% var z = 1 %}", "{% L: for %}", "{% continue L %}", "{% goto L %}", "{% if a %}u{% end %}",
	"<b>", "\"", "{{", "%}", "{%",
}

// Structural enumerates the templates: each construct with bodies "x", with one item inserted at
// one position (position 0 is before the header, k is after piece k).
func Structural() []string {
	var out []string
	for _, c := range constructs {
		for pos := 0; pos <= len(c.pieces); pos++ {
			for _, it := range items {
				var b []byte
				for k, p := range c.pieces {
					if k == pos {
						b = append(b, it...)
					}
					b = append(b, p...)
					if k < len(c.pieces)-1 {
						b = append(b, 'x')
					}
				}
				if pos == len(c.pieces) {
					b = append(b, it...)
				}
				out = append(out, string(b))
				// the item directly after the piece, without the body text between
				if pos > 0 && pos < len(c.pieces) {
					var d []byte
					for k, p := range c.pieces {
						d = append(d, p...)
						if k == pos-1 {
							d = append(d, it...)
						} else if k < len(c.pieces)-1 {
							d = append(d, 'x')
						}
					}
					out = append(out, string(d))
				}
			}
		}
	}
	return out
}

// NonASCII is the stream "non-ASCII inside every lexical element of a code region, followed on the
// same line by an error position": programs and the three kinds of template code regions; 2-, 3- and
// 4-byte runes (and invalid UTF-8 inside comments, where the lexer accepts it). The position oracle
// then catches any element whose column accounting is in bytes instead of runes.
func NonASCII() []Source {
	runes := []string{"é", "世", "😀", "é世😀", "\xff", "\xc3", "\xe4\xb8"}
	type elem struct {
		name string
		mk   func(r string) string
		any  bool // accepts invalid UTF-8 and non-letters
	}
	elems := []elem{
		{"block-comment", func(r string) string { return "/* " + r + " */ 1" }, true},
		{"block-comment-2", func(r string) string { return "/*" + r + "*/ /* a" + r + " */ 1" }, true},
		{"string", func(r string) string { return "\"a" + r + "\"" }, false},
		{"raw-string", func(r string) string { return "`" + r + "b`" }, false},
		{"rune", func(r string) string { return "'" + r + "'" }, false},
		{"ident", func(r string) string { return "x" + r }, false},
		{"string-escape", func(r string) string { return "\"\\t" + r + "\\u00e9\"" }, false},
	}
	errs := []string{" + undefinedZ", " )", " + 08", " \"\\q\"", " + 'ab'"}
	var out []Source
	add := func(name string, format int, src string) {
		out = append(out, Source{Name: "nonascii-" + name, Format: format, Data: []byte(src)})
	}
	for _, e := range elems {
		for _, r := range runes {
			valid := r == "é" || r == "世" || r == "😀" || r == "é世😀"
			if !valid && !e.any {
				continue
			}
			if e.name == "rune" && len([]rune(r)) != 1 {
				continue
			}
			if e.name == "ident" && (r == "😀" || r == "é世😀") {
				continue
			}
			el := e.mk(r)
			for _, er := range errs {
				add(e.name, -1, "package main\nfunc main() { _ = "+el+er+" }\n")
				add(e.name, -1, "package main\nvar a = "+el+er+"\n")
				add(e.name, 1, "{{ "+el+er+" }}")
				add(e.name, 1, "<b>é</b>{% var a = "+el+er+" %}")
				add(e.name, 5, "{%% a := "+el+er+" %%}")
				add(e.name, 3, "x{{ "+el+" }}{{ "+el+er+" }}")
			}
			// a line comment, then the error on the next line after another element
			add(e.name+"-line-comment", -1, "package main\nfunc main() { // "+r+"\n\t_ = "+el+" + undefinedZ }\n")
			add(e.name+"-line-comment", 1, "{%% // "+r+"\n a := "+el+" + undefinedZ %%}")
		}
	}
	return out
}
