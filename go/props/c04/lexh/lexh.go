// Package lexh holds what the C04 and C21 harnesses share: the protocol line and canonical
// answer of the lexer model, the child-process runner for crash-prone inputs (a panic in
// the lexer goroutine kills the process), the build oracle, corpus loading and mutators.
package lexh

import (
	"fmt"
	"regexp"
	"sort"
	"strings"
	"unicode"
	"unicode/utf8"

	"github.com/open2b/scriggo/verifhook/c04"

	"verifharness/internal/proto"
)

// Case is one lexer input.
type Case struct {
	Mode   byte // 't' template, 'p' program
	Format int  // 0..5 (templates)
	NPS    bool // noParseShow
	Src    []byte
}

func (c Case) Key() string {
	return fmt.Sprintf("%c%d%v:%s", c.Mode, c.Format, c.NPS, c.Src)
}

// Classes returns the classification table of every non-ASCII rune that decoding src at any
// byte offset yields (the model's unicode predicates are parameters; the driver is
// instantiated with this table — exact for this input).
func Classes(src []byte) string {
	seen := map[rune]bool{}
	var rs []rune
	for i := range src {
		if src[i] < utf8.RuneSelf {
			continue
		}
		r, _ := utf8.DecodeRune(src[i:])
		if !seen[r] {
			seen[r] = true
			rs = append(rs, r)
		}
	}
	if len(rs) == 0 {
		return "-"
	}
	sort.Slice(rs, func(i, j int) bool { return rs[i] < rs[j] })
	parts := make([]string, len(rs))
	for i, r := range rs {
		f := 0
		if unicode.IsLetter(r) {
			f |= 1
		}
		if unicode.IsDigit(r) {
			f |= 2
		}
		if unicode.IsGraphic(r) {
			f |= 4
		}
		if unicode.Is(unicode.Noncharacter_Code_Point, r) {
			f |= 8
		}
		if unicode.IsSpace(r) {
			f |= 16
		}
		parts[i] = fmt.Sprintf("%d:%d:%d", r, f, unicode.ToLower(r))
	}
	return strings.Join(parts, ",")
}

// ModelLine is the request line for the Lean driver of property prop.
func ModelLine(prop string, c Case) string {
	nps := "0"
	if c.NPS {
		nps = "1"
	}
	return fmt.Sprintf("%s scan %c %d %s %s %s", prop, c.Mode, c.Format, nps, proto.Hex(c.Src), Classes(c.Src))
}

var errKinds = []struct {
	re   *regexp.Regexp
	kind string
}{
	{regexp.MustCompile(`^unexpected #}$`), "unexpectedHashBrace"},
	{regexp.MustCompile(`^comment not terminated$`), "commentNotTerminated"},
	{regexp.MustCompile(`^unexpected EOF, expecting `), "unexpectedEOF"},
	{regexp.MustCompile(`^invalid BOM in the middle of the file$`), "bom"},
	{regexp.MustCompile(`^unexpected %}, expecting `), "unexpectedEndStmt"},
	{regexp.MustCompile(`^unexpected %%}, expecting `), "unexpectedEndStmts"},
	{regexp.MustCompile(`^unexpected NUL in input$`), "nul"},
	{regexp.MustCompile(`^identifier cannot begin with digit `), "identDigit"},
	{regexp.MustCompile(`^invalid character U\+`), "invalidChar"},
	{regexp.MustCompile(`^string not terminated$`), "stringNotTerminated"},
	{regexp.MustCompile(`^newline in string$`), "newlineInString"},
	{regexp.MustCompile(`^invalid UTF-8 encoding$`), "invalidUTF8"},
	{regexp.MustCompile(`^unknown escape$`), "unknownEscape"},
	{regexp.MustCompile(`(?s)^invalid character .* in hexadecimal escape$`), "hexEscapeChar"},
	{regexp.MustCompile(`(?s)^invalid character .* in octal escape$`), "octEscapeChar"},
	{regexp.MustCompile(`^octal escape value \d+ > 255$`), "octTooBig"},
	{regexp.MustCompile(`^escape is invalid Unicode code point `), "invalidCodePoint"},
	{regexp.MustCompile(`^rune literal not terminated$`), "runeNotTerminated"},
	{regexp.MustCompile(`^newline in rune literal$`), "newlineInRune"},
	{regexp.MustCompile(`^empty character literal or unescaped ' in character literal$`), "emptyRune"},
	{regexp.MustCompile(`^'_' must separate successive digits$`), "underscoreSep"},
	{regexp.MustCompile(`^invalid radix point in `), "radixPoint"},
	{regexp.MustCompile(`^hexadecimal mantissa requires a 'p' exponent$`), "hexMantissaP"},
	{regexp.MustCompile(`^invalid digit '.' in (octal|binary) literal$`), "invalidDigit"},
	{regexp.MustCompile(`^'.' exponent requires decimal mantissa$`), "expDecimalMantissa"},
	{regexp.MustCompile(`^'.' exponent requires hexadecimal mantissa$`), "expHexMantissa"},
	{regexp.MustCompile(`^(binary|octal|hexadecimal) literal has no digits$`), "noDigits"},
	{regexp.MustCompile(`^exponent has no digits$`), "expNoDigits"},
}

// ErrKind maps a lexer error message to the model's message class.
func ErrKind(msg string) string {
	for _, k := range errKinds {
		if k.re.MatchString(msg) {
			return k.kind
		}
	}
	return "unknown(" + msg + ")"
}

// Canon renders the real lexer's result in the format of the Lean driver's answer.
func Canon(toks []c04.Token, e *c04.Error) string {
	var b strings.Builder
	fmt.Fprintf(&b, "ok %d ", len(toks))
	if len(toks) == 0 {
		b.WriteString("-")
	}
	for i, t := range toks {
		if i > 0 {
			b.WriteByte(';')
		}
		fmt.Fprintf(&b, "%d,%d,%d,%d,%d,%d,%s,%s,%d,%d", t.Typ, t.Start, t.End, t.Line, t.Column, t.Ctx,
			proto.Hex([]byte(t.Tag)), proto.Hex([]byte(t.Att)), t.Lin, t.TxtLen)
	}
	b.WriteString(" E ")
	if e == nil {
		b.WriteString("-")
	} else {
		fmt.Fprintf(&b, "%s,%d,%d,%d", ErrKind(e.Msg), e.Start, e.Line, e.Column)
	}
	return b.String()
}

// LexLine is the request line for the lex child.
func LexLine(c Case) string {
	nps := "0"
	if c.NPS {
		nps = "1"
	}
	return fmt.Sprintf("%c %d %s %s", c.Mode, c.Format, nps, proto.Hex(c.Src))
}

// ParseLexLine is the inverse of LexLine.
func ParseLexLine(l string) (Case, error) {
	f := strings.Fields(l)
	if len(f) != 4 || len(f[0]) != 1 {
		return Case{}, fmt.Errorf("bad lex line %q", l)
	}
	var c Case
	c.Mode = f[0][0]
	fmt.Sscanf(f[1], "%d", &c.Format)
	c.NPS = f[2] == "1"
	src, err := proto.UnHex(f[3])
	if err != nil {
		return Case{}, err
	}
	c.Src = src
	return c, nil
}

// LexReal runs the real lexer in this process (a panic kills it) and returns the canonical answer.
func LexReal(c Case) string {
	toks, e := c04.Scan(c.Src, c.Format, c.Mode == 'p', c.NPS)
	return Canon(toks, e)
}

// Tok is a parsed token of a canonical answer.
type Tok struct {
	Typ, Start, End, Line, Col, Ctx int
	Tag, Att                        string
	Lin, Len                        int
}

// Answer is a parsed canonical answer.
type Answer struct {
	Fault string // "err <fault>" of the model, or CRASH/HANG markers of the child runner
	Toks  []Tok
	Err   *struct {
		Kind             string
		Start, Line, Col int
	}
}

// ParseAnswer parses "ok n toks E err".
func ParseAnswer(s string) (*Answer, error) {
	if !strings.HasPrefix(s, "ok ") {
		return &Answer{Fault: s}, nil
	}
	f := strings.Split(s, " ")
	if len(f) != 5 || f[3] != "E" {
		return nil, fmt.Errorf("bad answer %q", s)
	}
	a := &Answer{}
	if f[2] != "-" {
		for _, ts := range strings.Split(f[2], ";") {
			p := strings.Split(ts, ",")
			if len(p) != 10 {
				return nil, fmt.Errorf("bad token %q", ts)
			}
			var t Tok
			fmt.Sscanf(p[0], "%d", &t.Typ)
			fmt.Sscanf(p[1], "%d", &t.Start)
			fmt.Sscanf(p[2], "%d", &t.End)
			fmt.Sscanf(p[3], "%d", &t.Line)
			fmt.Sscanf(p[4], "%d", &t.Col)
			fmt.Sscanf(p[5], "%d", &t.Ctx)
			tag, _ := proto.UnHex(p[6])
			att, _ := proto.UnHex(p[7])
			t.Tag, t.Att = string(tag), string(att)
			fmt.Sscanf(p[8], "%d", &t.Lin)
			fmt.Sscanf(p[9], "%d", &t.Len)
			a.Toks = append(a.Toks, t)
		}
	}
	if f[4] != "-" {
		p := strings.Split(f[4], ",")
		if len(p) != 4 {
			return nil, fmt.Errorf("bad error %q", f[4])
		}
		e := &struct {
			Kind             string
			Start, Line, Col int
		}{Kind: p[0]}
		fmt.Sscanf(p[1], "%d", &e.Start)
		fmt.Sscanf(p[2], "%d", &e.Line)
		fmt.Sscanf(p[3], "%d", &e.Col)
		a.Err = e
	}
	return a, nil
}

// LineCol recomputes line and column of a byte offset independently of the lexer: lines
// are separated by '\n'; the column counts the characters since the last '\n' (a character
// is counted at its first byte, i.e. every byte that is not a UTF-8 continuation byte; a
// byte order mark at the start of the file is not counted).
func LineCol(src []byte, off int) (line, col int) {
	line, col = 1, 1
	if off > len(src) {
		off = len(src)
	}
	if off >= 3 && src[0] == 0xEF && src[1] == 0xBB && src[2] == 0xBF {
		col = 0 // a byte order mark at the start of the file is not a character of the first line
	}
	for _, b := range src[:off] {
		switch {
		case b == '\n':
			line++
			col = 1
		case b&0xC0 != 0x80:
			col++
		}
	}
	return
}
