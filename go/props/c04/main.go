package main

import (
	"crypto/sha1"
	"encoding/json"
	"flag"
	"fmt"
	"os"
	"path"
	"regexp"
	"sort"
	"strings"
	"time"
	"unicode/utf8"

	"verifharness/internal/hx"
	"verifharness/internal/proto"
	"verifharness/props/c04/lexh"
)

// C04: building never crashes, hangs or leaks, whatever the source bytes.
//
//	(a) correspondence: token stream of the real lexer (run in a child process: a panic in the
//	    lexer goroutine kills the process) vs. the Lean model Model/Lexer;
//	(b) the property's oracle on the real code, independent of the model: BuildTemplate / Build /
//	    Disassemble in a child process — no panic, no crash, answer within a timeout, goroutine
//	    count back to the baseline, error of a documented type. This end-to-end run is the only
//	    coverage of the parser, type checker, emitter and disassembler.
func main() {
	if mode, ok := lexh.IsChild(); ok {
		switch mode {
		case "lex":
			lexh.ChildMain(lexh.LexChildHandle)
		case "build":
			lexh.ChildMain(lexh.BuildChildHandle)
		default:
			os.Exit(2)
		}
		return
	}
	hx.Main("C04", run)
}

type lexCase struct {
	lexh.Case
	origin string
}

func human(c lexh.Case) string {
	if c.Mode == 'p' {
		return fmt.Sprintf("scanProgram(%q)", c.Src)
	}
	return fmt.Sprintf("scanTemplate(%q, format=%d, noParseShow=%v)", c.Src, c.Format, c.NPS)
}

func humanBuild(b lexh.BuildCase) string {
	goStmt := ""
	if b.GoStmt() {
		goStmt = "AllowGoStmt; "
	}
	if b.Natives() {
		goStmt += "native package nat; "
	}
	if b.Program() && len(b.Files) == 1 {
		return fmt.Sprintf("Build(%smain.go=%q)", goStmt, b.Files["main.go"])
	}
	var parts []string
	for _, n := range sortedNames(b.Files) {
		parts = append(parts, fmt.Sprintf("%s=%q", n, b.Files[n]))
	}
	if b.Program() {
		return fmt.Sprintf("Build(%s%s)", goStmt, strings.Join(parts, "; "))
	}
	return fmt.Sprintf("BuildTemplate(%s%q; %s)", goStmt, b.Entry, strings.Join(parts, "; "))
}

// genLex produces the lexer inputs of this run.
func genLex(c *hx.Ctx, r *proto.Rand, corpus *lexh.Corpus) []lexCase {
	var out []lexCase
	add := func(origin string, mode byte, format int, nps bool, src []byte) {
		out = append(out, lexCase{lexh.Case{Mode: mode, Format: format, NPS: nps, Src: src}, origin})
	}
	maxLen := c.N(200, 1500)
	window := func(d []byte) []byte {
		if len(d) <= maxLen {
			return d
		}
		i := r.Intn(len(d) - maxLen)
		return d[i : i+maxLen]
	}
	anySource := func() []byte {
		if r.Intn(4) == 0 && len(corpus.Programs) > 0 {
			return window(corpus.Programs[r.Intn(len(corpus.Programs))].Data)
		}
		return window(corpus.Templates[r.Intn(len(corpus.Templates))].Data)
	}
	// 1. arbitrary bytes
	for i := 0; i < c.N(4000, 60000); i++ {
		n := r.Intn(c.N(40, 120))
		b := lexh.RandomBytes(r, n)
		if r.Intn(8) == 0 {
			add("random", 'p', 0, false, b)
		} else {
			add("random", 't', r.Intn(6), r.Intn(16) == 0, b)
		}
	}
	// 2. the corpus itself, in its own format and (short ones) in every format
	for _, s := range corpus.Templates {
		if len(s.Data) > c.N(1200, 20000) {
			continue
		}
		add("corpus", 't', s.Format, false, s.Data)
		if len(s.Data) <= 120 {
			for f := 0; f < 6; f++ {
				if f != s.Format {
					add("corpus-otherformat", 't', f, false, s.Data)
				}
			}
		}
	}
	for _, s := range corpus.Programs {
		if len(s.Data) <= c.N(1200, 20000) {
			add("corpus", 'p', 0, false, s.Data)
		}
	}
	// 3. every truncation of the hand-written seeds (they reach every branch of the template lexer)
	for _, s := range corpus.Templates {
		if !strings.HasPrefix(s.Name, "seed") {
			continue
		}
		for k := 0; k <= len(s.Data); k++ {
			add("truncation-seed", 't', s.Format, false, s.Data[:k])
		}
	}
	for _, s := range corpus.Programs {
		if !strings.HasPrefix(s.Name, "pseed") {
			continue
		}
		for k := 0; k <= len(s.Data); k += 1 + k/64 {
			add("truncation-seed", 'p', 0, false, s.Data[:k])
		}
	}
	// 3b. the structural stream: every item at every position of every block construct, in HTML and, in turn,
	// in the other formats (thorough: in all six)
	for i, t := range lexh.Structural() {
		add("structural", 't', 1, false, []byte(t))
		if c.Quick() {
			add("structural", 't', []int{0, 2, 3, 4, 5}[i%5], false, []byte(t))
		} else {
			for _, f := range []int{0, 2, 3, 4, 5} {
				add("structural", 't', f, false, []byte(t))
			}
		}
	}
	// and of sampled valid sources
	for i := 0; i < c.N(40, 400); i++ {
		var s lexh.Source
		if r.Intn(5) == 0 && len(corpus.Programs) > 0 {
			s = corpus.Programs[r.Intn(len(corpus.Programs))]
		} else {
			s = corpus.Templates[r.Intn(len(corpus.Templates))]
		}
		d := s.Data
		if len(d) > c.N(160, 1200) {
			d = d[:c.N(160, 1200)]
		}
		for k := 0; k <= len(d); k++ {
			if s.Format < 0 {
				add("truncation", 'p', 0, false, d[:k])
			} else {
				add("truncation", 't', s.Format, false, d[:k])
			}
		}
	}
	// 4. grammar-aware mutants
	for i := 0; i < c.N(9000, 150000); i++ {
		if r.Intn(5) == 0 && len(corpus.Programs) > 0 {
			s := corpus.Programs[r.Intn(len(corpus.Programs))]
			add("mutant", 'p', 0, false, lexh.Mutate(r, window(s.Data), anySource))
			continue
		}
		s := corpus.Templates[r.Intn(len(corpus.Templates))]
		f := s.Format
		if r.Intn(4) == 0 {
			f = r.Intn(6)
		}
		add("mutant", 't', f, r.Intn(24) == 0, lexh.Mutate(r, window(s.Data), anySource))
	}
	return out
}

// buildCaseOf wraps a lexer input as an end-to-end build.
func buildCaseOf(c lexh.Case) lexh.BuildCase {
	if c.Mode == 'p' {
		return lexh.BuildCase{Kind: 'p', Entry: "main.go", Files: map[string][]byte{"main.go": c.Src}}
	}
	name := "index" + lexh.ExtOf(c.Format)
	return lexh.BuildCase{Kind: 't', Entry: name, Files: map[string][]byte{name: c.Src}}
}

// documented error types of Build / BuildTemplate
func buildClause(res lexh.BuildResult) string {
	switch {
	case strings.HasPrefix(res.Status, "CRASH"):
		return "no-crash"
	case res.Status == "OOM":
		return "no-crash" // the heap limit of the child stands for the host's memory
	case res.Status == "HANG":
		return "returns-in-time"
	case res.Status == "panic":
		return "no-panic"
	case res.Status == "disasm-panic":
		return "disassemble-no-panic"
	case res.Status == "othererror":
		return "documented-error-type"
	case res.Status == "ok" || res.Status == "builderror" || res.Status == "notexist":
		if res.Leak > 0 {
			return "no-goroutine-left"
		}
		return ""
	}
	return "harness-protocol(" + res.Status + ")"
}

func run(c *hx.Ctx) error {
	res := c.Res
	res.Rule = "lexer inputs: arbitrary byte strings over a lexer-biased alphabet; the template/program corpus of /repo (test/compare/testdata, string literals of the lexer/parser/template tests, hand-written seeds) in its own and in every other format; every truncation of sampled sources; grammar-aware mutants (delimiter/keyword/tag fragments, token delete/duplicate/swap, byte flips, splices, wraps); all six formats, noParseShow on and off, program mode. Non-trivial = the real lexer emits at least three tokens (i.e. anything but plain text); distinct by (mode, format, bytes). Build inputs: a sample of the same single files plus mutants of multi-file trees (extends/import/render) plus the stream forms × modifiers × roles (lexh/forms.go: every declaration/statement form of templates and programs, with every modifier — `; using`, trailing tokens, empty/missing/duplicated/swapped clauses, wrong delimiters, token prefixes, nestings — in every file role — main, extending, layout, imported, partial, macro body with format, script/style/attribute, the six formats, program main and imported package; histogram keys forms-role-*, forms-mod-*, forms-category-*, forms-status-*); non-trivial = built or rejected with a *BuildError."
	corpus := lexh.LoadCorpus(c.N(6000, 40000), c.N(6000, 40000))
	res.Histogram["corpus-templates"] = len(corpus.Templates)
	res.Histogram["corpus-programs"] = len(corpus.Programs)
	res.Histogram["corpus-trees"] = len(corpus.Trees)
	if len(corpus.Templates) < 50 {
		return fmt.Errorf("corpus too small (%d templates): is VERIF_REPO right?", len(corpus.Templates))
	}

	lexRunner := &lexh.Runner{Mode: "lex", Timeout: 2 * time.Second}
	buildRunner := &lexh.Runner{Mode: "build", Timeout: 6 * time.Second}
	defer lexRunner.Close()
	defer buildRunner.Close()

	lexOne := func(cs lexh.Case) string { return lexRunner.Ask(lexh.LexLine(cs)) }
	modelOne := func(cs lexh.Case) string {
		if c.D == nil {
			return ""
		}
		a, err := c.D.Ask(lexh.ModelLine("C04", cs))
		if err != nil {
			return "driver-error"
		}
		return a
	}
	buildOne := func(b lexh.BuildCase) lexh.BuildResult { return lexh.ParseBuildResult(buildRunner.Ask(b.Line())) }
	isDown := func(s string) bool { return strings.HasPrefix(s, "CRASH") || strings.HasPrefix(s, "HANG") }

	// known findings: replay the exact minimal input on the real code
	alsoOf := map[string]string{} // case line -> id of the finding that lists it under "also" (confirmed ones only)
	knownFor := func(caseLine string) string {
		for _, f := range c.Findings {
			if f.Minimal == caseLine {
				return f.ID
			}
		}
		return alsoOf[caseLine]
	}
	knownSig := map[string]string{} // signature with which a recorded build finding fails on this tree
	// "also": further exact inputs of a recorded finding (same defect reached from another starting point of the
	// shrinker). Each is replayed here and counts only if it fails on this tree with the signature of the finding's
	// minimal input — a finding covers a finite list of inputs, every one of which is seen to fail.
	var alsoAll []struct {
		ID   string   `json:"id"`
		Prop string   `json:"property"`
		Also []string `json:"also"`
	}
	if fl := flag.Lookup("findings"); fl != nil && fl.Value.String() != "" {
		if data, err := os.ReadFile(fl.Value.String()); err == nil {
			var all struct {
				Findings json.RawMessage `json:"findings"`
			}
			if json.Unmarshal(data, &all) == nil {
				json.Unmarshal(all.Findings, &alsoAll)
			}
		}
	}
	for _, f := range c.Findings {
		switch {
		case strings.HasPrefix(f.Minimal, "lex "):
			cs, err := lexh.ParseLexLine(strings.TrimPrefix(f.Minimal, "lex "))
			if err != nil {
				return fmt.Errorf("known finding %s: %v", f.ID, err)
			}
			if real := lexOne(cs); isDown(real) {
				res.AddBreak(proto.Break{Kind: "property", Name: "lexer-no-crash", Case: "C04 " + f.Minimal, Human: human(cs),
					Impl: real, Model: modelOne(cs), Finding: f.ID})
			}
		case strings.HasPrefix(f.Minimal, "build "):
			b, err := lexh.ParseBuildLine(strings.TrimPrefix(f.Minimal, "build "))
			if err != nil {
				return fmt.Errorf("known finding %s: %v", f.ID, err)
			}
			if br := buildOne(b); buildClause(br) != "" {
				knownSig[f.ID] = buildClause(br) + "|" + normMsg(br.Msg) + "|" + br.Site
				res.AddBreak(proto.Break{Kind: "property", Name: buildClause(br), Case: "C04 " + f.Minimal, Human: humanBuild(b),
					Impl: br.Status + " " + br.Msg + " @" + br.Site, Model: "no panic, no crash, no hang, no leak", Finding: f.ID})
			}
		default:
			return fmt.Errorf("known finding %s: minimal must start with `lex ` or `build `", f.ID)
		}
	}

	for _, a := range alsoAll {
		if a.Prop != "C04" || knownSig[a.ID] == "" || !c.HasFinding(a.ID) {
			continue
		}
		for _, line := range a.Also {
			b, err := lexh.ParseBuildLine(strings.TrimPrefix(line, "build "))
			if err != nil || !strings.HasPrefix(line, "build ") {
				return fmt.Errorf("known finding %s: bad `also` entry %q", a.ID, line)
			}
			br := buildOne(b)
			if cl := buildClause(br); cl != "" && cl+"|"+normMsg(br.Msg)+"|"+br.Site == knownSig[a.ID] {
				alsoOf[line] = a.ID
				res.Hist("known-also-confirmed")
			} else {
				res.Hist("known-also-not-failing-alike")
			}
		}
	}

	// replay of a recorded failing case: run exactly it
	if c.Replay != "" {
		data, err := os.ReadFile(c.Replay)
		if err != nil { // ./check passes a path relative to /verif and runs the harness in /verif/go
			data, err = os.ReadFile("../" + c.Replay)
		}
		if err != nil {
			return err
		}
		var rp struct {
			Case string `json:"case"`
		}
		if json.Unmarshal(data, &rp) == nil && strings.HasPrefix(rp.Case, "C04 lex ") {
			cs, err := lexh.ParseLexLine(strings.TrimPrefix(rp.Case, "C04 lex "))
			if err != nil {
				return err
			}
			real, m := lexOne(cs), modelOne(cs)
			res.Count(cs.Key(), true)
			if isDown(real) {
				res.AddBreak(proto.Break{Kind: "property", Name: "lexer-no-crash", Case: rp.Case, Human: human(cs), Impl: real, Model: m, Finding: knownFor(strings.TrimPrefix(rp.Case, "C04 "))})
			} else if m != "" && m != real {
				res.AddBreak(proto.Break{Kind: "correspondence", Name: "token-stream model-vs-lexer", Case: rp.Case, Human: human(cs), Impl: real, Model: m})
			}
			return nil
		}
		if json.Unmarshal(data, &rp) == nil && strings.HasPrefix(rp.Case, "C04 build ") {
			b, err := lexh.ParseBuildLine(strings.TrimPrefix(rp.Case, "C04 build "))
			if err != nil {
				return err
			}
			br := buildOne(b)
			res.Count(b.Key(), true)
			if cl := buildClause(br); cl != "" {
				finding := knownFor(strings.TrimPrefix(rp.Case, "C04 "))
				if finding == "" && hugeArrayClass(c, b, br, buildOne) {
					finding = "huge-array-build-allocates" // confirmed by the counterfactual run
				}
				if finding == "" && disasmMultibyteClass(c, b, br, buildOne) {
					finding = "disassemble-rune-limit-multibyte"
				}
				res.AddBreak(proto.Break{Kind: "property", Name: cl, Case: rp.Case, Human: humanBuild(b), Impl: br.Status + " " + br.Msg + " @" + br.Site + " " + br.Detail,
					Model: "no panic, no crash, no hang, no leak", Finding: finding})
			}
			return nil
		}
	}

	r := proto.NewRand(c.R.U64()) // seeds of the shared PRNG are shifts of one sequence: re-key
	cases := genLex(c, r, corpus)
	if os.Getenv("VERIF_C04_ONLY") == "forms" {
		cases = nil
	}
	lexLines := make([]string, len(cases))
	modelLines := make([]string, len(cases))
	for i, cs := range cases {
		lexLines[i] = lexh.LexLine(cs.Case)
		modelLines[i] = lexh.ModelLine("C04", cs.Case)
	}
	t0 := time.Now()
	real, err := lexRunner.Run(lexLines)
	if err != nil {
		return err
	}
	res.Notes = append(res.Notes, fmt.Sprintf("lex child: %d inputs in %v", len(lexLines), time.Since(t0).Round(time.Millisecond)))
	t0 = time.Now()
	var model []string
	if c.D != nil {
		model, err = c.D.Batch(modelLines)
		if err != nil {
			return err
		}
	}
	res.Notes = append(res.Notes, fmt.Sprintf("model: %v", time.Since(t0).Round(time.Millisecond)))
	t0 = time.Now()
	shrunk := map[string]bool{} // one shrink per signature
	for i, cs := range cases {
		nontrivial := strings.Count(real[i], ";") >= 2
		res.Count(cs.Key(), nontrivial)
		res.Hist("lex-" + cs.origin)
		if cs.Mode == 'p' {
			res.Hist("lex-mode-program")
		} else {
			res.Hist(fmt.Sprintf("lex-format-%d", cs.Format))
		}
		if i%4999 == 0 && nontrivial {
			m := ""
			if model != nil {
				m = model[i]
			}
			res.Sample(map[string]string{"input": human(cs.Case), "line": modelLines[i], "model": m})
		}
		if real[i] == "SKIPPED" {
			res.Hist("lex-skipped-after-repeated-crashes")
			continue
		}
		if isDown(real[i]) {
			clause := "lexer-no-crash"
			if strings.HasPrefix(real[i], "HANG") {
				clause = "lexer-terminates"
			}
			sig := clause + "|" + real[i]
			if shrunk[sig] || len(shrunk) >= 8 {
				continue
			}
			shrunk[sig] = true
			kind := real[i][:4]
			min := cs.Case
			budget := 3000
			if kind == "HANG" {
				budget = 14 // every failing probe costs the timeout
			}
			min.Src = lexh.Shrink(cs.Src, func(b []byte) bool {
				x := cs.Case
				x.Src = b
				return strings.HasPrefix(lexOne(x), kind)
			}, budget)
			res.AddBreak(proto.Break{Kind: "property", Name: clause, Case: "C04 lex " + lexh.LexLine(min), Human: human(min),
				Impl: lexOne(min), Model: modelOne(min), Finding: knownFor("lex " + lexh.LexLine(min))})
			continue
		}
		if model != nil && model[i] != real[i] {
			if len(shrunk) >= 8 {
				res.AddBreak(proto.Break{Kind: "correspondence", Name: "token-stream model-vs-lexer", Case: modelLines[i],
					Human: human(cs.Case), Impl: real[i], Model: model[i]})
				continue
			}
			shrunk[fmt.Sprint("corr", i)] = true
			min := cs.Case
			min.Src = lexh.Shrink(cs.Src, func(b []byte) bool {
				x := cs.Case
				x.Src = b
				rl := lexOne(x)
				return !isDown(rl) && rl != modelOne(x)
			}, 3000)
			res.AddBreak(proto.Break{Kind: "correspondence", Name: "token-stream model-vs-lexer", Case: lexh.ModelLine("C04", min),
				Human: human(min), Impl: lexOne(min), Model: modelOne(min)})
		}
	}
	res.Notes = append(res.Notes, fmt.Sprintf("lex compare+shrink: %v", time.Since(t0).Round(time.Millisecond)))
	res.Histogram["lex-child-crashes"] = lexRunner.Crashes
	res.Histogram["lex-child-hangs"] = lexRunner.Hangs

	// (b) the property's oracle on the real code: end-to-end builds of a sample of the same inputs
	var builds []lexh.BuildCase
	var origins []string
	nb := c.N(9000, 120000)
	step := max(1, len(cases)/nb)
	for i := 0; i < len(cases); i++ {
		if i%step == 0 || cases[i].origin == "structural" {
			bc := buildCaseOf(cases[i].Case)
			if cases[i].origin == "structural" { // the files the structural items refer to
				for n, d := range structuralSupport {
					bc.Files[n] = []byte(d)
				}
			}
			builds = append(builds, bc)
			origins = append(origins, cases[i].origin)
		}
	}
	for i := 0; i < c.N(1500, 20000); i++ {
		t := corpus.Trees[r.Intn(len(corpus.Trees))]
		b := lexh.BuildCase{Kind: 't', Entry: t.Entry, Files: map[string][]byte{}}
		for n, d := range t.Files {
			b.Files[n] = d
		}
		if i >= len(corpus.Trees)*2 { // the first ones unmutated
			names := make([]string, 0, len(b.Files))
			for n := range t.Files {
				names = append(names, n)
			}
			sort.Strings(names)
			n := names[r.Intn(len(names))]
			b.Files[n] = lexh.Mutate(r, b.Files[n], func() []byte { return corpus.Templates[r.Intn(len(corpus.Templates))].Data })
			if r.Intn(10) == 0 {
				delete(b.Files, names[r.Intn(len(names))])
			}
		}
		builds = append(builds, b)
		origins = append(origins, "tree")
	}
	// forms × modifiers × roles: every declaration/statement form with every modifier in every file role
	// (lexh/forms.go), then a seeded-random part; VERIF_C04_ONLY=forms runs this stream alone (development aid)
	if os.Getenv("VERIF_C04_ONLY") == "forms" {
		builds, origins = nil, nil
	}
	formCases := lexh.Forms(r, c.Quick(), c.N(5000, 150000))
	formsAt := len(builds)
	for _, fc := range formCases {
		builds = append(builds, fc.BuildCase)
		origins = append(origins, "forms")
	}
	for k, v := range lexh.FormsCoverage(formCases) {
		res.Histogram[k] = v
	}
	res.Notes = append(res.Notes, lexh.FormsSummary())
	t0 = time.Now()
	// sources with huge array types (known finding huge-array-build-allocates) make the child run out of memory or
	// time: they run apart, so that they do not use up the allowance of crashes of the other inputs
	var plainIdx, hugeIdx []int
	for i, bc := range builds {
		if _, ch := smallArrays(bc); ch {
			hugeIdx = append(hugeIdx, i)
		} else {
			plainIdx = append(plainIdx, i)
		}
	}
	bans := make([]string, len(builds))
	for _, part := range []struct {
		idx     []int
		maxDown int
	}{{plainIdx, 0}, {hugeIdx, 60}} {
		// in chunks: the request lines of a thorough run would take gigabytes
		for lo := 0; lo < len(part.idx); lo += 50000 {
			idx := part.idx[lo:min(lo+50000, len(part.idx))]
			lines := make([]string, len(idx))
			for k, i := range idx {
				lines[k] = builds[i].Line()
			}
			pr := &lexh.Runner{Mode: "build", Timeout: buildRunner.Timeout, MaxDown: part.maxDown}
			ans, err := pr.Run(lines)
			if err != nil {
				return err
			}
			for k, i := range idx {
				bans[i] = ans[k]
			}
			buildRunner.Crashes += pr.Crashes
			buildRunner.Hangs += pr.Hangs
		}
	}
	res.Histogram["build-sources-with-huge-array-types"] = len(hugeIdx)
	res.Notes = append(res.Notes, fmt.Sprintf("build child: %d inputs in %v", len(builds), time.Since(t0).Round(time.Millisecond)))
	t0 = time.Now()
	// one signature = (clause, message without numbers, innermost scriggo function). Per signature two cases are shrunk:
	// the first one of the older streams (arbitrary bytes, corpus, truncations, mutants, structural, trees) and the
	// shortest one of the forms stream — the shortest, so that the outcome does not depend on the order of enumeration.
	type failing struct {
		clause, sig string
		br          lexh.BuildResult
	}
	fails := map[int]failing{}
	var sigOrder []string
	firstLegacy := map[string]int{}
	shortestForms := map[string]int{}     // signature + class of the original case -> shortest case
	formsBuckets := map[string][]string{} // signature -> its keys in shortestForms
	sigOfCase := func(bb lexh.BuildCase) string {
		r2 := buildOne(bb)
		if cl := buildClause(r2); cl != "" {
			return cl + "|" + normMsg(r2.Msg) + "|" + r2.Site
		}
		return ""
	}
	size := func(b lexh.BuildCase) int {
		n := 0
		for _, d := range b.Files {
			n += len(d) + 16
		}
		return n
	}
	sigOf := func(clause string, br lexh.BuildResult) string {
		if strings.HasPrefix(br.Status, "CRASH") || br.Status == "OOM" {
			if strings.Contains(br.Detail, "OOM") {
				return clause + "|OOM"
			}
			return clause + "|" + br.Detail
		}
		if clause == "no-goroutine-left" { // the message is that of the build error, which is beside the point
			return clause
		}
		return clause + "|" + normMsg(br.Msg) + "|" + br.Site
	}
	for i, b := range builds {
		br := lexh.ParseBuildResult(bans[i])
		res.Count(fmt.Sprintf("build:%x", sha1.Sum([]byte(b.Key()))), br.Status == "ok" || br.Status == "builderror")
		res.Hist("build-" + origins[i])
		res.Hist("build-status-" + strings.Fields(br.Status + " x")[0])
		if i >= formsAt {
			res.Hist("forms-status-" + strings.Fields(br.Status + " x")[0])
		}
		if br.Status == "SKIPPED" {
			res.Hist("build-skipped-after-repeated-crashes")
			continue
		}
		clause := buildClause(br)
		if clause == "" {
			continue
		}
		if hugeArrayClass(c, b, br, buildOne) {
			res.Hist("build-huge-array-confirmed-by-counterfactual")
			continue
		}
		if disasmMultibyteClass(c, b, br, buildOne) {
			res.Hist("build-disassemble-multibyte-confirmed-by-counterfactual")
			continue
		}
		sig := sigOf(clause, br)
		fails[i] = failing{clause, sig, br}
		_, l := firstLegacy[sig]
		_, f := formsBuckets[sig]
		if !l && !f {
			sigOrder = append(sigOrder, sig)
		}
		if i < formsAt {
			if !l {
				firstLegacy[sig] = i
			}
		} else {
			res.Hist("forms-failing-" + formCases[i-formsAt].Role)
			// explain the ORIGINAL case first: per signature one case is shrunk for every class that explains originals
			// and one for those that no class explains (a regression under the signature of a recorded finding)
			cls := "unexplained"
			if !strings.HasPrefix(br.Status, "CRASH") && br.Status != "HANG" && br.Status != "OOM" {
				if id := classKnown(b, sig, knownSig, c.HasFinding, sigOfCase); id != "" {
					cls = id
				}
			}
			res.Hist("forms-failing-class-" + cls)
			key := sig + "\x00" + cls
			if _, ok := shortestForms[key]; !ok {
				formsBuckets[sig] = append(formsBuckets[sig], key)
			}
			if j, ok := shortestForms[key]; !ok || size(b) < size(builds[j]) {
				shortestForms[key] = i
			}
		}
	}
	if p := os.Getenv("VERIF_C04_DUMP"); p != "" { // development aid: the outcome of every case of the forms stream
		var sb strings.Builder
		for k, fc := range formCases {
			br := lexh.ParseBuildResult(bans[formsAt+k])
			fmt.Fprintf(&sb, "%s\t%s\t%s\t%s\t%s\t%s\n", fc.Role, fc.Form, fc.Mod, br.Status, br.Msg, humanBuild(fc.BuildCase))
		}
		os.WriteFile(p, []byte(sb.String()), 0o644)
	}
	nShrunk := 0
	reported := map[string]bool{}
	shrinkAndReport := func(i int) {
		b, fl := builds[i], fails[i]
		br, clause := fl.br, fl.clause
		budget := 20000
		if strings.HasPrefix(br.Status, "CRASH") || br.Status == "OOM" {
			budget = 6000 // a failing probe costs a child process, the others are cheap
		}
		if br.Status == "HANG" {
			budget = 10 // every failing probe costs the timeout
		}
		if sz := size(b); sz > 1500 { // large sources (the scale forms): every probe is a long build
			budget = min(budget, 1500*1000/sz+200)
		}
		nShrunk++
		min := b
		same := func(bb lexh.BuildCase) bool {
			r2 := buildOne(bb)
			return buildClause(r2) == clause && normMsg(r2.Msg) == normMsg(br.Msg) && r2.Site == br.Site
		}
		if nShrunk <= 60 {
			// first drop the files that are not needed
			for _, n := range sortedNames(b.Files) {
				if n == b.Entry || len(min.Files) == 1 {
					continue
				}
				nf := map[string][]byte{}
				for k, v := range min.Files {
					if k != n {
						nf[k] = v
					}
				}
				if cand := (lexh.BuildCase{Kind: b.Kind, Entry: b.Entry, Files: nf}); same(cand) {
					min = cand
				}
			}
			// a file other than the entry that fails the same way when built alone (a layout, a partial, an imported file
			// or package) stands for the whole tree
			if len(min.Files) > 1 {
				for _, n := range sortedNames(min.Files) {
					if n == min.Entry {
						continue
					}
					entry := "main.go"
					if !min.Program() {
						entry = "index" + path.Ext(n)
					}
					if cand := (lexh.BuildCase{Kind: min.Kind, Entry: entry, Files: map[string][]byte{entry: min.Files[n]}}); same(cand) {
						min = cand
						break
					}
					if min.Program() && strings.HasSuffix(n, ".go") { // an imported package as the main package
						src := pkgClauseRe.ReplaceAll(min.Files[n], []byte("package main"))
						src = append(src, "\nfunc main() {}\n"...)
						if cand := (lexh.BuildCase{Kind: min.Kind, Entry: entry, Files: map[string][]byte{entry: src}}); same(cand) {
							min = cand
							break
						}
					}
				}
			}
			// shrink the file whose removal of bytes keeps the same failure; other files stay
			// the format that matters least: HTML
			if !min.Program() && len(min.Files) == 1 && min.Entry != "index.html" {
				if cand := (lexh.BuildCase{Kind: min.Kind, Entry: "index.html", Files: map[string][]byte{"index.html": min.Files[min.Entry]}}); same(cand) {
					min = cand
				}
			}
			for _, n := range sortedNames(min.Files) {
				n := n
				md := lexh.Shrink(min.Files[n], func(x []byte) bool {
					bb := lexh.BuildCase{Kind: min.Kind, Entry: min.Entry, Files: map[string][]byte{}}
					for k, v := range min.Files {
						bb.Files[k] = v
					}
					bb.Files[n] = x
					return same(bb)
				}, budget)
				nf := map[string][]byte{}
				for k, v := range min.Files {
					nf[k] = v
				}
				nf[n] = md
				min = lexh.BuildCase{Kind: min.Kind, Entry: min.Entry, Files: nf}
			}
			// files that the shrunk sources do not need any more
			for _, n := range sortedNames(min.Files) {
				if n == min.Entry || len(min.Files) == 1 {
					continue
				}
				nf := map[string][]byte{}
				for k, v := range min.Files {
					if k != n {
						nf[k] = v
					}
				}
				if cand := (lexh.BuildCase{Kind: min.Kind, Entry: min.Entry, Files: nf}); same(cand) {
					min = cand
				}
			}
			// without AllowGoStmt, if it does not matter
			if min.GoStmt() {
				if cand := (lexh.BuildCase{Kind: lexh.KindOf(min.Program(), min.Natives(), false), Entry: min.Entry, Files: min.Files}); same(cand) {
					min = cand
				}
			}
			// without the native package, if it does not matter
			if min.Natives() {
				if cand := (lexh.BuildCase{Kind: lexh.KindOf(min.Program(), false, min.GoStmt()), Entry: min.Entry, Files: min.Files}); same(cand) {
					min = cand
				}
			}
			br = buildOne(min)
		}
		if reported[min.Line()] {
			return
		}
		reported[min.Line()] = true
		name := clause
		if br.Site != "" {
			name += " @" + br.Site + " (" + digitsRe.ReplaceAllString(firstWords(br.Msg, 5), "#") + ")"
		}
		finding := knownFor("build " + min.Line())
		if finding == "" {
			// a narrow match: a recorded finding that fails on this tree with the same signature and whose minimal
			// input differs from the shrunk case in one file by at most two tokens
			if finding = narrowKnown(c, min, fl.sig, knownSig); finding != "" {
				res.Hist("build-narrow-match-" + finding)
			}
		}
		if finding == "" {
			// the class of a recorded finding: same signature, the finding's trigger, and no such failure without it
			// (classes.go)
			finding = classKnown(min, fl.sig, knownSig, c.HasFinding, func(bb lexh.BuildCase) string {
				r2 := buildOne(bb)
				if cl := buildClause(r2); cl != "" {
					return sigOf(cl, r2)
				}
				return ""
			})
			if finding != "" {
				res.Hist("build-class-match-" + finding)
			}
		}
		if os.Getenv("VERIF_C04_SHRINK_ALL") != "" {
			fmt.Fprintf(os.Stderr, "MIN\t%s\t%s\t%s\tbuild %s\n", finding, name, humanBuild(min), min.Line())
		}
		h := humanBuild(min)
		if i >= formsAt {
			fc := formCases[i-formsAt]
			h += fmt.Sprintf(" [forms stream: role=%s form=%s modifier=%s; as generated: %s]", fc.Role, fc.Form, fc.Mod, humanBuild(b))
		}
		res.AddBreak(proto.Break{Kind: "property", Name: name, Case: "C04 build " + min.Line(), Human: h,
			Impl:    br.Status + " " + br.Msg + " @" + br.Site + " " + br.Detail + fmt.Sprintf(" leak=%d", br.Leak),
			Model:   "result or *BuildError (or fs.ErrNotExist for the named file) within the timeout, no goroutine left",
			Finding: finding})
	}
	if os.Getenv("VERIF_C04_SHRINK_ALL") != "" { // development aid: the minimum of every failing case of the forms stream
		for i := formsAt; i < len(builds); i++ {
			if _, ok := fails[i]; ok {
				nShrunk = 0
				shrinkAndReport(i)
			}
		}
	}
	for _, sig := range sigOrder {
		if i, ok := firstLegacy[sig]; ok {
			shrinkAndReport(i)
		}
		for _, key := range formsBuckets[sig] {
			shrinkAndReport(shortestForms[key])
		}
	}
	res.Histogram["build-failing-signatures"] = len(sigOrder)
	res.Notes = append(res.Notes, fmt.Sprintf("build shrink: %v", time.Since(t0).Round(time.Millisecond)))
	res.Histogram["build-child-crashes"] = buildRunner.Crashes
	res.Histogram["build-child-hangs"] = buildRunner.Hangs
	return nil
}

var structuralSupport = map[string]string{
	"layout.html": `<html>{{ Body() }}</html>`, "l.html": `x`, "m.html": `{% macro M %}m{% end %}`,
	"n.html": `{% macro N %}n{% end %}`, "p.html": `<i>p</i>`,
}

func sortedNames(m map[string][]byte) []string {
	n := make([]string, 0, len(m))
	for k := range m {
		n = append(n, k)
	}
	sort.Strings(n)
	return n
}

// hugeArrayClass tells whether a memory blow-up or time-out of a build is the known finding
// huge-array-build-allocates (its exact minimal input is replayed at the start of every run): Build takes memory and
// time proportional to the declared length of an array type. Counterfactual test: the same sources with every huge
// array length (a literal of 2^16 or more, a shift, a named constant) replaced by 1 — if Build then neither blows up
// nor hangs, the failure is that finding; otherwise it is searched and reported like any other.
func hugeArrayClass(c *hx.Ctx, b lexh.BuildCase, br lexh.BuildResult, buildOne func(lexh.BuildCase) lexh.BuildResult) bool {
	if !(isOOM(br) || br.Status == "HANG") || !c.HasFinding("huge-array-build-allocates") {
		return false
	}
	small, changed := smallArrays(b)
	if !changed {
		return false
	}
	r2 := buildOne(small)
	return !isOOM(r2) && r2.Status != "HANG" && !strings.HasPrefix(r2.Status, "CRASH")
}

var digitsRe = regexp.MustCompile(`[0-9]+`)
var exprSuffixRe = regexp.MustCompile(` \(expr: .*\)$`)

// normMsg is a panic or error message without what varies with the input: numbers, the expression quoted at its end.
func normMsg(m string) string {
	m = isNodeRe.ReplaceAllString(m, "is *ast.#, not")     // the node met varies, the node expected names the place
	m = notFoundRe.ReplaceAllString(m, "bug: # not found") // the name of the variable varies
	return digitsRe.ReplaceAllString(exprSuffixRe.ReplaceAllString(m, ""), "#")
}

var notFoundRe = regexp.MustCompile(`^bug: [A-Za-z_][A-Za-z0-9_]* not found`)

var isNodeRe = regexp.MustCompile(`is \*ast\.[A-Za-z]+, not`)

var pkgClauseRe = regexp.MustCompile(`^[ \t\n]*package[ \t]+[A-Za-z_][A-Za-z0-9_]*`)

func firstWords(s string, n int) string {
	f := strings.Fields(s)
	if len(f) > n {
		f = f[:n]
	}
	return strings.Join(f, " ")
}

// disasmMultibyteClass tells whether a panic of Template.Disassemble is the known finding
// disassemble-rune-limit-multibyte (exact minimal input replayed at the start of every run): disassembleText cuts a
// text at a rune limit by adding up the size of the FIRST rune, so a text that starts with a multi-byte character
// is sliced past its end. Counterfactual test: the same sources with every non-ASCII rune replaced by `a` must
// disassemble without panic; otherwise the failure is searched and reported like any other.
func disasmMultibyteClass(c *hx.Ctx, b lexh.BuildCase, br lexh.BuildResult, buildOne func(lexh.BuildCase) lexh.BuildResult) bool {
	if br.Status != "disasm-panic" || !strings.Contains(br.Site, "disassembleText") || !c.HasFinding("disassemble-rune-limit-multibyte") {
		return false
	}
	ascii := lexh.BuildCase{Kind: b.Kind, Entry: b.Entry, Files: map[string][]byte{}}
	changed := false
	for n, d := range b.Files {
		var nd []byte
		for len(d) > 0 {
			r, size := utf8.DecodeRune(d)
			if r >= utf8.RuneSelf {
				nd = append(nd, 'a')
				changed = true
			} else {
				nd = append(nd, d[0])
			}
			d = d[size:]
		}
		ascii.Files[n] = nd
	}
	if !changed {
		return false
	}
	r2 := buildOne(ascii)
	return r2.Status == "ok" || r2.Status == "builderror" || r2.Status == "notexist"
}

func isOOM(br lexh.BuildResult) bool {
	return br.Status == "OOM" || strings.HasPrefix(br.Status, "CRASH") && strings.Contains(br.Detail, "OOM")
}

// an array type `[length]T` (not the key of a map type)
var arrayTypeRe = regexp.MustCompile(`\[([^\[\]\n]+)\]([A-Za-z_\[\*(])`)
var bigLitRe = regexp.MustCompile(`^[ \t]*(0[xX][0-9a-fA-F_]{5,}|[0-9][0-9_]{5,}|[0-9][0-9_]*[eE][0-9]+)[ \t]*$`)
var identRe = regexp.MustCompile(`^[ \t]*[A-Za-z_][A-Za-z0-9_]*[ \t]*$`)

// hugeLength reports whether the length expression of an array type can be huge: an integer literal of
// 2^16 or more (five hexadecimal or six decimal digits, or an exponent), a shift, or a named constant.
func hugeLength(expr string) bool {
	return bigLitRe.MatchString(expr) || strings.Contains(expr, "<<") || strings.Contains(expr, ">>") ||
		identRe.MatchString(expr) && !isTypeName(strings.TrimSpace(expr))
}

func isTypeName(id string) bool {
	switch id {
	case "string", "int", "int8", "int16", "int32", "int64", "uint", "uint8", "uint16", "uint32", "uint64", "uintptr",
		"byte", "rune", "bool", "float32", "float64", "complex64", "complex128", "error", "any":
		return true
	}
	return false
}

// smallArrays is the case with every array type of huge length given length 1 (`map[K]V` is not an array type).
func smallArrays(b lexh.BuildCase) (lexh.BuildCase, bool) {
	out := lexh.BuildCase{Kind: b.Kind, Entry: b.Entry, Files: map[string][]byte{}}
	changed := false
	for n, d := range b.Files {
		var nd []byte
		rest := d
		for {
			loc := arrayTypeRe.FindSubmatchIndex(rest)
			if loc == nil {
				nd = append(nd, rest...)
				break
			}
			isMap := loc[0] >= 3 && string(rest[loc[0]-3:loc[0]]) == "map"
			if isMap || !hugeLength(string(rest[loc[2]:loc[3]])) {
				nd = append(nd, rest[:loc[3]+1]...)
			} else {
				nd = append(append(nd, rest[:loc[0]]...), "[1]"...)
				changed = true
			}
			rest = rest[loc[3]+1:]
		}
		out.Files[n] = nd
	}
	return out, changed
}

// narrowKnown is the recorded finding that the shrunk case min narrowly matches: the finding's exact minimal input
// fails on this tree with the same signature (clause, message, innermost function), has the same kind, entry and file
// names, and differs from min in one file only, by at most two tokens (substituted, inserted or deleted; blanks
// ignored). "" if there is none. (Shrinking is greedy: from another starting point it can end one or two tokens away
// from the recorded minimum — `const b,` for `var b,`.)
func narrowKnown(c *hx.Ctx, min lexh.BuildCase, sig string, knownSig map[string]string) string {
	for _, f := range c.Findings {
		if knownSig[f.ID] != sig || !strings.HasPrefix(f.Minimal, "build ") {
			continue
		}
		fb, err := lexh.ParseBuildLine(strings.TrimPrefix(f.Minimal, "build "))
		if err != nil || fb.Kind != min.Kind || fb.Entry != min.Entry || len(fb.Files) != len(min.Files) {
			continue
		}
		differ, dist, ok := 0, 0, true
		for n, d := range fb.Files {
			md, has := min.Files[n]
			if !has {
				ok = false
				break
			}
			if string(md) != string(d) {
				differ++
				dist = tokenDistance(lexh.Tokens(d), lexh.Tokens(md))
			}
		}
		if ok && differ == 1 && dist <= 2 {
			return f.ID
		}
	}
	return ""
}

// tokenDistance is the edit distance of two token sequences, blanks left out.
func tokenDistance(a, b [][]byte) int {
	strip := func(t [][]byte) []string {
		var o []string
		for _, x := range t {
			if s := strings.TrimSpace(string(x)); s != "" {
				o = append(o, s)
			}
		}
		return o
	}
	x, y := strip(a), strip(b)
	prev := make([]int, len(y)+1)
	for j := range prev {
		prev[j] = j
	}
	for i := 1; i <= len(x); i++ {
		cur := make([]int, len(y)+1)
		cur[0] = i
		for j := 1; j <= len(y); j++ {
			cost := 1
			if x[i-1] == y[j-1] {
				cost = 0
			}
			cur[j] = min(prev[j]+1, cur[j-1]+1, prev[j-1]+cost)
		}
		prev = cur
	}
	return prev[len(y)]
}
