package main

import (
	"fmt"
	"strings"
)

// The non-terminating / blocking shape family.
//
// Every shape is a composition, never a hand-picked input:
//
//   loop family    = a way of running a piece of code again and again (loop forms: for in its three
//                    syntaxes, a goto loop, one range over a slice of 2^40 zero-sized elements, a range
//                    over an endlessly fed channel, recursion — tail, non-tail, guarded either way,
//                    through a closure variable, mutual, a 2^40 call tree of distinct functions, a
//                    call tree through native callbacks, a chain of deferred calls, a native function
//                    that calls back for ever — and where the loop runs: main, a goroutine, the body
//                    of a range statement (a nested activation of the VM's run loop), a deferred
//                    function)
//                    x the piece of code (one statement of every kind);
//   select family  = an earlier select statement of every kind (none, with/without default, default
//                    first / last / in the middle, receive and send cases ready or not, in a loop)
//                    followed by a construct that blocks or spins for ever (select {}, select with
//                    only blocked cases, receive, send, range over a channel, a tight loop)
//                    x where the two stand with respect to each other (same function, callee, caller,
//                    closures, goroutine, range body, after a range body, deferred, native callback);
//   pair family    = what main does x what a goroutine of the program does (spinning and blocking
//                    forms);
// each for programs and (where the language has the construct) for templates, where recursion is
// macro recursion, macro call trees and trees of {{ render }} between files.
//
// None of the shapes terminates on its own in any reasonable time and none of them needs memory that
// grows faster than a VM stack does; each is cancelled before Run, during the run or by a deadline.

// a piece of code for the body of a loop form; all variables are package-level (programs) or
// declared in the template's preamble
type piece struct {
	name     string
	src      string
	loopOnly bool // uses continue/break: only valid inside a for statement
	straight bool // compiles to instructions that fall through (no jump, call, range)
}

var progPieces = []piece{
	{name: "inc", src: "x++", straight: true},
	{name: "assign", src: "x = x*3 + 1", straight: true},
	{name: "empty", src: "", straight: true},
	{name: "if-else", src: "if x%2 == 0 { x++ } else { x-- }"},
	{name: "if-true", src: "if x == x { x++ }"},
	{name: "switch", src: "switch x % 3 {\ncase 0:\n\tx++\ncase 1:\n\tx += 2\ndefault:\n\tx--\n}"},
	{name: "switch-true", src: "switch {\ncase x == x:\n\tx++\n}"},
	{name: "type-switch", src: "var y any = x\nswitch y.(type) {\ncase int:\n\tx++\ncase string:\n\tx--\n}"},
	{name: "append", src: "s = append(s[:0], x)", straight: true},
	{name: "map-set", src: "m[x&7] = x", straight: true},
	{name: "map-delete", src: "delete(m, x&7)", straight: true},
	{name: "map-get", src: "_, ok := m[x&7]\n_ = ok", straight: true},
	{name: "concat", src: "str = \"a\" + h.Itoa(x&7)", straight: true},
	{name: "len", src: "x = len(str) + len(s)", straight: true},
	{name: "closure-call", src: "func() { x++ }()"},
	{name: "func-call", src: "x = g(x)"},
	{name: "native-call", src: "x = h.Triple(x) & 1023", straight: true},
	{name: "method-value", src: "add := cnt.Add\nx = add(1) & 1023"},
	{name: "callback", src: "x = h.Apply(g, x) & 1023"},
	{name: "defer", src: "func() { defer func() { x++ }() }()"},
	{name: "panic-recover", src: "func() {\n\tdefer func() { recover() }()\n\tpanic(\"p\")\n}()"},
	{name: "select-default", src: "select {\ncase v := <-a:\n\tx += v\ndefault:\n\tx++\n}"},
	{name: "chan-pair", src: "bc <- 1\nx += <-bc"},
	{name: "inner-for", src: "for i := 0; i < 3; i++ { x += i }"},
	{name: "inner-range", src: "for _, v := range arr { x += v }"},
	{name: "inner-range-string", src: "for range \"abc\" { x++ }"},
	{name: "inner-range-map", src: "for k := range m { x += k }"},
	{name: "pointer", src: "p := &x\n*p++", straight: true},
	{name: "field", src: "st.N = x", straight: true},
	{name: "index", src: "arr[x&1] = x", straight: true},
	{name: "convert", src: "x = int(float64(x)*1.5) & 1023", straight: true},
	{name: "go-sometimes", src: "x++\nif x&4095 == 0 { go func() {}() }"},
	{name: "continue", src: "x++\nif x == x { continue }\nx = 0", loopOnly: true},
	{name: "switch-break", src: "switch {\ncase x == x:\n\tbreak\n}\nx++", loopOnly: true},
}

// a loop form: how the piece is run again and again; `loop` marks the forms that are for statements
type loopForm struct {
	name string
	loop bool
	prog func(p string) string // everything after the preamble
	// the form's compiled shape for the dispatch model (Drv/C11.lean: `dispatch`), with a piece that is
	// one straight-line instruction, and after `|` the environment's choices that keep it going; ""
	// if the form's cycle is not one of a single VM's instruction loop
	skel string
}

// trimmed keeps of a preamble only what the rest of the source mentions: a preamble is a list of
// declarations, one per entry, each introducing the name given with it.
type decl struct{ name, src string }

func mentions(src, name string) bool {
	for i := 0; i+len(name) <= len(src); i++ {
		if src[i:i+len(name)] != name {
			continue
		}
		before := i == 0 || !isIdent(src[i-1])
		after := i+len(name) == len(src) || !isIdent(src[i+len(name)])
		if before && after {
			return true
		}
	}
	return false
}

func isIdent(c byte) bool {
	return c == '_' || c >= '0' && c <= '9' || c >= 'a' && c <= 'z' || c >= 'A' && c <= 'Z'
}

var progDecls = []decl{
	{"x", "var x int"},
	{"s", "var s []int"},
	{"m", "var m = map[int]int{}"},
	{"str", "var str string"},
	{"bc", "var bc = make(chan int, 1)"},
	{"arr", "var arr = [3]int{1, 2, 3}"},
	{"st", "var st struct{ N int }"},
	{"huge", "var huge = make([]struct{}, 1<<40)"},
	{"a", "var a = make(chan int)"},
	{"b", "var b = make(chan int)"},
	{"idle", "var idle = make(chan int)"},
	{"ready", "var ready = make(chan int, 1)"},
	{"room", "var room = make(chan int, 1)"},
	{"nilch", "var nilch chan int"},
	{"cnt", "var cnt = &h.Counter{}"},
	{"y", "var y int"},
	{"g", "func g(n int) int { return n + 1 }"},
	{"rr", "func rr(n int) int { return 1 + rr(n+1) }"},
}

// program puts the declarations that rest uses in front of it.
func program(rest string) string {
	var b strings.Builder
	b.WriteString("package main\n\n")
	var ds []string
	for _, d := range progDecls {
		if mentions(rest, d.name) {
			ds = append(ds, d.src)
		}
	}
	if mentions(rest+strings.Join(ds, " "), "h") {
		b.WriteString("import \"h\"\n\n")
	}
	for _, d := range ds {
		b.WriteString(d + "\n")
	}
	if len(ds) > 0 {
		b.WriteString("\n")
	}
	return b.String() + rest
}

var tplDecls = []decl{
	{"M", "{% macro M(n int) %}{% end %}"},
	{"x", "{% var x = 0 %}"},
	{"sl", "{% var sl []int %}"},
	{"bc", "{% var bc = make(chan int, 1) %}"},
	{"a", "{% var a = make(chan int) %}"},
	{"b", "{% var b = make(chan int) %}"},
	{"ready", "{% var ready = make(chan int, 1) %}"},
	{"room", "{% var room = make(chan int, 1) %}"},
	{"nilch", "{% var nilch chan int %}"},
	{"huge", "{% var huge = make([]struct{}, 1<<40) %}"},
	{"arr", "{% var arr = []int{1, 2, 3} %}"},
}

// template puts the declarations that rest uses in front of it.
func template(rest string) string {
	var b strings.Builder
	for _, d := range tplDecls {
		if mentions(rest, d.name) {
			b.WriteString(d.src)
		}
	}
	return b.String() + rest
}

func indent(s string, n int) string {
	if s == "" {
		return ""
	}
	pad := strings.Repeat("\t", n)
	return pad + strings.ReplaceAll(s, "\n", "\n"+pad) + "\n"
}

func mainOf(body string) string { return "func main() {\n" + indent(body, 1) + "}\n" }

// callTree: f0 runs the piece, f<k> runs it and calls f<k-1> twice: depth k, 2^k calls.
func callTree(depth int, p string, call func(k int) string) string {
	var b strings.Builder
	b.WriteString("func f0(n int) int {\n" + indent(p, 1) + "\treturn n\n}\n")
	for k := 1; k <= depth; k++ {
		fmt.Fprintf(&b, "func f%d(n int) int {\n%s\treturn %s + %s\n}\n", k, indent(p, 1), call(k-1), call(k-1))
	}
	return b.String()
}

var loopForms = []loopForm{
	{name: "for", loop: true, skel: "p,j0|0", prog: func(p string) string { return mainOf("for {\n" + indent(p, 1) + "}") }},
	{name: "for-cond", loop: true, skel: "i,j4,p,j0,r|1", prog: func(p string) string { return mainOf("for x >= 0 || x < 0 {\n" + indent(p, 1) + "}") }},
	{name: "for-clause", loop: true, skel: "p,p,j0|0", prog: func(p string) string { return mainOf("for i := 0; ; i++ {\n" + indent(p, 1) + "}") }},
	{name: "goto", skel: "p,j0|0", prog: func(p string) string { return mainOf("L:\n" + p + "\ngoto L") }},
	{name: "range-huge", loop: true, skel: "R,j4,p,k0,r|1", prog: func(p string) string { return mainOf("for range huge {\n" + indent(p, 1) + "}") }},
	{name: "range-huge-iv", loop: true, skel: "R,j4,p,k0,r|1", prog: func(p string) string {
		return mainOf("for i, v := range huge {\n\t_, _ = i, v\n" + indent(p, 1) + "}")
	}},
	{name: "range-chan", loop: true, prog: func(p string) string {
		return mainOf("ch := make(chan int)\ngo func() {\n\tfor {\n\t\tch <- 1\n\t}\n}()\nfor v := range ch {\n\t_ = v\n" + indent(p, 1) + "}")
	}},
	{name: "recursion-tail", skel: "p,c0,p,r|0", prog: func(p string) string {
		return "func r(n int) int {\n" + indent(p, 1) + "\treturn r(n + 1)\n}\n" + mainOf("r(0)")
	}},
	{name: "recursion-nontail", skel: "p,c0,p,r|0", prog: func(p string) string {
		return "func r(n int) int {\n" + indent(p, 1) + "\treturn 1 + r(n+1)\n}\n" + mainOf("r(0)")
	}},
	{name: "recursion-guard-true", skel: "p,i,j5,c0,r,p,r|1", prog: func(p string) string {
		return "func r(n int) int {\n" + indent(p, 1) + "\tif n >= 0 {\n\t\treturn r(n + 1)\n\t}\n\treturn 0\n}\n" + mainOf("r(0)")
	}},
	{name: "recursion-guard-false", skel: "p,i,j5,p,r,c0,r|0", prog: func(p string) string {
		return "func r(n int) int {\n" + indent(p, 1) + "\tif n < 0 {\n\t\treturn 0\n\t}\n\treturn r(n + 1)\n}\n" + mainOf("r(0)")
	}},
	{name: "recursion-closure", prog: func(p string) string {
		return mainOf("var r func(int) int\nr = func(n int) int {\n" + indent(p, 1) + "\treturn r(n + 1)\n}\nr(0)")
	}},
	{name: "recursion-mutual", skel: "p,c1,r;c0,r|0", prog: func(p string) string {
		return "func r1(n int) int {\n" + indent(p, 1) + "\treturn 1 + r2(n+1)\n}\nfunc r2(n int) int { return 1 + r1(n+1) }\n" + mainOf("r1(0)")
	}},
	{name: "call-tree", prog: func(p string) string {
		return callTree(40, p, func(k int) string { return fmt.Sprintf("f%d(n)", k) }) + mainOf("f40(0)")
	}},
	{name: "callback-tree", prog: func(p string) string {
		return callTree(40, p, func(k int) string { return fmt.Sprintf("h.Apply(f%d, n)", k) }) + mainOf("f40(0)")
	}},
	{name: "defer-chain", prog: func(p string) string {
		return "func d() {\n" + indent(p, 1) + "\tdefer d()\n}\n" + mainOf("d()")
	}},
	{name: "native-until", prog: func(p string) string {
		return mainOf("h.Until(func() bool {\n" + indent(p, 1) + "\treturn false\n})")
	}},
	{name: "in-goroutine", loop: true, prog: func(p string) string {
		return mainOf("go func() {\n\tfor {\n" + indent(p, 2) + "\t}\n}()\nselect {}")
	}},
	{name: "in-goroutine-recursion", prog: func(p string) string {
		return "func r(n int) int {\n" + indent(p, 1) + "\treturn 1 + r(n+1)\n}\n" + mainOf("go r(0)\n<-idle")
	}},
	{name: "in-range-body", loop: true, prog: func(p string) string {
		return mainOf("for range arr {\n\tfor {\n" + indent(p, 2) + "\t}\n}")
	}},
	{name: "in-deferred", loop: true, prog: func(p string) string {
		return mainOf("defer func() {\n\tfor {\n" + indent(p, 2) + "\t}\n}()")
	}},
	{name: "nested-for-3", loop: true, prog: func(p string) string {
		return mainOf("for {\n\tfor i := 0; i < 2; i++ {\n\t\tfor range arr {\n" + indent(p, 3) + "\t\t}\n\t}\n}")
	}},
	{name: "nested-range-huge", loop: true, prog: func(p string) string {
		return mainOf("for range huge {\n\tfor range huge {\n" + indent(p, 2) + "\t}\n}")
	}},
}

// ---- select family ----

type snippet struct{ name, src string }

var earlierSelects = []snippet{
	{"none", ""},
	{"default-only", "select {\ndefault:\n\tx++\n}"},
	{"recv-default", "select {\ncase v := <-a:\n\tx += v\ndefault:\n\tx++\n}"},
	{"default-recv", "select {\ndefault:\n\tx++\ncase v := <-a:\n\tx += v\n}"},
	{"send-default", "select {\ncase a <- 1:\n\tx++\ndefault:\n\tx--\n}"},
	{"default-in-the-middle", "select {\ncase v := <-a:\n\tx += v\ndefault:\n\tx++\ncase b <- 1:\n\tx--\n}"},
	{"recv-ready", "ready <- 5\nselect {\ncase v := <-ready:\n\tx += v\n}"},
	{"send-ready", "select {\ncase room <- 1:\n\tx++\n}"},
	{"recv-ready-default", "ready <- 5\nselect {\ncase v := <-ready:\n\tx += v\ndefault:\n\tx--\n}"},
	{"both-ready", "ready <- 5\nselect {\ncase v := <-ready:\n\tx += v\ncase room <- 1:\n\tx++\n}"},
	{"nil-default", "select {\ncase <-nilch:\n\tx--\ndefault:\n\tx++\n}"},
	{"loop-default", "for i := 0; i < 3; i++ {\n\tselect {\n\tcase v := <-a:\n\t\tx += v\n\tdefault:\n\t\tx++\n\t}\n}"},
}

var blockers = []snippet{
	{"select-empty", "select {}"},
	{"select-recv", "select {\ncase v := <-a:\n\tx += v\n}"},
	{"select-send", "select {\ncase a <- 1:\n\tx++\n}"},
	{"select-two", "select {\ncase v := <-a:\n\tx += v\ncase b <- 1:\n\tx++\n}"},
	{"select-nil", "select {\ncase <-nilch:\n\tx++\n}"},
	{"recv", "x += <-a"},
	{"send", "a <- 1"},
	{"range-chan", "for v := range a {\n\tx += v\n}"},
	{"spin", "for {\n\tx++\n}"},
}

type placement struct {
	name string
	prog func(e, f string) string
}

func seq(parts ...string) string {
	var out []string
	for _, p := range parts {
		if p != "" {
			out = append(out, p)
		}
	}
	return strings.Join(out, "\n")
}

var placements = []placement{
	{"same-function", func(e, f string) string { return mainOf(seq(e, f)) }},
	{"blocks-in-callee", func(e, f string) string { return "func fin() {\n" + indent(f, 1) + "}\n" + mainOf(seq(e, "fin()")) }},
	{"selects-in-callee", func(e, f string) string { return "func early() {\n" + indent(e, 1) + "}\n" + mainOf(seq("early()", f)) }},
	{"closures", func(e, f string) string {
		return mainOf(seq("func() {\n"+indent(e, 1)+"}()", "func() {\n"+indent(f, 1)+"}()"))
	}},
	{"goroutine", func(e, f string) string { return mainOf("go func() {\n" + indent(seq(e, f), 1) + "}()\n<-idle") }},
	{"range-body", func(e, f string) string { return mainOf("for range arr {\n" + indent(seq(e, f), 1) + "}") }},
	{"after-range-body", func(e, f string) string { return mainOf(seq("for range arr[:1] {\n"+indent(seq(e, "x++"), 1)+"}", f)) }},
	{"deferred", func(e, f string) string { return mainOf(seq("defer func() {\n"+indent(f, 1)+"}()", e)) }},
	{"callback-blocks", func(e, f string) string { return mainOf(seq(e, "h.Each(1, func(int) {\n"+indent(f, 1)+"})")) }},
	{"callback-selects", func(e, f string) string {
		return mainOf(seq("h.Each(1, func(int) {\n"+indent(seq(e, "x++"), 1)+"})", f))
	}},
}

// ---- templates ----

var tplPieces = []piece{
	{name: "inc", src: "{% x++ %}"},
	{name: "assign", src: "{% x = x*3 + 1 %}"},
	{name: "empty", src: ""},
	{name: "text", src: "t"},
	{name: "show", src: "{{ x & 7 }}"},
	{name: "if-else", src: "{% if x%2 == 0 %}{% x++ %}{% else %}{% x-- %}{% end %}"},
	{name: "if-true", src: "{% if x == x %}{% x++ %}{% end %}"},
	{name: "switch", src: "{% switch x % 3 %}{% case 0 %}{% x++ %}{% default %}{% x-- %}{% end %}"},
	{name: "type-switch", src: "{% var y any = x %}{% switch y.(type) %}{% case int %}{% x++ %}{% end %}"},
	{name: "native-call", src: "{% x = triple(x) & 1023 %}"},
	{name: "macro-call", src: "{{ M(x) }}"},
	{name: "closure-call", src: "{% f := func() { x++ } %}{% f() %}"},
	{name: "append", src: "{% sl = append(sl[:0], x) %}"},
	{name: "select-default", src: "{% select %}{% case v := <-a %}{% x += v %}{% default %}{% x++ %}{% end %}"},
	{name: "chan-pair", src: "{% bc <- 1 %}{% x += <-bc %}"},
	{name: "inner-for", src: "{% for i := 0; i < 3; i++ %}{% x += i %}{% end %}"},
	{name: "inner-range", src: "{% for _, e := range arr %}{% x += e %}{% end %}"},
	{name: "inner-for-in", src: "{% for e in arr %}{% x += e %}{% end %}"},
	{name: "render", src: "{{ render \"part.html\" }}"},
	{name: "comment", src: "{# c #}{% x++ %}"},
	{name: "continue", src: "{% x++ %}{% if x == x %}{% continue %}{% end %}{% x = 0 %}", loopOnly: true},
}

type tplForm struct {
	name  string
	loop  bool
	tpl   func(p string) string
	files func(p string) map[string]string
}

func macroTree(depth int, p string) string {
	var b strings.Builder
	b.WriteString("{% macro T0() %}" + p + "{% end %}")
	for k := 1; k <= depth; k++ {
		fmt.Fprintf(&b, "{%% macro T%d() %%}%s{{ T%d() }}{{ T%d() }}{%% end %%}", k, p, k-1, k-1)
	}
	fmt.Fprintf(&b, "{{ T%d() }}", depth)
	return b.String()
}

var tplForms = []tplForm{
	{name: "for-clause", loop: true, tpl: func(p string) string { return "{% for i := 0; ; i++ %}" + p + "{% end %}" }},
	{name: "for-cond", loop: true, tpl: func(p string) string { return "{% for x >= 0 || x < 0 %}" + p + "{% end %}" }},
	{name: "range-huge", loop: true, tpl: func(p string) string { return "{% for range huge %}" + p + "{% end %}" }},
	{name: "range-huge-iv", loop: true, tpl: func(p string) string { return "{% for i, e := range huge %}{% _, _ = i, e %}" + p + "{% end %}" }},
	{name: "for-in-huge", loop: true, tpl: func(p string) string { return "{% for e in huge %}{% _ = e %}" + p + "{% end %}" }},
	{name: "macro-recursion", tpl: func(p string) string { return "{% macro R(n int) %}" + p + "{{ R(n + 1) }}{% end %}{{ R(0) }}" }},
	{name: "macro-recursion-guard-true", tpl: func(p string) string {
		return "{% macro R(n int) %}" + p + "{% if n >= 0 %}{{ R(n + 1) }}{% end %}{% end %}{{ R(0) }}"
	}},
	{name: "macro-tree", tpl: func(p string) string { return macroTree(40, p) }},
	{name: "func-recursion", tpl: func(p string) string {
		return "{% var r func(int) int %}{% r = func(n int) int { return 1 + r(n+1) } %}" + p + "{{ r(0) }}"
	}},
	{name: "in-macro-loop", loop: true, tpl: func(p string) string {
		return "{% macro L() %}{% for i := 0; ; i++ %}" + p + "{% end %}{% end %}<p>{{ L() }}</p>"
	}},
	{name: "in-goroutine", tpl: func(p string) string {
		return "{% go func() { for { x++ } }() %}" + p + "{% select %}{% end %}"
	}},
	{name: "nested-range-huge", loop: true, tpl: func(p string) string {
		return "{% for range huge %}{% for range huge %}" + p + "{% end %}{% end %}"
	}},
}

var tplEarlier = []snippet{
	{"none", ""},
	{"default-only", "{% select %}{% default %}{% x++ %}{% end %}"},
	{"recv-default", "{% select %}{% case v := <-a %}{% x += v %}{% default %}{% x++ %}{% end %}"},
	{"default-recv", "{% select %}{% default %}{% x++ %}{% case v := <-a %}{% x += v %}{% end %}"},
	{"send-default", "{% select %}{% case a <- 1 %}{% x++ %}{% default %}{% x-- %}{% end %}"},
	{"recv-ready", "{% ready <- 5 %}{% select %}{% case v := <-ready %}{% x += v %}{% end %}"},
	{"send-ready", "{% select %}{% case room <- 1 %}{% x++ %}{% end %}"},
	{"recv-ready-default", "{% ready <- 5 %}{% select %}{% case v := <-ready %}{% x += v %}{% default %}{% x-- %}{% end %}"},
	{"loop-default", "{% for i := 0; i < 3; i++ %}{% select %}{% case v := <-a %}{% x += v %}{% default %}{% x++ %}{% end %}{% end %}"},
}

var tplBlockers = []snippet{
	{"select-empty", "{% select %}{% end %}"},
	{"select-recv", "{% select %}{% case v := <-a %}{% x += v %}{% end %}"},
	{"select-send", "{% select %}{% case a <- 1 %}{% x++ %}{% end %}"},
	{"select-nil", "{% select %}{% case <-nilch %}{% x++ %}{% end %}"},
	{"recv", "{{ <-a }}"},
	{"send", "{% a <- 1 %}"},
	{"range-chan", "{% for v := range a %}{% x += v %}{% end %}"},
	{"spin", "{% for i := 0; ; i++ %}{% x++ %}{% end %}"},
}

var tplPlacements = []placement{
	{"same-file", func(e, f string) string { return e + f }},
	{"blocks-in-macro", func(e, f string) string { return "{% macro F() %}" + f + "{% end %}" + e + "{{ F() }}" }},
	{"selects-in-macro", func(e, f string) string { return "{% macro E() %}" + e + "{% end %}{{ E() }}" + f }},
	{"range-body", func(e, f string) string { return "{% for range arr %}" + e + f + "{% end %}" }},
	{"after-range-body", func(e, f string) string { return "{% for range arr[:1] %}" + e + "{% x++ %}{% end %}" + f }},
}

// renderTree: file p<k>.html renders p<k-1>.html twice; p0.html holds the leaf.
func renderTree(depth int, leaf string) (main string, files map[string]string) {
	files = map[string]string{"p0.html": leaf}
	for k := 1; k <= depth; k++ {
		files[fmt.Sprintf("p%d.html", k)] = fmt.Sprintf("{{ render \"p%d.html\" }}{{ render \"p%d.html\" }}", k-1, k-1)
	}
	return fmt.Sprintf("{{ render \"p%d.html\" }}", depth), files
}

// ---- pair family: main x goroutine ----

var pairForms = []snippet{
	{"spin-for", "for {\n\tx++\n}"},
	{"spin-range-huge", "for range huge {\n\tx++\n}"},
	{"spin-recursion", "rr(0)"},
	{"block-select", "select {}"},
	{"block-recv", "<-idle"},
	{"block-send", "idle <- 1"},
	{"block-range", "for range idle {\n}"},
	{"native-sleep", "for {\n\th.Sleep(3000)\n}"},
}

func init() {
	add := func(k kind) {
		k.nonterm = true
		k.want = "ctxErr 0"
		kinds = append(kinds, k)
	}
	// loop family, programs
	for _, f := range loopForms {
		for _, p := range progPieces {
			if p.loopOnly && !f.loop {
				continue
			}
			k := kind{name: "loop/" + f.name + "/" + p.name, family: "loop", src: program(f.prog(p.src))}
			if p.straight {
				k.skel = f.skel
			}
			add(k)
		}
	}
	// loop family, templates
	for _, f := range tplForms {
		for _, p := range tplPieces {
			if p.loopOnly && !f.loop {
				continue
			}
			add(kind{name: "tpl-loop/" + f.name + "/" + p.name, family: "tpl-loop", template: true,
				src: template(f.tpl(p.src)), files: map[string]string{"part.html": "p"}})
		}
	}
	// render trees
	for _, leaf := range []snippet{{"text", "t"}, {"empty", ""}, {"show", "{{ v }}"}, {"if", "{% if v == v %}{% end %}"}, {"for", "{% for i := 0; i < 2; i++ %}{% end %}"}} {
		main, files := renderTree(40, leaf.src)
		add(kind{name: "tpl-loop/render-tree/" + leaf.name, family: "tpl-loop", template: true, src: main, files: files})
	}
	// select family
	for _, pl := range placements {
		for _, e := range earlierSelects {
			for _, f := range blockers {
				add(kind{name: "select/" + pl.name + "/" + e.name + "/" + f.name, family: "select", src: program(pl.prog(e.src, f.src))})
			}
		}
	}
	for _, pl := range tplPlacements {
		for _, e := range tplEarlier {
			for _, f := range tplBlockers {
				add(kind{name: "tpl-select/" + pl.name + "/" + e.name + "/" + f.name, family: "tpl-select", template: true,
					src: template(pl.prog(e.src, f.src))})
			}
		}
	}
	// pair family
	for _, mn := range pairForms {
		for _, g := range pairForms {
			add(kind{name: "pair/" + mn.name + "/" + g.name, family: "pair",
				src: program(mainOf("go func() {\n" + indent(strings.ReplaceAll(strings.ReplaceAll(g.src, "x++", "y++"), "idle", "b"), 1) + "}()\n" + mn.src))})
		}
	}
}
