package main

import (
	"context"
	"encoding/json"
	"fmt"
	"os"
	"os/exec"
	"path/filepath"
	"runtime"
	"sort"
	"strconv"
	"strings"
	"sync"
	"time"

	"verifharness/internal/hx"
	"verifharness/internal/proto"
	"verifharness/props/c10/run"
)

// C11: generated non-terminating and blocking programs and templates are run with a context that
// is cancelled (or times out) after a random delay: Run must return the context's error within a
// latency bound and must not panic into the host; programs that finish before the cancellation
// return their own outcome. The outcome class of every kind is also predicted by the Lean
// machine (Model/Cancel.lean, with the facts regenerated from run.go) on an abstract program and
// event trace, and the blocking opcodes found by the extractor must all be exercised here.
func main() {
	if os.Getenv("VERIF_C11_CHILD") != "" {
		child()
		return
	}
	hx.Main("C11", runC11)
}

type kind struct {
	name     string
	template bool
	decls    string // package-level declarations (programs)
	body     string // body of main, or the template source; KK = a random constant
	abs      string // the abstract program sent to the model
	trace    string // abstract event trace: the run, then cancel (and watcher), then steps
	want     string // model's expected answer ("ctxErr 0", "own 0")
	op       string // the blocking opcode the kind blocks in, if any
	nonterm  bool
	// shape family (shapes.go)
	family string            // "" for the hand-written kinds
	src    string            // the whole program / template source (instead of decls and body)
	files  map[string]string // further template files
	skel   string            // the form's cycle for the dispatch model
}

const fibDecl = "func fib(n int) int { if n < 2 { return n }; return fib(n-1) + fib(n-2) }\n"

var kinds = []kind{
	{name: "for-empty", body: "for {}", abs: "j0", trace: "s0,s0,s0,c,w,s0", want: "ctxErr 0", nonterm: true},
	{name: "for-count", body: "x := 0\nfor i := 0; ; i++ { x += i * KK }", abs: "c,c,j1", trace: "s0,s0,s0,s0,c,w,s0", want: "ctxErr 0", nonterm: true},
	{name: "nested-calls", decls: "func f(n int) int { s := 0; for i := 0; i < n; i++ { s += i }; return s }\n",
		body: "t := 0\nfor { t += f(KK) }", abs: "c,j3,j0,c,c,j1", trace: "s0,s0,s0,s0,s0,c,w,s0", want: "ctxErr 0", nonterm: true},
	{name: "recursion-loop", decls: fibDecl, body: "for { fib(11 + KK%4) }", abs: "j2,j0,c,j1", trace: "s0,s0,s0,s0,c,w,s0", want: "ctxErr 0", nonterm: true},
	{name: "recv", body: "ch := make(chan int)\n<-ch", abs: "c,r,h", trace: "s0,s0,s0,c,s0", want: "ctxErr 0", op: "OpReceive", nonterm: true},
	{name: "recv-ok", body: "ch := make(chan string, KK%3)\nv, ok := <-ch\nprintln(v, ok)", abs: "c,r,c,h", trace: "s0,s0,c,s0", want: "ctxErr 0", op: "OpReceive", nonterm: true},
	{name: "send", body: "ch := make(chan int)\nch <- KK", abs: "c,s,h", trace: "s0,s0,c,s0", want: "ctxErr 0", op: "OpSend", nonterm: true},
	{name: "send-full", body: "ch := make(chan int, 1)\nch <- 1\nch <- KK", abs: "c,s,s,h", trace: "s0,S0,s0,c,s0", want: "ctxErr 0", op: "OpSend", nonterm: true},
	{name: "select-empty", body: "select {}", abs: "l0,h", trace: "s0,s0,c,s0", want: "ctxErr 0", op: "OpSelect", nonterm: true},
	{name: "select-two", body: "a, b := make(chan int), make(chan string)\nselect {\ncase v := <-a:\n\tprintln(v)\ncase b <- \"x\":\n\tprintln(KK)\n}", abs: "c,l0,c,h", trace: "s0,s0,s0,c,s0", want: "ctxErr 0", op: "OpSelect", nonterm: true},
	{name: "range-chan", body: "ch := make(chan int)\nfor v := range ch { println(v) }", abs: "c,g,c,j1,h", trace: "s0,s0,s0,c,s0", want: "ctxErr 0", op: "OpRange", nonterm: true},
	{name: "nil-recv", body: "var ch chan int\n<-ch", abs: "c,r,h", trace: "s0,s0,c,s0", want: "ctxErr 0", op: "OpReceive", nonterm: true},
	{name: "nil-send", body: "var ch chan int\nch <- KK", abs: "c,s,h", trace: "s0,s0,c,s0", want: "ctxErr 0", op: "OpSend", nonterm: true},
	{name: "goroutines-spin", body: "ch := make(chan int)\nfor i := 0; i < 1+KK%4; i++ { go func() { for {} }() }\n<-ch", abs: "o3,r,h,j3", trace: "s0,s0,s1,s1,c,w,s1,s0", want: "ctxErr 0", op: "OpReceive", nonterm: true},
	{name: "goroutines-blocked", body: "ch := make(chan int)\nfor i := 0; i < 1+KK%5; i++ { go func() { <-ch }() }\nselect {}", abs: "o3,l0,h,r,h", trace: "s0,s0,s1,s1,c,s1,s0", want: "ctxErr 0", op: "OpSelect", nonterm: true},
	{name: "main-spins-goroutine-blocked", body: "ch := make(chan int)\ngo func() { ch <- 1 }()\nfor {}", abs: "o2,j1,s,h", trace: "s0,s0,s1,s0,c,w,s0,s1", want: "ctxErr 0", op: "OpSend", nonterm: true},
	{name: "select-default-spin", body: "ch := make(chan int)\nn := 0\nfor {\n\tselect {\n\tcase <-ch:\n\tdefault:\n\t\tn++\n\t}\n}", abs: "c,l1,c,j1", trace: "s0,s0,s0,s0,s0,c,w,s0", want: "ctxErr 0", nonterm: true},
	{name: "native-loop", body: "x := 0\nfor { x = h.Triple(x) % KK }", abs: "c,n0,j1", trace: "s0,s0,s0,s0,c,w,s0,s0,s0", want: "ctxErr 0", nonterm: true},
	{name: "native-sleep-loop", body: "for { h.Sleep(50 + KK%200) }", abs: "n2,j0", trace: "s0,s0,c,w,s0,s0,s0,s0", want: "ctxErr 0", nonterm: true},
	{name: "defer-loop", body: "defer func() { for {} }()\npanic(\"x\")", abs: "c,j1", trace: "s0,s0,s0,c,w,s0", want: "ctxErr 0", nonterm: true},
	{name: "recover-then-loop", decls: "func g() {\n\tdefer func() { recover(); for {} }()\n\tpanic(1)\n}\n", body: "g()", abs: "c,c,j2", trace: "s0,s0,s0,s0,c,w,s0", want: "ctxErr 0", nonterm: true},
	{name: "pipeline-endless", body: "ch := make(chan int)\ngo func() { for i := 0; ; i++ { ch <- i } }()\ns := 0\nfor v := range ch { s += v }", abs: "o4,g,c,j1,s,j4", trace: "s0,s1,S0,S1,s0,s0,c,w,s0,s1,s1", want: "ctxErr 0", op: "OpRange", nonterm: true},
	{name: "callback-loop", body: "println(h.Apply(func(x int) int { for {}; return x }, KK))", abs: "c,j1", trace: "s0,s0,s0,c,w,s0", want: "ctxErr 0", nonterm: true},
	{name: "tpl-for", template: true, body: "a{% for i := 0; ; i++ %}{% end %}b", abs: "c,j1", trace: "s0,s0,s0,c,w,s0", want: "ctxErr 0", nonterm: true},
	{name: "tpl-for-show", template: true, body: "{% for i := 0; ; i++ %}{% if i % 4000000 == KK %}{{ i }}{% end %}{% end %}", abs: "c,c,j1", trace: "s0,s0,s0,s0,c,w,s0", want: "ctxErr 0", nonterm: true},
	{name: "tpl-macro-loop", template: true, body: "{% macro M(n int) %}{% for n > 0 %}{% n++ %}{% end %}{% end %}<p>{{ M(KK) }}</p>", abs: "j2,h,c,j2", trace: "s0,s0,s0,c,w,s0", want: "ctxErr 0", nonterm: true},
	{name: "tpl-recv", template: true, body: "{% ch := make(chan int) %}x{{ <-ch }}y", abs: "c,r,h", trace: "s0,s0,c,s0", want: "ctxErr 0", op: "OpReceive", nonterm: true},
	// terminating: finish long before any cancellation
	{name: "term-print", body: "s := 0\nfor i := 0; i < KK; i++ { s += i }\nprintln(\"sum\", s)", abs: "c,c,h", trace: "s0,s0,s0,s0,c,w", want: "own 0"},
	{name: "term-panic", body: "println(\"before\")\npanic(\"boom\" + h.Itoa(KK))", abs: "c,h", trace: "s0,s0,s0,c,w", want: "own 0"},
	{name: "term-goroutines", body: "ch := make(chan int)\nfor i := 0; i < 3; i++ { go func(d int) { ch <- d * KK }(i) }\nprintln(<-ch + <-ch + <-ch)", abs: "o3,r,h,s,h", trace: "s0,s1,S1,S0,s1,s1,s0,s0,c,w", want: "own 0"},
	{name: "tpl-term", template: true, body: "<p>{{ v + KK }}{% for i := 0; i < 3; i++ %}{{ i }}{% end %}</p>", abs: "c,c,h", trace: "s0,s0,s0,s0,c,w", want: "own 0"},
}

// Nested shapes: every blocking construct as the body of every loop that waits on a channel, with
// at least one value delivered (so that the loop's own blocking operation is executed again after
// its body has used the VM's scratch select cases), fed by a goroutine that delivers a few values
// and stops, or never stops.
func init() {
	outers := []struct{ name, open, close, abs, op string }{
		{"range", "for v := range in {", "}", "g", "OpRange"},
		{"recvloop", "for {\n\tv := <-in", "}", "r", "OpReceive"},
		{"selectloop", "for {\n\tselect {\n\tcase v := <-in:", "\t}\n}", "l0", "OpSelect"},
		{"selectloop2", "for {\n\tselect {\n\tcase x := <-other:\n\t\tn -= x\n\tcase v := <-in:", "\t}\n}", "l0", "OpSelect"},
	}
	inners := []struct{ name, src, abs string }{
		{"send", "out <- v", "s"},
		{"recv", "w := <-ack\n\tn += w + v", "r"},
		{"select-send", "select {\n\tcase out <- v:\n\t}", "l0"},
		{"select-recv-default", "select {\n\tcase w := <-ack:\n\t\tn += w + v\n\tdefault:\n\t\tn += v\n\t}", "l1"},
		{"range-inner", "for w := range one(v) { n += w }", "g"},
		{"compute", "n += v", "c"},
	}
	for _, o := range outers {
		for _, in := range inners {
			for _, endless := range []bool{false, true} {
				feeder, fabs, name := "for i := 0; i < 1+KK%3; i++ { in <- i }", "s,s,h", "nest-"+o.name+"-"+in.name
				if endless {
					feeder, fabs, name = "for i := 0; ; i++ { in <- i }", "s,j8,h", name+"-endless"
				}
				body := "in, out, ack, other := make(chan int), make(chan int), make(chan int), make(chan int)\n" +
					"go func() { " + feeder + " }()\n" +
					"go func() { for range out {} }()\n" +
					"go func() { for { ack <- 1 } }()\n" +
					"n := 0\n" + o.open + "\n\t" + in.src + "\n" + o.close + "\n_, _ = other, n"
				kinds = append(kinds, kind{
					name:  name,
					decls: "func one(v int) chan int { c := make(chan int, 1); c <- v; close(c); return c }\n",
					body:  body,
					// 0-2 start feeder, drain, ack; 3 n := 0; 4 outer; 5 inner; 6 back to 4; 8 feeder; 11 drain; 13 ack
					abs:     "o8,o11,o13,c," + o.abs + "," + in.abs + ",j4,h," + fabs + ",g,j11,s,j13",
					trace:   "s0,s0,s0,s0,s1,s2,s3,S0,S0,s0,S0,S0,s0,s0,s1,c,w,s0,s1,s2,s3,s0,s1,s2,s3,s0,s1,s2,s3",
					want:    "ctxErr 0",
					op:      o.op,
					nonterm: true,
				})
			}
		}
	}
}

// Callback shapes: Scriggo function values passed to native functions that call them (once, n
// times, again and again until true, from a goroutine of the program), the called function
// blocking or looping in every blocking construct; nested callbacks.
func init() {
	bodies := []struct{ name, src, abs string }{
		{"loop", "for {\n}", "j@"},
		{"recv", "<-ch", "r"},
		{"send", "ch <- KK", "s"},
		{"select", "select {}", "l0"},
		{"range", "for range ch {\n}", "g"},
		{"poll", "select {\ncase <-ch:\ndefault:\n}", "l1"},
	}
	type caller struct {
		name string
		src  func(body string) string
		abs  func(body string) string // body's abstract instruction with @ for its own address
	}
	at := func(abs string, addr int) string { return strings.ReplaceAll(abs, "@", fmt.Sprint(addr)) }
	callers := []caller{
		{"until", func(b string) string { return "h.Until(func() bool {\n" + b + "\nreturn false\n})\n<-ch" },
			func(b string) string { return "c,B4,r,h," + at(b, 4) + ",h" }},
		{"each", func(b string) string { return "h.Each(2+KK%3, func(i int) {\n" + b + "\n})\n<-ch" },
			func(b string) string { return "c,b4,r,h," + at(b, 4) + ",h" }},
		{"apply", func(b string) string {
			return "println(h.Apply(func(x int) int {\n" + b + "\nreturn x\n}, KK))\n<-ch"
		}, func(b string) string { return "c,b4,r,h," + at(b, 4) + ",h" }},
		{"nested", func(b string) string {
			return "h.Until(func() bool {\nh.Each(2, func(i int) {\n" + b + "\n})\nreturn false\n})\n<-ch"
		}, func(b string) string { return "c,B4,r,h,b6,h," + at(b, 6) + ",h" }},
		{"in-goroutine", func(b string) string {
			return "go func() {\nh.Until(func() bool {\n" + b + "\nreturn false\n})\n}()\nselect {}"
		}, func(b string) string { return "o4,l0,h,h,B6,h," + at(b, 6) + ",h" }},
	}
	for _, cl := range callers {
		for _, b := range bodies {
			kinds = append(kinds, kind{
				name:    "cb-" + cl.name + "-" + b.name,
				body:    "ch := make(chan int)\n_ = ch\n" + cl.src(b.src),
				abs:     cl.abs(b.abs),
				trace:   "s0,s0,s0,s0,s0,s0,s1,s1,s1,s1,c,w,s0,s1,s0,s1,s0,s1",
				want:    "ctxErr 0",
				nonterm: true,
			})
		}
	}
	// (a function value called from a goroutine of the native code is the known finding below: it
	// cannot be run in this process)
}

// knownGoCall: a function value called by a goroutine of the NATIVE code, still running when the
// context is cancelled: its VM stops, callable.Value panics with the context's error, and nothing
// recovers a panic in that goroutine — the host process dies. It is replayed in a child process.
const knownGoCall = "callback-in-native-goroutine-kills-host-on-cancel"

const goCallProgram = "package main\n\nimport \"h\"\n\nfunc main() {\n\th.GoCall(func() {\n\t\tfor {\n\t\t}\n\t})\n\tch := make(chan int)\n\t<-ch\n}\n"

// child runs goCallProgram with a context cancelled after 20 ms and stays alive for a while.
func child() {
	a, err := run.Build(run.Case{Kind: "program", Files: map[string]string{"main.go": goCallProgram}, AllowGo: true})
	if err != nil {
		fmt.Println("child: build:", err)
		os.Exit(3)
	}
	ctx, cancel := context.WithCancel(context.Background())
	time.AfterFunc(20*time.Millisecond, cancel)
	o := a.RunOnce(run.Input{}, ctx)
	fmt.Println("child: run returned:", o.String())
	time.Sleep(300 * time.Millisecond)
	fmt.Println("child: alive")
}

// replayGoCall re-executes this binary as the child; reports whether the host process died.
func replayGoCall() (died bool, detail string) {
	cmd := exec.Command(os.Args[0])
	cmd.Env = append(os.Environ(), "VERIF_C11_CHILD=1")
	out, err := cmd.CombinedOutput()
	text := string(out)
	if err != nil || !strings.Contains(text, "child: alive") {
		ls := strings.Split(strings.TrimSpace(text), "\n")
		if len(ls) > 6 {
			ls = ls[:6]
		}
		return true, strings.Join(ls, " | ")
	}
	return false, ""
}

// c11Case is one run: which kind, its constant, how the context ends and when.
type c11Case struct {
	Kind    string `json:"kind"`
	K       int    `json:"k"`
	Ctx     string `json:"ctx"`      // cancel | timeout | precancelled | late | never | background
	DelayUs int    `json:"delay_us"` // when the context is cancelled after Run was called
}

func (c c11Case) line() string {
	b, _ := json.Marshal(c)
	return "C11 case " + string(b)
}

func kindOf(name string) *kind {
	for i := range kinds {
		if kinds[i].name == name {
			return &kinds[i]
		}
	}
	return nil
}

func source(k *kind, K int) run.Case {
	rep := strings.ReplaceAll(k.body, "KK", strconv.Itoa(K))
	if k.src != "" {
		rep = strings.ReplaceAll(k.src, "KK", strconv.Itoa(K))
	}
	if k.template {
		files := map[string]string{"index.html": rep}
		for n, f := range k.files {
			files[n] = f
		}
		return run.Case{Kind: "template", Main: "index.html", Files: files, AllowGo: true}
	}
	if k.src != "" {
		return run.Case{Kind: "program", Files: map[string]string{"main.go": rep}, AllowGo: true}
	}
	src := "package main\n\nimport \"h\"\n\nvar _ = h.Input\n\n" + strings.ReplaceAll(k.decls, "KK", strconv.Itoa(K)) + "\nfunc main() {\n" + rep + "\n}\n"
	return run.Case{Kind: "program", Files: map[string]string{"main.go": src}, AllowGo: true}
}

type observed struct {
	outcome   run.Outcome
	returned  bool
	latency   time.Duration // Run's return after the cancellation (negative: returned before it)
	cancelled bool          // the context was done when Run returned
	ctxErr    string
}

var boundMs = 2000

// dispatchPred: what the dispatch model answers for a form's compiled shape under the placement of the
// flag test that the extractor found: "stopped <n>" (the flag is read after n instructions) or
// "running <n>" (never, in 240 turns of the loop)
var dispatchPred = map[string]string{}

// exec runs one case.
func execCase(cs c11Case) (observed, error) {
	k := kindOf(cs.Kind)
	if k == nil {
		return observed{}, fmt.Errorf("unknown kind %q", cs.Kind)
	}
	a, err := run.Build(source(k, cs.K))
	if err != nil {
		return observed{}, fmt.Errorf("kind %s does not build: %v", cs.Kind, err)
	}
	var ctx context.Context
	var cancel context.CancelFunc
	delay := time.Duration(cs.DelayUs) * time.Microsecond
	var mu sync.Mutex
	var tCancel time.Time
	mark := func() { mu.Lock(); tCancel = time.Now(); mu.Unlock() }
	switch cs.Ctx {
	case "background":
		ctx, cancel = context.Background(), func() {}
	case "timeout":
		ctx, cancel = context.WithTimeout(context.Background(), delay)
		mu.Lock()
		tCancel = time.Now().Add(delay)
		mu.Unlock()
	case "precancelled":
		ctx, cancel = context.WithCancel(context.Background())
		mark()
		cancel()
	default: // cancel, late, never
		ctx, cancel = context.WithCancel(context.Background())
	}
	defer cancel()
	type ret struct {
		o run.Outcome
		t time.Time
		e error
	}
	done := make(chan ret, 1)
	go func() {
		o := a.RunOnce(run.Input{V: 1}, ctx)
		done <- ret{o, time.Now(), ctx.Err()}
	}()
	var timer *time.Timer
	if cs.Ctx == "cancel" {
		timer = time.AfterFunc(delay, func() { mark(); cancel() })
		defer timer.Stop()
	}
	wait := time.Duration(boundMs)*time.Millisecond + delay
	select {
	case r := <-done:
		ob := observed{outcome: r.o, returned: true, cancelled: r.e != nil}
		if r.e != nil {
			ob.ctxErr = r.e.Error()
		}
		mu.Lock()
		if !tCancel.IsZero() {
			ob.latency = r.t.Sub(tCancel)
		}
		mu.Unlock()
		return ob, nil
	case <-time.After(wait):
		return observed{}, nil
	}
}

// endsOnItsOwn reports whether the case's code, given 400 ms before its context is cancelled, returns
// before that cancellation with an outcome that is not the context's error.
func endsOnItsOwn(cs c11Case) bool {
	probe := c11Case{Kind: cs.Kind, K: cs.K, Ctx: "cancel", DelayUs: 400000}
	ob, err := execCase(probe)
	return err == nil && ob.returned && !ob.cancelled && !strings.HasPrefix(ob.outcome.Err, "context ")
}

// simpler looks for a smaller member of the same family that fails in the same way as b (a run that
// does not return): the same form with an empty piece or the piece `x++`; the same earlier select and
// blocker in the first placement. Structured shrinking: the form (or the pair of statements), which
// is what the failure is about, is kept.
func simpler(b proto.Break) (proto.Break, bool) {
	js, ok := strings.CutPrefix(b.Case, "C11 case ")
	var cs c11Case
	if !ok || json.Unmarshal([]byte(js), &cs) != nil {
		return b, false
	}
	parts := strings.Split(cs.Kind, "/")
	var cands []string
	switch {
	case len(parts) == 3 && (parts[0] == "loop" || parts[0] == "tpl-loop"):
		cands = []string{parts[0] + "/" + parts[1] + "/empty", parts[0] + "/" + parts[1] + "/inc"}
	case len(parts) == 4 && parts[0] == "select":
		cands = []string{"select/same-function/" + parts[2] + "/" + parts[3]}
	case len(parts) == 4 && parts[0] == "tpl-select":
		cands = []string{"tpl-select/same-file/" + parts[2] + "/" + parts[3]}
	}
	for _, name := range cands {
		k := kindOf(name)
		if k == nil || name == cs.Kind {
			continue
		}
		c2 := cs
		c2.Kind = name
		src := source(k, c2.K)
		human := src.Files["main.go"] + src.Files["index.html"]
		if len(human) >= len(b.Human) {
			continue
		}
		if ob, err := execCase(c2); err == nil && !ob.returned {
			nb := b
			nb.Case, nb.Human = c2.line(), human
			return nb, true
		}
	}
	return b, false
}

func runC11(c *hx.Ctx) error {
	res := c.Res
	if v := os.Getenv("VERIF_C11_BOUND_MS"); v != "" {
		if n, err := strconv.Atoi(v); err == nil && n > 0 {
			boundMs = n
		}
	}
	nShapes := 0
	for _, k := range kinds {
		if k.family != "" {
			nShapes++
		}
	}
	res.Rule = fmt.Sprintf("%d hand-written kinds (30 callback shapes, 48 nested shapes, 31 flat ones; see the kinds table) run 12 (thorough 160) times each with a random constant and context ending, and %d composed shapes of the non-terminating / blocking family, each run once (thorough 8 times), the shapes of a family taking the three cancel moments in turn: before Run, during the run (0-20 ms), deadline. Families: loop = 23 ways of running a piece of code for ever (for / for cond / for clause / goto loop / one range over 2^40 zero-sized elements with and without variables / range over a fed channel / recursion: tail, non-tail, guarded by a true or a false condition, through a closure variable, mutual, a 2^40 call tree of distinct functions, a call tree through native callbacks, a chain of deferred calls, a native function calling back for ever / in a goroutine, in a goroutine by recursion, in a range body, in a deferred function, nested three deep, nested huge ranges) x 34 pieces of code (one statement of every kind); tpl-loop = 12 template forms (for, range and for-in over the huge slice, macro recursion plain and guarded, macro call tree, function-value recursion, loop in a macro, goroutine, nested ranges) x 21 template pieces, and 2^40 trees of {{ render }} over 41 files; select = 12 earlier select statements (none, default only, default first / last / in the middle, receive and send cases ready or not, nil channel, in a loop) x 9 constructs that block or spin (select {}, select with only blocked cases, receive, send, range over a channel, tight loop) x 10 placements (same function, callee, caller, closures, goroutine, range body, after a range body, deferred, native callback either way); tpl-select = 9 x 8 x 5 in templates; pair = 8 x 8 (what main does x what a goroutine does). Then the contended family (contended.go): 360 programs and templates whose goroutines compete for one buffered channel (capacity 1/2/4 x 1-3 sending goroutines, by send or select x 1-2 receiving goroutines, by receive or range x main sending / select-sending / ranging / receiving), a twelfth of them per quick run x 60 trials (thorough: all x 150), each trial cancelled 0.2-3 ms after Run was called on at least 4 CPUs; every trial must return context.Canceled and no goroutine may be left. Oracle: Run returns the context's error within %d ms of the context's end (a run that does not is run a second time before it counts), no host panic, goroutines end; a shape that ends on its own before the cancellation (observed by a run with a late cancellation) is judged as terminating code. Non-trivial: non-terminating code whose context ends, or terminating code with a context; distinct by kind+constant+context+delay", len(kinds)-nShapes, nShapes, boundMs)
	if c.Replay != "" {
		return replayC11(c)
	}

	// known finding, replayed on the real code (in a child process: it kills the host)
	if died, detail := replayGoCall(); died {
		res.AddBreak(proto.Break{Kind: "property", Name: "host-panic", Finding: c.Known(knownGoCall),
			Case:  "C11 child " + knownGoCall,
			Human: goCallProgram + "// native: GoCall(f func()) { go f() }; context cancelled after 20 ms",
			Impl:  detail, Model: "Run returns the context's error and the host process keeps running"})
	}

	// model: facts, op coverage, predictions per kind
	if c.D != nil {
		facts, err := c.D.Ask("C11 facts")
		if err != nil {
			return err
		}
		res.Notes = append(res.Notes, "cancellation facts: "+facts)
		if i := strings.Index(facts, "ops="); i >= 0 {
			for _, op := range strings.Split(facts[i+4:], ",") {
				covered := false
				for _, k := range kinds {
					covered = covered || k.op == op
				}
				if !covered {
					res.AddBreak(proto.Break{Kind: "correspondence", Name: "blocking-op-without-cancellation-test", Case: "C11 facts", Impl: "no kind of the harness blocks in " + op, Model: facts})
				}
			}
		} else {
			res.AddBreak(proto.Break{Kind: "correspondence", Name: "facts", Case: "C11 facts", Impl: "-", Model: facts})
		}
		var lines []string
		var predicted []kind
		for _, k := range kinds {
			if k.abs == "" {
				continue
			}
			predicted = append(predicted, k)
			lines = append(lines, "C11 predict "+k.abs+" "+k.trace)
		}
		ans, err := c.D.Batch(lines)
		if err != nil {
			return err
		}
		for i, k := range predicted {
			res.SpecChecks["model-predictions"]++
			if ans[i] != "ok "+k.want {
				res.AddBreak(proto.Break{Kind: "correspondence", Name: "model-prediction-for-" + k.name, Case: lines[i],
					Human: k.body, Impl: "real code (on the unchanged tree): " + k.want, Model: ans[i]})
			}
		}
		res.Sample(map[string]string{"line": lines[0], "model": ans[0]})

		// the instruction loop: which opcodes can take the program counter backwards or elsewhere, and
		// what the loop does — with the flag test where the extractor found it — on the compiled
		// shape of every loop form
		flow, err := c.D.Ask("C11 flow")
		if err != nil {
			return err
		}
		res.Notes = append(res.Notes, "instruction loop: "+flow)
		var skels, dl []string
		seen := map[string]bool{}
		for _, k := range kinds {
			if k.skel != "" && !seen[k.skel] {
				seen[k.skel] = true
				skels = append(skels, k.skel)
				prog, chs, _ := strings.Cut(k.skel, "|")
				dl = append(dl, "C11 dispatch code "+prog+" "+chs)
			}
		}
		dans, err := c.D.Batch(dl)
		if err != nil {
			return err
		}
		for i, a := range dans {
			f := strings.Fields(a)
			if len(f) != 3 || f[0] != "ok" {
				res.AddBreak(proto.Break{Kind: "correspondence", Name: "dispatch-model", Case: dl[i], Impl: "-", Model: a})
				continue
			}
			dispatchPred[skels[i]] = f[1] + " " + f[2]
			res.SpecChecks["dispatch-predictions"]++
		}
	}

	baseline := runtime.NumGoroutine()
	// own outcomes of the terminating kinds (no context at all), per constant
	ownOf := map[string]run.Outcome{}
	own := func(k *kind, K int) (run.Outcome, error) {
		key := k.name + ":" + strconv.Itoa(K)
		if o, ok := ownOf[key]; ok {
			return o, nil
		}
		a, err := run.Build(source(k, K))
		if err != nil {
			return run.Outcome{}, fmt.Errorf("kind %s does not build: %v", k.name, err)
		}
		o := a.RunOnce(run.Input{V: 1}, nil)
		ownOf[key] = o
		return o, nil
	}

	perKind := c.N(12, 160)
	perShape := c.N(1, 8)
	var cases []c11Case
	for ki, k := range kinds {
		n := perKind
		if k.family != "" {
			n = perShape
		}
		for i := 0; i < n; i++ {
			cs := c11Case{Kind: k.name, K: 3 + c.R.Intn(500)}
			if k.family != "" {
				// the shapes of a family go through the three cancel moments in turn (which shape gets
				// which moment depends on the seed): before Run, during the run, deadline
				switch (ki + i + int(c.Seed%3)) % 3 {
				case 0:
					cs.Ctx, cs.DelayUs = "cancel", c.R.Intn(20000)
					if c.R.Intn(4) == 0 {
						cs.DelayUs = c.R.Intn(300)
					}
				case 1:
					cs.Ctx, cs.DelayUs = "timeout", 100+c.R.Intn(15000)
				default:
					cs.Ctx = "precancelled"
				}
			} else if k.nonterm {
				switch x := c.R.Intn(10); {
				case x < 6:
					cs.Ctx, cs.DelayUs = "cancel", c.R.Intn(30000)
					if c.R.Intn(4) == 0 {
						cs.DelayUs = c.R.Intn(300) // races with the start of the run
					}
				case x < 9:
					cs.Ctx, cs.DelayUs = "timeout", 100+c.R.Intn(25000)
				default:
					cs.Ctx = "precancelled"
				}
			} else {
				cs.Ctx = []string{"never", "late", "background", "cancel"}[c.R.Intn(4)]
				if cs.Ctx == "cancel" {
					cs.DelayUs = c.R.Intn(2000)
				}
			}
			cases = append(cases, cs)
		}
	}
	// shuffle, then run four at a time
	for i := len(cases) - 1; i > 0; i-- {
		j := c.R.Intn(i + 1)
		cases[i], cases[j] = cases[j], cases[i]
	}
	type outRec struct {
		cs  c11Case
		ob  observed
		err error
	}
	outs := make([]outRec, len(cases))
	var wg sync.WaitGroup
	sem := make(chan struct{}, 4)
	var hangs int32
	var hmu sync.Mutex
	for i, cs := range cases {
		hmu.Lock()
		stop := hangs >= 3
		hmu.Unlock()
		if stop {
			res.Notes = append(res.Notes, "stopped after 3 runs that did not return")
			outs = outs[:i]
			break
		}
		wg.Add(1)
		sem <- struct{}{}
		go func(i int, cs c11Case) {
			defer wg.Done()
			defer func() { <-sem }()
			ob, err := execCase(cs)
			if err == nil && !ob.returned {
				// a run that does not return is a property of the code, not of the moment: it must
				// do so again (a machine under load can delay the watcher goroutine of one run)
				ob, err = execCase(cs)
			}
			if err == nil && !ob.returned {
				hmu.Lock()
				hangs++
				hmu.Unlock()
			}
			outs[i] = outRec{cs, ob, err}
		}(i, cs)
	}
	wg.Wait()

	var maxLat time.Duration
	var lats []time.Duration
	var pending []proto.Break // failing inputs; the smallest one is reported first
	var errs []string
	for _, o := range outs {
		if o.err != nil {
			errs = append(errs, o.err.Error())
		}
	}
	if len(errs) > 0 {
		sort.Strings(errs)
		if len(errs) > 40 {
			errs = errs[:40]
		}
		return fmt.Errorf("%d cases could not be run: %s", len(errs), strings.Join(errs, "\n"))
	}
	for _, o := range outs {
		if o.cs.Kind == "" {
			continue
		}
		k := kindOf(o.cs.Kind)
		res.Count(o.cs.line(), k.nonterm || o.cs.Ctx != "background")
		if k.family == "" {
			res.Hist("kind:" + k.name)
		} else {
			res.Hist("family:" + k.family)
			res.Hist("form:" + k.family + "/" + strings.Split(k.name, "/")[1])
		}
		res.Hist("ctx:" + o.cs.Ctx)
		human := source(k, o.cs.K).Files["main.go"] + source(k, o.cs.K).Files["index.html"]
		brk := func(name, impl, model string) {
			pending = append(pending, proto.Break{Kind: "property", Name: name, Case: o.cs.line(), Human: human, Impl: impl, Model: model})
		}
		pred := dispatchPred[k.skel]
		if !o.ob.returned {
			model := "Run returns the context's error"
			if pred != "" {
				model += "; instruction loop of the model on this form, flag set: " + pred
				res.Hist("dispatch:" + strings.Fields(pred)[0] + "/real:no-return")
			}
			brk("run-does-not-return-within-bound", fmt.Sprintf("Run had not returned %d ms after the context was done", boundMs), model)
			continue
		}
		if pred != "" {
			res.Hist("dispatch:" + strings.Fields(pred)[0] + "/real:returned")
			if strings.HasPrefix(pred, "running") && strings.HasPrefix(o.ob.outcome.Err, "context ") {
				// the model, with the flag test where the extractor found it, never reads the flag on
				// this form — the real loop did
				res.AddBreak(proto.Break{Kind: "correspondence", Name: "dispatch-model-reads-no-flag-but-run-stopped", Case: o.cs.line(), Human: human,
					Impl: o.ob.outcome.String(), Model: "C11 dispatch code " + k.skel + " = " + pred})
			}
		}
		if o.ob.outcome.Panic != "" {
			brk("host-panic", o.ob.outcome.String(), "no panic out of Run")
			continue
		}
		if k.nonterm {
			wantErr := "context canceled"
			if o.cs.Ctx == "timeout" {
				wantErr = "context deadline exceeded"
			}
			if o.ob.outcome.Err != wantErr {
				// the clause is about code that is still running when the context ends: a shape that
				// comes to an end on its own (observed, not assumed: run again with a context that is
				// cancelled much later) is judged as terminating code
				if endsOnItsOwn(o.cs) {
					res.Hist("ends-on-its-own:" + k.name)
					continue
				}
				brk("returns-context-error", o.ob.outcome.String(), "err="+wantErr)
			}
			if o.ob.latency > maxLat {
				maxLat = o.ob.latency
			}
			lats = append(lats, o.ob.latency)
			if o.ob.latency > time.Duration(boundMs)*time.Millisecond {
				brk("latency-bound", fmt.Sprintf("returned %v after the context was done", o.ob.latency), fmt.Sprintf("within %d ms", boundMs))
			}
		} else {
			want, err := own(k, o.cs.K)
			if err != nil {
				return err
			}
			if o.cs.Ctx == "cancel" && o.ob.cancelled && o.ob.outcome.Err == "context canceled" {
				res.Hist("racing-cancel-won") // allowed: the cancellation arrived while the code was running
				continue
			}
			if o.ob.outcome != want {
				brk("finished-before-cancel-returns-own-outcome", o.ob.outcome.String(), want.String())
			}
		}
	}
	sort.SliceStable(pending, func(i, j int) bool { return len(pending[i].Human) < len(pending[j].Human) })
	if len(pending) > 0 && pending[0].Name == "run-does-not-return-within-bound" {
		if b, ok := simpler(pending[0]); ok {
			pending = append([]proto.Break{b}, pending...)
		}
	}
	for _, b := range pending {
		res.AddBreak(b)
	}
	sort.Slice(outs, func(i, j int) bool { return outs[i].ob.latency > outs[j].ob.latency })
	for i := 0; i < 5 && i < len(outs); i++ {
		if outs[i].ob.latency > 150*time.Millisecond {
			res.Notes = append(res.Notes, fmt.Sprintf("slow stop: %v %s", outs[i].ob.latency, outs[i].cs.line()))
		}
	}
	sort.Slice(lats, func(i, j int) bool { return lats[i] < lats[j] })
	if len(lats) > 0 {
		res.Notes = append(res.Notes, fmt.Sprintf("latency after cancellation: median %v, p99 %v, max %v (bound %d ms)", lats[len(lats)/2], lats[len(lats)*99/100], maxLat, boundMs))
	}
	// every VM goroutine of a cancelled run must end too (they share env.done)
	if hangs == 0 {
		deadline := time.Now().Add(5 * time.Second)
		for runtime.NumGoroutine() > baseline+2 && time.Now().Before(deadline) {
			time.Sleep(20 * time.Millisecond)
		}
		if n := runtime.NumGoroutine(); n > baseline+2 {
			res.AddBreak(proto.Break{Kind: "property", Name: "goroutines-outlive-cancelled-runs", Case: "C11 all", Impl: fmt.Sprintf("%d goroutines still alive 5 s after the last run returned (baseline %d)", n, baseline), Model: "goroutines started by a cancelled run stop as well"})
		}
	}
	// the contended family (its own trial loop: nothing in it is deterministic)
	return contendedStream(c)
}

func replayC11(c *hx.Ctx) error {
	data, err := os.ReadFile(c.Replay)
	if err != nil && !filepath.IsAbs(c.Replay) { // the check runs the harness in go/, the path is relative to its parent
		data, err = os.ReadFile(filepath.Join("..", c.Replay))
	}
	if err != nil {
		return err
	}
	var rp struct {
		Case string `json:"case"`
	}
	if err := json.Unmarshal(data, &rp); err != nil {
		return err
	}
	if js, ok := strings.CutPrefix(rp.Case, "C11 contended "); ok {
		return replayContended(c, js)
	}
	js, ok := strings.CutPrefix(rp.Case, "C11 case ")
	if !ok {
		return fmt.Errorf("replay: not a C11 case: %.80s", rp.Case)
	}
	var cs c11Case
	if err := json.Unmarshal([]byte(js), &cs); err != nil {
		return err
	}
	k := kindOf(cs.Kind)
	for i := 0; i < 10; i++ {
		ob, err := execCase(cs)
		if err != nil {
			return err
		}
		c.Res.Count(cs.line(), true)
		if !ob.returned {
			c.Res.AddBreak(proto.Break{Kind: "property", Name: "run-does-not-return-within-bound", Case: cs.line(), Impl: "no return", Model: "Run returns the context's error"})
			break
		}
		if k != nil && k.nonterm && !strings.HasPrefix(ob.outcome.Err, "context ") {
			c.Res.AddBreak(proto.Break{Kind: "property", Name: "returns-context-error", Case: cs.line(), Impl: ob.outcome.String(), Model: "the context's error"})
		}
	}
	return nil
}
