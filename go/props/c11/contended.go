package main

import (
	"context"
	"encoding/json"
	"fmt"
	"runtime"
	"strings"
	"time"

	"verifharness/internal/hx"
	"verifharness/internal/proto"
	"verifharness/props/c10/run"
)

// The contended family: programs whose goroutines compete for one buffered channel, so that what a
// goroutine observes of the channel (room in the buffer, a value waiting) may be false by the time
// it acts. Nothing in them is deterministic: each program is run many times (trials), cancelled
// after a short random delay, on at least four CPUs; in every trial Run must return the context's
// error within the bound, and when the trials are over no goroutine of the program may be left.
//
//   capacity of the channel {1, 2, 4}
//   x goroutines that send for ever {1, 2, 3} (main is one more sender when it sends), sending by a
//     send statement or by a select with one send case
//   x goroutines that receive for ever {1, 2}, by a receive expression or by a range statement
//   x what main does for ever {send, select with a send case, range over the channel, receive}
//   x {program, template}
//
// The failing input is the program together with the number of trials.

type contended struct {
	Cap       int    `json:"cap"`
	Senders   int    `json:"senders"`
	SendForm  string `json:"send_form"` // send | select
	Receivers int    `json:"receivers"`
	RecvForm  string `json:"recv_form"` // recv | range
	Main      string `json:"main"`      // send | select-send | range-recv | recv
	Template  bool   `json:"template"`
	Trials    int    `json:"trials"`
	Seed      uint64 `json:"seed"`
}

func (p contended) line() string {
	b, _ := json.Marshal(p)
	return "C11 contended " + string(b)
}

func (p contended) source() run.Case {
	send := "ch <- 2"
	if p.SendForm == "select" {
		send = "select {\n\t\t\t\tcase ch <- 2:\n\t\t\t\t}"
	}
	recv := "for {\n\t\t\t\t<-ch\n\t\t\t}"
	if p.RecvForm == "range" {
		recv = "for range ch {\n\t\t\t}"
	}
	var mainGo, mainTpl string
	switch p.Main {
	case "send":
		mainGo, mainTpl = "for {\n\t\tch <- 1\n\t}", "{% for i := 0; ; i++ %}{% ch <- 1 %}{% end %}"
	case "select-send":
		mainGo, mainTpl = "for {\n\t\tselect {\n\t\tcase ch <- 1:\n\t\t}\n\t}", "{% for i := 0; ; i++ %}{% select %}{% case ch <- 1 %}{% end %}{% end %}"
	case "range-recv":
		mainGo, mainTpl = "for range ch {\n\t}", "{% for range ch %}{% end %}"
	default:
		mainGo, mainTpl = "for {\n\t\t<-ch\n\t}", "{% for i := 0; ; i++ %}{% _ = <-ch %}{% end %}"
	}
	goSenders := fmt.Sprintf("for i := 0; i < %d; i++ {\n\t\tgo func() {\n\t\t\tfor {\n\t\t\t\t%s\n\t\t\t}\n\t\t}()\n\t}", p.Senders, send)
	goReceivers := fmt.Sprintf("for i := 0; i < %d; i++ {\n\t\tgo func() {\n\t\t\t%s\n\t\t}()\n\t}", p.Receivers, recv)
	if p.Template {
		flat := func(s string) string { return strings.Join(strings.Fields(s), " ") }
		src := fmt.Sprintf("{%% ch := make(chan int, %d) %%}{%% for i := 0; i < %d; i++ %%}{%% go func() { for { %s } }() %%}{%% end %%}{%% for i := 0; i < %d; i++ %%}{%% go func() { %s }() %%}{%% end %%}%s",
			p.Cap, p.Senders, flat(strings.ReplaceAll(send, "\n", " ")), p.Receivers, flat(strings.ReplaceAll(strings.ReplaceAll(recv, "{\n", "{ "), "\n", "; ")), mainTpl)
		return run.Case{Kind: "template", Main: "index.html", Files: map[string]string{"index.html": src}, AllowGo: true}
	}
	src := fmt.Sprintf("package main\n\nfunc main() {\n\tch := make(chan int, %d)\n\t%s\n\t%s\n\t%s\n}\n", p.Cap, goSenders, goReceivers, mainGo)
	return run.Case{Kind: "program", Files: map[string]string{"main.go": src}, AllowGo: true}
}

func (p contended) human() string {
	c := p.source()
	return c.Files["main.go"] + c.Files["index.html"]
}

func contendedFamily() []contended {
	var out []contended
	for _, mainOp := range []string{"send", "select-send", "range-recv", "recv"} {
		for _, capacity := range []int{1, 2, 4} {
			for _, senders := range []int{1, 2, 3} {
				for _, receivers := range []int{1, 2} {
					for _, sf := range []string{"send", "select"} {
						for _, rf := range []string{"recv", "range"} {
							for _, tpl := range []bool{false, true} {
								if tpl && (sf != "send" || rf != "recv") {
									continue // templates: the plain forms only
								}
								out = append(out, contended{Cap: capacity, Senders: senders, SendForm: sf, Receivers: receivers, RecvForm: rf, Main: mainOp, Template: tpl})
							}
						}
					}
				}
			}
		}
	}
	return out
}

type contendedResult struct {
	hungAt   int // trial in which Run never returned, or -1
	wrongErr string
	late     int           // trials in which Run returned after the bound (a machine under load; reported as a note)
	leaked   int           // goroutines left when the trials were over
	maxLat   time.Duration // of the trials that returned
	done     int
}

// runContended builds p once and runs its trials one after the other.
func runContended(p contended, r *proto.Rand) (contendedResult, error) {
	res := contendedResult{hungAt: -1}
	a, err := run.Build(p.source())
	if err != nil {
		return res, fmt.Errorf("contended program does not build: %v\n%s", err, p.human())
	}
	if runtime.GOMAXPROCS(0) < 4 {
		defer runtime.GOMAXPROCS(runtime.GOMAXPROCS(4))
	}
	settle := func(target int, d time.Duration) int {
		deadline := time.Now().Add(d)
		for runtime.NumGoroutine() > target && time.Now().Before(deadline) {
			time.Sleep(5 * time.Millisecond)
		}
		return runtime.NumGoroutine()
	}
	baseline := settle(0, 50*time.Millisecond)
	bound := time.Duration(boundMs) * time.Millisecond
	type ret struct {
		o run.Outcome
		t time.Time
	}
	for t := 0; t < p.Trials; t++ {
		ctx, cancel := context.WithCancel(context.Background())
		ch := make(chan ret, 1)
		go func() {
			o := a.RunOnce(run.Input{V: 1}, ctx)
			ch <- ret{o, time.Now()}
		}()
		time.Sleep(time.Duration(200+r.Intn(2800)) * time.Microsecond)
		t0 := time.Now()
		cancel()
		var got *ret
		select {
		case x := <-ch:
			got = &x
		case <-time.After(bound):
			// not within the bound: a parked goroutine never comes back, a delayed one does
			select {
			case x := <-ch:
				got = &x
				res.late++
			case <-time.After(2 * bound):
				res.hungAt = t
				res.done = t + 1
				return res, nil
			}
		}
		res.done = t + 1
		if lat := got.t.Sub(t0); lat > res.maxLat {
			res.maxLat = lat
		}
		if got.o.Err != "context canceled" || got.o.Panic != "" {
			res.wrongErr = got.o.String()
			return res, nil
		}
	}
	if n := settle(baseline+1, bound); n > baseline+1 {
		res.leaked = n - baseline
	}
	return res, nil
}

// contendedStream runs the family (a rotating part of it in the quick tier) and adds the breaks.
func contendedStream(c *hx.Ctx) error {
	res := c.Res
	fam := contendedFamily()
	trials := c.N(60, 150)
	var picked []contended
	if c.Quick() {
		// a twelfth of the family per run, chosen by the seed
		for i, p := range fam {
			if (i+int(c.Seed))%12 == 0 {
				picked = append(picked, p)
			}
		}
	} else {
		picked = fam
	}
	failures := 0
	var late int
	var maxLat time.Duration
	for _, p := range picked {
		if failures >= 2 {
			break
		}
		p.Trials, p.Seed = trials, c.Seed
		r, err := runContended(p, c.R)
		if err != nil {
			return err
		}
		res.Count(p.line(), true)
		res.Hist("family:contended")
		res.Hist("contended-main:" + p.Main)
		res.SpecChecks["contended-trials"] += r.done
		late += r.late
		if r.maxLat > maxLat {
			maxLat = r.maxLat
		}
		brk := func(name, impl string) {
			failures++
			res.AddBreak(proto.Break{Kind: "property", Name: name, Case: p.line(), Human: p.human() + fmt.Sprintf("// %d trials, each cancelled 0.2-3 ms after Run was called, GOMAXPROCS %d\n", p.Trials, max(runtime.GOMAXPROCS(0), 4)),
				Impl: impl, Model: "in every trial Run returns the context's error within the bound and no goroutine of the run is left"})
		}
		switch {
		case r.hungAt >= 0:
			brk("run-does-not-return-within-bound", fmt.Sprintf("trial %d of %d: Run had not returned %d ms after the context was cancelled", r.hungAt+1, p.Trials, 3*boundMs))
		case r.wrongErr != "":
			brk("returns-context-error", fmt.Sprintf("trial %d of %d: %s", r.done, p.Trials, r.wrongErr))
		case r.leaked > 0:
			brk("goroutines-outlive-cancelled-runs", fmt.Sprintf("%d goroutines still alive %d ms after the last of %d cancelled runs returned", r.leaked, boundMs, p.Trials))
		}
	}
	res.Notes = append(res.Notes, fmt.Sprintf("contended family: %d programs x %d trials, max latency %v, %d trials returned only after the bound", len(picked), trials, maxLat, late))
	return nil
}

// replayContended re-runs a recorded contended case: the same program, up to ten times the trials.
func replayContended(c *hx.Ctx, js string) error {
	var p contended
	if err := json.Unmarshal([]byte(js), &p); err != nil {
		return err
	}
	start := time.Now()
	for round := 0; round < 10 && time.Since(start) < 90*time.Second; round++ {
		r, err := runContended(p, c.R)
		if err != nil {
			return err
		}
		c.Res.Count(p.line(), true)
		if r.hungAt >= 0 || r.wrongErr != "" || r.leaked > 0 {
			c.Res.AddBreak(proto.Break{Kind: "property", Name: "contended-replay", Case: p.line(), Human: p.human(),
				Impl: fmt.Sprintf("round %d: hung at trial %d, wrong result %q, %d goroutines left", round+1, r.hungAt+1, r.wrongErr, r.leaked), Model: "every trial returns the context's error; no goroutine is left"})
			return nil
		}
	}
	return nil
}
