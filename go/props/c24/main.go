package main

import (
	"fmt"
	"html"
	"strings"

	"github.com/open2b/scriggo"
	"github.com/open2b/scriggo/builtin"

	"verifharness/internal/hx"
	"verifharness/internal/proto"
)

// C24: scriggo.HTMLEscape / builtin.HtmlEscape vs. the Lean model (Model/HTMLEscape.lean),
// with the property's own oracle (five replacements, entity decoding gives s back).
func main() { hx.Main("C24", runC24) }

var c24ref = strings.NewReplacer(`"`, "&#34;", `'`, "&#39;", "&", "&amp;", "<", "&lt;", ">", "&gt;")

func c24impl(s string) (out string, panicked string) {
	defer func() {
		if r := recover(); r != nil {
			panicked = fmt.Sprint(r)
		}
	}()
	return string(scriggo.HTMLEscape(s)), ""
}

// c24oracle is the property itself on the real code.
func c24oracle(s string) (clause string, got string) {
	out, p := c24impl(s)
	if p != "" {
		return "panics", p
	}
	if want := c24ref.Replace(s); out != want {
		return "five-replacements", out
	}
	if html.UnescapeString(out) != s && !strings.Contains(s, "&") {
		// (UnescapeString also decodes references already present in s, hence the guard)
		return "decodes-back", out
	}
	if b := string(builtin.HtmlEscape(s)); b != out {
		return "builtin-same", b
	}
	return "", out
}

func runC24(c *hx.Ctx) error {
	res := c.Res
	res.Rule = "all strings over {< > & \" ' a 0xC3} up to length L (L=6 quick, 8 thorough) plus random strings of length ≤ 300 biased to the five bytes; a case is non-trivial when it contains at least one of the five bytes; distinct by input"
	alpha := []byte{'<', '>', '&', '"', '\'', 'a', 0xC3}
	maxLen := c.N(6, 8)
	var inputs []string
	var gen func(prefix []byte, l int)
	gen = func(prefix []byte, l int) {
		inputs = append(inputs, string(prefix))
		if l == maxLen {
			return
		}
		for _, a := range alpha {
			gen(append(prefix, a), l+1)
		}
	}
	gen(nil, 0)
	exhaustive := len(inputs)
	for i := 0; i < c.N(5000, 100000); i++ {
		n := c.R.Intn(300)
		b := make([]byte, n)
		for j := range b {
			switch c.R.Intn(4) {
			case 0:
				b[j] = alpha[c.R.Intn(5)]
			case 1:
				b[j] = byte(c.R.U64())
			default:
				b[j] = byte('a' + c.R.Intn(26))
			}
		}
		inputs = append(inputs, string(b))
	}
	res.Histogram["exhaustive-alphabet-strings"] = exhaustive
	res.Histogram["random-strings"] = len(inputs) - exhaustive

	const batch = 200000
	for lo := 0; lo < len(inputs); lo += batch {
		hi := min(lo+batch, len(inputs))
		lines := make([]string, 0, hi-lo)
		for _, s := range inputs[lo:hi] {
			lines = append(lines, "C24 htmlescape "+proto.Hex([]byte(s)))
		}
		model, err := c.D.Batch(lines)
		if err != nil {
			return err
		}
		for i, s := range inputs[lo:hi] {
			nontrivial := strings.ContainsAny(s, "<>&\"'")
			res.Count(s, nontrivial)
			res.Hist(fmt.Sprintf("len%02d", min(len(s)/4*4, 64)))
			if i%9973 == 0 && nontrivial {
				res.Sample(map[string]string{"input": s, "line": lines[i], "model": model[i]})
			}
			clause, got := c24oracle(s)
			implLine := "ok " + proto.Hex([]byte(got))
			if clause == "panics" {
				implLine = "err panic"
			}
			if clause != "" {
				min := hx.ShrinkBytes([]byte(s), func(b []byte) bool { cl, _ := c24oracle(string(b)); return cl == clause })
				_, g := c24oracle(string(min))
				res.AddBreak(proto.Break{Kind: "property", Name: clause, Case: "C24 htmlescape " + proto.Hex(min),
					Human: fmt.Sprintf("HTMLEscape(%q)", min), Impl: g, Model: c24ref.Replace(string(min))})
			}
			if implLine != model[i] && clause != "builtin-same" {
				res.AddBreak(proto.Break{Kind: "correspondence", Name: "htmlEscape-model-vs-scriggo.HTMLEscape", Case: lines[i],
					Human: fmt.Sprintf("HTMLEscape(%q)", s), Impl: implLine, Model: model[i]})
			}
		}
	}
	return nil
}
